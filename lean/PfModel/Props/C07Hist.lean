import PfModel.Lemmas.StorageHist
import PfModel.Props.C07Ext
import PfModel.Props.C07Keys
/-!
C07, proof round 2 — "written elements read back equal, unwritten elements are masked" at USER level: for a whole
history and for the BACK ENDS.  Until now the two clauses were laws of the reference array for ONE dump
(`C07_read_your_writes`, `C07_read_your_writes_by_key`) or carried the target lists of every dump as a hypothesis
(`C07_unwritten_masked`); a reader had to chain them with the refinement theorems himself.  Here: after ANY operation
sequence on a fresh `DictArray` / `SharedMemoryDictArray` / `FileArray`, every read (integer key, `has_index`,
`get_from_index`, `mask_linear`) is determined by `lastWrite`: the value of the last accepted dump whose key names the
element (`Hits`), masked iff there is none.  Property theorems only; definitions in `Lemmas/StorageHist.lean`.
-/
namespace PF.C07
open PF PF.St
variable {V : Type}

/-- `writes g key E` (the dump is accepted and `E` is among its targets) is exactly: the key is well ranked and in range
    on the external axes, has no step-0 slice, and names `E` axis by axis -/
theorem C07_writes_iff_hits (g : Geom) (hg : g.WF) (key : List KE) (E : List Nat) :
    writes g key E = true ↔ KeyOK g.shape key ∧ hasStep0 key = false ∧ Hits g.shape key E := by
  obtain ⟨h1, h2, h3⟩ := C07_dump_targets_characterised g hg key
  unfold writes
  by_cases hk : KeyOK g.shape key
  · cases h0 : hasStep0 key with
    | true => rw [h2 hk h0]; simp
    | false =>
      obtain ⟨ts, hts, hm⟩ := h3 hk h0
      rw [hts]
      simp only [decide_eq_true_eq, hm E]
      exact ⟨fun h => ⟨hk, by simp, h⟩, fun h => h.2.2⟩
  · rw [h1 hk]
    constructor
    · intro h; cases h
    · intro h; exact absurd h.1 hk

/-- `lastWrite` is what its name says: it is `some v` iff the history splits as `pre ++ op :: post` where `op` is a dump
    of `v` that writes `E` and nothing in `post` writes `E`; it is `none` iff no operation writes `E` -/
theorem C07_last_write_spec (g : Geom) (E : List Nat) (ops : List (Op V)) :
    (∀ v, lastWrite g E ops = some v ↔
      ∃ pre key post, ops = pre ++ Op.dump key v :: post ∧ writes g key E = true ∧
        ∀ key' v', Op.dump key' v' ∈ post → writes g key' E = false) ∧
    (lastWrite g E ops = none ↔ ∀ key v, Op.dump key v ∈ ops → writes g key E = false) := by
  have hop : ∀ (op : Op V), opWrite g E op = none ↔ ∀ key v, op = Op.dump key v → writes g key E = false := by
    intro op
    cases op with
    | dump key v =>
      simp only [opWrite]
      constructor
      · intro h key' v' e
        injection e with e1 e2; subst e1
        cases hw : writes g key E with
        | true => rw [hw] at h; simp at h
        | false => rfl
      · intro h; rw [h key v rfl]; rfl
    | get key => exact ⟨fun _ _ _ e => (by cases e), fun _ => rfl⟩
    | toArray s => exact ⟨fun _ _ _ e => (by cases e), fun _ => rfl⟩
    | mask => exact ⟨fun _ _ _ e => (by cases e), fun _ => rfl⟩
    | maskLinear => exact ⟨fun _ _ _ e => (by cases e), fun _ => rfl⟩
    | has i => exact ⟨fun _ _ _ e => (by cases e), fun _ => rfl⟩
    | «at» i => exact ⟨fun _ _ _ e => (by cases e), fun _ => rfl⟩
    | persistReopen => exact ⟨fun _ _ _ e => (by cases e), fun _ => rfl⟩
  have hall : ∀ (l : List (Op V)), (∀ op ∈ l, opWrite g E op = none) ↔
      ∀ key v, Op.dump key v ∈ l → writes g key E = false := by
    intro l
    constructor
    · intro h key v hm; exact (hop _).1 (h _ hm) key v rfl
    · intro h op hm; exact (hop op).2 (fun key v e => h key v (e ▸ hm))
  constructor
  · intro v
    rw [lastWrite_some]
    constructor
    · rintro ⟨pre, op, post, e, h1, h2⟩
      cases op with
      | dump key w =>
        simp only [opWrite] at h1
        cases hw : writes g key E with
        | false => rw [hw] at h1; simp at h1
        | true =>
          rw [hw] at h1; simp only [if_true] at h1
          injection h1 with h1; subst h1
          exact ⟨pre, key, post, e, hw, (hall post).1 h2⟩
      | get key => cases h1
      | toArray s => cases h1
      | mask => cases h1
      | maskLinear => cases h1
      | has i => cases h1
      | «at» i => cases h1
      | persistReopen => cases h1
    · rintro ⟨pre, key, post, e, h1, h2⟩
      exact ⟨pre, .dump key v, post, e, by simp only [opWrite, h1, if_true], (hall post).2 h2⟩
  · rw [lastWrite_none]; exact hall ops

/-- the content of the reference array after a whole history: element `E` holds the value of the last accepted dump that
    names it, and is absent iff there is none (from a fresh array; from any array `a`, `a E` shows through) -/
theorem C07_final_content_is_last_dump (g : Geom) (ops : List (Op V)) (E : List Nat) :
    (runOps (aStep g) (aEmpty : MArr V) ops).1 E = lastWrite g E ops ∧
    ∀ a : MArr V, (runOps (aStep g) a ops).1 E = (match lastWrite g E ops with | some v => some v | none => a E) := by
  refine ⟨?_, fun a => runOps_state g E ops a⟩
  rw [runOps_state]
  cases lastWrite g E ops <;> rfl

/-- USER LEVEL: run ANY operation sequence `ops` on a fresh `DictArray` / `SharedMemoryDictArray` (`dStep`) and on a fresh
    `FileArray` (`fStep`); then in BOTH back ends
    * the integer key of every in-range full index `F` reads: `masked` iff no accepted dump of the history names the
      external part of `F`; otherwise the value `v` of the LAST such dump — the element itself without internal index,
      else `v` at the row-major internal position ("written elements read back equal, unwritten elements are masked");
    * `has_index` / `get_from_index` of the row-major linear index of an in-range external key `E` answer
      `lastWrite … E` present / that value (`Missing` when never written);
    * `mask_linear` lists, for `i = 0 … size-1`, whether element `unravel_index(i, shape)` was never written. -/
theorem C07_history_reads (g : Geom) (hg : g.WF) (ops : List (Op V)) :
    let d := (runOps (dStep g) ([] : Dict V) ops).1
    let f := (runOps (fStep g) ([] : Files V) ops).1
    (∀ F, InRange g.full F →
      (dStep g d (.get (intKey F))).2 = .scalar (match lastWrite g (extOf g.mask F) ops with
        | none => .masked
        | some v => if intOf g.mask F = [] then .whole v else cellAt v (ravel g.internal (intOf g.mask F))) ∧
      (fStep g f (.get (intKey F))).2 = (dStep g d (.get (intKey F))).2) ∧
    (∀ E, InRange g.shape E →
      (dStep g d (.has (ravel g.shape E))).2 = .bool (lastWrite g E ops).isSome ∧
      (fStep g f (.has (ravel g.shape E))).2 = .bool (lastWrite g E ops).isSome ∧
      (dStep g d (.at (ravel g.shape E))).2
        = (match lastWrite g E ops with | none => .err .missing | some v => .scalar (.whole v)) ∧
      (fStep g f (.at (ravel g.shape E))).2 = (dStep g d (.at (ravel g.shape E))).2) ∧
    (dStep g d .maskLinear).2 = .blist ((List.range g.size).map (fun i => (lastWrite g (shapeToKey g.shape i) ops).isNone)) ∧
    (fStep g f .maskLinear).2 = (dStep g d .maskLinear).2 := by
  intro d f
  obtain ⟨_, _, _, hD, hF⟩ := C07_refines_all_indices g hg ops
  have ha : (runOps (aStep g) (aEmpty : MArr V) ops).1 = fun E => lastWrite g E ops :=
    funext (fun E => (C07_final_content_is_last_dump g ops E).1)
  rw [ha] at hD hF
  have hd : ∀ op, (dStep g d op).2 = (aStep g (fun E => lastWrite g E ops) op).2 :=
    fun op => ((C07_step_refines_all_indices g hg _ op).1 d hD).1
  have hf : ∀ op, (fStep g f op).2 = (aStep g (fun E => lastWrite g E ops) op).2 :=
    fun op => ((C07_step_refines_all_indices g hg _ op).2 f hF).1
  refine ⟨?_, ?_, ?_, ?_⟩
  · intro F hF'
    rw [hf, hd]
    refine ⟨?_, rfl⟩
    simp only [aStep]
    rw [getItemWith_ints g hg _ F hF']
    simp only [cellOf]
    cases lastWrite g (extOf g.mask F) ops <;> rfl
  · intro E hE
    obtain ⟨h1, h2⟩ := (C07_linear_row_major g (fun E => lastWrite g E ops)).2.2 E hE
    rw [hf, hf, hd, hd]
    exact ⟨h1, h1, h2, rfl⟩
  · rw [hd]
    simp only [aStep]
    rw [(C07_linear_row_major g (fun E => lastWrite g E ops)).1]
  · rw [hf, hd]

/-! ### non-vacuity -/

example : g23.WF := by decide
example : lastWrite g23 [2] hOps = some [7, 8] ∧ lastWrite g23 [0] hOps = some [1, 2] ∧ lastWrite g23 [1] hOps = none := by decide
example : writes g23 [.slice none none (some (-2))] [2] = true ∧ writes g23 [.int 3] [2] = false ∧
    writes g23 [.slice none none (some 0)] [2] = false ∧ writes g23 [.slice none none (some (-2))] [1] = false := by decide
example : InRange g23.full [1, 2] ∧ extOf g23.mask [1, 2] = [2] ∧ intOf g23.mask [1, 2] = [1] ∧ InRange g23.shape [2] ∧
    ravel g23.shape [2] = 2 := by decide
example : (dStep g23 (runOps (dStep g23) ([] : Dict Nat) hOps).1 (.get (intKey [1, 2]))).2 = .scalar (.atom 8) ∧
    (fStep g23 (runOps (fStep g23) ([] : Files Nat) hOps).1 (.get (intKey [1, 0]))).2 = .scalar (.atom 2) ∧
    (fStep g23 (runOps (fStep g23) ([] : Files Nat) hOps).1 (.get (intKey [1, 1]))).2 = .scalar .masked ∧
    (dStep g23 (runOps (dStep g23) ([] : Dict Nat) hOps).1 .maskLinear).2 = .blist [false, true, false] := by decide
example : hOps = [] ++ Op.dump [.slice none none (some (-2))] [1, 2] :: hOps.tail := rfl

end PF.C07
