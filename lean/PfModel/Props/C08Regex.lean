import PfModel.Lemmas.MapSpecRegex
/-!
C08, the scanner ↔ regex tie made formal.  `Model/MapSpecRegex.lean` holds a regular-expression engine with Python's
backtracking semantics (`Re.m`, leftmost match, greedy / lazy repetition in priority order, capturing groups;
`reFindAll` = `re.findall`) and `arrayRe`, the tree `re._parser.parse` builds for the literal of `_parse_indexed_arrays`
(`Props/C08Src.lean` re-checks on every run that it is the tree of the literal in the source).  The theorems below say
that the hand-written scanner of `Model/MapSpecParse.lean` (`matchName`, `matchIdx`, `findAll`), which `parse` and
therefore `C08_roundtrip` / `C08_parse_accepts_only_valid` are about, *is* that engine on that pattern — for every
list of characters (no ASCII restriction, newlines included; `\w` is whatever `isWord` says).
-/
namespace PF.C08
open PF.MS

/-- one match attempt (`pattern.match` at a position): the engine on `arrayRe` succeeds exactly when the scanner's
    `matchName` then `matchIdx` succeed, with group 1 = the name, group 2 = the index text, and the same rest -/
theorem C08_regex_step (s : List Char) :
    matchAt arrayRe s =
      match matchName s with
      | none => none
      | some (name, r) =>
        match matchIdx r with
        | none => none
        | some (idx, r') => some ([(2, idx), (1, name)], r') :=
  matchAt_arrayRe s

/-- `re.findall(array_pattern, expr)` mapped to `ArraySpec`s is the scanner `findAll`, for every text and every fuel -/
theorem C08_regex_findall (fuel : Nat) (xs : List Char) :
    findAll fuel xs = (reFindAll arrayRe fuel xs).map toSpec :=
  findAll_eq_reFindAll fuel xs

/-- a match of `arrayRe` is never empty (it spans at least `x[y]`), so the two places where the engine simplifies
    sre's treatment of empty matches / empty iterations are never reached on this pattern -/
theorem C08_regex_match_consumes (s s' : List Char) (c : Caps) (h : matchAt arrayRe s = some (c, s')) :
    s'.length + 4 ≤ s.length := by
  rw [matchAt_arrayRe] at h
  cases h1 : matchName s with
  | none => rw [h1] at h; exact absurd h (by simp)
  | some p =>
    obtain ⟨name, r⟩ := p
    rw [h1] at h
    simp only [] at h
    cases h2 : matchIdx r with
    | none => rw [h2] at h; exact absurd h (by simp)
    | some q =>
      obtain ⟨idx, r'⟩ := q
      rw [h2] at h
      injection h with h; injection h with _ h; subst h
      obtain ⟨_, e1⟩ := nameRe_some (fun s c => idxRe.m s c kfin) idxRe_headLBr s name r [] h1
      have e2 := matchIdx_split r idx r' h2
      have n1 : 0 < name.length := by
        cases name with
        | nil =>
          -- an empty name is impossible: `matchName` never returns one
          exfalso
          unfold matchName at h1
          split at h1
          · exact absurd h1 (by simp)
          · next _ w1 _ hne _ => injection h1 with h1; injection h1 with h1 _; exact hne h1
          · split at h1
            · exact absurd h1 (by simp)
            · next _ w1 _ hne _ _ w2 _ _ _ =>
              injection h1 with h1; injection h1 with h1 _
              cases w1 <;> simp at h1
            · exact absurd h1 (by simp)
          · exact absurd h1 (by simp)
        | cons a b => simp
      have n2 : 0 < idx.length := by
        cases idx with
        | nil =>
          exfalso
          cases r with
          | nil => simp [matchIdx] at h2
          | cons x cs =>
            simp only [matchIdx] at h2
            split at h2
            · exact absurd h2 (by simp)
            · obtain ⟨u, _, e⟩ := scanIdx_split cs _ _ _ h2
              simp at e
        | cons a b => simp
      rw [e1, e2]
      simp
      omega

/-- the number of loop iterations `findall` needs is bounded by the length of the text: any sufficient fuel gives the
    same list (so `reFindAll arrayRe (xs.length + 1) xs` *is* `re.findall`) -/
theorem C08_regex_findall_fuel (f g : Nat) (xs : List Char) (hf : xs.length < f) (hg : xs.length < g) :
    reFindAll arrayRe f xs = reFindAll arrayRe g xs :=
  reFindAll_fuel f g xs hf hg

/-- `_parse_indexed_arrays` with `re.findall` run by the regex engine is the modelled `parseSide` -/
theorem C08_parseSide_is_regex (xs : List Char) : parseSide xs = parseSideRe xs := parseSide_eq_re xs

/-- `MapSpec.from_string` with the regex engine is the modelled `parse`: `C08_roundtrip`, `C08_parse_accepts_only_valid`
    are theorems about the regular expression in the source -/
theorem C08_parse_is_regex (s : String) : parse s = parseRe s := by
  unfold parse parseChars parseRe
  simp only [parseSide_eq_re]
  rfl

/-- non-vacuity / sanity: one match attempt of the engine on `ab[i]x` -/
example : matchAt arrayRe ['a', 'b', '[', 'i', ']', 'x'] = some ([(2, ['i']), (1, ['a', 'b'])], ['x']) := by decide

/-- `C08_regex_match_consumes` is not vacuous -/
example : ∃ c s', matchAt arrayRe ['a', '[', 'i', ']'] = some (c, s') := ⟨[(2, ['i']), (1, ['a'])], [], by decide⟩

/-- `C08_regex_findall_fuel` is not vacuous -/
example : reFindAll arrayRe 5 ['a', '[', 'i', ']'] = reFindAll arrayRe 9 ['a', '[', 'i', ']'] :=
  C08_regex_findall_fuel 5 9 _ (by decide) (by decide)

end PF.C08
