/-
`sorted(obj)` over the tuple keys of a COMPLETE persisted dict enumerates the values by linear index.

`lexLt` (Python `tuple.__lt__`) agrees with `<` on the row-major linear index `ravel shape ·` for in-range keys of one
shape (`lexLt_iff_ravel_lt`), so the insertion sort `kSort` sorts by `ravel`; a strictly increasing list of naturals
with the members of `List.range n` IS `List.range n`; hence the sorted keys are `shapeToKey shape 0 … (n-1)` and the
sorted values are `get_from_index 0 … (n-1)` (`sortedValues_complete`).
-/
import PfModel.Model.ResumeKey
import PfModel.Core.Enum
namespace PF.ResumeKey
open PF PF.Map

/-! ### `lexLt` is `<` on the linear index -/

theorem lexLt_iff_ravel_lt (s : List Nat) : ∀ (a b : List Nat), InRange s a → InRange s b →
    (lexLt a b = true ↔ ravel s a < ravel s b) := by
  induction s with
  | nil =>
    intro a b ha hb
    cases a <;> cases b <;> simp_all [InRange, lexLt, ravel]
  | cons d ds ih =>
    intro a b ha hb
    cases a with
    | nil => simp [InRange] at ha
    | cons x xs =>
      cases b with
      | nil => simp [InRange] at hb
      | cons y ys =>
        have ih' := ih xs ys ha.2 hb.2
        have hx := ravel_lt ds xs ha.2
        have hy := ravel_lt ds ys hb.2
        simp only [lexLt, ravel, Bool.or_eq_true, Bool.and_eq_true, decide_eq_true_eq, beq_iff_eq, ih']
        constructor
        · rintro (h | ⟨h, h'⟩)
          · have : (x + 1) * prod ds ≤ y * prod ds := Nat.mul_le_mul_right _ h
            rw [Nat.add_mul] at this; omega
          · subst h; omega
        · intro h
          rcases Nat.lt_trichotomy x y with h1 | h1 | h1
          · exact Or.inl h1
          · subst h1; exact Or.inr ⟨rfl, by omega⟩
          · exfalso
            have : (y + 1) * prod ds ≤ x * prod ds := Nat.mul_le_mul_right _ h1
            rw [Nat.add_mul] at this; omega

/-- `lexLt` is irreflexive, transitive and total on the in-range keys of one shape -/
theorem lexLt_irrefl (s a : List Nat) (ha : InRange s a) : lexLt a a = false := by
  cases h : lexLt a a with
  | false => rfl
  | true => have := (lexLt_iff_ravel_lt s a a ha ha).mp h; omega

theorem lexLt_trans (s a b c : List Nat) (ha : InRange s a) (hb : InRange s b) (hc : InRange s c)
    (h1 : lexLt a b = true) (h2 : lexLt b c = true) : lexLt a c = true := by
  have e1 := (lexLt_iff_ravel_lt s a b ha hb).mp h1
  have e2 := (lexLt_iff_ravel_lt s b c hb hc).mp h2
  exact (lexLt_iff_ravel_lt s a c ha hc).mpr (by omega)

theorem lexLt_total (s a b : List Nat) (ha : InRange s a) (hb : InRange s b) :
    lexLt a b = true ∨ a = b ∨ lexLt b a = true := by
  rcases Nat.lt_trichotomy (ravel s a) (ravel s b) with h | h | h
  · exact Or.inl ((lexLt_iff_ravel_lt s a b ha hb).mpr h)
  · exact Or.inr (Or.inl (ravel_inj s a b ha hb h))
  · exact Or.inr (Or.inr ((lexLt_iff_ravel_lt s b a hb ha).mpr h))

/-! ### `kSort` is a permutation -/

theorem kInsert_perm (p : List Nat × Val) : ∀ (l : KDict), (kInsert p l).Perm (p :: l)
  | [] => by simp [kInsert]
  | q :: r => by
      simp only [kInsert]
      split
      · exact List.Perm.refl _
      · exact ((kInsert_perm p r).cons q).trans (List.Perm.swap p q r)

theorem kSort_perm : ∀ (d : KDict), (kSort d).Perm d
  | [] => by simp [kSort]
  | p :: r => by
      simp only [kSort]
      exact (kInsert_perm p (kSort r)).trans ((kSort_perm r).cons p)

theorem mem_kSort (d : KDict) (x : List Nat × Val) : x ∈ kSort d ↔ x ∈ d :=
  (kSort_perm d).mem_iff

/-! ### `kSort` is strictly sorted by the linear index -/

theorem kInsert_sorted (s : List Nat) (p : List Nat × Val) (hp : InRange s p.1) :
    ∀ (l : KDict), (∀ q ∈ l, InRange s q.1) → (∀ q ∈ l, q.1 ≠ p.1) →
      l.Pairwise (fun a b => ravel s a.1 < ravel s b.1) →
      (kInsert p l).Pairwise (fun a b => ravel s a.1 < ravel s b.1)
  | [], _, _, _ => by simp [kInsert]
  | q :: r, hr, hne, hs => by
      have hq : InRange s q.1 := hr q List.mem_cons_self
      have hs' := List.pairwise_cons.mp hs
      simp only [kInsert]
      split
      · next h =>
        have hlt := (lexLt_iff_ravel_lt s p.1 q.1 hp hq).mp h
        refine List.pairwise_cons.mpr ⟨?_, hs⟩
        intro x hx
        rcases List.mem_cons.mp hx with e | e
        · subst e; exact hlt
        · have := hs'.1 x e; omega
      · next h =>
        have hnlt : ¬ ravel s p.1 < ravel s q.1 := fun c => h ((lexLt_iff_ravel_lt s p.1 q.1 hp hq).mpr c)
        have hneq : ravel s q.1 ≠ ravel s p.1 := fun c =>
          hne q List.mem_cons_self (ravel_inj s q.1 p.1 hq hp c)
        have ih := kInsert_sorted s p hp r (fun x hx => hr x (List.mem_cons_of_mem _ hx))
          (fun x hx => hne x (List.mem_cons_of_mem _ hx)) hs'.2
        refine List.pairwise_cons.mpr ⟨?_, ih⟩
        intro x hx
        rcases List.mem_cons.mp ((kInsert_perm p r).mem_iff.mp hx) with e | e
        · subst e; omega
        · exact hs'.1 x e

theorem kSort_sorted (s : List Nat) : ∀ (d : KDict), (d.map Prod.fst).Nodup → (∀ p ∈ d, InRange s p.1) →
    (kSort d).Pairwise (fun a b => ravel s a.1 < ravel s b.1)
  | [], _, _ => by simp [kSort]
  | p :: r, hu, hr => by
      simp only [List.map_cons, List.nodup_cons] at hu
      simp only [kSort]
      apply kInsert_sorted s p (hr p List.mem_cons_self)
      · intro q hq; exact hr q (List.mem_cons_of_mem _ ((mem_kSort r q).mp hq))
      · intro q hq e
        exact hu.1 (e ▸ List.mem_map_of_mem ((mem_kSort r q).mp hq))
      · exact kSort_sorted s r hu.2 (fun q hq => hr q (List.mem_cons_of_mem _ hq))

/-- the same statement in terms of `lexLt` on the keys -/
theorem kSort_sorted_lex (s : List Nat) (d : KDict) (hu : (d.map Prod.fst).Nodup) (hr : ∀ p ∈ d, InRange s p.1) :
    (kSort d).Pairwise (fun a b => lexLt a.1 b.1 = true) := by
  have h := kSort_sorted s d hu hr
  have hm : ∀ x ∈ kSort d, InRange s x.1 := fun x hx => hr x ((mem_kSort d x).mp hx)
  generalize kSort d = l at h hm
  induction l with
  | nil => exact List.Pairwise.nil
  | cons a l ih =>
    have h' := List.pairwise_cons.mp h
    refine List.pairwise_cons.mpr ⟨?_, ih h'.2 (fun x hx => hm x (List.mem_cons_of_mem _ hx))⟩
    intro b hb
    exact (lexLt_iff_ravel_lt s a.1 b.1 (hm a List.mem_cons_self) (hm b (List.mem_cons_of_mem _ hb))).mpr (h'.1 b hb)

/-! ### a strictly increasing list is determined by its members -/

theorem sorted_ext : ∀ (l₁ l₂ : List Nat), l₁.Pairwise (· < ·) → l₂.Pairwise (· < ·) →
    (∀ x, x ∈ l₁ ↔ x ∈ l₂) → l₁ = l₂
  | [], [], _, _, _ => rfl
  | [], b :: _, _, _, h => by have := (h b).mpr List.mem_cons_self; simp at this
  | a :: _, [], _, _, h => by have := (h a).mp List.mem_cons_self; simp at this
  | a :: l₁, b :: l₂, h1, h2, h => by
      have h1' := List.pairwise_cons.mp h1
      have h2' := List.pairwise_cons.mp h2
      have hab : a = b := by
        have ha := (h a).mp List.mem_cons_self
        have hb := (h b).mpr List.mem_cons_self
        rcases List.mem_cons.mp ha with e | e
        · exact e
        · rcases List.mem_cons.mp hb with e' | e'
          · exact e'.symm
          · have := h1'.1 b e'; have := h2'.1 a e; omega
      subst hab
      congr 1
      apply sorted_ext l₁ l₂ h1'.2 h2'.2
      intro x
      constructor
      · intro hx
        have hlt := h1'.1 x hx
        rcases List.mem_cons.mp ((h x).mp (List.mem_cons_of_mem _ hx)) with e | e
        · omega
        · exact e
      · intro hx
        have hlt := h2'.1 x hx
        rcases List.mem_cons.mp ((h x).mpr (List.mem_cons_of_mem _ hx)) with e | e
        · omega
        · exact e

/-! ### lookups -/

theorem kLookup_of_mem : ∀ (d : KDict) (k : List Nat) (v : Val), (d.map Prod.fst).Nodup → (k, v) ∈ d →
    kLookup d k = some v
  | [], _, _, _, h => by simp at h
  | (k', v') :: r, k, v, hu, h => by
      simp only [List.map_cons, List.nodup_cons] at hu
      simp only [kLookup]
      rcases List.mem_cons.mp h with e | e
      · injection e with e1 e2; subst e1; subst e2; simp
      · have hne : k' ≠ k := fun c => hu.1 (c ▸ List.mem_map_of_mem (f := Prod.fst) e)
        rw [if_neg hne]
        exact kLookup_of_mem r k v hu.2 e

theorem mem_of_kLookup_isSome : ∀ (d : KDict) (k : List Nat), (kLookup d k).isSome = true → k ∈ d.map Prod.fst
  | [], _, h => by simp [kLookup] at h
  | (k', v') :: r, k, h => by
      simp only [kLookup] at h
      split at h
      · next e => simp [e]
      · simp only [List.map_cons, List.mem_cons]; exact Or.inr (mem_of_kLookup_isSome r k h)

/-! ### the theorem -/

/-- the linear indices of the sorted keys of a complete dict are `0 … n-1` -/
theorem kSort_ravel_complete (shape : List Nat) (d : KDict)
    (hu : (d.map Prod.fst).Nodup) (hr : ∀ p ∈ d, InRange shape p.1)
    (hc : ∀ li, li < prod shape → kHasIndex shape d li = true) :
    (kSort d).map (fun p => ravel shape p.1) = List.range (prod shape) := by
  apply sorted_ext
  · exact List.pairwise_map.mpr (kSort_sorted shape d hu hr)
  · exact List.pairwise_lt_range
  · intro x
    simp only [List.mem_map, List.mem_range]
    constructor
    · rintro ⟨p, hp, e⟩
      rw [← e]; exact ravel_lt shape p.1 (hr p ((mem_kSort d p).mp hp))
    · intro hx
      have hk := mem_of_kLookup_isSome d (shapeToKey shape x) (hc x hx)
      obtain ⟨p, hp, e⟩ := List.mem_map.mp hk
      exact ⟨p, (mem_kSort d p).mpr hp, by rw [e]; exact (ravel_key shape x hx).1⟩

/-- the sorted keys of a complete dict are the keys of the linear indices `0 … n-1`, i.e. `iterate_shape_indices` -/
theorem kSort_keys_complete (shape : List Nat) (d : KDict)
    (hu : (d.map Prod.fst).Nodup) (hr : ∀ p ∈ d, InRange shape p.1)
    (hc : ∀ li, li < prod shape → kHasIndex shape d li = true) :
    (kSort d).map Prod.fst = (List.range (prod shape)).map (shapeToKey shape) := by
  rw [← kSort_ravel_complete shape d hu hr hc, List.map_map]
  apply List.map_congr_left
  intro p hp
  exact (key_ravel shape p.1 (hr p ((mem_kSort d p).mp hp))).symm

theorem kSort_keys_allIdx (shape : List Nat) (d : KDict)
    (hu : (d.map Prod.fst).Nodup) (hr : ∀ p ∈ d, InRange shape p.1)
    (hc : ∀ li, li < prod shape → kHasIndex shape d li = true) :
    (kSort d).map Prod.fst = allIdx shape := by
  rw [kSort_keys_complete shape d hu hr hc, map_key_range]

theorem sortedValues_complete (shape : List Nat) (d : KDict)
    (hu : (d.map Prod.fst).Nodup) (hr : ∀ p ∈ d, InRange shape p.1)
    (hc : ∀ li, li < prod shape → kHasIndex shape d li = true) :
    (sortedValues d).map some = (List.range (prod shape)).map (kGetFromIndex shape d) := by
  have hk := kSort_keys_complete shape d hu hr hc
  have hv : (sortedValues d).map some = ((kSort d).map Prod.fst).map (kLookup d) := by
    simp only [sortedValues, List.map_map]
    apply List.map_congr_left
    intro p hp
    simp only [Function.comp]
    exact (kLookup_of_mem d p.1 p.2 hu ((mem_kSort d p).mp hp)).symm
  rw [hv, hk, List.map_map]
  rfl

/-- non-vacuity: a complete dict of shape `[2, 3]` inserted in a non-sorted order -/
def exDict : KDict :=
  [([1, 2], Val.int 5), ([0, 1], Val.int 1), ([1, 0], Val.int 3), ([0, 0], Val.int 0), ([0, 2], Val.int 2),
   ([1, 1], Val.int 4)]

example : (sortedValues exDict).map some = (List.range (prod [2, 3])).map (kGetFromIndex [2, 3] exDict) := by
  apply sortedValues_complete
  · decide
  · simp [exDict, InRange]
  · intro li hli
    have : li < 6 := by simpa [prod] using hli
    have : li = 0 ∨ li = 1 ∨ li = 2 ∨ li = 3 ∨ li = 4 ∨ li = 5 := by omega
    rcases this with e | e | e | e | e | e <;> subst e <;> decide

end PF.ResumeKey

