import PfModel.Generated.C12Facts
import PfModel.Model.Validate
import PfModel.Model.ValidateEdit
/-!
C12, the tie to the source: the call order of `prepare_run` / `RunInfo.create`, re-extracted from /repo with `ast` on every run
(`harness/c12_extract.py` → `Generated/C12Facts.lean`).  These two `decide` proofs are the only C12 obligations that can stop
checking when the source is restructured; they live in their own module so that the hand-written theorems of `Props/C12.lean`
stay audited when that happens.  (`cls(...)` no longer writes since the DF-33 repair; `run_info._dump_all()` is the write.)
-/
namespace PF.C12
open PF PF.Validate

/-- every call is classified, every required validation (complete inputs, consistent axes, fixed indices, storage names,
    previous run, `_check_inputs`, `map_shapes`) comes before the first effect (`run_info._dump_all()`, `init_store`, `init_tracker`),
    and nothing validates after it -/
theorem C12_order : validationsPrecedeEffects Generated.prepareRunCalls = true := by decide

/-- the order in which the model's `startSteps` performs its steps is the order of the corresponding calls in the source -/
theorem C12_order_model : isSubseq modelSourceOrder Generated.prepareRunCalls = true := by decide

/-! #### round 2: the head of `run_map` and the constructors -/

/-- `run_map`: `prepare_run` (everything `startMap` models) is the first call that is not plumbing, and the generations are only
    run (`_run_and_process_generation`) after it: no user function before the validation -/
theorem C12_order_run_map : prepareGuardsRun Generated.runMapCalls = true := by decide

/-- the same for `run_map_async` (the coroutine that runs the generations is defined and started after `prepare_run`) -/
theorem C12_order_run_map_async : prepareGuardsRun Generated.runMapAsyncCalls = true := by decide

/-- `Pipeline.__init__` adds every function through `add` -/
theorem C12_ctor_pipeline_init : ctorValidates pipelineInitRequired Generated.pipelineInitCalls = true := by decide

/-- `Pipeline.add` calls `validate_unique_output_names`, appends, then validates the pipeline — in this order (the order of
    `PF.Validate.addAll`: `clashes`, then `pipelineValidate (acc ++ [f])`) -/
theorem C12_ctor_pipeline_add :
    (ctorValidates pipelineAddRequired Generated.pipelineAddCalls && isSubseq pipelineAddRequired Generated.pipelineAddCalls) = true := by
  decide

/-- `Pipeline._validate` makes the calls `PF.Validate.pipelineValidate` models, in the model's order (defaults, then MapSpecs) -/
theorem C12_ctor_pipeline_validate :
    (ctorValidates pipelineValidateRequired Generated.pipelineValidateCalls &&
     isSubseq ["validate_consistent_defaults", "self._validate_mapspec"] Generated.pipelineValidateCalls) = true := by decide

/-- `Pipeline._validate_mapspec`: output-name order (`raise`), `validate_consistent_axes`, then `_autogen_mapspec_axes` (which
    computes `topological_generations`: the cycle check) — the order of `pipelineValidate`'s last three tests -/
theorem C12_ctor_pipeline_validate_mapspec :
    (ctorValidates pipelineValidateMapspecRequired Generated.pipelineValidateMapspecCalls &&
     isSubseq pipelineValidateMapspecRequired Generated.pipelineValidateMapspecCalls) = true := by decide

/-- `PipeFunc.__init__` parses the MapSpec (`MapSpec.__post_init__`) and calls `_validate` -/
theorem C12_ctor_pipefunc_init : ctorValidates pipeFuncInitRequired Generated.pipeFuncInitCalls = true := by decide

/-- `PipeFunc._validate` = `_validate_names`, then `_validate_mapspec` (the order of `PF.Validate.pipeFuncValidate`) -/
theorem C12_ctor_pipefunc_validate :
    (ctorValidates pipeFuncValidateRequired Generated.pipeFuncValidateCalls &&
     isSubseq pipeFuncValidateRequired Generated.pipeFuncValidateCalls) = true := by decide

/-! #### round 3: what is re-validated lazily after an in-place edit; the update methods; the executor dictionary -/

/-- the cached property `Pipeline.graph` re-validates the output names and the shared defaults before it builds the graph
    (`lazySteps`, first two checks) — the tie that the removal of either call breaks -/
theorem C12_lazy_graph :
    (requiredBefore ["validate_unique_output_names_of", "validate_consistent_defaults"] "nx.DiGraph" Generated.pipelineGraphCalls &&
     isSubseq ["validate_unique_output_names_of", "validate_consistent_defaults", "nx.DiGraph"] Generated.pipelineGraphCalls) = true := by decide

/-- `Pipeline.topological_generations` reads `graph` and calls `nx.topological_generations` (the cycle check, third lazy check) -/
theorem C12_lazy_topological :
    ((Generated.pipelineTopoCalls.contains "self.graph" || Generated.pipelineTopoCalls.contains "self.graph.copy") &&
     Generated.pipelineTopoCalls.contains "nx.topological_generations") = true := by decide

/-- `_validate_complete_inputs` reads `pipeline.topological_generations` before it can raise: the lazy checks precede
    `complete-inputs` in `startSteps2` -/
theorem C12_lazy_complete_inputs :
    (requiredBefore ["pipeline.topological_generations"] "raise" Generated.validateCompleteInputsCalls &&
     Generated.validateCompleteInputsCalls.contains "raise") = true := by decide

/-- `Pipeline.run` computes `func_dependencies` (→ `graph`, generations) before `_run` evaluates anything (`startRun`) -/
theorem C12_lazy_run :
    (requiredBefore ["self.func_dependencies"] "self._run" Generated.pipelineRunCalls && Generated.pipelineRunCalls.contains "self._run") = true := by
  decide

/-- `PipeFunc.update_defaults / update_bound / update_renames`: the keys are validated, the caches cleared (those of the pipelines
    too), the function re-validated — in this order (`memberDefaults` / `memberBound` / `memberRename`) -/
theorem C12_update_member :
    (isSubseq ["self._validate_update", "self._clear_internal_cache", "self._validate"] Generated.pipeFuncUpdateDefaultsCalls &&
     isSubseq ["self._validate_update", "self._clear_internal_cache", "self._validate"] Generated.pipeFuncUpdateBoundCalls &&
     isSubseq ["self._validate_update", "self._clear_internal_cache", "self._validate"] Generated.pipeFuncUpdateRenamesCalls &&
     Generated.pipeFuncClearCacheCalls.contains "pipeline._clear_internal_cache") = true := by decide

/-- `Pipeline.update_defaults / update_renames`: the members are updated, the caches cleared, unused keys refused, then
    `Pipeline._validate` (`pipeFinish`) -/
theorem C12_update_pipeline :
    (isSubseq ["f.update_defaults", "self._clear_internal_cache", "raise", "self._validate"] Generated.pipelineUpdateDefaultsCalls &&
     isSubseq ["f.update_renames", "self._clear_internal_cache", "raise", "self._validate"] Generated.pipelineUpdateRenamesCalls) = true := by
  decide

/-- `prepare_run` validates the executor dictionary after the executor/parallel test and `subpipeline`, before
    `_validate_complete_inputs` and before any effect (the order of `gateSteps`) -/
theorem C12_order_executor_names :
    (isSubseq ["raise", "pipeline.subpipeline", "_validate_executor_names", "_validate_complete_inputs", "run_info._dump_all"]
      Generated.prepareRunCalls && (beforeFirstEffect Generated.prepareRunCalls).contains "_validate_executor_names") = true := by decide

end PF.C12
