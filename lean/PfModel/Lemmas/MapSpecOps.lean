/-
Lemmas for `Props/C08Ops.lean` (round 9): `MapSpec.rename` as a simultaneous substitution (swap, composition,
rejection) and `MapSpec.add_axes` in two steps.
-/
import PfModel.Lemmas.MapSpecKeys
namespace PF.MS

/-- the transposition of two names -/
def swapName (a b n : String) : String := if n = a then b else if n = b then a else n

theorem renameName_swap (a b n : String) : renameName [(a, b), (b, a)] n = swapName a b n := by
  unfold renameName swapName
  simp only [lookup]
  by_cases h1 : a = n
  · subst h1; simp
  · have h1' : ¬ n = a := fun e => h1 e.symm
    by_cases h2 : b = n
    · subst h2; simp [h1, h1']
    · have h2' : ¬ n = b := fun e => h2 e.symm
      simp [h1, h2, h1', h2']

theorem swapName_swapName (a b n : String) : swapName a b (swapName a b n) = n := by
  unfold swapName
  by_cases h1 : n = a
  · subst h1
    by_cases h2 : b = n
    · subst h2; simp
    · simp [h2]
  · by_cases h2 : n = b
    · subst h2; simp [h1]
    · simp [h1, h2]

/-- two renames one after the other, on one array -/
theorem renameSpec_renameSpec (ρ σ : List (String × String)) (a : ArraySpec) :
    renameSpec σ (renameSpec ρ a) = ⟨renameName σ (renameName ρ a.name), a.axes⟩ := rfl

/-- whatever `rename` returns is the array-wise substitution (also on the `return self` branch) and is valid -/
theorem rename_ok_inv (ρ : List (String × String)) (m m' : MapSpec) (hv : Valid m) (h : rename ρ m = .ok m') :
    m' = ⟨m.inputs.map (renameSpec ρ), m.outputs.map (renameSpec ρ)⟩ ∧ Valid m' := by
  unfold rename at h
  cases hc : ((inputNames m ++ outputNames m).any fun n => (keys ρ).contains n) with
  | false =>
    simp only [hc, Bool.not_false, ↓reduceIte] at h
    injection h with h
    subst h
    exact ⟨(rename_unmentioned ρ m hc).symm, hv⟩
  | true =>
    simp only [hc, Bool.not_true, Bool.false_eq_true, ↓reduceIte] at h
    obtain ⟨rfl, hv'⟩ := (construct_ok_iff _ _ _).mp h
    exact ⟨rfl, hv'⟩

theorem freshAxes_step (as bs : List String) (m : MapSpec) (hf : FreshAxes (as ++ bs) m) (hd : ∀ a ∈ as, a ∉ bs) :
    FreshAxes as m ∧ FreshAxes bs ⟨m.inputs.map (extendSpec (as.map some)), m.outputs.map (extendSpec (as.map some))⟩ := by
  refine ⟨⟨fun a ha => hf.ident a (List.mem_append_left _ ha), fun a ha => hf.fresh a (List.mem_append_left _ ha)⟩,
    ⟨fun a ha => hf.ident a (List.mem_append_right _ ha), ?_⟩⟩
  intro b hb x hx hmem
  simp only [← List.map_append, List.mem_map] at hx
  obtain ⟨y, hy, rfl⟩ := hx
  simp only [extendSpec, List.mem_append, List.mem_map] at hmem
  rcases hmem with hmem | ⟨a, ha, e⟩
  · exact hf.fresh b (List.mem_append_right _ hb) y hy hmem
  · injection e with e; subst e; exact hd a ha hb

theorem extendSpec_extendSpec (as bs : List (Option String)) (a : ArraySpec) :
    extendSpec bs (extendSpec as a) = extendSpec (as ++ bs) a := by
  simp [extendSpec]

/-- `a[i], b[i, :] -> o[i]`: the example of the non-vacuity checks of Props/C08Ops.lean -/
def opsEx : MapSpec := ⟨[⟨"a", [some "i"]⟩, ⟨"b", [some "i", none]⟩], [⟨"o", [some "i"]⟩]⟩

end PF.MS
