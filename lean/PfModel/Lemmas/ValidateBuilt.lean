/-
C12, proof round 2 (C12p7): helper definitions and lemmas for `Props/C12Built.lean`.
* `lastProducer`: `Pipeline.output_to_func[o]` as the code builds it (a dict comprehension over the functions in listing order:
  a later function OVERWRITES an earlier one) — the LAST function listing `o`, where the model's `PF.Map.producer` is the FIRST;
* `lastProducer_eq_producer`: with unique output names the two are the same function.
Core Lean only.
-/
import PfModel.Lemmas.ValidateCall
namespace PF.Validate
open PF PF.Map

/-- `output_to_func[o]`: the last function (in listing order) that lists `o` among its outputs -/
def lastProducer (fs : List MFunc) (o : String) : Option MFunc := fs.reverse.find? (fun f => o ∈ f.outputs)

theorem mem_allOutputs_of_mem (fs : List MFunc) (g : MFunc) (hg : g ∈ fs) (o : String) (ho : o ∈ g.outputs) : o ∈ allOutputs fs := by
  unfold allOutputs
  exact List.mem_flatMap.mpr ⟨g, hg, ho⟩

theorem lastProducer_cons (f : MFunc) (rest : List MFunc) (o : String) :
    lastProducer (f :: rest) o = (lastProducer rest o).or (if o ∈ f.outputs then some f else none) := by
  unfold lastProducer
  rw [List.reverse_cons, List.find?_append]
  congr 1
  simp only [List.find?_cons, List.find?_nil]
  by_cases h : o ∈ f.outputs <;> simp [h]

theorem lastProducer_none_of_not_mem (fs : List MFunc) (o : String) (h : o ∉ allOutputs fs) : lastProducer fs o = none := by
  unfold lastProducer
  rw [List.find?_eq_none]
  intro g hg
  have hg' : g ∈ fs := List.mem_reverse.mp hg
  intro ho
  exact h (mem_allOutputs_of_mem fs g hg' o (by simpa using ho))

/-- with unique output names the dictionary `output_to_func` (last writer wins) and the model's `producer` (first match) agree -/
theorem lastProducer_eq_producer (fs : List MFunc) (hu : uniqueOutputs fs = true) (o : String) :
    lastProducer fs o = producer fs o := by
  induction fs with
  | nil => rfl
  | cons f rest ih =>
    simp only [uniqueOutputs, Bool.and_eq_true, Bool.not_eq_true', List.any_eq_false] at hu
    obtain ⟨hf, hrest⟩ := hu
    rw [lastProducer_cons]
    unfold producer
    rw [List.find?_cons]
    by_cases ho : o ∈ f.outputs
    · have hnot : o ∉ allOutputs rest := by
        intro hin
        have := hf o ho
        simp [hin] at this
      rw [lastProducer_none_of_not_mem rest o hnot]
      simp [ho]
    · have := ih hrest
      unfold producer at this
      simp [ho, this]

end PF.Validate
