import PfModel.DriverVal
import PfModel.Model.PipelineEntries
/-! Driver for C02: `run`, `argcombos`, and the other entry points `func`, `callroot`, `callleaf`, `getitem`, `pfcall`. -/
open Lean PF PF.Drv PF.Pipe

/-- `{"name": "f", "params": [["p", "orig"], …], "outputs": ["a", "b"], "defaults": [["p", v]], "bound": [["p", v]]}` -/
def getFunc (j : Json) : R Func := do
  return { name := ← strF j "name", params := ← listF (asPair asStr asStr) j "params", outputs := ← listF asStr j "outputs",
           defaults := (← optF getKw j "defaults").getD [], bound := (← optF getKw j "bound").getD [] }

def putErr : Err → Json
  | .fuel => jObj [("err", jStr "RecursionError")]
  | .missing _ => jObj [("err", jStr "ValueError")]
  | .noFunc _ => jObj [("err", jStr "KeyError")]
  | .unused ps => jObj [("err", jStr "UnusedParametersError"), ("unused", jList jStr ps)]
  | .outputInKwargs => jObj [("err", jStr "ValueError")]
  | .mapspec => jObj [("err", jStr "RuntimeError")]

def getReq (j : Json) : R Req := do
  match j with
  | .str s => return .name s
  | _ => return .whole (← asList asStr j)

def putEErr : EErr → Json
  | .pipe e => putErr e
  | .tooMany => jObj [("err", jStr "TypeError"), ("why", jStr "too many positional arguments")]
  | .multiple p => jObj [("err", jStr "TypeError"), ("why", jStr s!"multiple values for argument {p}")]
  | .unexpected p => jObj [("err", jStr "TypeError"), ("why", jStr s!"unexpected keyword argument {p}")]
  | .missingRoot p => jObj [("err", jStr "TypeError"), ("why", jStr s!"missing a required argument {p}")]
  | .leaves n => jObj [("err", jStr "ValueError"), ("why", jStr s!"{n} leaf nodes")]
  | .extraKw p => jObj [("err", jStr "ValueError"), ("why", jStr s!"unexpected keyword argument {p}")]

def putOutcome (fs : List Func) (kw : List (String × Val)) (req : Req) (o : Outcome) : Json :=
  -- the specification, evaluated alongside (the refinement theorem says they agree)
  let spec : Json := match req with
    | .name n => match compose fs kw (fuelFor fs) n with | .ok v => putVal v | .error _ => Json.null
    | .whole _ => Json.null
  jObj [("value", putVal o.value), ("full", putKw o.full), ("calls", jList jStr o.calls), ("spec", spec)]

def handle (m : String) (a : Json) : R Json := do
  let fs ← listF getFunc a "funcs"
  match m with
  | "func" =>
    let kw ← getKw (← fld a "kw")
    let req ← getReq (← fld a "out")
    match funcCall fs kw req with
    | .error e => return putErr e
    | .ok o => return putOutcome fs kw req o
  | "callroot" =>
    let kw ← getKw (← fld a "kw")
    let pos ← listF getVal a "pos"
    let req ← getReq (← fld a "out")
    match callRoot fs req pos kw with
    | .error e => return putEErr e
    | .ok o =>
      return jObj [("value", putVal o.value), ("full", putKw o.full), ("calls", jList jStr o.calls),
                   ("root_args", jOpt (jList jStr) (reqRootArgs fs req))]
  | "callleaf" =>
    let kw ← getKw (← fld a "kw")
    match callLeaf fs kw with
    | .error e => return putEErr e
    | .ok o =>
      return jObj [("value", putVal o.value), ("full", putKw o.full), ("calls", jList jStr o.calls),
                   ("leaf", jList (fun f => jList jStr f.outputs) (leafFuncs fs))]
  | "getitem" =>
    let req ← getReq (← fld a "out")
    match getItem fs req with
    | none => return jObj [("err", jStr "KeyError")]
    | some f => return jObj [("name", jStr f.name), ("outputs", jList jStr f.outputs)]
  | "pfcall" =>
    -- `pipeline[out](**kw)`: the producing PipeFunc called directly with keyword arguments
    let kw ← getKw (← fld a "kw")
    let req ← getReq (← fld a "out")
    match getItem fs req with
    | none => return jObj [("err", jStr "KeyError")]
    | some f =>
      match pfCall f kw with
      | .error e => return putEErr e
      | .ok v => return jObj [("value", putVal v), ("name", jStr f.name)]
  | "run" =>
    let kw ← getKw (← fld a "kw")
    let req ← getReq (← fld a "out")
    match runTop fs kw req with
    | .error e => return putErr e
    | .ok o =>
      -- the specification, evaluated alongside (the refinement theorem says they agree)
      let spec : Json := match req with
        | .name n => match compose fs kw (fuelFor fs) n with | .ok v => putVal v | .error _ => Json.null
        | .whole _ => Json.null
      return jObj [("value", putVal o.value), ("full", putKw o.full), ("calls", jList jStr o.calls), ("spec", spec)]
  | "argcombos" =>
    let o ← strF a "out"
    return jObj [("combos", jOpt (jList (jList jStr)) (argCombinations fs o)), ("root_args", jOpt (jList jStr) (rootArgs fs o)),
                 ("deps", match producerIdx fs o with
                          | some i => jList (fun j => jList jStr (funcAt fs j).outputs) (funcDeps fs (fs.length * fs.length + 2) [i] [])
                          | none => Json.null)]
  | _ => .error s!"unknown entry {m}"

def main : IO Unit := loop handle
