"""C18 — Lazy pipelines evaluate to the eager result, at most once per node.

A case is a *session* on one generated pipeline built with `lazy=True`: lazy calls `pipeline(o, **kw)`, `evaluate()`s of the
returned objects (one or three times, interleaved between objects that share nodes) and `construct_dag()` blocks.  The
property's clauses are evaluated directly on the implementation (deferred object, nothing invoked before `evaluate()`,
value = what the same pipeline built eagerly returns, every needed function exactly once however often evaluated, task graph
acyclic with exactly the lazy-argument edges) and the whole observation (ids, node table, graph, values, call log after every
step) is compared with `PF.Lazy` (lean/PfModel/Model/Lazy.lean).  Two further streams exercise `evaluate_lazy` and
`add_edge` on containers: inputs of container *subclasses* (the function must receive what the eager pipeline hands it) and
lazy objects (bare and inside lists/tuples/dicts) passed as inputs of another lazy pipeline.
"""
from __future__ import annotations

import collections
import copy

import pfimport  # noqa: F401
from pfimport import exc_enum

import networkx as nx
from pipefunc import PipeFunc, Pipeline
from pipefunc.lazy import _LazyFunction, construct_dag
import pipefunc.lazy as pflazy

import pipegen
import terms
from terms import Term

PID = "C18"
PROPS = ["PfModel.Props.C18"]
DRIVER = "C18"
RULE = ("sessions on random DAGs of 1-6 term-building functions (nullary, tuple outputs, shared parameters, defaults, bound values, "
        "renames) built with lazy=True: 1-4 lazy calls (every output is requested across sessions; keyword sets are root arguments or "
        "a listed argument combination cutting through intermediates; whole-tuple requests), inside 0-2 construct_dag() blocks (several "
        "calls per block share nodes through the block's cache), each returned object evaluated 1 or 3 times in a random interleaving; "
        "a malformed stream (surplus / missing keyword, unknown output, output as keyword) ends a session; container-subclass inputs and "
        "lazy objects as inputs are separate streams; a session is non-trivial when some call node has a lazy argument; distinct by "
        "(pipeline, ops)")
ASSUMPTIONS = ["the lazy pipeline has no cache of its own (cache_type=None, no cache=True function): the only cache is construct_dag()'s",
               "inside one construct_dag() block the generated calls supply root arguments only, with one value per name (the block's cache "
               "key is the root-argument values: DESIGN DF-18(a) is C09's)",
               "lazy objects nested in user containers (evaluate_lazy/add_edge container recursion) are checked on the implementation only; "
               "the model's arguments are flat (a value or a node id)",
               "values are uninterpreted terms; user functions do not raise",
               "ids are compared relative to _LazyFunction._counter at the start of the session"]


def kwval(k):
    return {"s": f"kw:{k}"}


# ------------------------------------------------------------------------------------------------ implementation side
def argenc(v, base):
    if isinstance(v, _LazyFunction):
        return {"ref": v._id - base}
    return {"val": terms.enc(v)}


def node_desc(obj, base):
    """(kind, function name, arguments) of a real `_LazyFunction`."""
    if isinstance(obj.func, PipeFunc):
        return {"kind": "call", "f": obj.func.__name__, "args": [argenc(v, base) for v in list(obj.args) + list(obj.kwargs.values())]}
    src = obj.args[0] if obj.args else None
    fname = src.func.__name__ if isinstance(src, _LazyFunction) and isinstance(src.func, PipeFunc) else "?"
    return {"kind": "pick", "f": fname, "args": [argenc(v, base) for v in list(obj.args) + list(obj.kwargs.values())]}


def lazy_children(obj):
    out = []
    for v in list(obj.args) + list(obj.kwargs.values()):
        if isinstance(v, _LazyFunction):
            out.append(v)
        elif isinstance(v, (list, tuple, set)):
            out += [x for x in v if isinstance(x, _LazyFunction)]
        elif isinstance(v, dict):
            out += [x for x in v.values() if isinstance(x, _LazyFunction)]
    return out


def closure(objs):
    seen, todo = {}, list(objs)
    while todo:
        o = todo.pop()
        if o._id in seen:
            continue
        seen[o._id] = o
        todo += lazy_children(o)
    return seen


def run_session(desc, ops, cache=None):
    """Run one session on the real pipefunc.  Returns the observation; never raises because pipefunc misbehaves.
    `cache` = {"cache_type": ..., "cached": [function names]} gives the lazy pipeline a cache of its own."""
    ldesc = desc
    pipeline_kwargs = {}
    if cache:
        ldesc = {"funcs": [dict(f, cache=(f["name"] in cache["cached"])) for f in desc["funcs"]]}
        pipeline_kwargs = {"cache_type": cache["cache_type"]}
    p, log = pipegen.build(ldesc, lazy=True, **pipeline_kwargs)
    pe, elog = pipegen.build(desc)
    # the eager reference, computed up front: an eager call made inside a construct_dag() block would go through the block's cache too
    eagers = {}
    for i, op in enumerate(ops):
        if op["op"] == "call":
            out = op["out"] if isinstance(op["out"], str) else tuple(op["out"])
            elog.clear()
            try:
                ev = pipegen.quiet(pe, out, **{k: terms.dec(v) for k, v in op["kw"]})
                eagers[i] = {"value": terms.enc(ev), "calls": elog.names()}
            except Exception as e:  # noqa: BLE001
                eagers[i] = {"err": exc_enum(e)}
    base = _LazyFunction._counter
    obs, handles, table = [], [], {}
    cm = None
    tg = None
    block_objs = []
    try:
        for opi, op in enumerate(ops):
            kind = op["op"]
            if kind == "enter":
                cm = construct_dag()
                tg = cm.__enter__()
                block_objs = []
                obs.append({"ok": True})
            elif kind == "exit":
                cm.__exit__(None, None, None)
                cm = None
                g = tg.graph
                o = {"nodes": sorted(n - base for n in g.nodes), "edges": sorted([a - base, b - base] for a, b in g.edges),
                     "acyclic": nx.is_directed_acyclic_graph(g), "cache": len(tg.cache.cache),
                     "mapping_ok": sorted(tg.mapping) == sorted(g.nodes) and
                                   all(g.nodes[n].get("lazy_func") is tg.mapping[n] and tg.mapping[n]._id == n for n in tg.mapping),
                     "global_cleared": pflazy.task_graph() is None}
                # the edges the recorded nodes' own arguments demand
                want = set()
                for n, lf in tg.mapping.items():
                    for c in lazy_children(lf):
                        want.add((c._id - base, n - base))
                o["arg_edges"] = sorted(list(e) for e in want)
                # every node the objects returned in this block depend on must be recorded
                o["closure"] = sorted(i - base for i in closure(block_objs))
                obs.append(o)
                tg = None
            elif kind == "call":
                out = op["out"] if isinstance(op["out"], str) else tuple(op["out"])
                pykw = {k: terms.dec(v) for k, v in op["kw"]}
                before = len(log.names())
                eager = eagers[opi]
                try:
                    r = pipegen.quiet(p, out, **pykw)
                except Exception as e:  # noqa: BLE001
                    handles.append(None)
                    obs.append({"err": exc_enum(e), "eager": eager, "invoked": log.names()[before:]})
                    continue
                handles.append(r)
                o = {"eager": eager, "invoked": log.names()[before:], "type": type(r).__name__}
                if isinstance(r, _LazyFunction):
                    o["ret"] = {"ref": r._id - base}
                    block_objs.append(r)
                    for i, lf in closure([r]).items():
                        table[i - base] = node_desc(lf, base)
                else:
                    o["ret"] = {"val": terms.enc(r)}
                obs.append(o)
            elif kind == "eval":
                r = handles[op["h"]]
                before = len(log.names())
                try:
                    v = pipegen.quiet(r.evaluate)
                    obs.append({"value": terms.enc(v), "log": log.names(), "new": log.names()[before:]})
                except Exception as e:  # noqa: BLE001
                    obs.append({"err": exc_enum(e), "log": log.names()})
            else:
                raise AssertionError(kind)
    finally:
        if cm is not None:
            cm.__exit__(None, None, None)
    return {"ops": obs, "table": [[i, table[i]] for i in sorted(table)]}


# ------------------------------------------------------------------------------------------------ model side
def model_session(r):
    ops = []
    for o in r["ops"]:
        o = dict(o)
        for k in ("den", "spec", "value"):
            if o.get(k) is not None:
                o[k] = terms.canon(o[k])
        if "eager" in o and "value" in o["eager"]:
            o["eager"] = {"value": terms.canon(o["eager"]["value"]), "calls": o["eager"]["calls"]}
        if "ret" in o and "val" in o["ret"]:
            o["ret"] = {"val": terms.canon(o["ret"]["val"])}
        ops.append(o)
    table = []
    for i, n in enumerate(r["table"]):
        table.append([i, {"kind": n["kind"], "f": n["f"],
                          "args": [a if "ref" in a else {"val": terms.canon(a["val"])} for a in n["args"]]}])
    return {"ops": ops, "table": table}


# ------------------------------------------------------------------------------------------------ generation
def gen_ops(ctx, rng, desc, p, roots_only=False):
    """A session for one pipeline; `p` (the real eager pipeline) supplies root_args / arg_combinations.
    `roots_only`: never cut through intermediates (a pipeline with its own cache keys results by root arguments: DF-18(a), C09)."""
    outs = pipegen.all_outputs(desc)
    tuples = [f["outputs"] for f in desc["funcs"] if len(f["outputs"]) > 1]

    def roots_kw(o):
        return [[k, kwval(k)] for k in p.root_args(o if isinstance(o, str) else tuple(o))]

    def combo_kw(o):
        if roots_only:
            return roots_kw(o)
        combos = sorted(p.arg_combinations(o))
        return [[k, kwval(k)] for k in rng.choice(combos)]

    def pick_out():
        if tuples and rng.random() < 0.15:
            return list(rng.choice(tuples))
        return rng.choice(outs)

    ops, ncalls = [], 0
    shape = rng.choice(["plain", "plain", "dag1", "dag1", "dagN", "dagN", "dag2", "mixed", "dagEval", "dagEval"])
    ctx.count(f"shape:{shape}")

    def call(o, kw):
        nonlocal ncalls
        ops.append({"op": "call", "out": o, "kw": kw})
        ncalls += 1
        return ncalls - 1

    hs = []
    if shape == "plain":
        for _ in range(rng.choice([1, 1, 2])):
            o = pick_out()
            kw = combo_kw(o) if isinstance(o, str) and rng.random() < 0.5 else roots_kw(o)
            hs.append(call(o, kw))
    elif shape == "dag1":
        o = pick_out()
        kw = combo_kw(o) if isinstance(o, str) and rng.random() < 0.5 else roots_kw(o)
        ops.append({"op": "enter"}); hs.append(call(o, kw)); ops.append({"op": "exit"})
    elif shape == "dagN":
        ops.append({"op": "enter"})
        first = pick_out()
        hs.append(call(first, roots_kw(first)))
        for _ in range(rng.choice([1, 2, 3])):
            o = first if rng.random() < 0.4 else pick_out()
            hs.append(call(o, roots_kw(o)))
        ops.append({"op": "exit"})
    elif shape == "dagEval":
        # inside ONE block: request, evaluate an earlier object, request something that shares its nodes (the edges into the later
        # request must be recorded although their producers are already evaluated)
        ops.append({"op": "enter"})
        first = pick_out()
        hs.append(call(first, roots_kw(first)))
        for _ in range(rng.choice([1, 2, 3])):
            if rng.random() < 0.7:
                ops.append({"op": "eval", "h": rng.choice(hs)})
            o = pick_out()
            hs.append(call(o, roots_kw(o)))
        ops.append({"op": "exit"})
    elif shape == "dag2":
        o = pick_out()
        for _ in range(2):
            ops.append({"op": "enter"}); hs.append(call(o, roots_kw(o)))
            if rng.random() < 0.5:
                o2 = pick_out(); hs.append(call(o2, roots_kw(o2)))
            ops.append({"op": "exit"})
        hs.append(call(o, roots_kw(o)))
    else:  # mixed: a call outside, a block, a call outside; evaluations may come between
        o = pick_out()
        hs.append(call(o, roots_kw(o)))
        if rng.random() < 0.5:
            ops.append({"op": "eval", "h": hs[0]})
        ops.append({"op": "enter"}); hs.append(call(o, roots_kw(o))); o2 = pick_out(); hs.append(call(o2, roots_kw(o2))); ops.append({"op": "exit"})
        o3 = pick_out()
        hs.append(call(o3, combo_kw(o3) if isinstance(o3, str) else roots_kw(o3)))
    # evaluations: every object once or three times, interleaved
    evs = []
    for h in hs:
        evs += [h] * rng.choice([1, 3])
    rng.shuffle(evs)
    if rng.random() < 0.3 and evs:
        evs = evs[: rng.randint(1, len(evs))]          # some objects are never evaluated
    ops += [{"op": "eval", "h": h} for h in evs]
    # malformed tail
    if rng.random() < 0.2:
        o = rng.choice(outs)
        kw = roots_kw(o)
        fault = rng.choice(["surplus", "missing", "unknown-output", "output-in-kwargs", "surplus-intermediate"])
        if fault == "surplus":
            kw = kw + [["zz", kwval("zz")]]
        elif fault == "missing":
            if not kw:
                fault = "unknown-output"
            else:
                kw = [x for x in kw if x[0] != rng.choice(kw)[0]]
        if roots_only and fault == "surplus-intermediate":
            fault = "surplus"; kw = kw + [["zz", kwval("zz")]]
        if fault == "unknown-output":
            o = "nope"
        elif fault == "output-in-kwargs":
            kw = kw + [[o, kwval(o)]]
        elif fault == "surplus-intermediate":
            other = [x for x in outs if x != o and x not in [k for k, _ in kw]]
            if other:
                x = rng.choice(other); kw = kw + [[x, kwval(x)]]
        if rng.random() < 0.5:
            ops += [{"op": "enter"}, {"op": "call", "out": o, "kw": kw, "fault": fault}]
        else:
            ops.append({"op": "call", "out": o, "kw": kw, "fault": fault})
        ctx.count(f"malformed:{fault}")
    return ops


def close_blocks(ops):
    """A session that ends inside a block (after a malformed call) gets its exit appended for the model's benefit."""
    depth = 0
    for op in ops:
        depth += op["op"] == "enter"
        depth -= op["op"] == "exit"
    return ops + [{"op": "exit"}] * depth


# ------------------------------------------------------------------------------------------------ judging
def judge(ctx, case, impl, model):
    """Property clauses on the implementation first; then the correspondence with the model."""
    desc, ops = case["funcs"], case["ops"]
    viol = []

    def bad(what):
        viol.append(what)

    evaluated_calls = []          # names invoked so far according to the implementation
    handles = []
    in_block = False
    calls_in_block = 0
    for op, ob in zip(ops, impl["ops"]):
        if op["op"] == "enter":
            in_block, calls_in_block = True, 0
        elif op["op"] == "exit":
            in_block = False
            if "nodes" in ob:
                if not ob["acyclic"]:
                    bad("the recorded task graph has a cycle")
                if any(a >= b for a, b in ob["edges"]):
                    bad("an edge of the task graph does not go from an older to a newer node")
                if ob["edges"] != ob["arg_edges"]:
                    bad(f"task graph edges {ob['edges']} are not exactly the lazy-argument pairs {ob['arg_edges']} of the recorded nodes")
                if not set(ob["closure"]) <= set(ob["nodes"]):
                    bad(f"nodes {sorted(set(ob['closure']) - set(ob['nodes']))} needed by objects returned inside construct_dag() are missing from the task graph")
                if not ob["mapping_ok"]:
                    bad("TaskGraph.mapping / node attributes do not describe the recorded nodes")
                if not ob["global_cleared"]:
                    bad("the global task graph is still set after the construct_dag() block")
        elif op["op"] == "call":
            handles.append(ob)
            if ob.get("invoked"):
                bad(f"functions {ob['invoked']} were invoked by the lazy call itself, before evaluate()")
            first_in_scope = ((not in_block) or calls_in_block == 0) and not (case.get("cache") and len(handles) > 1)
            calls_in_block += 1
            if "err" in ob or "err" in ob["eager"]:
                if first_in_scope and (("err" in ob) != ("err" in ob["eager"])):
                    bad(f"lazy call {'raises ' + ob['err'] if 'err' in ob else 'is accepted'} while the eager pipeline "
                        f"{'raises ' + ob['eager']['err'] if 'err' in ob['eager'] else 'returns a value'}")
                continue
            if ob["type"] != "_LazyFunction":
                bad(f"a lazy pipeline returned a {ob['type']}, not a deferred object")
        elif op["op"] == "eval":
            h = handles[op["h"]]
            if "err" in ob:
                bad(f"evaluate() raised {ob['err']}")
                continue
            eager = h["eager"]
            if "value" in eager and ob["value"] != eager["value"]:
                bad("evaluate() differs from the value the eager pipeline returns")
            if len(set(ob["new"])) != len(ob["new"]):
                bad(f"evaluate() invoked a function more than once: {ob['new']}")
            if "calls" in eager and not set(ob["new"]) <= set(eager["calls"]):
                bad(f"evaluate() invoked {sorted(set(ob['new']) - set(eager['calls']))}, which the eager call does not need")
            if h.get("evaluated"):
                if ob["new"]:
                    bad(f"a repeated evaluate() invoked {ob['new']} again")
            elif "calls" in eager and h.get("fresh", False) and sorted(ob["new"]) != sorted(eager["calls"]):
                bad(f"first evaluate() invoked {sorted(ob['new'])}, the eager call invokes {sorted(eager['calls'])}")
            h["evaluated"] = True
    return viol


def mark_fresh(ops, impl):
    """A returned object is *fresh* when no other call of the session can share a node with it: then its first evaluate()
    must invoke exactly the eager call's functions.  (Sharing happens only between calls of one construct_dag() block.)"""
    in_block, idxs = False, []
    block_calls = []
    for op, ob in zip(ops, impl["ops"]):
        if op["op"] == "enter":
            in_block, block_calls = True, []
        elif op["op"] == "exit":
            in_block = False
            if len(block_calls) == 1:
                block_calls[0]["fresh"] = True
        elif op["op"] == "call":
            if in_block:
                block_calls.append(ob)
            else:
                ob["fresh"] = True
    return idxs


def compare(case, impl, model):
    """Differences between the implementation's and the model's observation (lists of strings)."""
    diffs = []
    for i, (op, a, b) in enumerate(zip(case["ops"], impl["ops"], model["ops"])):
        k = op["op"]
        if k == "exit":
            if "nodes" in a:
                if a["nodes"] != sorted(b["nodes"]):
                    diffs.append(f"op {i}: graph nodes {a['nodes']} vs model {sorted(b['nodes'])}")
                if a["edges"] != sorted(set(map(tuple, b["edges"]))) and a["edges"] != sorted([list(e) for e in set(map(tuple, b["edges"]))]):
                    diffs.append(f"op {i}: graph edges {a['edges']} vs model {sorted(b['edges'])}")
                if a["cache"] != b["cache"]:
                    diffs.append(f"op {i}: task-graph cache holds {a['cache']} entries, model {b['cache']}")
        elif k == "call":
            if ("err" in a) != ("err" in b):
                diffs.append(f"op {i}: call {'raises ' + a['err'] if 'err' in a else 'accepted'}; model: {b.get('err', 'accepted')}")
            elif "err" in a:
                if a["err"] != b["err"]:
                    diffs.append(f"op {i}: error class {a['err']} vs model {b['err']}")
            else:
                if a["ret"] != b["ret"]:
                    diffs.append(f"op {i}: returned {a['ret']} vs model {b['ret']}")
                if "value" in a["eager"] and b.get("den") != a["eager"]["value"]:
                    diffs.append(f"op {i}: the model's denotation of the returned object is not the eager value")
        elif k == "eval":
            if ("err" in a) != ("err" in b):
                diffs.append(f"op {i}: evaluate {'raises' if 'err' in a else 'returns'}; model {'raises' if 'err' in b else 'returns'}")
            elif "err" not in a:
                if a["value"] != b["value"]:
                    diffs.append(f"op {i}: evaluate() value differs from the model")
                if a["log"] != b["log"]:
                    diffs.append(f"op {i}: call log {a['log']} vs model {b['log']}")
    mt = dict((i, n) for i, n in model["table"])
    for i, n in impl["table"]:
        if mt.get(i) != n:
            diffs.append(f"node {i}: {n} vs model {mt.get(i)}")
    return diffs


def check_sessions(ctx, cases):
    reqs = [{"m": "session", "a": {"funcs": c["funcs"], "ops": close_blocks(c["ops"])}} for c in cases]
    impls = []
    for c in cases:
        try:
            impls.append(run_session({"funcs": c["funcs"]}, c["ops"], c.get("cache")))
        except Exception as e:  # noqa: BLE001
            impls.append({"crash": exc_enum(e), "msg": str(e)[:200]})
    outs = ctx.lean(reqs)
    for c, impl, resp in zip(cases, impls, outs):
        if "crash" in impl:
            ctx.violation(c, f"valid lazy pipeline refused at construction: {impl['crash']}: {impl['msg']}")
            continue
        model = model_session(resp["r"])
        for o in model["ops"]:
            if "spec" in o and o["spec"] is not None and o.get("den") != o["spec"]:
                raise AssertionError("model denotation and specification disagree (extraction bug?)")
        if c.get("cache"):
            # a pipeline with its own cache shares nodes between calls by design: no call is known to be fresh (exact call sets are not demanded);
            # the model (no own cache) does not apply, the property's clauses do
            ctx.count(f"own-cache:{c['cache']['cache_type']}")
        else:
            mark_fresh(c["ops"], impl)
        nontrivial = any(n["kind"] == "call" and any("ref" in a for a in n["args"]) for _, n in impl["table"])
        ctx.record(c, nontrivial)
        for o in impl["ops"]:
            if "nodes" in o:
                ctx.count("graphs"); ctx.count("graph-edges", len(o["edges"]))
                if o["cache"]:
                    ctx.count("graphs-with-cache-entries")
        for o in model["ops"]:
            if "log" in o and "value" in o:
                ctx.count("evaluations")
        ctx.count("nodes", len(impl["table"]))
        ctx.count("pick-nodes", sum(1 for _, n in impl["table"] if n["kind"] == "pick"))
        ids = [o["ret"]["ref"] for o in impl["ops"] if "ret" in o and "ref" in o["ret"]]
        if len(ids) != len(set(ids)):
            ctx.count("sessions-returning-a-shared-object")
        viol = judge(ctx, c, impl, model)
        for w in viol[:2]:
            ctx.violation(c, w, impl=impl, model=model)
        if not viol and not c.get("cache"):
            diffs = compare(c, impl, model)
            if diffs:
                ctx.violation(c, "lazy session differs from the model: " + diffs[0], found_input=False,
                              item="correspondence:lazy-session", impl=impl, model=model)


# ------------------------------------------------------------------------------------------------ container streams
class LSub(list):
    pass


class TSub(tuple):
    pass


class DSub(dict):
    pass


class SSub(set):
    pass


NT = collections.namedtuple("NT", "u v")

CONTAINERS = {
    "list": lambda: [1, "a"], "tuple": lambda: (1, "a"), "dict": lambda: {"k": 1}, "set": lambda: {1, 2},
    "namedtuple": lambda: NT(1, "a"), "list-subclass": lambda: LSub([1, 2]), "tuple-subclass": lambda: TSub((1, 2)),
    "dict-subclass": lambda: DSub(k=1), "set-subclass": lambda: SSub({1, 2}), "frozenset": lambda: frozenset({1, 2}),
    "ordereddict": lambda: collections.OrderedDict(k=1), "defaultdict": lambda: collections.defaultdict(int, k=1),
    "nested": lambda: [NT(1, (2, 3)), {"k": LSub([1])}], "deque": lambda: collections.deque([1, 2]),
    "str": lambda: "abc", "none": lambda: None, "term": lambda: Term("t", ()),
}


# past failures of the container-input stream (evaluate_lazy rebuilt every container: fixed)
CONTAINER_CORPUS = [("namedtuple", "defaultdict", False), ("ordereddict", "list-subclass", True), ("set-subclass", "tuple-subclass", False),
                    ("dict-subclass", "nested", True), ("deque", "frozenset", False)]


def describe(v):
    """What a user function can observe of an argument: its type, and recursively its elements."""
    t = type(v).__name__
    if isinstance(v, dict):
        return Term("$obs", (t, tuple(sorted((str(k), describe(x)) for k, x in v.items()))))
    if isinstance(v, (list, tuple, collections.deque)):
        return Term("$obs", (t, tuple(describe(x) for x in v)))
    if isinstance(v, (set, frozenset)):
        return Term("$obs", (t, tuple(sorted((describe(x) for x in v), key=repr))))
    return Term("$obs", (t, repr(v)))


def observing_pipeline(lazy, log):
    def g(x):
        log.append("g")
        return Term("g", (describe(x),))

    def f(a, y):
        log.append("f")
        return Term("f", (describe(a), describe(y)))

    return pipegen.quiet(Pipeline, [PipeFunc(g, "a"), PipeFunc(f, "o")], lazy=lazy)


def check_container_inputs(ctx, rng, n):
    """Inputs that are containers (and subclasses of containers) must reach the user function as the eager pipeline hands them."""
    todo = list(CONTAINER_CORPUS) + [None] * n
    for item in todo:
        if item is None:
            kx, ky, dag = rng.choice(sorted(CONTAINERS)), rng.choice(sorted(CONTAINERS)), rng.random() < 0.5
        else:
            kx, ky, dag = item
        case = {"stream": "container-input", "x": kx, "y": ky, "dag": dag}
        ctx.count(f"container:{kx}"); ctx.count(f"container:{ky}")
        x, y = CONTAINERS[kx](), CONTAINERS[ky]()
        elog, llog = [], []
        want = observing_pipeline(False, elog)("o", x=x, y=y)
        try:
            p = observing_pipeline(True, llog)
            if dag:
                with construct_dag() as tg:
                    r = p("o", x=x, y=y)
            else:
                r = p("o", x=x, y=y)
            before = list(llog)
            got = pipegen.quiet(r.evaluate)
            pipegen.quiet(r.evaluate)
        except Exception as e:  # noqa: BLE001
            ctx.record(case, True)
            ctx.violation(case, f"evaluate() of a lazy pipeline raised {exc_enum(e)} on an input ({kx}, {ky}) the eager pipeline accepts",
                          impl={"err": exc_enum(e)}, model={"value": repr(want)}, key="container-input-raise")
            continue
        ctx.record(case, True)
        if before:
            ctx.violation(case, f"functions {before} invoked before evaluate()")
        elif got != want:
            ctx.violation(case, f"evaluate() differs from the eager result for a {kx} / {ky} input (the function received another object type)",
                          impl={"value": repr(got)}, model={"value": repr(want)}, key="container-input-type")
        elif sorted(llog) != sorted(elog):
            ctx.violation(case, f"lazy evaluation invoked {llog}, eager {elog}")


FALSY = {"None": None, "0": 0, "empty-str": "", "empty-tuple": (), "False": False, "empty-list": [], "term": Term("t", ())}


def check_falsy_results(ctx, rng, n):
    """The memo is the `_evaluated` flag, not the result: a shared node whose function returns None / a falsy value is still
    invoked once (diamond g -> f, h; h also consumes f)."""
    for _ in range(n):
        falsy_one(ctx, {"stream": "falsy-result", "g": rng.choice(sorted(FALSY)), "f": rng.choice(sorted(FALSY)), "dag": rng.random() < 0.4})


def falsy_one(ctx, case):
    for _ in [0]:
        kg, kf, dag = case["g"], case["f"], case["dag"]
        ctx.count(f"falsy-result:{kg}")

        def build(lazy, log):
            def g(x):
                log.append("g"); return FALSY[kg]

            def f(a):
                log.append("f"); return FALSY[kf]

            def h(a, b):
                log.append("h"); return Term("h", (describe(a), describe(b)))

            return pipegen.quiet(Pipeline, [PipeFunc(g, "a"), PipeFunc(f, "b"), PipeFunc(h, "o")], lazy=lazy)

        elog, llog = [], []
        want = build(False, elog)("o", x=1)
        try:
            p = build(True, llog)
            if dag:
                with construct_dag():
                    r = p("o", x=1)
            else:
                r = p("o", x=1)
            before = list(llog)
            got = [pipegen.quiet(r.evaluate) for _ in range(3)]
        except Exception as e:  # noqa: BLE001
            ctx.record(case, True)
            ctx.violation(case, f"lazy pipeline with falsy results raised {exc_enum(e)}", impl={"err": exc_enum(e)})
            continue
        ctx.record(case, True)
        if before:
            ctx.violation(case, f"functions {before} invoked before evaluate()")
        elif any(x != want for x in got):
            ctx.violation(case, "evaluate() differs from the eager result when functions return falsy values", impl={"value": repr(got)}, model={"value": repr(want)})
        elif sorted(llog) != sorted(elog):
            ctx.violation(case, f"three evaluate() calls invoked {sorted(llog)}; each needed function must run once ({sorted(elog)}) also when it "
                                f"returns {kg} / {kf}", impl={"calls": llog}, model={"calls": elog}, key="falsy-result-once")


def check_lazy_inputs(ctx, rng, n):
    """Lazy objects (bare, or inside list / tuple / dict / set-free containers) as inputs of a second lazy pipeline: the value is the
    eager value on the evaluated inputs, the producers run once, and under construct_dag() the edges into the consumer exist."""
    for _ in range(n):
        lazy_input_one(ctx, {"stream": "lazy-input", "wrap": rng.choice(["bare", "list", "tuple", "dict", "nested-list", "two-in-list"]),
                             "dag": rng.random() < 0.6})


def lazy_input_one(ctx, case):
    for _ in [0]:
        wrap, dag = case["wrap"], case["dag"]
        ctx.count(f"lazy-input:{wrap}:{'dag' if dag else 'plain'}")
        log = []

        def src(x):
            log.append("src")
            return Term("src", (("x", x),))

        def use(a, y):
            log.append("use")
            return Term("use", (describe(a), describe(y)))

        try:
            p1 = pipegen.quiet(Pipeline, [PipeFunc(src, "s")], lazy=True)
            p2 = pipegen.quiet(Pipeline, [PipeFunc(use, "o")], lazy=True)
            pe = pipegen.quiet(Pipeline, [PipeFunc(use, "o")])
            cm = construct_dag() if dag else None
            tg = cm.__enter__() if dag else None
            try:
                l1, l2 = p1("s", x=1), p1("s", x=2)
                mk = {"bare": lambda a, b: a, "list": lambda a, b: [a, 7], "tuple": lambda a, b: (7, a), "dict": lambda a, b: {"k": a},
                      "nested-list": lambda a, b: [[a], 7], "two-in-list": lambda a, b: [a, b, a]}[wrap]
                arg = mk(l1, l2)
                r = p2("o", a=arg, y=3)
            finally:
                if cm is not None:
                    cm.__exit__(None, None, None)
            before = list(log)
            got = pipegen.quiet(r.evaluate)
            after1 = list(log)
            got2 = pipegen.quiet(r.evaluate)
            v1, v2 = pipegen.quiet(l1.evaluate), pipegen.quiet(l2.evaluate)
            after = list(log)
            log.clear()
            want = pe("o", a=mk(v1, v2), y=3)
        except Exception as e:  # noqa: BLE001
            ctx.record(case, True)
            ctx.violation(case, f"lazy objects as inputs ({wrap}): {exc_enum(e)}", impl={"err": exc_enum(e), "msg": str(e)[:200]})
            continue
        ctx.record(case, True)
        used = {"bare": 1, "list": 1, "tuple": 1, "dict": 1, "nested-list": 1, "two-in-list": 2}[wrap]
        if before:
            ctx.violation(case, f"functions {before} invoked before evaluate()")
        elif got != want or got2 != want:
            ctx.violation(case, f"evaluate() with lazy inputs ({wrap}) differs from the eager result on the evaluated inputs",
                          impl={"value": repr(got)}, model={"value": repr(want)})
        elif sorted(after1) != sorted(["src"] * used + ["use"]):
            ctx.violation(case, f"evaluate() with lazy inputs ({wrap}) invoked {after1}")
        elif after.count("use") != 1 or after.count("src") != 2:
            ctx.violation(case, f"functions re-invoked by later evaluate() calls: {after}")
        elif dag:
            edges = set(tg.graph.edges)
            want_edges = {(l1._id, r._id)} | ({(l2._id, r._id)} if wrap == "two-in-list" else set())
            if wrap == "nested-list":
                want_edges = set()       # add_edge looks one level into iterables only (lazy.py:48-51); the property speaks of pipeline DAGs
            if wrap == "dict":
                want_edges = set()       # iterating a dict yields its keys
            if not nx.is_directed_acyclic_graph(tg.graph):
                ctx.violation(case, "task graph with lazy inputs has a cycle")
            elif wrap in ("bare", "list", "tuple", "two-in-list") and edges != want_edges:
                ctx.violation(case, f"task graph edges {sorted(edges)} are not the producer-consumer pairs {sorted(want_edges)} ({wrap})")


# ------------------------------------------------------------------------------------------------ corpus / entry points
FA = {"name": "fa", "params": [["x", "x"]], "outputs": ["a"], "defaults": [], "bound": []}
FB = {"name": "fb", "params": [["a", "a"], ["y", "y"]], "outputs": ["b", "c"], "defaults": [["y", {"s": "dy"}]], "bound": []}
FD = {"name": "fd", "params": [["a", "p"], ["b", "q"], ["c", "r"]], "outputs": ["d"], "defaults": [], "bound": []}
KX = [["x", kwval("x")]]

CORPUS: list = [
    # diamond through a tuple-output node: shared producer, picks must not re-evaluate it
    {"funcs": [FA, FB, FD], "ops": [{"op": "call", "out": "d", "kw": KX}, {"op": "eval", "h": 0}, {"op": "eval", "h": 0}, {"op": "eval", "h": 0}]},
    # two calls in one block share nodes through the block's cache; a second block and a call outside share nothing
    {"funcs": [FA, FB, FD], "ops": [{"op": "enter"}, {"op": "call", "out": "d", "kw": KX}, {"op": "call", "out": "d", "kw": KX}, {"op": "exit"},
                                    {"op": "enter"}, {"op": "call", "out": "d", "kw": KX}, {"op": "exit"}, {"op": "call", "out": "d", "kw": KX},
                                    {"op": "eval", "h": 1}, {"op": "eval", "h": 0}, {"op": "eval", "h": 2}, {"op": "eval", "h": 3}, {"op": "eval", "h": 0}]},
    # whole tuple requested, then one of its names, in one block
    {"funcs": [FA, FB, FD], "ops": [{"op": "enter"}, {"op": "call", "out": ["b", "c"], "kw": KX}, {"op": "call", "out": "c", "kw": KX}, {"op": "exit"},
                                    {"op": "eval", "h": 1}, {"op": "eval", "h": 0}]},
    # a pipeline with its own SimpleCache: two construct_dag() blocks must not share nodes (fixed: _current_cache, e93c2f3-style)
    {"funcs": [FA, FB, FD], "cache": {"cache_type": "simple", "cached": ["fa"]},
     "ops": [{"op": "enter"}, {"op": "call", "out": "d", "kw": KX}, {"op": "exit"}, {"op": "enter"}, {"op": "call", "out": "d", "kw": KX}, {"op": "exit"},
             {"op": "eval", "h": 1}, {"op": "eval", "h": 0}]},
    {"funcs": [FA, FB, FD], "cache": {"cache_type": "simple", "cached": []},
     "ops": [{"op": "call", "out": "b", "kw": KX}, {"op": "enter"}, {"op": "call", "out": "b", "kw": KX}, {"op": "exit"}, {"op": "eval", "h": 1}]},
    # supplied intermediate replaces its producer
    {"funcs": [FA, FB, FD], "ops": [{"op": "call", "out": "d", "kw": [["a", kwval("a")]]}, {"op": "eval", "h": 0}]},
]


def gen_case(ctx, rng):
    desc = pipegen.gen_dag(rng, max_funcs=rng.choice([1, 2, 3, 4, 5, 6]))
    p, _ = pipegen.build(desc)
    own_cache = rng.random() < 0.15
    case = {"funcs": desc["funcs"], "ops": gen_ops(ctx, rng, desc, p, roots_only=own_cache)}
    if own_cache:
        names = [f["name"] for f in desc["funcs"]]
        case["cache"] = {"cache_type": rng.choice(["simple", "lru"]), "cached": [n for n in names if rng.random() < 0.6]}
    return case


def run(ctx):
    rng = ctx.rng
    cases = [copy.deepcopy(c) for c in CORPUS]
    for _ in range(ctx.n(260, 6000)):
        try:
            cases.append(gen_case(ctx, rng))
        except Exception as e:  # noqa: BLE001   the eager pipeline refused a generated description (C02's business)
            ctx.count(f"generator-skip:{exc_enum(e)}")
            ctx.skip(f"eager construction/arg_combinations: {exc_enum(e)}")
    # requested-output coverage
    for c in cases:
        for op in c["ops"]:
            if op["op"] == "call":
                ctx.count("call:" + ("malformed" if op.get("fault") else "whole" if not isinstance(op["out"], str) else
                                     "cut" if any(k in pipegen.all_outputs({"funcs": c["funcs"]}) for k, _ in op["kw"]) else "roots"))
    check_sessions(ctx, cases)
    check_container_inputs(ctx, rng, ctx.n(80, 1500))
    check_lazy_inputs(ctx, rng, ctx.n(40, 600))
    check_falsy_results(ctx, rng, ctx.n(30, 300))


def replay(ctx, case):
    if case.get("stream") == "container-input":
        x, y = CONTAINERS[case["x"]](), CONTAINERS[case["y"]]()
        print("eager:", observing_pipeline(False, [])("o", x=x, y=y))
        try:
            print("lazy: ", pipegen.quiet(observing_pipeline(True, [])("o", x=x, y=y).evaluate))
        except Exception as e:  # noqa: BLE001
            print("lazy:  raises", type(e).__name__, e)
        return
    if case.get("stream") in ("lazy-input", "falsy-result"):
        (lazy_input_one if case["stream"] == "lazy-input" else falsy_one)(ctx, case)
        for v in ctx.violations:
            print("violation:", v["what"], "| implementation:", v["impl"], "| expected:", v["model"])
        if not ctx.violations:
            print("the case passes:", case)
        return
    impl = run_session({"funcs": case["funcs"]}, case["ops"], case.get("cache"))
    print("implementation:", impl)
    r = ctx.lean([{"m": "session", "a": {"funcs": case["funcs"], "ops": close_blocks(case["ops"])}}])[0]["r"]
    print("model:", model_session(r))
