import PfModel.Generated.C20Facts
import PfModel.Model.Resources
/-!
C20, secondary tie: facts regenerated from `/repo/pipefunc/resources.py` on every run (`harness/c20_extract.py`) agree with the
hand-written model.  If the source's unit table or one of its two regexes changes, these `decide` proofs break; the check then
searches for a concrete failing input with the correspondence harness and reports `no-failing-input-found` otherwise.
-/
namespace PF.C20
open PF.Res

/-- the unit table in the source is the one `unitExp` implements: every entry agrees, and nothing else is accepted -/
theorem C20_src_units :
    (PF.Generated.C20.units.all fun (n, e) => unitExp n.toList = some e) = true ∧
    PF.Generated.C20.units.map (·.1) = ["B", "KB", "MB", "GB", "TB", "PB"] := by decide

/-- the regexes in the source are the ones the scanners `memSize?` and `timeSecs?` were written for -/
theorem C20_src_regexes :
    PF.Generated.C20.memoryRegex = "^(\\d+(?:\\.\\d+)?)([KMGTP]?B)$" ∧
    PF.Generated.C20.wallTimeRegex = "^(\\d+:)?(\\d{2}:)?\\d{2}:\\d{2}$" := by decide

end PF.C20
