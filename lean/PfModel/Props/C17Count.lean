import PfModel.Props.C17Ext
import PfModel.Lemmas.SweepCountExt
import PfModel.Lemmas.SweepDeps
import PfModel.Lemmas.SweepDepsSpec
/-!
# C17, round 3: `count_sweep` (sums, reachability of the dependencies, the pandas path), `set_cache_for_sweep`,
hashability and `keys=[]` in `filtered_sweep`
-/
namespace PF.C17
open PF.Sweep

variable {V : Type} [DecidableEq V]

/-! ### count_sweep: the counts of every dependency sum to the number of combinations -/

/-- **count_sweep, sums.**  Every table `count_sweep` reports accounts for every combination exactly once: its counts sum to
    `len(sweep.list())`. -/
theorem C17_count_sum (deps : List (String × List Key)) (combos : List (Dict V)) (r : List (String × List (List V × Nat)))
    (h : countSweep deps combos = .ok r) : ∀ c ∈ r, tsum c.2 = combos.length := by
  induction deps generalizing r with
  | nil =>
    simp only [countSweep, Except.ok.injEq] at h
    subst h; simp
  | cons d rest ih =>
    obtain ⟨o, args⟩ := d
    simp only [countSweep] at h
    split at h
    · cases h
    · next cnt hc =>
      split at h
      · cases h
      · next r' hr =>
        simp only [Except.ok.injEq] at h
        subst h
        intro c hcm
        simp only [List.mem_cons] at hcm
        rcases hcm with rfl | hcm
        · simpa [tsum] using countArgs_tsum args combos [] cnt hc
        · exact ih r' hr c hcm

/-- the same with the pipeline part: every table of `count_sweep(output, sweep, pipeline)` sums to the number of combinations -/
theorem C17_count_pipe_sum (fs : List PF.Pipe.Func) (o : String) (combos : List (Dict V))
    (r : List (String × List (List V × Nat))) (h : countSweepPipe fs o combos = some (.ok r)) :
    ∀ c ∈ r, tsum c.2 = combos.length := by
  unfold countSweepPipe at h
  cases hd : countDeps fs o with
  | none => simp [hd] at h
  | some deps =>
    simp only [hd, Option.map_some, Option.some.injEq] at h
    exact C17_count_sum deps combos r h

/-! ### the dependencies are the strict ancestors -/

/-- **count_sweep, which dependencies.**  The dependencies `count_sweep` reports on are exactly the functions from which the
    producer of the requested output is reachable backwards through non-bound parameters (`PF.Pipe.Reach`: strict ancestors;
    the requested output itself is not among them unless the graph has a cycle), each once, each with `root_args` of its
    output name.  No acyclicity hypothesis.  (That `rootArgs` — the model of `arg_combinations` — returns the reachable root
    names is compared case by case with the reachability specification `rootsSpec` by the driver, not proved.) -/
theorem C17_count_deps_reach (fs : List PF.Pipe.Func) (o : String) (deps : List (String × List Key))
    (h : countDeps fs o = some deps) :
    ∃ (i : Nat) (js : List Nat), PF.Pipe.producerIdx fs o = some i ∧ js.Nodup ∧ (∀ j, j ∈ js ↔ PF.Pipe.Reach fs i j) ∧
      deps.map Prod.fst = js.map (fun j => ",".intercalate (PF.Pipe.funcAt fs j).outputs) ∧
      ∀ d ∈ deps, PF.Pipe.rootArgs fs d.1 = some d.2 := by
  unfold countDeps at h
  cases hi : PF.Pipe.producerIdx fs o with
  | none => simp [hi] at h
  | some i =>
    simp only [hi] at h
    have hlt : i < fs.length := PF.Pipe.producerIdx_lt hi
    refine ⟨i, _, rfl, PF.Pipe.funcDeps_nodup fs i _, fun j => PF.Pipe.mem_funcDeps_iff fs i j hlt, ?_⟩
    generalize PF.Pipe.funcDeps fs (fs.length * fs.length + 2) [i] [] = js at h
    induction js generalizing deps with
    | nil =>
      simp only [List.mapM_nil, Option.pure_def, Option.some.injEq] at h
      subst h; simp
    | cons j r ih =>
      simp only [List.mapM_cons, Option.pure_def, Option.bind_eq_bind] at h
      cases h1 : PF.Pipe.rootArgs fs (",".intercalate (PF.Pipe.funcAt fs j).outputs) with
      | none => simp [h1] at h
      | some ra =>
        cases h2 : r.mapM (fun j => (PF.Pipe.rootArgs fs (",".intercalate (PF.Pipe.funcAt fs j).outputs)).map
            fun r => (",".intercalate (PF.Pipe.funcAt fs j).outputs, r)) with
        | none => simp [h1, h2] at h
        | some ds =>
          simp only [h1, h2, Option.map_some, Option.bind_some, Option.some.injEq] at h
          subst h
          obtain ⟨i1, i2⟩ := ih ds h2
          refine ⟨by simp [i1], ?_⟩
          intro d hd
          simp only [List.mem_cons] at hd
          rcases hd with rfl | hd
          · exact h1
          · exact i2 d hd

/-- **The reachability specification the driver evaluates next to `countDeps`.**  For a list of functions in which producers
    precede consumers, `depsSpec` lists exactly the strict ancestors of the producer of the requested output, each once, each
    with exactly the root names that are non-bound parameters of it or of one of its strict ancestors.  (`depsSpec` is what
    the harness compares `func_dependencies` / `root_args` and `countDeps` with, as dictionaries; it replaces the Python
    reachability computation of the earlier rounds.) -/
theorem C17_deps_spec (fs : List PF.Pipe.Func) (o : String) (spec : List (String × List String))
    (hordered : ordered fs = true) (h : depsSpec fs o = some spec) :
    ∃ (i : Nat) (js : List Nat) (roots : Nat → List String), PF.Pipe.producerIdx fs o = some i ∧ js.Nodup ∧
      (∀ j, j ∈ js ↔ PF.Pipe.Reach fs i j) ∧
      spec = js.map (fun j => (",".intercalate (PF.Pipe.funcAt fs j).outputs, roots j)) ∧
      ∀ j ∈ js, ∀ p, p ∈ roots j ↔
        (PF.Pipe.Node.root p ∈ PF.Pipe.preds fs j ∨ ∃ k, PF.Pipe.Reach fs j k ∧ PF.Pipe.Node.root p ∈ PF.Pipe.preds fs k) := by
  have hord := ordered_spec fs hordered
  unfold depsSpec at h
  cases hi : PF.Pipe.producerIdx fs o with
  | none => simp [hi] at h
  | some i =>
    simp only [hi, Option.map_some, Option.some.injEq] at h
    have hs : ∀ k j, PF.Pipe.Step fs k j → j < k := fun k j s => hord k j s.1
    have hlt : i < fs.length := PF.Pipe.producerIdx_lt hi
    refine ⟨i, _, fun j => PF.Pipe.uniqueSorted id (rootsBelow fs (fs.length + 1) j), rfl, PF.Pipe.nodup_eraseDups _, ?_, h.symm, ?_⟩
    · intro j
      rw [List.mem_eraseDups]
      constructor
      · intro hj
        rcases ancBelow_sound fs _ i j hj with rfl | r
        · have := ancBelow_lt fs hord _ _ _ hj; omega
        · exact r
      · exact ancBelow_complete fs hs _ i j (by omega)
    · intro j hj p
      rw [List.mem_eraseDups] at hj
      have hji := ancBelow_lt fs hord _ _ _ hj
      rw [mem_uniqueSorted_id]
      exact ⟨rootsBelow_sound fs _ j p, rootsBelow_complete fs hs _ j p (by omega)⟩

/-! ### the pandas path -/

/-- **count_sweep(use_pandas=True).**  When the pandas path returns, it reports the same dependencies; the keys of a table are
    scalars exactly for a single root argument; a table maps a tuple to the number of combinations whose root-argument cells
    are all present and not `None` and equal the tuple (rows with a `None` are dropped — DF-C17-02), and sums to the number of
    such rows.  (A dependency without root arguments is reported only for a sweep without combinations; else `ValueError`.) -/
theorem C17_count_pandas (isNone : V → Bool) (deps : List (String × List Key)) (combos : List (Dict V))
    (r : List (String × Bool × Table V)) (h : countPandas isNone deps combos = .ok r) :
    r.map Prod.fst = deps.map Prod.fst ∧
    ∀ d c, (d, c) ∈ deps.zip r →
      c.2.1 = (d.2.length == 1) ∧ (d.2 = [] → combos = []) ∧
      (∀ t, cntGet c.2.2 t = (combos.filter (fun x => decide (pandasRow isNone d.2 x = some t))).length) ∧
      (c.2.2.map Prod.fst).Nodup ∧ (∀ p ∈ c.2.2, p.2 > 0) ∧
      tsum c.2.2 = (combos.filterMap (pandasRow isNone d.2)).length := by
  induction deps generalizing r with
  | nil =>
    simp only [countPandas, Except.ok.injEq] at h
    subst h; simp
  | cons d rest ih =>
    obtain ⟨o, args⟩ := d
    simp only [countPandas] at h
    split at h
    · cases h
    · next cnt hc =>
      split at h
      · cases h
      · next r' hr =>
        simp only [Except.ok.injEq] at h
        subst h
        obtain ⟨ih1, ih2⟩ := ih r' hr
        refine ⟨by simp [ih1], ?_⟩
        intro d c hdc
        simp only [List.zip_cons_cons, List.mem_cons] at hdc
        rcases hdc with hdc | hdc
        · simp only [Prod.mk.injEq] at hdc
          obtain ⟨rfl, rfl⟩ := hdc
          unfold countPandasDep at hc
          split at hc
          · cases hc
          · split at hc
            · cases hc
            · next hne =>
              simp only [Except.ok.injEq] at hc
              subst hc
              obtain ⟨s1, s2, s3, s4⟩ := foldl_bump_spec (combos.filterMap (pandasRow isNone args)) []
              refine ⟨rfl, by intro he; have := hne; simp at this; exact this he, ?_, s2 (by simp), s3 (by simp), by simpa [tsum] using s4⟩
              intro t
              rw [s1 t, length_filter_filterMap]
              simp [cntGet]
        · exact ih2 d c hdc

/-- **The pandas path agrees with the default path when no root-argument cell is `None`.**  For a dependency with at least
    one root argument and a sweep with at least one combination, if the default path returns the table `cnt` and no
    combination holds `None` in a root-argument column, the pandas path returns a table with the same count for every
    tuple. -/
theorem C17_count_pandas_agrees (isNone : V → Bool) (args : List Key) (combos : List (Dict V)) (cnt : Table V)
    (h : countArgs args combos [] = .ok cnt) (ha : args ≠ []) (hc : combos ≠ [])
    (hnone : ∀ c ∈ combos, ∀ a ∈ args, ∀ v, lookup c a = some v → isNone v = false) :
    ∃ cnt', countPandasDep isNone args combos = .ok cnt' ∧ ∀ t, cntGet cnt' t = cntGet cnt t := by
  -- every combination has its tuple
  have hall : ∀ c ∈ combos, ∃ t, argTuple args c = .ok t := by
    clear hc hnone
    generalize ([] : Table V) = acc at h
    induction combos generalizing acc with
    | nil => intro c hc; cases hc
    | cons x xs ih =>
      simp only [countArgs] at h
      split at h
      · cases h
      · next t ht =>
        intro c hcm
        simp only [List.mem_cons] at hcm
        rcases hcm with rfl | hcm
        · exact ⟨t, ht⟩
        · exact ih _ h c hcm
  -- the pandas row of a combination is its tuple
  have hrow : ∀ (as : List Key) (c : Dict V) (t : List V),
      (∀ a ∈ as, ∀ v, lookup c a = some v → isNone v = false) → argTuple as c = .ok t → pandasRow isNone as c = some t := by
    intro as c
    induction as with
    | nil => intro t _ ht; simp only [argTuple, Except.ok.injEq] at ht; subst ht; rfl
    | cons a r ih =>
      intro t hn ht
      simp only [argTuple] at ht
      split at ht
      · cases ht
      · next v hv =>
        split at ht
        · cases ht
        · next t' ht' =>
          simp only [Except.ok.injEq] at ht
          subst ht
          have h1 := hn a (by simp) v hv
          have h2 := ih t' (fun a' ha' => hn a' (by simp [ha'])) ht'
          simp [pandasRow, hv, h1, h2]
  have hsome : ∀ (as : List Key) (c : Dict V) (t : List V), argTuple as c = .ok t → ∀ a ∈ as, (lookup c a).isSome = true := by
    intro as c
    induction as with
    | nil => intro t _ a ha; cases ha
    | cons a r ih =>
      intro t ht a' ha'
      simp only [argTuple] at ht
      split at ht
      · cases ht
      · next v hv =>
        split at ht
        · cases ht
        · next t' ht' =>
          simp only [List.mem_cons] at ha'
          rcases ha' with rfl | ha'
          · simp [hv]
          · exact ih t' ht' a' ha'
  obtain ⟨c0, cs, rfl⟩ := List.exists_cons_of_ne_nil hc
  obtain ⟨t0, ht0⟩ := hall c0 (by simp)
  have hkey : (args.any fun a => (c0 :: cs).all fun c => (lookup c a).isNone) = false := by
    rw [List.any_eq_false]
    intro a ha
    have := hsome args c0 t0 ht0 a ha
    simp only [List.all_cons, Bool.and_eq_true, not_and]
    intro hx
    rw [Option.isNone_iff_eq_none] at hx
    simp [hx] at this
  have hemp : args.isEmpty = false := by cases args <;> simp_all
  refine ⟨_, by simp only [countPandasDep, hkey, hemp]; rfl, ?_⟩
  intro t
  obtain ⟨s1, _⟩ := foldl_bump_spec ((c0 :: cs).filterMap (pandasRow isNone args)) []
  obtain ⟨d1, _⟩ := countArgs_spec args (c0 :: cs) [] cnt h
  rw [s1 t, d1 t, length_filter_filterMap]
  simp only [cntGet, Nat.zero_add]
  congr 1
  apply List.filter_congr
  intro x hx
  obtain ⟨tx, htx⟩ := hall x hx
  have hp := hrow args x tx (hnone x hx) htx
  simp [hp, hasTuple, htx]

/-- **DF-C17-02 witness.**  With a `None` in a root-argument column the pandas path reports `{1: 2}` for three
    combinations, the default path `{(1,): 2, (None,): 1}`: the dropped row is exactly the gap to `len(sweep)`. -/
theorem C17_count_pandas_none_witness :
    let combos : List (Dict (Option Nat)) := [[("a", some 1)], [("a", none)], [("a", some 1)]]
    (countPandasDep Option.isNone ["a"] combos).toOption = some [([some 1], 2)] ∧
    (countArgs ["a"] combos []).toOption = some [([some 1], 2), ([none], 1)] := by decide

/-! ### set_cache_for_sweep -/

/-- **set_cache_for_sweep.**  When it returns: every dependency of the requested output (every strict ancestor, see
    `C17_count_deps_reach`) gets `cache = (n ≥ min_executions)` where `n` is the largest number of combinations that share
    one root-argument tuple of that dependency (some tuple is shared by exactly `n` combinations, none by more) — so exactly
    the functions with some root-argument tuple repeated at least `min_executions` times are cached; the requested output
    itself gets `cache = False` (unless it is its own ancestor); every other function keeps its flag. -/
theorem C17_set_cache (fs : List PF.Pipe.Func) (o : String) (combos : List (Dict V)) (m : Int) (cache cache' : Dict Bool)
    (h : setCacheForSweep fs o combos m cache = some (.ok cache')) :
    ∃ deps, countDeps fs o = some deps ∧
      (∀ k ∈ deps.map Prod.fst, ∃ args n, (k, args) ∈ deps ∧
        ((∃ t, (combos.filter (hasTuple args t)).length = n) ∧ ∀ t, (combos.filter (hasTuple args t)).length ≤ n) ∧
        lookup cache' k = some (decide (m ≤ (n : Int)))) ∧
      (o ∉ deps.map Prod.fst → lookup cache' o = some false) ∧
      (∀ k, k ∉ deps.map Prod.fst → k ≠ o → lookup cache' k = lookup cache k) := by
  unfold setCacheForSweep at h
  cases hp : countSweepPipe fs o combos with
  | none => simp [hp] at h
  | some res =>
    cases res with
    | error e => simp [hp] at h
    | ok cnt =>
      simp only [hp, Option.map_some, Option.some.injEq] at h
      cases hm : maxExecutions cnt with
      | error e => simp [hm] at h
      | ok mx =>
        simp only [hm, Except.ok.injEq] at h
        subst h
        obtain ⟨deps, hd, hnames, hspec⟩ := C17_count_pipe fs o combos cnt hp
        obtain ⟨m1, m2⟩ := maxExecutions_spec cnt mx hm
        have hmx : mx.map Prod.fst = deps.map Prod.fst := by rw [m1, hnames]
        refine ⟨deps, hd, ?_, ?_, ?_⟩
        · intro k hk
          rw [← hmx] at hk
          obtain ⟨n, hn1, hn2⟩ := lookup_setCaches_mem (insert cache o false) mx m k hk
          obtain ⟨t, ht1, ht2⟩ := m2 (k, n) hn1
          obtain ⟨⟨d1, d2⟩, hz, hdk⟩ := mem_zip_of_map_fst deps cnt hnames (k, t) ht1
          have hdk' : d1 = k := hdk
          subst hdk'
          obtain ⟨s1, s2, _⟩ := hspec (d1, d2) (d1, t) hz
          have hdm : (d1, d2) ∈ deps := mem_of_mem_zip_left deps cnt _ (d1, t) hz
          exact ⟨d2, n, hdm, maxCount_isMax t n _ ht2 s1 s2, hn2⟩
        · intro ho
          rw [← hmx] at ho
          rw [lookup_setCaches_not_mem _ mx m o ho, lookup_insert]; simp
        · intro k hk hko
          rw [← hmx] at hk
          rw [lookup_setCaches_not_mem _ mx m k hk, lookup_insert]
          have hne : ¬ o = k := fun e => hko e.symm
          simp [hne]

/-- **set_cache_for_sweep on an empty sweep.**  If `count_sweep` returns but `set_cache_for_sweep` raises, the exception is the
    `ValueError` of `max()` over an empty table, and that happens only for a sweep without combinations (and an output with
    at least one dependency). -/
theorem C17_set_cache_error (fs : List PF.Pipe.Func) (o : String) (combos : List (Dict V)) (m : Int) (cache : Dict Bool)
    (cnt : List (String × Table V)) (e : Err)
    (hc : countSweepPipe fs o combos = some (.ok cnt)) (h : setCacheForSweep fs o combos m cache = some (.error e)) :
    e = .value ∧ combos = [] ∧ cnt ≠ [] := by
  unfold setCacheForSweep at h
  simp only [hc, Option.map_some, Option.some.injEq] at h
  cases hm : maxExecutions cnt with
  | ok mx => simp [hm] at h
  | error e' =>
    simp only [hm, Except.error.injEq] at h
    subst h
    obtain ⟨h1, o', h2⟩ := maxExecutions_error cnt e' hm
    have := C17_count_pipe_sum fs o combos cnt hc (o', []) h2
    refine ⟨h1, ?_, fun hn => by simp [hn] at h2⟩
    simpa [tsum] using this.symm

/-! ### filtered_sweep: unhashable values, no keys -/

/-- **filtered_sweep and hashability.**  With values that may be unhashable, `filtered_sweep` returns exactly when the
    hashability-blind model `filtered` (all `C17_filtered_*` theorems) returns and — in the derivers branch only — every
    projected value is hashable; it then returns the same sweep.  Without derivers hashability plays no role (DF-C17-03
    repair: rows that cannot be hashed are de-duplicated by equality). -/
theorem C17_filtered_hashable (hashable : V → Bool) (s f : Sweep V) (ks : List Key) :
    filteredH hashable s ks = .ok f ↔
      filtered s ks = .ok f ∧
        (s.derivers.isSome = true → ∀ combos ps, generate s = .ok combos → projectAll ks combos = .ok ps →
          ∀ p ∈ ps, ∀ v ∈ vals p, hashable v = true) := by
  unfold filteredH filtered
  cases hd : s.derivers.isSome with
  | false =>
    simp only [Bool.false_eq_true, if_false, false_imp_iff, and_true]
    split <;> simp_all
  | true =>
    simp only [if_true, true_imp_iff]
    cases hg : generate s with
    | error e => simp
    | ok combos =>
      simp only []
      cases hp : projectAllH hashable ks combos with
      | ok ps =>
        obtain ⟨p1, p2⟩ := (projectAllH_ok hashable ks combos ps).mp hp
        simp only [p1, Except.ok.injEq]
        constructor
        · intro h
          refine ⟨h, fun combos' ps' hc hq => ?_⟩
          cases hc
          rw [p1] at hq
          cases hq
          exact p2
        · intro h; exact h.1
      | error e =>
        simp only [reduceCtorEq, false_iff, not_and]
        intro hf
        cases hq : projectAll ks combos with
        | error e' => simp [hq] at hf
        | ok ps =>
          intro hall
          have := (projectAllH_ok hashable ks combos ps).mpr ⟨hq, hall combos ps rfl hq⟩
          simp [hp] at this

/-- **filtered_sweep without keys.**  `filtered_sweep([])` yields a sweep without combinations in both branches (the derivers
    branch builds `Sweep({}, dims=[()])`, the other `Sweep({})`), whatever the sweep: a `Sweep` cannot denote the single empty
    projection, `generate` yields nothing for a sweep without items (`sweep.py:117`). -/
theorem C17_filtered_nokeys (s f : Sweep V) (h : filtered s [] = .ok f) : generate f = .ok [] ∧ len f = .ok 0 := by
  have hcol : ∀ rows : List (List V), columnsOf [] rows = [] := by
    intro rows
    unfold columnsOf
    generalize ([] : Dict (List V)) = acc
    induction rows generalizing acc with
    | nil => rfl
    | cons r rs ih => simp only [List.foldl_cons, List.zip_nil_left, List.foldl_nil]; exact ih acc
  unfold filtered at h
  split at h
  · split at h
    · cases h
    · split at h
      · cases h
      · simp only [Except.ok.injEq] at h
        subst h
        simp [generate, len, hcol]
  · simp only [List.any_nil, Bool.not_false, if_true, Except.ok.injEq] at h
    subst h
    simp [generate, len]

/-- witness for `C17_filtered_nokeys`: a sweep with two combinations; its projection onto no keys has no combination -/
theorem C17_filtered_nokeys_witness :
    let s : Sweep Nat := { items := [("a", [1, 2])], derivers := some [("d", fun c => (lookup c "a").getD 0)] }
    (generate s).toOption.map List.length = some 2 ∧
    (filtered s []).toOption.bind (fun f => (generate f).toOption) = some [] := by decide

/-! ### Non-vacuity -/

section Examples

def cfs : List PF.Pipe.Func :=
  [{ name := "c", params := [("a", "a")], outputs := ["c"], defaults := [], bound := [] },
   { name := "d", params := [("c", "c"), ("b", "b")], outputs := ["d"], defaults := [], bound := [] },
   { name := "e", params := [("d", "d"), ("c", "c")], outputs := ["e"], defaults := [], bound := [] }]

def ccombos : List (Dict Nat) := [[("a", 1), ("b", 3)], [("a", 1), ("b", 4)], [("a", 2), ("b", 3)]]

/-- `count_sweep("e", …)`: dependencies `c` (root argument `a`) and `d` (`a`, `b`); every table sums to 3 -/
example : (match countSweepPipe cfs "e" ccombos with
    | some (.ok r) => decide (r = [("d", [([1, 3], 1), ([1, 4], 1), ([2, 3], 1)]), ("c", [([1], 2), ([2], 1)])])
    | _ => false) = true := by decide

example : (countDeps cfs "e") = some [("d", ["a", "b"]), ("c", ["a"])] := by decide

/-- non-vacuity of `C17_deps_spec`: producers precede consumers in `cfs`, and the specification agrees with `countDeps` -/
example : ordered cfs = true ∧ depsSpec cfs "e" = some [("d", ["a", "b"]), ("c", ["a"])] := by decide

/-- `set_cache_for_sweep("e", …, min_executions=2)`: `c` is called twice with `a = 1` → cached; `d` never twice; `e` off -/
example : (setCacheForSweep cfs "e" ccombos 2 [("c", false), ("d", true), ("e", true)]).map Except.toOption =
    some (some [("c", true), ("d", false), ("e", false)]) := by decide

/-- the empty sweep: `ValueError` -/
example : (setCacheForSweep cfs "e" ([] : List (Dict Nat)) 2 [("c", false)]).map (fun r => match r with | .error .value => true | _ => false)
    = some true := by decide

/-- the pandas path on the same sweep: scalar keys for `c`, tuples for `d` -/
example : (match countPandas (fun _ : Nat => false) [("c", ["a"]), ("d", ["a", "b"])] ccombos with
    | .ok r => decide (r = [("c", true, [([1], 2), ([2], 1)]), ("d", false, [([1, 3], 1), ([1, 4], 1), ([2, 3], 1)])])
    | _ => false) = true := by decide

/-- non-vacuity of `C17_count_pandas_agrees` -/
example : (countArgs ["a", "b"] ccombos []).toOption = some [([1, 3], 1), ([1, 4], 1), ([2, 3], 1)] ∧
    ∀ c ∈ ccombos, ∀ a ∈ ["a", "b"], ∀ v, lookup c a = some v → (fun _ : Nat => false) v = false := by
  refine ⟨by decide, fun _ _ _ _ _ _ => rfl⟩

/-- non-vacuity of `C17_filtered_hashable`: an unhashable projected value (here: `0`) makes the derivers branch raise
    `TypeError`; without derivers the sweep is returned -/
example :
    let s : Sweep Nat := { items := [("a", [0, 1])], derivers := some [("d", fun _ => 5)] }
    (match filteredH (fun v => v != 0) s ["a"] with | .error .type => true | _ => false) = true ∧
    (match filteredH (fun v => v != 0) s ["d"] with | .ok _ => true | _ => false) = true ∧
    (match filteredH (fun v => v != 0) { s with derivers := none } ["a"] with | .ok _ => true | _ => false) = true := by decide

end Examples
end PF.C17
