/-
Lemmas for `C08_roundtrip`: the `re.findall` scanner of `Model/MapSpecParse.lean` recovers the specs printed by
`MapSpec.__str__`.
-/
import PfModel.Model.MapSpecParse
import PfModel.Lemmas.MapSpec
namespace PF.MS

/-- an identifier as far as the scanner is concerned: non-empty, word characters only -/
def IsWordStr (s : List Char) : Prop := s ≠ [] ∧ ∀ c ∈ s, isWord c = true

/-- array names: `w` or `w.w` -/
inductive IsName : List Char → Prop
  | plain {w} : IsWordStr w → IsName w
  | dotted {w1 w2} : IsWordStr w1 → IsWordStr w2 → IsName (w1 ++ '.' :: w2)

def AxisOK : Option String → Prop
  | none => True
  | some a => IsWordStr a.toList

structure SpecOK (a : ArraySpec) : Prop where
  name : IsName a.name.toList
  axes_ne : a.axes ≠ []
  axes_ok : ∀ x ∈ a.axes, AxisOK x

/-! ### span -/

theorem span_word_append (w r : List Char) (hw : ∀ c ∈ w, isWord c = true)
    (hr : ∀ c r', r = c :: r' → isWord c = false) : span isWord (w ++ r) = (w, r) := by
  induction w with
  | nil =>
    cases r with
    | nil => simp [span]
    | cons c r' => simp [span, hr c r' rfl]
  | cons a as ih =>
    have ha : isWord a = true := hw a List.mem_cons_self
    have := ih (fun c hc => hw c (List.mem_cons_of_mem _ hc))
    simp [span, ha, this]

theorem isWord_lbr : isWord '[' = false := by decide
theorem isWord_dot : isWord '.' = false := by decide

theorem matchName_name (n r : List Char) (hn : IsName n) : matchName (n ++ '[' :: r) = some (n, r) := by
  cases hn with
  | plain hw =>
    obtain ⟨hne, hall⟩ := hw
    have := span_word_append n ('[' :: r) hall (by intro c r' e; injection e with e1 _; subst e1; exact isWord_lbr)
    unfold matchName; rw [this]
    cases n with
    | nil => exact absurd rfl hne
    | cons a as => rfl
  | @dotted w1 w2 h1 h2 =>
    obtain ⟨hne1, hall1⟩ := h1
    obtain ⟨hne2, hall2⟩ := h2
    have s1 := span_word_append w1 ('.' :: (w2 ++ '[' :: r)) hall1
      (by intro c r' e; injection e with e1 _; subst e1; exact isWord_dot)
    have s2 := span_word_append w2 ('[' :: r) hall2
      (by intro c r' e; injection e with e1 _; subst e1; exact isWord_lbr)
    have e : (w1 ++ '.' :: w2) ++ '[' :: r = w1 ++ '.' :: (w2 ++ '[' :: r) := by simp
    unfold matchName; rw [e, s1]
    cases w1 with
    | nil => exact absurd rfl hne1
    | cons a as =>
      simp only []
      rw [s2]
      cases w2 with
      | nil => exact absurd rfl hne2
      | cons b bs => simp

theorem isSpace_not_word (c : Char) (h : isSpace c = true) : isWord c = false := by
  simp only [isSpace, Bool.or_eq_true, beq_iff_eq] at h
  rcases h with ((((((((h | h) | h) | h) | h) | h) | h) | h) | h) | h <;> subst h <;> decide

theorem word_not_space (c : Char) (h : isWord c = true) : isSpace c = false := by
  cases hs : isSpace c with
  | false => rfl
  | true => rw [isSpace_not_word c hs] at h; exact absurd h (by decide)

/-! ### the index part -/

def NoClose (s : List Char) : Prop := ∀ c ∈ s, c ≠ ']' ∧ c ≠ '\n'

theorem scanIdx_ok (acc s r : List Char) (hs : NoClose s) :
    scanIdx acc (s ++ ']' :: r) = some (acc.reverse ++ s, r) := by
  induction s generalizing acc with
  | nil => simp [scanIdx]
  | cons d ds ih =>
    have hd := hs d List.mem_cons_self
    have := ih (d :: acc) (fun c hc => hs c (List.mem_cons_of_mem _ hc))
    simp [scanIdx, hd.1, hd.2, this]

theorem matchIdx_ok (s r : List Char) (hne : s ≠ []) (hs : NoClose s) :
    matchIdx (s ++ ']' :: r) = some (s, r) := by
  cases s with
  | nil => exact absurd rfl hne
  | cons c cs =>
    have hc := hs c List.mem_cons_self
    have := scanIdx_ok [c] cs r (fun d hd => hs d (List.mem_cons_of_mem _ hd))
    simp [matchIdx, hc.2, this]

/-! ### index list: split on commas, strip, `:` ↦ none -/

def NoComma (s : List Char) : Prop := ∀ c ∈ s, c ≠ ','

theorem splitComma_end (cur t : List Char) (ht : NoComma t) : splitComma cur t = [cur.reverse ++ t] := by
  induction t generalizing cur with
  | nil => simp [splitComma]
  | cons c cs ih =>
    have hc := ht c List.mem_cons_self
    have := ih (c :: cur) (fun d hd => ht d (List.mem_cons_of_mem _ hd))
    simp [splitComma, hc, this]

theorem splitComma_tok (cur t r : List Char) (ht : NoComma t) :
    splitComma cur (t ++ ',' :: r) = (cur.reverse ++ t) :: splitComma [] r := by
  induction t generalizing cur with
  | nil => simp [splitComma]
  | cons c cs ih =>
    have hc := ht c List.mem_cons_self
    have := ih (c :: cur) (fun d hd => ht d (List.mem_cons_of_mem _ hd))
    simp [splitComma, hc, this]

/-- the tokens `_parse_index_string` sees for a printed index list -/
def toks : List (List Char) → List (List Char)
  | [] => []
  | x :: r => x :: r.map (' ' :: ·)

theorem splitComma_space (s : List Char) : splitComma [] (' ' :: s) =
    match splitComma [] s with
    | [] => []
    | t :: ts => (' ' :: t) :: ts := by
  have gen : ∀ (cur : List Char) (s : List Char), splitComma (cur ++ [' ']) s =
      match splitComma cur s with
      | [] => []
      | t :: ts => (' ' :: t) :: ts := by
    intro cur s
    induction s generalizing cur with
    | nil => simp [splitComma]
    | cons c cs ih =>
      simp only [splitComma]
      split
      · simp
      · have := ih (c :: cur); simpa using this
  have := gen [] s
  simpa [splitComma] using this

theorem splitComma_join : ∀ (xs : List (List Char)), xs ≠ [] → (∀ x ∈ xs, NoComma x) →
    splitComma [] (joinWith [',', ' '] xs) = toks xs
  | [], h, _ => absurd rfl h
  | [x], _, hx => by simp [joinWith, toks, splitComma_end [] x (hx x List.mem_cons_self)]
  | x :: y :: r, _, hx => by
      have hxx := hx x List.mem_cons_self
      have ih := splitComma_join (y :: r) (by simp) (fun z hz => hx z (List.mem_cons_of_mem _ hz))
      have e : joinWith [',', ' '] (x :: y :: r) = x ++ ',' :: (' ' :: joinWith [',', ' '] (y :: r)) := by
        simp [joinWith]
      rw [e, splitComma_tok [] x _ hxx, splitComma_space, ih]
      simp [toks]

theorem lstrip_id (t : List Char) (h : ∀ c r, t = c :: r → isSpace c = false) : lstrip t = t := by
  cases t with
  | nil => rfl
  | cons c r => simp [lstrip, List.dropWhile, h c r rfl]

def NoSpace (s : List Char) : Prop := ∀ c ∈ s, isSpace c = false

theorem strip_id (t : List Char) (h : NoSpace t) : strip t = t := by
  unfold strip
  rw [lstrip_id t (fun c r e => h c (e ▸ List.mem_cons_self))]
  rw [lstrip_id t.reverse (fun c r e => h c (by
    have : c ∈ t.reverse := e ▸ List.mem_cons_self
    simpa using this))]
  simp

theorem strip_space (t : List Char) (hne : t ≠ []) (h : NoSpace t) : strip (' ' :: t) = t := by
  have h1 : lstrip (' ' :: t) = t := by
    cases t with
    | nil => exact absurd rfl hne
    | cons c r =>
      have hc := h c List.mem_cons_self
      have : isSpace ' ' = true := by decide
      simp [lstrip, List.dropWhile, this, hc]
  unfold strip; rw [h1]
  rw [lstrip_id t.reverse (fun c r e => h c (by
    have : c ∈ t.reverse := e ▸ List.mem_cons_self
    simpa using this))]
  simp

theorem axisChars_props (x : Option String) (hx : AxisOK x) :
    axisChars x ≠ [] ∧ NoSpace (axisChars x) ∧ NoComma (axisChars x) ∧ NoClose (axisChars x) ∧
    (if axisChars x = [':'] then none else some (String.ofList (axisChars x))) = x := by
  cases x with
  | none =>
    refine ⟨by simp [axisChars], ?_, ?_, ?_, by simp [axisChars]⟩
    · intro c hc; simp [axisChars] at hc; subst hc; decide
    · intro c hc; simp [axisChars] at hc; subst hc; decide
    · intro c hc; simp [axisChars] at hc; subst hc; exact ⟨by decide, by decide⟩
  | some a =>
    obtain ⟨hne, hall⟩ := hx
    refine ⟨by simpa [axisChars] using hne, ?_, ?_, ?_, ?_⟩
    · intro c hc; exact word_not_space c (hall c (by simpa [axisChars] using hc))
    · intro c hc e; have := hall c (by simpa [axisChars] using hc); rw [e] at this; exact absurd this (by decide)
    · intro c hc
      have hw := hall c (by simpa [axisChars] using hc)
      constructor
      · intro e; rw [e] at hw; exact absurd hw (by decide)
      · intro e; rw [e] at hw; exact absurd hw (by decide)
    · have : a.toList ≠ [':'] := by
        intro e; have := hall ':' (by simp [e]); exact absurd this (by decide)
      simp [axisChars, this, String.ofList_toList]

theorem parseIdx_join (axes : List (Option String)) (hne : axes ≠ []) (hok : ∀ x ∈ axes, AxisOK x) :
    parseIdx (joinWith [',', ' '] (axes.map axisChars)) = axes := by
  unfold parseIdx
  rw [splitComma_join (axes.map axisChars) (by simpa using hne)
    (fun s hs => by
      obtain ⟨x, hx, rfl⟩ := List.mem_map.mp hs
      exact (axisChars_props x (hok x hx)).2.2.1)]
  cases axes with
  | nil => exact absurd rfl hne
  | cons x r =>
    simp only [List.map, toks]
    have px := axisChars_props x (hok x List.mem_cons_self)
    rw [strip_id _ px.2.1, px.2.2.2.2]
    congr 1
    rw [List.map_map, List.map_map]
    conv => rhs; rw [← List.map_id r]
    apply List.map_congr_left
    intro y hy
    have py := axisChars_props y (hok y (List.mem_cons_of_mem _ hy))
    simp only [Function.comp, id]
    rw [strip_space _ py.1 py.2.1, py.2.2.2.2]

/-! ### one printed spec, then a whole side -/

theorem isName_ne (n : List Char) (h : IsName n) : ∃ c cs, n = c :: cs := by
  cases h with
  | plain hw => obtain ⟨hne, _⟩ := hw; cases n with
    | nil => exact absurd rfl hne
    | cons c cs => exact ⟨c, cs, rfl⟩
  | @dotted w1 w2 h1 _ => obtain ⟨hne, _⟩ := h1; cases w1 with
    | nil => exact absurd rfl hne
    | cons c cs => exact ⟨c, cs ++ '.' :: w2, rfl⟩

theorem joinWith_ne (xs : List (List Char)) (hne : xs ≠ []) (hx : ∀ x ∈ xs, x ≠ []) :
    joinWith [',', ' '] xs ≠ [] := by
  match xs, hne with
  | [x], _ => simpa [joinWith] using hx x List.mem_cons_self
  | x :: y :: r, _ =>
    have := hx x List.mem_cons_self
    cases x with
    | nil => exact absurd rfl this
    | cons c cs => simp [joinWith]

/-- every character of a join comes from the separator or from a part -/
theorem mem_joinWith (sep : List Char) : ∀ (xs : List (List Char)) (c : Char), c ∈ joinWith sep xs →
    c ∈ sep ∨ ∃ x ∈ xs, c ∈ x
  | [], c, h => by simp [joinWith] at h
  | [x], c, h => by right; exact ⟨x, List.mem_cons_self, by simpa [joinWith] using h⟩
  | x :: y :: r, c, h => by
      simp only [joinWith, List.mem_append] at h
      rcases h with (h | h) | h
      · right; exact ⟨x, List.mem_cons_self, h⟩
      · left; exact h
      · rcases mem_joinWith sep (y :: r) c h with h' | ⟨z, hz, hc⟩
        · left; exact h'
        · right; exact ⟨z, List.mem_cons_of_mem _ hz, hc⟩

theorem joinWith_noClose (xs : List (List Char)) (h : ∀ x ∈ xs, NoClose x) : NoClose (joinWith [',', ' '] xs) := by
  intro c hc
  rcases mem_joinWith _ xs c hc with h' | ⟨x, hx, hcx⟩
  · simp only [List.mem_cons, List.not_mem_nil, or_false] at h'
    rcases h' with h' | h' <;> subst h' <;> exact ⟨by decide, by decide⟩
  · exact h x hx c hcx

theorem findAll_spec (a : ArraySpec) (ha : SpecOK a) (k : Nat) (rest : List Char) :
    findAll (k + 1) (specChars a ++ rest) = a :: findAll k rest := by
  obtain ⟨c, cs, hn⟩ := isName_ne a.name.toList ha.name
  let idx := joinWith [',', ' '] (a.axes.map axisChars)
  have hstr : specChars a ++ rest = a.name.toList ++ '[' :: (idx ++ ']' :: rest) := by
    simp [specChars, idx]
  have hprops := fun x hx => axisChars_props x (ha.axes_ok x hx)
  have hidx_ne : idx ≠ [] := joinWith_ne _ (by simpa using ha.axes_ne) (by
    intro s hs; obtain ⟨x, hx, rfl⟩ := List.mem_map.mp hs; exact (hprops x hx).1)
  have hidx_nc : NoClose idx := joinWith_noClose _ (by
    intro s hs; obtain ⟨x, hx, rfl⟩ := List.mem_map.mp hs; exact (hprops x hx).2.2.2.1)
  have hm := matchName_name a.name.toList (idx ++ ']' :: rest) ha.name
  have hi := matchIdx_ok idx rest hidx_ne hidx_nc
  have hp := parseIdx_join a.axes ha.axes_ne ha.axes_ok
  rw [hstr]
  rw [hn] at hm ⊢
  simp only [List.cons_append, findAll]
  simp only [List.cons_append] at hm
  rw [hm]
  simp only []
  rw [hi]
  simp only [idx] at hp ⊢
  rw [hp, ← hn, String.ofList_toList]

theorem findAll_skip (c : Char) (hc : isWord c = false) (k : Nat) (rest : List Char) :
    findAll (k + 1) (c :: rest) = findAll k rest := by
  simp [findAll, matchName, span, hc]

/-! ### the fuel of `findAll` is irrelevant once it covers the text -/

theorem span_length (p : Char → Bool) : ∀ xs : List Char, (span p xs).2.length ≤ xs.length
  | [] => by simp [span]
  | c :: cs => by
      have ih := span_length p cs
      simp only [span]
      split
      · simp only []; exact Nat.le_succ_of_le ih
      · simp

theorem matchName_length (xs n r : List Char) (h : matchName xs = some (n, r)) : r.length < xs.length := by
  unfold matchName at h
  have h1 := span_length isWord xs
  split at h
  · exact absurd h (by simp)
  · next _ w1 r1 _ heq =>
    injection h with h; injection h with _ h; subst h
    rw [heq] at h1; simp at h1; omega
  · next _ w1 r1 _ heq =>
    have h2 := span_length isWord r1
    rw [heq] at h1; simp at h1
    split at h
    · exact absurd h (by simp)
    · next _ w2 r2 _ heq2 =>
      injection h with h; injection h with _ h; subst h
      rw [heq2] at h2; simp at h2; omega
    · exact absurd h (by simp)
  · exact absurd h (by simp)

theorem scanIdx_length : ∀ (xs acc i r : List Char), scanIdx acc xs = some (i, r) → r.length < xs.length
  | [], acc, i, r, h => by simp [scanIdx] at h
  | d :: ds, acc, i, r, h => by
      simp only [scanIdx] at h
      split at h
      · injection h with h; injection h with _ h; subst h; simp
      · split at h
        · exact absurd h (by simp)
        · have := scanIdx_length ds _ i r h; simp; omega

theorem matchIdx_length (xs i r : List Char) (h : matchIdx xs = some (i, r)) : r.length < xs.length := by
  cases xs with
  | nil => simp [matchIdx] at h
  | cons c cs =>
    simp only [matchIdx] at h
    split at h
    · exact absurd h (by simp)
    · have := scanIdx_length cs _ i r h; simp; omega

theorem findAll_fuel : ∀ (f g : Nat) (xs : List Char), xs.length ≤ f → xs.length ≤ g → findAll f xs = findAll g xs
  | 0, g, xs, hf, _ => by
      have : xs = [] := List.eq_nil_of_length_eq_zero (by omega)
      subst this; cases g <;> simp [findAll]
  | f + 1, 0, xs, _, hg => by
      have : xs = [] := List.eq_nil_of_length_eq_zero (by omega)
      subst this; simp [findAll]
  | f + 1, g + 1, [], _, _ => by simp [findAll]
  | f + 1, g + 1, c :: cs, hf, hg => by
      simp only [List.length_cons] at hf hg
      simp only [findAll]
      split
      · next name r hm =>
        have h1 := matchName_length _ _ _ hm
        simp only [List.length_cons] at h1
        split
        · next idx r' hi =>
          have h2 := matchIdx_length _ _ _ hi
          rw [findAll_fuel f g r' (by omega) (by omega)]
        · exact findAll_fuel f g cs (by omega) (by omega)
      · exact findAll_fuel f g cs (by omega) (by omega)

/-- the whole scan: `re.findall` on a text -/
def scan (xs : List Char) : List ArraySpec := findAll xs.length xs

theorem specChars_length_pos (a : ArraySpec) : 0 < (specChars a).length := by
  simp [specChars]; omega

theorem scan_spec (a : ArraySpec) (ha : SpecOK a) (rest : List Char) :
    scan (specChars a ++ rest) = a :: scan rest := by
  unfold scan
  have hp := specChars_length_pos a
  have e : (specChars a ++ rest).length = ((specChars a).length - 1 + rest.length) + 1 := by
    simp only [List.length_append]; omega
  rw [e, findAll_spec a ha, findAll_fuel _ rest.length rest (by omega) (Nat.le_refl _)]

theorem scan_skip (c : Char) (hc : isWord c = false) (rest : List Char) : scan (c :: rest) = scan rest := by
  unfold scan
  simp only [List.length_cons]
  rw [findAll_skip c hc]

theorem scan_side : ∀ (l : List ArraySpec), l ≠ [] → (∀ a ∈ l, SpecOK a) → ∀ (tail : List Char),
    scan (sideChars l ++ tail) = l ++ scan tail
  | [], h, _, _ => absurd rfl h
  | [a], _, hok, tail => by
      have := scan_spec a (hok a List.mem_cons_self) tail
      simpa [sideChars, joinWith] using this
  | a :: b :: r, _, hok, tail => by
      have ih := scan_side (b :: r) (by simp) (fun z hz => hok z (List.mem_cons_of_mem _ hz)) tail
      have e : sideChars (a :: b :: r) ++ tail = specChars a ++ (',' :: ' ' :: (sideChars (b :: r) ++ tail)) := by
        simp [sideChars, joinWith]
      rw [e, scan_spec a (hok a List.mem_cons_self), scan_skip ',' (by decide), scan_skip ' ' (by decide), ih]
      simp

/-! ### the split at `->` -/

def NoDash (s : List Char) : Prop := ∀ c ∈ s, c ≠ '-'

theorem splitArrow_noDash (cur t : List Char) (ht : NoDash t) : splitArrow cur t = [cur.reverse ++ t] := by
  induction t generalizing cur with
  | nil => simp [splitArrow]
  | cons c cs ih =>
    have hc : c ≠ '-' := ht c List.mem_cons_self
    have := ih (c :: cur) (fun d hd => ht d (List.mem_cons_of_mem _ hd))
    rw [splitArrow.eq_3]
    · simp [this]
    · intro r e; exact absurd e hc

theorem splitArrow_at (cur t r : List Char) (ht : NoDash t) :
    splitArrow cur (t ++ '-' :: '>' :: r) = (cur.reverse ++ t) :: splitArrow [] r := by
  induction t generalizing cur with
  | nil => simp [splitArrow]
  | cons c cs ih =>
    have hc : c ≠ '-' := ht c List.mem_cons_self
    have := ih (c :: cur) (fun d hd => ht d (List.mem_cons_of_mem _ hd))
    rw [List.cons_append, splitArrow.eq_3]
    · simp [this]
    · intro r e; exact absurd e hc

/-! ### from the constructor's checks to what the scanner needs -/

theorem isIdStart_word (c : Char) (h : isIdStart c = true) : isWord c = true := by
  simp only [isIdStart, isWord, Char.isAlphanum, Bool.or_eq_true] at h ⊢
  rcases h with h | h
  · exact Or.inl (Or.inl h)
  · exact Or.inr h

theorem isIdentChars_word (w : List Char) (h : isIdentChars w = true) : IsWordStr w := by
  cases w with
  | nil => simp [isIdentChars] at h
  | cons c cs =>
    simp only [isIdentChars, Bool.and_eq_true, List.all_eq_true] at h
    refine ⟨by simp, ?_⟩
    intro d hd
    rcases List.mem_cons.mp hd with e | e
    · subst e; exact isIdStart_word _ h.1
    · exact h.2 d e

theorem splitDot_some : ∀ (n a b : List Char), splitDot n = some (a, b) → n = a ++ '.' :: b
  | [], a, b, h => by simp [splitDot] at h
  | c :: cs, a, b, h => by
      simp only [splitDot] at h
      split at h
      · next hc => injection h with h; injection h with h1 h2; subst h1; subst h2; subst hc; rfl
      · split at h
        · next a' b' hs =>
          injection h with h; injection h with h1 h2; subst h1; subst h2
          rw [splitDot_some cs a' b' hs]; rfl
        · cases h

theorem nameOK_isName (n : List Char) (h : nameOKChars n = true) : IsName n := by
  unfold nameOKChars at h
  split at h
  · next a b hs =>
    simp only [Bool.and_eq_true] at h
    rw [splitDot_some n a b hs]
    exact IsName.dotted (isIdentChars_word _ h.1) (isIdentChars_word _ h.2)
  · exact IsName.plain (isIdentChars_word _ h)

theorem namesOK_specOK (a : ArraySpec) (h : NamesOK a) (hne : a.axes ≠ []) : SpecOK a where
  name := nameOK_isName _ h.1
  axes_ne := hne
  axes_ok := by
    intro x hx
    cases x with
    | none => trivial
    | some i => exact isIdentChars_word _ (h.2 i hx)

/-! ### printed text has no `-`, and is not `...` -/

theorem word_ne_dash (c : Char) (h : isWord c = true) : c ≠ '-' := by
  intro e; subst e; exact absurd h (by decide)

theorem isName_chars (n : List Char) (h : IsName n) : ∀ c ∈ n, isWord c = true ∨ c = '.' := by
  cases h with
  | plain hw => intro c hc; exact Or.inl (hw.2 c hc)
  | @dotted w1 w2 h1 h2 =>
    intro c hc
    simp only [List.mem_append, List.mem_cons] at hc
    rcases hc with hc | hc | hc
    · exact Or.inl (h1.2 c hc)
    · exact Or.inr hc
    · exact Or.inl (h2.2 c hc)

theorem specChars_noDash (a : ArraySpec) (ha : SpecOK a) : NoDash (specChars a) := by
  intro c hc
  simp only [specChars, List.mem_append, List.mem_cons, List.not_mem_nil, or_false] at hc
  rcases hc with hc | hc | hc | hc
  · rcases isName_chars _ ha.name c hc with h | h
    · exact word_ne_dash c h
    · subst h; decide
  · subst hc; decide
  · rcases mem_joinWith _ _ c hc with h | ⟨x, hx, hcx⟩
    · simp only [List.mem_cons, List.not_mem_nil, or_false] at h
      rcases h with h | h <;> subst h <;> decide
    · obtain ⟨y, hy, rfl⟩ := List.mem_map.mp hx
      cases y with
      | none => simp [axisChars] at hcx; subst hcx; decide
      | some i => exact word_ne_dash c ((ha.axes_ok _ hy).2 c (by simpa [axisChars] using hcx))
  · subst hc; decide

theorem sideChars_noDash (l : List ArraySpec) (hok : ∀ a ∈ l, SpecOK a) : NoDash (sideChars l) := by
  intro c hc
  rcases mem_joinWith _ _ c hc with h | ⟨x, hx, hcx⟩
  · simp only [List.mem_cons, List.not_mem_nil, or_false] at h
    rcases h with h | h <;> subst h <;> decide
  · obtain ⟨a, ha, rfl⟩ := List.mem_map.mp hx
    exact specChars_noDash a (hok a ha) c hcx

theorem lbr_mem_sideChars : ∀ (l : List ArraySpec), l ≠ [] → '[' ∈ sideChars l ∧ ']' ∈ sideChars l
  | [], h => absurd rfl h
  | [a], _ => by simp [sideChars, joinWith, specChars]
  | a :: b :: r, _ => by simp [sideChars, joinWith, specChars]

theorem mem_dropWhile (p : Char → Bool) (c : Char) (hc : p c = false) : ∀ xs : List Char, c ∈ xs → c ∈ xs.dropWhile p
  | [], h => h
  | d :: ds, h => by
      simp only [List.dropWhile]
      split
      · next hd =>
        rcases List.mem_cons.mp h with e | e
        · subst e; rw [hc] at hd; cases hd
        · exact mem_dropWhile p c hc ds e
      · exact h

theorem mem_strip (c : Char) (hc : isSpace c = false) (xs : List Char) (h : c ∈ xs) : c ∈ strip xs := by
  unfold strip lstrip
  rw [List.mem_reverse]
  apply mem_dropWhile _ _ hc
  rw [List.mem_reverse]
  exact mem_dropWhile _ _ hc _ h

theorem strip_ne_dots (xs : List Char) (h : '[' ∈ xs) : strip xs ≠ ['.', '.', '.'] := by
  intro e
  have := mem_strip '[' (by decide) xs h
  rw [e] at this
  simp at this

/-! ### one side of a printed spec parses back -/

theorem parseSide_side (l : List ArraySpec) (hne : l ≠ []) (hok : ∀ a ∈ l, SpecOK a) (hn : ∀ a ∈ l, NamesOK a)
    (pre post : List Char) (hpre : pre = [] ∨ pre = [' ']) (hpost : post = [] ∨ post = [' ']) :
    parseSide (pre ++ sideChars l ++ post) = .ok l := by
  have hb := lbr_mem_sideChars l hne
  have h1 : '[' ∈ pre ++ sideChars l ++ post := by simp [hb.1]
  have h2 : ']' ∈ pre ++ sideChars l ++ post := by simp [hb.2]
  have hscan : findAll (pre ++ sideChars l ++ post).length (pre ++ sideChars l ++ post) = l := by
    show scan (pre ++ sideChars l ++ post) = l
    have hpost' : scan post = [] := by
      rcases hpost with e | e <;> subst e <;> rfl
    rcases hpre with e | e <;> subst e
    · simp only [List.nil_append]
      rw [scan_side l hne hok, hpost']; simp
    · simp only [List.cons_append, List.nil_append]
      rw [scan_skip ' ' (by decide), scan_side l hne hok, hpost']; simp
  unfold parseSide
  rw [if_neg (strip_ne_dots _ h1)]
  have c1 : (pre ++ sideChars l ++ post).contains '[' = true := List.contains_iff_mem.mpr h1
  have c2 : (pre ++ sideChars l ++ post).contains ']' = true := List.contains_iff_mem.mpr h2
  simp only [c1, c2, Bool.and_self, Bool.not_true, Bool.false_eq_true, ↓reduceIte, hscan]
  have : l.all arrayOK = true := List.all_eq_true.mpr fun a ha => (arrayOK_iff a).mpr (hn a ha)
  simp [this]

theorem parseSide_dots : parseSide ['.', '.', '.', ' '] = .ok [] := by
  unfold parseSide; rw [if_pos (by decide)]

/-- well-formed for the index notation: `Valid`, and every array has rank ≥ 1 (DESIGN.md C08, reading (iii)) -/
def WF (m : MapSpec) : Prop := Valid m ∧ ∀ a ∈ m.inputs ++ m.outputs, a.axes ≠ []

theorem parseChars_text (ins outs : List ArraySpec) (A B : List Char) (hA : NoDash A) (hB : NoDash B)
    (pA : parseSide A = .ok ins) (pB : parseSide B = .ok outs) (hp : postInit ⟨ins, outs⟩ = .ok ()) :
    parseChars (A ++ '-' :: '>' :: B) = .ok ⟨ins, outs⟩ := by
  unfold parseChars
  rw [splitArrow_at [] A B hA, splitArrow_noDash [] B hB]
  simp only [List.reverse_nil, List.nil_append, pA, pB, hp]

theorem parse_toStr (m : MapSpec) (h : WF m) : parse (toStr m) = .ok m := by
  obtain ⟨hv, hr⟩ := h
  have hokO : ∀ a ∈ m.outputs, SpecOK a := fun a ha =>
    namesOK_specOK a (hv.names a (List.mem_append_right _ ha)) (hr a (List.mem_append_right _ ha))
  have hokI : ∀ a ∈ m.inputs, SpecOK a := fun a ha =>
    namesOK_specOK a (hv.names a (List.mem_append_left _ ha)) (hr a (List.mem_append_left _ ha))
  have hp : postInit ⟨m.inputs, m.outputs⟩ = .ok () := ((valid_iff m).mp hv).2
  have hB : NoDash (' ' :: sideChars m.outputs) := by
    intro c hc
    rcases List.mem_cons.mp hc with e | e
    · subst e; decide
    · exact sideChars_noDash _ hokO c e
  have pB : parseSide (' ' :: sideChars m.outputs) = .ok m.outputs := by
    have := parseSide_side m.outputs hv.out_ne hokO (fun a ha => hv.names a (List.mem_append_right _ ha))
      [' '] [] (Or.inr rfl) (Or.inl rfl)
    simpa using this
  unfold parse toStr
  rw [String.toList_ofList]
  unfold toChars
  cases hi : m.inputs with
  | nil =>
    rw [hi] at hp
    have := parseChars_text [] m.outputs ['.', '.', '.', ' '] (' ' :: sideChars m.outputs)
      (by intro c hc; simp at hc; rcases hc with e | e <;> subst e <;> decide) hB parseSide_dots pB hp
    simp only [List.cons_append, List.nil_append] at this ⊢
    rw [this]
    cases m; simp_all
  | cons x xs =>
    have hne : m.inputs ≠ [] := by rw [hi]; simp
    have hA : NoDash (sideChars m.inputs ++ [' ']) := by
      intro c hc
      rcases List.mem_append.mp hc with e | e
      · exact sideChars_noDash _ hokI c e
      · simp at e; subst e; decide
    have pA : parseSide (sideChars m.inputs ++ [' ']) = .ok m.inputs := by
      have := parseSide_side m.inputs hne hokI (fun a ha => hv.names a (List.mem_append_left _ ha))
        [] [' '] (Or.inl rfl) (Or.inr rfl)
      simpa using this
    have := parseChars_text m.inputs m.outputs _ _ hA hB pA pB hp
    rw [hi] at this
    simp only [List.cons_append, List.nil_append, List.append_assoc] at this ⊢
    rw [this]
    cases m; simp_all

end PF.MS
