import PfModel.Lemmas.PipeCacheSim
import PfModel.Lemmas.PipeCacheOnce
/-!
C09, extension: "a function whose key is found does not run" — in EVERY frame, with or without `full_output`.

For a call that succeeds without a cache, from a cache whose entries are right: the functions executed and the functions
taken from the cache are disjoint (and the functions taken from the cache are taken once).  The invariant: every output of
an executed function *and of a function taken from the cache* is in the memo `all_results` — the second half is where the
rightness of the entry is used (a right entry unpacks to all outputs).  `runC_complete` serves as the oracle for the value
invariants of the intermediate states (the run is deterministic).
-/
namespace PF.PipeCache
open PF PF.Pipe

variable {H C : Type}

structure HO (fs : List Func) (s : CSt H C) : Prop where
  called : ∀ f ∈ fs, f.name ∈ s.calls → ∀ q ∈ f.outputs, (alookup s.memo q).isSome
  hitted : ∀ f ∈ fs, f.name ∈ hitNames fs s.hits → ∀ q ∈ f.outputs, (alookup s.memo q).isSome
  disj : ∀ nm ∈ hitNames fs s.hits, nm ∉ s.calls
  nodup : (hitNames fs s.hits).Nodup

structure HOFrame (fs : List Func) (rk : String → Nat) (bound : Nat) (strict : Bool) (s s' : CSt H C) : Prop where
  calls : ∃ add, s'.calls = s.calls ++ add ∧ ∀ nm ∈ add, if strict then rk nm < bound else rk nm ≤ bound
  hits : ∃ add, s'.hits = s.hits ++ add ∧ ∀ nm ∈ hitNames fs add, if strict then rk nm < bound else rk nm ≤ bound
  mono : ∀ q, (alookup s.memo q).isSome → (alookup s'.memo q).isSome

theorem hitNames_append (fs : List Func) (a b : List (Key H)) : hitNames fs (a ++ b) = hitNames fs a ++ hitNames fs b := by
  simp [hitNames]

section HitOnce
variable (P : Policy H C) (h : Val → H) (cached : Func → Bool)
  (fs : List Func) (rank : String → Nat) (rk : String → Nat) (kw : List (String × Val)) (full : Bool)

def RecHO (n : Nat) (r : String → CSt H C → Except Err (Val × CSt H C)) : Prop :=
  ∀ p s k w w' s', alookup kw p = none → compose fs kw k p = .ok w → rank p < n → GoodC fs kw s → Inv P h fs s.cache →
    HO fs s → r p s = .ok (w', s') → HO fs s' ∧ ∀ g, producer fs p = some g → HOFrame fs rk (rk g.name) false s s'

theorem argsWithC_ho (wf : WF fs rank) (hw : WFp fs rk) (n : Nat) (r : String → CSt H C → Except Err (Val × CSt H C))
    (hc : RecC P h fs rank kw n r) (hr : RecHO P h fs rank rk kw n r) (f : Func) (hfm : f ∈ fs) (o : String)
    (hf : producer fs o = some f) (ho : rank o < n + 1) :
    ∀ ps : List (String × String), (∀ pq ∈ ps, pq ∈ f.params) → ∀ (s : CSt H C) k args args' s',
      composeArgsWith (compose fs kw k) fs kw f ps = .ok args → GoodC fs kw s → Inv P h fs s.cache → HO fs s →
      argsWithC r fs kw f ps s = .ok (args', s') → HO fs s' ∧ HOFrame fs rk (rk f.name) true s s' := by
  intro ps
  induction ps with
  | nil =>
    intro _ s k args args' s' _ _ _ hho hrun
    simp only [argsWithC, Except.ok.injEq, Prod.mk.injEq] at hrun
    obtain ⟨_, rfl⟩ := hrun
    exact ⟨hho, ⟨[], by simp, by simp⟩, ⟨[], by simp, by simp [hitNames]⟩, fun q hq => hq⟩
  | cons pq ps ih =>
    obtain ⟨p, orig⟩ := pq
    intro hsub s k args args' s' hca hg hi hho hrun
    have hsub' : ∀ pq ∈ ps, pq ∈ f.params := fun pq hpq => hsub pq (List.mem_cons_of_mem _ hpq)
    simp only [composeArgsWith] at hca
    simp only [argsWithC] at hrun
    cases hres : resolve fs kw f p with
    | missing => simp [hres] at hca
    | val v =>
      simp only [hres] at hca hrun
      cases hrest : composeArgsWith (compose fs kw k) fs kw f ps with
      | error e => simp [hrest] at hca
      | ok rest =>
        cases hrestC : argsWithC r fs kw f ps { s with used := s.used ++ [p] } with
        | error e => simp [hrestC] at hrun
        | ok r2 =>
          obtain ⟨restC, s2⟩ := r2
          simp only [hrestC, Except.ok.injEq, Prod.mk.injEq] at hrun
          obtain ⟨_, rfl⟩ := hrun
          obtain ⟨i2, fr2⟩ := ih hsub' { s with used := s.used ++ [p] } k rest restC s2 hrest hg hi
            ⟨hho.called, hho.hitted, hho.disj, hho.nodup⟩ hrestC
          exact ⟨i2, fr2.calls, fr2.hits, fr2.mono⟩
    | upstream =>
      simp only [hres] at hca hrun
      obtain ⟨hb, hkp, hpp⟩ := PF.PipeCache.resolve_upstream fs kw f p hres
      obtain ⟨g, hgp⟩ := Option.isSome_iff_exists.mp hpp
      cases hcp : compose fs kw k p with
      | error e => simp [hcp] at hca
      | ok v =>
        simp only [hcp] at hca
        cases hrest : composeArgsWith (compose fs kw k) fs kw f ps with
        | error e => simp [hrest] at hca
        | ok rest =>
          have hlt : rank p < n := by
            have := wf.ranked o f hf (p, orig) (hsub _ (by simp)) hb hpp
            simp only at this
            omega
          obtain ⟨s1o, hs1o, hg1, hi1, _⟩ := hc p s k v hkp hcp hlt hg hi
          cases hrp : r p s with
          | error e => simp [hrp] at hrun
          | ok r1 =>
            obtain ⟨v1, s1⟩ := r1
            simp only [hrp] at hrun
            rw [hrp] at hs1o
            injection hs1o with hs1o
            injection hs1o with _ hs1e
            subst hs1e
            cases hrestC : argsWithC r fs kw f ps { s1 with used := s1.used ++ [p] } with
            | error e => simp [hrestC] at hrun
            | ok r2 =>
              obtain ⟨restC, s2⟩ := r2
              simp only [hrestC, Except.ok.injEq, Prod.mk.injEq] at hrun
              obtain ⟨_, rfl⟩ := hrun
              obtain ⟨i1, fr1⟩ := hr p s k v v1 s1 hkp hcp hlt hg hi hho hrp
              have fr1 := fr1 g hgp
              obtain ⟨i2, fr2⟩ := ih hsub' { s1 with used := s1.used ++ [p] } k rest restC s2 hrest hg1 hi1
                ⟨i1.called, i1.hitted, i1.disj, i1.nodup⟩ hrestC
              have hltf : rk g.name < rk f.name := hw.acyc f hfm (p, orig) (hsub _ (by simp)) g hgp hb
              refine ⟨i2, ?_, ?_, fun q hq => fr2.mono q (fr1.mono q hq)⟩
              · obtain ⟨a1, e1, b1⟩ := fr1.calls
                obtain ⟨a2, e2, b2⟩ := fr2.calls
                refine ⟨a1 ++ a2, by simp only [] at e2; rw [e2, e1, List.append_assoc], ?_⟩
                intro nm hnm
                rcases List.mem_append.mp hnm with h1 | h2
                · have := b1 nm h1
                  simp only [Bool.false_eq_true, ↓reduceIte] at this
                  simp only [↓reduceIte]; omega
                · exact b2 nm h2
              · obtain ⟨a1, e1, b1⟩ := fr1.hits
                obtain ⟨a2, e2, b2⟩ := fr2.hits
                refine ⟨a1 ++ a2, by simp only [] at e2; rw [e2, e1, List.append_assoc], ?_⟩
                intro nm hnm
                rw [hitNames_append] at hnm
                rcases List.mem_append.mp hnm with h1 | h2
                · have := b1 nm h1
                  simp only [Bool.false_eq_true, ↓reduceIte] at this
                  simp only [↓reduceIte]; omega
                · exact b2 nm h2

theorem runC_ho (hinj : ∀ a b, h a = h b → a = b) (wf : WF fs rank) (hw : WFp fs rk) :
    ∀ n, RecHO P h fs rank rk kw n (runC P cached (computeKey h fs) fs kw full n) := by
  intro n
  induction n with
  | zero => intro p s k w w' s' _ _ hr; omega
  | succ n ihn =>
    intro p s k w w' s' hkp hc hr hg hi hho hrun
    rw [runC_succ] at hrun
    cases hm : alookup s.memo p with
    | some x =>
      simp only [hm, Except.ok.injEq, Prod.mk.injEq] at hrun
      obtain ⟨_, rfl⟩ := hrun
      exact ⟨hho, fun g _ => ⟨⟨[], by simp, by simp⟩, ⟨[], by simp, by simp [hitNames]⟩, fun q hq => hq⟩⟩
    | none =>
      simp only [hm] at hrun
      cases k with
      | zero => simp [compose] at hc
      | succ k =>
        have hc0 := hc
        rw [compose_succ] at hc
        cases hf : producer fs p with
        | none => simp [hf] at hc
        | some f =>
          obtain ⟨hfm, hpo⟩ := producer_mem fs p f hf
          simp only [hf] at hc hrun
          cases hargs : composeArgsWith (compose fs kw k) fs kw f f.params with
          | error e => simp [hargs] at hc
          | ok args =>
            have hall : ∀ q w, alookup (outVals f args) q = some w → compose fs kw (k+1) q = .ok w :=
              outputs_compose fs rank kw wf f hfm k args hargs
            -- f is accounted for nowhere yet: its output `p` is not in the memo
            have hnc : f.name ∉ s.calls := by
              intro hcx
              have := hho.called f hfm hcx p hpo
              rw [hm] at this; simp at this
            have hnh : f.name ∉ hitNames fs s.hits := by
              intro hcx
              have := hho.hitted f hfm hcx p hpo
              rw [hm] at this; simp at this
            have hkey : ∀ K, (if cached f then computeKey h fs kw f p else none) = some K → computeKey h fs kw f p = some K := by
              intro K hK
              cases hcf : cached f <;> simp [hcf] at hK
              exact hK
            generalize (if cached f then computeKey h fs kw f p else none) = key at hkey hrun
            have hrc := runC_complete P h cached fs rank kw full hinj wf n
            cases hl : lookupC P key s.cache with
            | some hit =>
              obtain ⟨K, r, c'⟩ := hit
              simp only [hl] at hrun
              obtain ⟨hK, hget⟩ := lookupC_some P key s.cache K r c' hl
              have hck := hkey K hK
              have hvalid : Valid h fs K r := hi K r (P.get_res _ _ _ _ hget)
              have hi1 : Inv P h fs c' := fun K' r' hr' => hi K' r' (P.get_sub _ _ _ _ hget K' r' hr')
              have hKo : K.outs = f.outputs := (computeKey_some h fs kw f p K hck).2.2
              have hname : nameOfOuts fs K.outs = f.name := by rw [hKo]; exact nameOfOuts_self fs hw.uniq f hfm p hpo
              -- a right entry unpacks to every output of f
              have hfullunpack : ∀ q ∈ f.outputs, (alookup (unpack f r ++ s.memo) q).isSome := by
                intro q hq
                obtain ⟨w1, hw1⟩ := outVals_has f args q hq
                have hpq := producer_of_mem fs rank wf f hfm q hq
                have hckq : computeKey h fs kw f q = some K := by
                  rw [computeKey_congr_out h fs kw f q p (by rw [hpq, hf])]; exact hck
                have := hvalid f q kw (k+1) w1 hpq hckq (hall q w1 hw1)
                rw [alookup_append, this]; rfl
              have hg1 : GoodC fs kw ({ s with memo := unpack f r ++ s.memo, cache := c', hits := s.hits ++ [K] } : CSt H C) := by
                intro q v hq hqm
                simp only at hqm
                rw [alookup_append] at hqm
                split at hqm
                · next v' hv' =>
                  injection hqm with e; subst e
                  have hqo := unpack_keys f r q v' hv'
                  have hpq := producer_of_mem fs rank wf f hfm q hqo
                  obtain ⟨w1, hw1⟩ := outVals_has f args q hqo
                  have hcq := hall q w1 hw1
                  have hckq : computeKey h fs kw f q = some K := by
                    rw [computeKey_congr_out h fs kw f q p (by rw [hpq, hf])]; exact hck
                  have := hvalid f q kw (k+1) w1 hpq hckq hcq
                  rw [hv'] at this
                  injection this with e
                  subst e
                  exact ⟨k+1, hcq⟩
                · exact hg q v hq hqm
              have hho1 : HO fs ({ s with memo := unpack f r ++ s.memo, cache := c', hits := s.hits ++ [K] } : CSt H C) := by
                refine ⟨?_, ?_, ?_, ?_⟩
                · intro g hgm hcx q hq
                  exact alookup_append_right_isSome _ _ q (hho.called g hgm hcx q hq)
                · intro g hgm hcx q hq
                  have hcx' : g.name ∈ hitNames fs (s.hits ++ [K]) := hcx
                  rw [hitNames_snoc, hname] at hcx'
                  rcases List.mem_append.mp hcx' with h0 | h1
                  · exact alookup_append_right_isSome _ _ q (hho.hitted g hgm h0 q hq)
                  · simp at h1
                    have : g = f := hw.names g hgm f hfm h1
                    subst this
                    exact hfullunpack q hq
                · intro nm hnm
                  have hnm' : nm ∈ hitNames fs (s.hits ++ [K]) := hnm
                  rw [hitNames_snoc, hname] at hnm'
                  rcases List.mem_append.mp hnm' with h0 | h1
                  · exact hho.disj nm h0
                  · simp at h1; subst h1; exact hnc
                · show (hitNames fs (s.hits ++ [K])).Nodup
                  rw [hitNames_snoc, hname]
                  exact List.nodup_append.mpr ⟨hho.nodup, by simp, by
                    intro a ha b hb; simp at hb; subst hb; intro e; subst e; exact hnh ha⟩
              by_cases hfull : full = true
              · rw [if_pos hfull] at hrun
                cases hargsC : argsWithC (runC P cached (computeKey h fs) fs kw full n) fs kw f f.params
                    { s with memo := unpack f r ++ s.memo, cache := c', hits := s.hits ++ [K] } with
                | error e => simp [hargsC] at hrun
                | ok r2 =>
                  obtain ⟨a, s2⟩ := r2
                  simp only [hargsC] at hrun
                  cases hx : alookup s2.memo p with
                  | none => simp [hx] at hrun
                  | some x =>
                    simp only [hx, Except.ok.injEq, Prod.mk.injEq] at hrun
                    obtain ⟨_, rfl⟩ := hrun
                    obtain ⟨i2, fr2⟩ := argsWithC_ho P h fs rank rk kw wf hw n _ hrc ihn f hfm p hf hr f.params (fun _ x => x)
                      _ k args a s2 hargs hg1 hi1 hho1 hargsC
                    refine ⟨i2, ?_⟩
                    intro g hgp
                    cases hgp
                    obtain ⟨ac, ec, bc⟩ := fr2.calls
                    obtain ⟨ah, eh, bh⟩ := fr2.hits
                    refine ⟨⟨ac, ec, ?_⟩, ⟨[K] ++ ah, ?_, ?_⟩, fun q hq => fr2.mono q (alookup_append_right_isSome _ _ q hq)⟩
                    · intro nm hnm
                      have := bc nm hnm
                      simp only [↓reduceIte] at this
                      simp only [Bool.false_eq_true, ↓reduceIte]; omega
                    · simp only [] at eh; rw [eh, List.append_assoc]
                    · intro nm hnm
                      rw [hitNames_append] at hnm
                      rcases List.mem_append.mp hnm with h0 | h1
                      · simp only [hitNames, List.map_cons, List.map_nil, List.mem_singleton] at h0
                        rw [h0, hname]
                        simp
                      · have := bh nm h1
                        simp only [↓reduceIte] at this
                        simp only [Bool.false_eq_true, ↓reduceIte]; omega
              · rw [if_neg hfull] at hrun
                cases hx : alookup (unpack f r ++ s.memo) p with
                | none => simp [hx] at hrun
                | some x =>
                  simp only [hx, Except.ok.injEq, Prod.mk.injEq] at hrun
                  obtain ⟨_, rfl⟩ := hrun
                  refine ⟨⟨hho1.called, hho1.hitted, hho1.disj, hho1.nodup⟩, ?_⟩
                  intro g hgp
                  cases hgp
                  refine ⟨⟨[], by simp, by simp⟩, ⟨[K], rfl, ?_⟩, fun q hq => alookup_append_right_isSome _ _ q hq⟩
                  intro nm hnm
                  simp only [hitNames, List.map_cons, List.map_nil, List.mem_singleton] at hnm
                  rw [hnm, hname]
                  simp
            | none =>
              simp only [hl] at hrun
              cases hargsC : argsWithC (runC P cached (computeKey h fs) fs kw full n) fs kw f f.params s with
              | error e => simp [hargsC] at hrun
              | ok r2 =>
                obtain ⟨a, s1⟩ := r2
                simp only [hargsC] at hrun
                cases hov : alookup (outVals f a) p with
                | none => simp [hov] at hrun
                | some x =>
                  simp only [hov, Except.ok.injEq, Prod.mk.injEq] at hrun
                  obtain ⟨_, rfl⟩ := hrun
                  obtain ⟨i1, fr1⟩ := argsWithC_ho P h fs rank rk kw wf hw n _ hrc ihn f hfm p hf hr f.params (fun _ x => x)
                    s k args a s1 hargs hg hi hho hargsC
                  obtain ⟨ac, ec, bc⟩ := fr1.calls
                  obtain ⟨ah, eh, bh⟩ := fr1.hits
                  have hnc1 : f.name ∉ s1.calls := by
                    rw [ec]; intro hcx
                    rcases List.mem_append.mp hcx with h0 | h1
                    · exact hnc h0
                    · have := bc _ h1; simp at this
                  have hnh1 : f.name ∉ hitNames fs s1.hits := by
                    rw [eh, hitNames_append]; intro hcx
                    rcases List.mem_append.mp hcx with h0 | h1
                    · exact hnh h0
                    · have := bh _ h1; simp at this
                  refine ⟨⟨?_, ?_, ?_, ?_⟩, ?_⟩
                  · intro g hgm hcx q hq
                    show (alookup (outVals f a ++ s1.memo) q).isSome
                    have hcx' : g.name ∈ s1.calls ++ [f.name] := hcx
                    rcases List.mem_append.mp hcx' with h0 | h1
                    · exact alookup_append_right_isSome _ _ q (i1.called g hgm h0 q hq)
                    · simp at h1
                      have : g = f := hw.names g hgm f hfm h1
                      subst this
                      obtain ⟨y, hy⟩ := Option.isSome_iff_exists.mp (mem_outVals_keys g a q hq)
                      rw [alookup_append, hy]; rfl
                  · intro g hgm hcx q hq
                    exact alookup_append_right_isSome _ _ q (i1.hitted g hgm hcx q hq)
                  · intro nm hnm hcx
                    have hcx' : nm ∈ s1.calls ++ [f.name] := hcx
                    rcases List.mem_append.mp hcx' with h0 | h1
                    · exact i1.disj nm hnm h0
                    · simp at h1; subst h1; exact hnh1 hnm
                  · exact i1.nodup
                  · intro g hgp
                    cases hgp
                    refine ⟨⟨ac ++ [f.name], ?_, ?_⟩, ⟨ah, eh, ?_⟩, fun q hq => alookup_append_right_isSome _ _ q (fr1.mono q hq)⟩
                    · show s1.calls ++ [f.name] = s.calls ++ (ac ++ [f.name])
                      rw [ec, List.append_assoc]
                    · intro nm hnm
                      rcases List.mem_append.mp hnm with h0 | h1
                      · have := bc nm h0
                        simp only [↓reduceIte] at this
                        simp only [Bool.false_eq_true, ↓reduceIte]; omega
                      · simp at h1; subst h1; simp
                    · intro nm hnm
                      have := bh nm hnm
                      simp only [↓reduceIte] at this
                      simp only [Bool.false_eq_true, ↓reduceIte]; omega

end HitOnce

end PF.PipeCache
