import PfModel.Model.RunInfoHist
import PfModel.Lemmas.RunInfoResume
import PfModel.Lemmas.RunInfoAgree
/-! Helper lemmas for run-folder histories (Model/RunInfoHist.lean): the slots of a run in pieces (`PF.Pieces.runPart`) have the
    geometry `map_shapes` computed, hence `init_store` on the record of the run finds them (`agreeSlot`), for every previous store. -/
namespace PF.RIC
open PF PF.Map PF.Pieces

theorem loadSingles_mem (old : List (String × Slot)) : ∀ (outs : List String) (vs : List (String × Val)),
    loadSingles old outs = some vs → ∀ ov ∈ vs, ov.1 ∈ outs := by
  intro outs
  induction outs with
  | nil =>
    intro vs h ov hov
    simp only [loadSingles, Option.some.injEq] at h
    subst h; cases hov
  | cons o r ih =>
    intro vs h ov hov
    simp only [loadSingles] at h
    split at h
    · next v vs' _ hr =>
      simp only [Option.some.injEq] at h
      subst h
      rcases List.mem_cons.mp hov with e | hm
      · subst e; exact List.mem_cons_self ..
      · exact List.mem_cons_of_mem _ (ih vs' hr ov hm)
    · cases h

theorem runSinglePart_slots (fs : List MFunc) (old : List (String × Slot)) (env : Env) (f : MFunc) (r : FuncResult)
    (h : runSinglePart fs old env f = .ok r) : ∀ os ∈ r.slots, os.1 ∈ f.outputs ∧ ∃ v, os.2 = .single v := by
  unfold runSinglePart at h
  split at h
  · exact runSingle_slots fs env f r h
  · split at h
    · next vs hvs =>
      simp only [pure, Except.pure, Except.ok.injEq] at h
      subst h
      intro os hos
      simp only [List.mem_map] at hos
      obtain ⟨ov, hov, e⟩ := hos
      subst e
      exact ⟨loadSingles_mem old f.outputs vs hvs ov hov, _, rfl⟩
    · exact runSingle_slots fs env f r h

theorem runMappedSel_slots (fs : List MFunc) (old : List (String × Slot)) (sel : Nat → Bool) (env : Env) (f : MFunc) (ms : MSpec)
    (sh : List Nat) (mk : List Bool) (r : FuncResult) (h : runMappedSel fs old sel env f ms sh mk = .ok r) :
    ∀ os ∈ r.slots, os.1 ∈ f.outputs ∧ ∃ cells, os.2 = .array sh mk cells := by
  unfold runMappedSel at h
  simp only [bind, Except.bind] at h
  split at h
  · cases h
  · next argsAt _ =>
    simp only [pure, Except.pure, Except.ok.injEq] at h
    subst h
    intro os hos
    simp only [List.mem_map] at hos
    obtain ⟨o, ho, e⟩ := hos
    subst e
    exact ⟨ho, _, rfl⟩

theorem runMappedPart_slots (fs : List MFunc) (old : List (String × Slot)) (fixed : Option (List (String × Sel))) (env : Env) (f : MFunc)
    (ms : MSpec) (sh : List Nat) (mk : List Bool) (r : FuncResult) (h : runMappedPart fs old fixed env f ms sh mk = .ok r) :
    ∀ os ∈ r.slots, os.1 ∈ f.outputs ∧ ∃ cells, os.2 = .array sh mk cells := by
  unfold runMappedPart at h
  simp only [bind, Except.bind] at h
  split at h
  · cases h
  · exact runMappedSel_slots fs old _ env f ms sh mk r h

theorem runFuncPart_slots (fs : List MFunc) (shapes : List (String × List Nat)) (masks : List (String × List Bool))
    (fixed : Option (List (String × Sel))) (old : List (String × Slot)) (env : Env) (f : MFunc) (r : FuncResult)
    (h : runFuncPart fs shapes masks fixed old env f = .ok r) : ∀ os ∈ r.slots, SlotOf shapes masks f os := by
  intro os hos
  unfold runFuncPart at h
  cases hms : f.mapspec with
  | none =>
    simp only [hms] at h
    obtain ⟨h1, v, h2⟩ := runSinglePart_slots fs old env f r h os hos
    exact ⟨h1, Or.inl ⟨v, h2, fun ms e => by rw [hms] at e; cases e⟩⟩
  | some ms =>
    simp only [hms] at h
    by_cases hin : ms.inputs.isEmpty = true
    · simp only [hin, if_true] at h
      obtain ⟨h1, v, h2⟩ := runSinglePart_slots fs old env f r h os hos
      exact ⟨h1, Or.inl ⟨v, h2, fun ms' e => by rw [hms] at e; cases e; exact hin⟩⟩
    · simp only [hin, Bool.false_eq_true, if_false] at h
      cases hh : f.outputs.head? with
      | none => simp [hh, throw, throwThe, MonadExceptOf.throw] at h
      | some o =>
        simp only [hh] at h
        cases hs : alookup shapes o with
        | none => simp [hs, throw, throwThe, MonadExceptOf.throw] at h
        | some sh =>
          cases hk : alookup masks o with
          | none => simp [hs, hk, throw, throwThe, MonadExceptOf.throw] at h
          | some mk =>
            simp only [hs, hk] at h
            split at h
            · simp [throw, throwThe, MonadExceptOf.throw] at h
            · obtain ⟨h1, cells, h2⟩ := runMappedPart_slots fs old fixed env f ms sh mk r h os hos
              exact ⟨h1, Or.inr ⟨ms, o, sh, mk, cells, hms, by simpa using hin, hh, hs, hk, h2⟩⟩

/-- a successful run in pieces consulted `map_shapes`, and every slot of its store belongs to a function of the pipeline and has
    the geometry `map_shapes` computed — whatever the previous store held -/
theorem runPart_slots (fs : List MFunc) (inputs : List (String × Val)) (ui : List (String × List Nat))
    (fixed : Option (List (String × Sel))) (old : List (String × Slot)) (part : PartResult)
    (h : runPart fs inputs ui fixed old = .ok part) :
    mapShapes fs inputs (constructInternal fs ui) = .ok (part.res.shapes, part.res.masks) ∧
    ∀ os ∈ part.store, ∃ f ∈ (generations fs).flatten, SlotOf part.res.shapes part.res.masks f os := by
  unfold runPart at h
  simp only [bind, Except.bind] at h
  cases hv : validateInputs fs inputs with
  | error e => simp [hv] at h
  | ok u =>
    simp only [hv] at h
    by_cases hc : (generations fs).flatten.length ≠ fs.length
    · rw [if_pos hc] at h
      simp [throw, throwThe, MonadExceptOf.throw] at h
    · simp only [hc, if_false] at h
      cases hvf : validateFixed fs inputs fixed with
      | error e => simp [hvf] at h
      | ok u2 =>
        simp only [hvf] at h
        cases hsm : mapShapes fs inputs (constructInternal fs ui) with
        | error e => simp [hsm] at h
        | ok sm =>
          simp only [hsm] at h
          cases hre : runGensWith (runFuncPart fs sm.1 sm.2 fixed old) (generations fs) { inputs := inputs, store := [] } with
          | error e => simp [hre] at h
          | ok re =>
            simp only [hre, pure, Except.pure, Except.ok.injEq] at h
            subst h
            refine ⟨rfl, ?_⟩
            exact runGens_slots (runFuncPart fs sm.1 sm.2 fixed old) (fun os => ∃ f ∈ (generations fs).flatten, SlotOf sm.1 sm.2 f os)
              (generations fs) _ re.1 re.2 (by cases re; exact hre)
              (fun f hf env r hr os hos => ⟨f, hf, runFuncPart_slots fs sm.1 sm.2 fixed old env f r hr os hos⟩)
              (fun os hos => by cases hos)

/-- `agreeSlot_of_run` for any store whose slots have the geometry of the `map_shapes` tables the record was created from -/
theorem agreeSlot_of_slots (parse : String → Option MSpec) (fs : List MFunc) (tupled intForm : List String)
    (inputs : List (String × Val)) (user : List (String × IShape)) (storage : Storage) (version : String)
    (shapes : List (String × List Nat)) (masks : List (String × List Bool)) (store : List (String × Slot))
    (hsm : mapShapes fs inputs (constructInternal fs (user.map fun kv => (kv.1, kv.2.dims))) = .ok (shapes, masks))
    (hslots : ∀ os ∈ store, ∃ f ∈ (generations fs).flatten, SlotOf shapes masks f os)
    (H : Recorded parse fs storage) :
    ∀ os ∈ store, agreeSlot parse (createRunInfo fs tupled intForm inputs user storage version shapes masks)
      (backendFor fs storage) os.1 os.2 = true := by
  intro os hos
  obtain ⟨f, hf, ho, hkind⟩ := hslots os hos
  obtain ⟨o, s⟩ := os
  simp only at ho hkind
  have hfs := generations_mem fs f hf
  have hrec : ∀ ms, f.mapspec = some ms → ∀ o' ∈ f.outputs, (alookup shapes o').isSome = true := by
    intro ms hms o' ho'
    exact mapShapes_records fs inputs _ _ hsm f hf ms hms o' ho'
  have hspecs : mapOpt parse (createRunInfo fs tupled intForm inputs user storage version shapes masks).mapspecs =
      some ((generations fs).flatten.filterMap (·.mapspec)) :=
    mapOpt_filterMap parse (fun f : MFunc => f.mapspec) printSpec (generations fs).flatten
      (fun a ha b hb => H.parse_print a (generations_mem fs a ha) b hb)
  have hfind := find_spec fs H.spec_outputs H.outputs_nodup f hf o ho
  have hall : o ∈ (createRunInfo fs tupled intForm inputs user storage version shapes masks).allOutputNames :=
    List.mem_flatMap.mpr ⟨f, hfs, ho⟩
  have hne : f.outputs ≠ [] := by intro e; rw [e] at ho; cases ho
  rcases hkind with ⟨v, hs, hsingle⟩ | ⟨ms, h, sh, mk, cells, hms, hin, hh, hsh, hmk, hs⟩
  · subst hs
    simp only [agreeSlot, initEntry, hspecs, bind, Option.bind, beq_iff_eq]
    rw [hfind]
    cases hms : f.mapspec with
    | none => simp only [hall, if_true]
    | some ms =>
      obtain ⟨h, hh⟩ : ∃ h, f.outputs.head? = some h := by
        cases hout : f.outputs with
        | nil => exact absurd hout hne
        | cons a _ => exact ⟨a, rfl⟩
      have hhm : h ∈ f.outputs := by
        cases hout : f.outputs with
        | nil => exact absurd hout hne
        | cons a r => rw [hout] at hh; simp only [List.head?_cons, Option.some.injEq] at hh; subst hh; simp
      obtain ⟨sh, hsh⟩ := Option.isSome_iff_exists.mp (hrec ms hms h hhm)
      have hkey := keyFor_keyed fs tupled shapes H.outputs_nodup f hf ms hms h hh sh hsh
      simp only [keyFor, createRunInfo, H.spec_outputs f hfs ms hms, hkey, hsingle ms hms, if_true]
      simp only [createRunInfo] at hall
      simp only [hall, if_true]
  · subst hs
    have hprod : producer fs o = some f := producer_of_mem fs H.outputs_nodup f hfs o ho
    obtain ⟨b, hb⟩ := Option.isSome_iff_exists.mp (H.storage_ok f hfs ms hms hin)
    have hbk : backendFor fs storage o = some b := by simp only [backendFor, hprod, hb]
    have hkey := keyFor_keyed fs tupled shapes H.outputs_nodup f hf ms hms h hh sh hsh
    have hks := klookup_keyed fs tupled shapes H.outputs_nodup f hf ms hms h hh sh hsh
    have hkm := klookup_keyed fs tupled masks H.outputs_nodup f hf ms hms h hh mk hmk
    simp only [agreeSlot, hbk, initEntry, hspecs, bind, Option.bind, beq_iff_eq]
    rw [hfind, hms]
    simp only [keyFor, createRunInfo, H.spec_outputs f hfs ms hms, hkey, hin, Bool.false_eq_true, if_false, hks, hkm, hb]

/-- what an accepted transition did: `map_shapes`, an accepted `RunInfo.create` on the folder as it was, the run on the store
    `init_store` opened on the folder so prepared, and the writes of that run's store -/
theorem stepRun_ok (c : HistCfg) (eqv : Val → Val → Bool) (pm : Bool) (fo fo' : Folder) (q : Req) (part : PartResult)
    (h : stepRun c eqv pm fo q = .ok (fo', part)) :
    ∃ shapes masks fo1,
      mapShapes c.fs q.inputs (constructInternal c.fs c.ui) = .ok (shapes, masks) ∧
      createOn eqv q.cleanup fo (c.info q shapes masks) = .ok fo1 ∧
      runPart c.fs q.inputs c.ui q.fixed (openStore c.parse (c.info q shapes masks) fo1) = .ok part ∧
      fo' = writeStore pm (backendFor c.fs q.storage) part.store fo1 := by
  unfold stepRun at h
  cases hsm : mapShapes c.fs q.inputs (constructInternal c.fs c.ui) with
  | error e => simp [hsm] at h
  | ok sm =>
    obtain ⟨shapes, masks⟩ := sm
    simp only [hsm] at h
    cases hc : createOn eqv q.cleanup fo (c.info q shapes masks) with
    | error e => simp [hc] at h
    | ok fo1 =>
      simp only [hc] at h
      cases hr : runPart c.fs q.inputs c.ui q.fixed (openStore c.parse (c.info q shapes masks) fo1) with
      | error e => simp [hr] at h
      | ok p =>
        simp only [hr, Except.ok.injEq, Prod.mk.injEq] at h
        obtain ⟨h1, h2⟩ := h
        subst h2
        exact ⟨shapes, masks, fo1, rfl, hc, hr, h1.symm⟩

theorem runHist_append (c : HistCfg) (eqv : Val → Val → Bool) (pm : Bool) (fo : Folder) (qs : List Req) (q : Req) :
    runHist c eqv pm fo (qs ++ [q]) = match runHist c eqv pm fo qs with
      | .error e => .error e
      | .ok (f1, parts) =>
        match stepRun c eqv pm f1 q with
        | .error e => .error e
        | .ok (f2, part) => .ok (f2, parts ++ [part]) := by
  induction qs generalizing fo with
  | nil =>
    simp only [List.nil_append, runHist]
    cases stepRun c eqv pm fo q with
    | error e => rfl
    | ok p => obtain ⟨f2, part⟩ := p; rfl
  | cons y ys ih =>
    simp only [List.cons_append, runHist]
    cases stepRun c eqv pm fo y with
    | error e => rfl
    | ok p =>
      obtain ⟨f1, p1⟩ := p
      simp only [ih f1]
      cases runHist c eqv pm f1 ys with
      | error e => rfl
      | ok p2 =>
        obtain ⟨f2, parts⟩ := p2
        simp only
        cases stepRun c eqv pm f2 q with
        | error e => rfl
        | ok p3 => obtain ⟨f3, part⟩ := p3; rfl

end PF.RIC
