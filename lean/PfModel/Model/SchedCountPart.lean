/-
Call counts of the parallel runner on a store that already holds elements / with `fixed_indices` (`PF.SchedP.runPartSched`, both
ways of awaiting: `Pipeline.map` and `Pipeline.map_async`): what the property demands of a partial or resumed run — one
invocation per index that is selected by `fixed_indices` AND missing in the store (`len(args.missing)`, `_existing_and_missing_indices
:579-598`), one for an un-mapped function unless a previous run stored all its outputs (`_execute_single :785-808` loads them).
Core Lean only.
-/
import PfModel.Model.SchedPart
import PfModel.Model.SchedCount
namespace PF.SchedC
open PF PF.Map PF.Sched PF.Pieces PF.SchedP

def demOfPlan (old : List (String × Slot)) (f : MFunc) : PlanP → Nat
  | .mapped _ _ _ _ todo => todo.length
  | .single => if (loadedOf old f).isSome then 0 else 1
  | .bad _ => 0

def demandedP (shapes : List (String × List Nat)) (masks : List (String × List Bool)) (fixed : Option (List (String × Sel)))
    (old : List (String × Slot)) (f : MFunc) : Nat := demOfPlan old f (planOfP shapes masks fixed old f)

/-- per function of every generation: (name, how often invoked, how often demanded) -/
def callTableP (fs : List MFunc) (shapes : List (String × List Nat)) (masks : List (String × List Bool))
    (fixed : Option (List (String × Sel))) (old : List (String × Slot)) (trs : List GenTrace) : List (String × Nat × Nat) :=
  (generations fs).flatten.map fun f => (f.name, callCount f.name trs, demandedP shapes masks fixed old f)

end PF.SchedC
