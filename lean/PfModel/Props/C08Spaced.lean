import PfModel.Lemmas.MapSpecSpaced
/-!
C08, round 9 — `from_string` is insensitive to whitespace where the grammar says so.

`SpSpec` (Model/MapSpecSpaced.lean) is a spec written with arbitrary `str.strip()` whitespace before and after every array
(newlines included), around `...` and `->`, and around every index inside the brackets (no newline there).  Every such
text parses to the spec it stands for; `str(m)` is one of these texts, so `C08_roundtrip` is the special case `canon m`.
Property theorems only.
-/
namespace PF.C08
open PF.MS

/-- Every whitespace decoration of a well-formed spec parses back to that spec: any number of arrays, any rank ≥ 1,
    any amount of whitespace (tabs, `\r`, `\v`, `\f`, `\x1c`–`\x1f`, and newlines outside the brackets) before / after the
    commas, the brackets' contents, `...` and `->`.  No bound on anything. -/
theorem C08_parse_spaced (t : SpSpec) (hwf : WF t.erase) (hok : t.ok = true) : parse t.print = .ok t.erase := by
  unfold parse SpSpec.print
  rw [String.toList_ofList]
  exact parseChars_spaced t hwf hok

/-- `MapSpec.__str__` writes one of these texts (`", "` separators, `" -> "`), for every spec. -/
theorem C08_str_is_spacing (m : MapSpec) : (canon m).print = toStr m ∧ (canon m).erase = m ∧ (canon m).ok = true :=
  ⟨by unfold SpSpec.print toStr; rw [canon_chars], canon_erase m, canon_ok m⟩

/-- whitespace-insensitivity proper: two writings of the same well-formed spec parse alike, and like its printing -/
theorem C08_parse_spacing_irrelevant (t u : SpSpec) (hwf : WF t.erase) (ht : t.ok = true) (hu : u.ok = true)
    (he : u.erase = t.erase) : parse u.print = parse t.print ∧ parse t.print = parse (toStr t.erase) := by
  have h1 := C08_parse_spaced t hwf ht
  have h2 := C08_parse_spaced u (he ▸ hwf) hu
  obtain ⟨p1, p2, p3⟩ := C08_str_is_spacing t.erase
  have h3 := C08_parse_spaced (canon t.erase) (by rw [p2]; exact hwf) p3
  rw [p1, p2] at h3
  exact ⟨by rw [h1, h2, he], by rw [h1, h3]⟩

/-- the two restrictions of the grammar are needed: a newline inside the brackets, or whitespace between the name and
    `[`, silently loses that array (`re.findall` finds no match there; mirrored, see REPORT "Mirrored, not violations") -/
theorem C08_spacing_limits_witness :
    parse "a[i,\n j], c[i] -> b[i, j]" = .ok ⟨[⟨"c", [some "i"]⟩], [⟨"b", [some "i", some "j"]⟩]⟩ ∧
    parse "a [i], c[i] -> b[i]" = .ok ⟨[⟨"c", [some "i"]⟩], [⟨"b", [some "i"]⟩]⟩ ∧
    parse "a[i], c[i] - > b[i]" = .error .valueError := ⟨rfl, rfl, rfl⟩

/-! ## non-vacuity -/

example : sp1.print = "\n x[\ti , : ]\r,y.s[ j]\t->\n z[i,j\x0c] " := by decide
example : sp1.ok = true := by decide
example : sp1.erase = ⟨[⟨"x", [some "i", none]⟩, ⟨"y.s", [some "j"]⟩], [⟨"z", [some "i", some "j"]⟩]⟩ := rfl
example : WF sp1.erase := ⟨(valid_iff _).mpr ⟨by decide, rfl⟩, by decide⟩
example : parse sp1.print = .ok sp1.erase := C08_parse_spaced sp1 ⟨(valid_iff _).mpr ⟨by decide, rfl⟩, by decide⟩ (by decide)
example : sp2.print = " \n...\t->b[ i ]" := by decide
example : parse sp2.print = .ok ⟨[], [⟨"b", [some "i"]⟩]⟩ :=
  C08_parse_spaced sp2 ⟨(valid_iff _).mpr ⟨by decide, rfl⟩, by decide⟩ (by decide)
example : sp2.erase = (canon ⟨[], [⟨"b", [some "i"]⟩]⟩).erase := rfl
example : (canon sp1.erase).print = "x[i, :], y.s[j] -> z[i, j]" := by decide

end PF.C08
