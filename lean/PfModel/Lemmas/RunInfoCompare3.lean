import PfModel.Model.RunInfoCompare3
import PfModel.Lemmas.RunInfoResume
/-! Helper lemmas for the three-valued resume check (Model/RunInfoCompare3.lean). -/
namespace PF.RIC
open PF PF.Map

theorem eqLoop3_cons (cmp : String → Val → Val → Option Bool) (b : List (String × Val)) (kv : String × Val)
    (rest : List (String × Val)) (e : Bool) :
    eqLoop3 cmp b (kv :: rest) e = match pairCmp3 cmp b kv with
      | none => eqLoop3 cmp b rest true
      | some false => some false
      | some true => eqLoop3 cmp b rest e := by
  obtain ⟨k, v⟩ := kv
  simp only [eqLoop3, pairCmp3]
  cases alookup b k <;> rfl

theorem eqLoop3_false (cmp : String → Val → Val → Option Bool) (b : List (String × Val)) :
    ∀ (a : List (String × Val)) (e : Bool), eqLoop3 cmp b a e = some false ↔ ∃ kv ∈ a, pairCmp3 cmp b kv = some false := by
  intro a
  induction a with
  | nil => intro e; cases e <;> simp [eqLoop3]
  | cons kv rest ih =>
    intro e
    rw [eqLoop3_cons]
    cases h : pairCmp3 cmp b kv with
    | none => simp [ih, h]
    | some r => cases r <;> simp [ih, h]

theorem eqLoop3_true (cmp : String → Val → Val → Option Bool) (b : List (String × Val)) :
    ∀ (a : List (String × Val)) (e : Bool),
      eqLoop3 cmp b a e = some true ↔ e = false ∧ ∀ kv ∈ a, pairCmp3 cmp b kv = some true := by
  intro a
  induction a with
  | nil => intro e; cases e <;> simp [eqLoop3]
  | cons kv rest ih =>
    intro e
    rw [eqLoop3_cons]
    cases h : pairCmp3 cmp b kv with
    | none => simp [ih, h]
    | some r => cases r <;> simp [ih, h]

theorem eqLoop3_none (cmp : String → Val → Val → Option Bool) (b : List (String × Val)) :
    ∀ (a : List (String × Val)) (e : Bool),
      eqLoop3 cmp b a e = none ↔
        (∀ kv ∈ a, pairCmp3 cmp b kv ≠ some false) ∧ (e = true ∨ ∃ kv ∈ a, pairCmp3 cmp b kv = none) := by
  intro a
  induction a with
  | nil => intro e; cases e <;> simp [eqLoop3]
  | cons kv rest ih =>
    intro e
    rw [eqLoop3_cons]
    cases h : pairCmp3 cmp b kv with
    | none => simp [ih, h]
    | some r => cases r <;> simp [ih, h]

/-- the key-set test of `equal_dicts` is subsumed by the loop (a missing key would make the loop answer `False`) -/
theorem eqDict3_loop (cmp : String → Val → Val → Option Bool) (a b : List (String × Val)) :
    eqDict3 cmp a b = if a.length ≠ b.length then some false else eqLoop3 cmp b a false := by
  unfold eqDict3
  split
  · rfl
  · split
    · next h =>
      obtain ⟨kv, hkv, hn⟩ := List.any_eq_true.mp h
      symm
      rw [eqLoop3_false]
      refine ⟨kv, hkv, ?_⟩
      simp only [pairCmp3]
      cases hl : alookup b kv.1 with
      | none => rfl
      | some w => simp [hl] at hn
    · rfl

/-- with a comparator that never raises the loop is `List.all` -/
theorem eqLoop3_total (eqv3 : Val → Val → Option Bool) (h : ∀ x y, eqv3 x y ≠ none) (b : List (String × Val)) :
    ∀ a : List (String × Val), eqLoop3 (keyless eqv3) b a false = some (a.all fun kv =>
      match alookup b kv.1 with
      | some w => eqv3 kv.2 w == some true
      | none => false) := by
  intro a
  induction a with
  | nil => rfl
  | cons kv rest ih =>
    rw [eqLoop3_cons]
    simp only [pairCmp3, keyless, List.all_cons]
    cases hl : alookup b kv.1 with
    | none => simp
    | some w =>
      cases hc : eqv3 kv.2 w with
      | none => exact absurd hc (h _ _)
      | some r => cases r <;> simp [ih, hc]

theorem eqDict3_total (eqv3 : Val → Val → Option Bool) (h : ∀ x y, eqv3 x y ≠ none) (a b : List (String × Val)) :
    eqDict3 (keyless eqv3) a b = some (eqDict (fun x y => eqv3 x y == some true) a b) := by
  rw [eqDict3_loop, eqLoop3_total eqv3 h]
  unfold eqDict
  by_cases hl : a.length = b.length
  · simp only [hl, ne_eq, not_true_eq_false, if_false, beq_self_eq_true, Bool.true_and]
    congr 2
  · simp [hl]

/-- the first pair that does not compare equal decides `all(_is_equal ...)` -/
theorem allEq3_first (el : Nat → Val → Val → Option Bool) (x y : Val) (rx ry : List Val) :
    ∀ (px py : List Val) (i : Nat), px.length = py.length → allEq3 el i px py = some true →
      allEq3 el i (px ++ x :: rx) (py ++ y :: ry) = match el (i + px.length) x y with
        | none => none
        | some false => some false
        | some true => allEq3 el (i + px.length + 1) rx ry := by
  intro px
  induction px with
  | nil =>
    intro py i hl _
    cases py with
    | nil => simp only [List.nil_append, List.length_nil, Nat.add_zero, allEq3]; rfl
    | cons b bs => simp at hl
  | cons a as ih =>
    intro py i hl ht
    cases py with
    | nil => simp at hl
    | cons b bs =>
      simp only [List.cons_append, allEq3] at ht ⊢
      cases hab : el i a b with
      | none => simp [hab] at ht
      | some r =>
        cases r with
        | false => simp [hab] at ht
        | true =>
          simp only [hab] at ht ⊢
          have := ih bs (i + 1) (by simpa using hl) ht
          rw [this]
          simp only [List.length_cons]
          have e1 : i + 1 + as.length = i + (as.length + 1) := by omega
          rw [e1]

theorem allEq3_true (el : Nat → Val → Val → Option Bool) :
    ∀ (xs ys : List Val) (i : Nat), xs.length = ys.length →
      (allEq3 el i xs ys = some true ↔ ∀ j (h : j < xs.length) (h' : j < ys.length), el (i + j) xs[j] ys[j] = some true) := by
  intro xs
  induction xs with
  | nil => intro ys i hl; cases ys <;> simp [allEq3]
  | cons a as ih =>
    intro ys i hl
    cases ys with
    | nil => simp at hl
    | cons b bs =>
      simp only [allEq3]
      constructor
      · intro h j hj hj'
        cases hab : el i a b with
        | none => simp [hab] at h
        | some r =>
          cases r with
          | false => simp [hab] at h
          | true =>
            simp only [hab] at h
            cases j with
            | zero => simpa using hab
            | succ j =>
              have := (ih bs (i + 1) (by simpa using hl)).mp h j (by simpa using hj) (by simpa using hj')
              simp only [List.getElem_cons_succ]
              have e1 : i + (j + 1) = i + 1 + j := by omega
              rw [e1]; exact this
      · intro h
        have h0 := h 0 (by simp) (by simp)
        simp only [Nat.add_zero, List.getElem_cons_zero] at h0
        simp only [h0]
        apply (ih bs (i + 1) (by simpa using hl)).mpr
        intro j hj hj'
        have := h (j + 1) (by simpa using hj) (by simpa using hj')
        simp only [List.getElem_cons_succ] at this
        have e1 : i + (j + 1) = i + 1 + j := by omega
        rw [← e1]; exact this

theorem createOn3_ok (cmp : String → Val → Val → Option Bool) (cleanup : Bool) (fo fo' : Folder) (r : RunInfo)
    (h : createOn3 cmp cleanup fo r = .ok fo') : ∃ base, fo' = dumpAll base r := by
  unfold createOn3 at h
  split at h
  · exact ⟨Folder.empty, by cases h; rfl⟩
  · cases hc : compareToPrevious3 cmp fo r with
    | error e => simp [hc, Except.map] at h
    | ok u =>
      simp only [hc, Except.map] at h
      exact ⟨fo, by cases h; rfl⟩

theorem runOn3_ok (cmp : String → Val → Val → Option Bool) (pm : Bool) (fo fo' : Folder) (x : Run)
    (h : runOn3 cmp pm fo x = .ok fo') : ∃ base, fo' = writeStore pm x.backend x.store (dumpAll base x.info) := by
  unfold runOn3 at h
  cases hc : createOn3 cmp x.cleanup fo x.info with
  | error e => simp [hc, Except.map] at h
  | ok f1 =>
    simp only [hc, Except.map] at h
    obtain ⟨base, hb⟩ := createOn3_ok cmp x.cleanup fo f1 x.info hc
    exact ⟨base, by cases h; rw [hb]⟩

theorem history3_append (cmp : String → Val → Val → Option Bool) (pm : Bool) (fo : Folder) (xs : List Run) (x : Run) :
    history3 cmp pm fo (xs ++ [x]) = match history3 cmp pm fo xs with
      | .error e => .error e
      | .ok f1 => runOn3 cmp pm f1 x := by
  induction xs generalizing fo with
  | nil =>
    simp only [List.nil_append, history3]
    cases runOn3 cmp pm fo x <;> rfl
  | cons y ys ih =>
    simp only [List.cons_append, history3]
    cases runOn3 cmp pm fo y with
    | error e => rfl
    | ok f1 => exact ih f1

end PF.RIC
