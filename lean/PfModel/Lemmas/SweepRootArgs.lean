/-
`root_args` (`PF.Pipe.rootArgs`, the all-roots entry of `arg_combinations`) characterised by plain reachability: for a
well-formed pipeline (`WFp`) whose graph nodes have distinct sort keys (`KeyInj`), `rootArgs fs o` lists exactly the root
names that are non-bound parameters of the producer of `o` or of one of its strict ancestors (`Reach`, the relation of
`Lemmas/SweepDeps.lean`).  Rests on the complete-frontier invariant of C02 (`argCombinations_ccut`, in the copy `Lemmas/SweepRootCut.lean`).  Core Lean only.
-/
import PfModel.Lemmas.SweepRootCut
import PfModel.Lemmas.SweepDeps
namespace PF.Sweep.RootCut
open PF PF.Pipe

variable (fs : List Func)

/-- every expanded function of a chain is the start function or one of its strict ancestors -/
theorem Chain.reach {i0 : Nat} {E : List Nat} (h : Chain fs i0 E) : ∀ e ∈ E, e = i0 ∨ Reach fs i0 e := by
  induction h with
  | base => intro e he; simp at he; exact Or.inl he
  | @snoc E j c p _ hc hedge ih =>
    intro e he
    rcases List.mem_append.mp he with he | he
    · exact ih e he
    · simp at he; subst he
      obtain ⟨orig, hp, hb, hidx⟩ := hedge
      have hpred : Node.fn e ∈ preds fs c := preds_mem_fn fs c e p orig hp hb hidx
      by_cases hec : e = c
      · subst hec; exact ih e hc
      · rcases ih c hc with rfl | hr
        · exact Or.inr (.one ⟨hpred, hec⟩)
        · exact Or.inr (.more hr ⟨hpred, hec⟩)

/-- a complete frontier whose names are all root names holds no function node -/
theorem ccut_roots_only (hu : UniqueOut fs) (E : List Nat) (deps : List Node) (hfr : ∀ d ∈ deps, Front fs E d)
    (hall : ∀ n ∈ namesOf fs deps E, producer fs n = none) : ∀ j, Node.fn j ∉ deps := by
  intro j hj
  obtain ⟨_, c, hc, p, hedge⟩ := hfr _ hj
  have hp : p ∈ namesOf fs deps E := namesOf_mem_fn fs deps E j c p hj hc (edgeArgs_mem fs j c p hedge)
  obtain ⟨_, _, _, hidx⟩ := hedge
  have := (producerIdx_some fs hu p j hidx).2.2.2
  rw [hall p hp] at this
  cases this

/-- **`root_args` is the reachable root set.** -/
theorem rootArgs_reach (rank : String → Nat) (hw : WFp fs rank) (hki : KeyInj fs) (o : String) (c : List String)
    (h : rootArgs fs o = some c) :
    ∃ i, producerIdx fs o = some i ∧
      ∀ p, p ∈ c ↔ (Node.root p ∈ preds fs i ∨ ∃ k, Reach fs i k ∧ Node.root p ∈ preds fs k) := by
  unfold rootArgs at h
  split at h
  · cases h
  · next cs hcs =>
    have hmem := List.mem_of_find?_eq_some h
    have hall0 := List.find?_some h
    have hall : ∀ n ∈ c, producer fs n = none := by
      intro n hn
      have := List.all_eq_true.mp hall0 n hn
      simpa using this
    obtain ⟨i0, hi0, hcc⟩ := argCombinations_ccut fs rank hw hki o cs hcs
    obtain ⟨E, deps, hch, hfr, hcompl, hc⟩ := hcc c hmem
    subst hc
    have hnofn := ccut_roots_only fs hw.uniq E deps hfr hall
    -- the expanded set is closed under "takes from upstream"
    have hclosed : ∀ k, Reach fs i0 k → k ∈ E := by
      intro k hk
      induction hk with
      | one hs =>
        rcases hcompl i0 (hch.head_mem fs) _ hs.1 with ⟨j, hj, hjE⟩ | hd
        · cases hj; exact hjE
        · exact absurd hd (hnofn _)
      | more _ hs ih =>
        rcases hcompl _ ih _ hs.1 with ⟨j, hj, hjE⟩ | hd
        · cases hj; exact hjE
        · exact absurd hd (hnofn _)
    refine ⟨i0, hi0, ?_⟩
    intro p
    constructor
    · intro hp
      unfold namesOf at hp
      have hp := mem_uniqueSorted id p _ hp
      obtain ⟨d, hd, hpd⟩ := List.mem_flatMap.mp hp
      cases d with
      | fn j => exact absurd hd (hnofn j)
      | root q =>
        simp at hpd; subst hpd
        obtain ⟨hnone, e, he, orig, hpar, hb⟩ := hfr _ hd
        have hpred : Node.root p ∈ preds fs e := preds_mem_root fs e p orig hpar hb hnone
        rcases hch.reach fs e he with rfl | hr
        · exact Or.inl hpred
        · exact Or.inr ⟨e, hr, hpred⟩
    · intro hp
      have hk : ∃ k ∈ E, Node.root p ∈ preds fs k := by
        rcases hp with hp | ⟨k, hr, hp⟩
        · exact ⟨i0, hch.head_mem fs, hp⟩
        · exact ⟨k, hclosed k hr, hp⟩
      obtain ⟨k, hkE, hpk⟩ := hk
      rcases hcompl k hkE _ hpk with ⟨j, hj, _⟩ | hd
      · cases hj
      · exact namesOf_mem_root fs deps E p hd

/-- a strict ancestor is the producer of its own (single) output name -/
theorem reach_name_idx (hu : UniqueOut fs) (hsingle : ∀ f ∈ fs, ∃ q, f.outputs = [q]) {i j : Nat} (hr : Reach fs i j) :
    producerIdx fs (",".intercalate (funcAt fs j).outputs) = some j := by
  have hstep : ∃ k, Step fs k j := by
    cases hr with
    | one hs => exact ⟨_, hs⟩
    | more _ hs => exact ⟨_, hs⟩
  obtain ⟨k, hs⟩ := hstep
  obtain ⟨q, orig, _, _, hq⟩ := mem_preds fs k _ hs.1
  have hidx : producerIdx fs q = some j := by
    rcases hq with ⟨j0, h0, he⟩ | ⟨_, he⟩
    · cases he; exact h0
    · cases he
  obtain ⟨_, hmem, hqo, _⟩ := producerIdx_some fs hu q j hidx
  obtain ⟨q', hq'⟩ := hsingle _ hmem
  rw [hq'] at hqo
  simp at hqo; subst hqo
  have hname : ",".intercalate (funcAt fs j).outputs = q := by rw [hq']; rfl
  rw [hname]; exact hidx

/-- rank of the example pipeline of `Props/C17Roots.lean` (functions `c`, `d`, `e`) -/
def crank (nm : String) : Nat := if nm = "c" then 0 else if nm = "d" then 1 else 2

end PF.Sweep.RootCut
