import PfModel.Lemmas.RewriteAxisOrder
/-!
`add_mapspec_axis` on a pipeline without prior MapSpecs (part 12): `addAxis p axis fs` attaches MapSpecs `τ` that lift `p`
(`LiftOK`), exactly to the functions that depend on `p`.
-/
namespace PF.Rw
open PF PF.Map PF.C01 PF.Rw.Ax

theorem specRank_none (fs : List RFunc) (p : String) (hplain : ∀ f ∈ fs, f.mapspec = none) : specRank fs p = none := by
  unfold specRank
  have : ∀ F : RFunc → List Nat, (∀ f ∈ fs, F f = []) → (fs.flatMap F).head? = none := by
    intro F hF
    have : fs.flatMap F = [] := by rw [List.flatMap_eq_nil_iff]; exact hF
    rw [this]; rfl
  apply this
  intro f hf
  rw [hplain f hf]

theorem map_setSpecR_none (fs : List RFunc) (hplain : ∀ f ∈ fs, f.mapspec = none) : fs.map (setSpecR fun _ => none) = fs := by
  have : ∀ f ∈ fs, setSpecR (fun _ => none) f = f := by
    intro f hf
    have := hplain f hf
    cases f
    simp only [setSpecR] at this ⊢
    rw [← this]
  rw [List.map_congr_left this, List.map_id']

/-- **what `addAxis` computes** on a pipeline without MapSpecs: MapSpecs `τ` satisfying the invariant `Good`, and every
    function that takes (un-bound) a name depending on `p` maps that name -/
theorem addAxis_spec (fs : List RFunc) (p axis : String) (hplain : ∀ f ∈ fs, f.mapspec = none) (hu : UniqueOutR fs)
    (hne : ∀ g ∈ fs, g.core.outputs ≠ []) (hroot : rproducer fs p = none) (h : List String → Nat) (hh : HeightF fs h) :
    ∃ τ, addAxis p axis fs = fs.map (setSpecR τ) ∧ Good fs p axis τ ∧ ∀ x, Reach fs p x → Closed fs τ x := by
  unfold addAxis
  rw [specRank_none fs p hplain]
  simp only []
  have hcov : ∀ g ∈ fs, g.core.outputs.headD "" ∈ topoOrder fs (fs.length + 1) [] fs :=
    topoOrder_cov fs h hh (fs.length + 1) [] fs (fun g hg => hg) (fun g hg hd => absurd rfl (hd g hg)) (by omega)
  have hneedp : needOf fs h p ≤ fs.length + 2 := by unfold needOf; rw [hroot]; simp
  obtain ⟨τ', dims', e, g', _, _, c'⟩ := go_spec (p := p) (axis := axis) (topoOrder fs (fs.length + 1) [] fs) (needOf fs h) hu hne
    (needOf_dec fs h hh hu) hcov (fs.length + 2) p (fun _ => none) [] (fun g _ ms hm => by cases hm) (fun e he => by cases he)
    .root (Or.inl rfl) hneedp
  rw [map_setSpecR_none fs hplain] at e
  exact ⟨τ', by rw [e], g', c'⟩

section lift
variable {fs : List RFunc} {p axis : String} {τ : List String → Option MSpec}

theorem isL_iff_LNt (x : String) : isL τ (fs.map toMFunc) x = true ↔ ∃ g ∈ fs, (τ g.core.outputs).isSome = true ∧ x ∈ g.core.outputs := by
  unfold isL
  rw [List.any_map, List.any_eq_true]
  constructor
  · rintro ⟨g, hg, h⟩
    simp only [Function.comp, toMFunc, Bool.and_eq_true, List.contains_eq_mem, decide_eq_true_eq] at h
    exact ⟨g, hg, h.1, h.2⟩
  · rintro ⟨g, hg, h1, h2⟩
    exact ⟨g, hg, by simp [Function.comp, toMFunc, h1, h2]⟩

theorem LN_iff_LNt (x : String) : LN τ (fs.map toMFunc) p x ↔ LNt fs p τ x := by
  unfold LN LNt
  rw [isL_iff_LNt]

/-- a lifted name depends on `p` -/
theorem Good.reach (hG : Good fs p axis τ) {x : String} (hx : LNt fs p τ x) : Reach fs p x := by
  rcases hx with rfl | ⟨g, hg, hs, hxg⟩
  · exact .root
  · cases hm : τ g.core.outputs with
    | none => rw [hm] at hs; cases hs
    | some ms =>
      obtain ⟨_, _, _, y, hy, hry⟩ := hG g hg ms hm
      exact .step g hg y hy hry x hxg

/-- **`addAxis` lifts `p`**: the MapSpecs it attaches satisfy `LiftOK` on the functions as `map` sees them -/
theorem liftOK_of_good (hplain : ∀ f ∈ fs, f.mapspec = none) (hu : UniqueOutR fs) (hne : ∀ g ∈ fs, g.core.outputs ≠ [])
    (hn : nodupB (fs.map (·.core.name)) = true) (hroot : rproducer fs p = none)
    (hG : Good fs p axis τ) (hC : ∀ x, Reach fs p x → Closed fs τ x) : LiftOK τ (fs.map toMFunc) p axis := by
  refine ⟨?_, ?_, ?_, ?_, ?_, ?_, ?_⟩
  · intro g hg
    obtain ⟨f, hf, rfl⟩ := List.mem_map.mp hg
    exact hplain f hf
  · intro g hg
    obtain ⟨f, hf, rfl⟩ := List.mem_map.mp hg
    exact hne f hf
  · intro g hg h hh x hxg hxh
    obtain ⟨f1, hf1, rfl⟩ := List.mem_map.mp hg
    obtain ⟨f2, hf2, rfl⟩ := List.mem_map.mp hh
    rw [hu f1 hf1 f2 hf2 x hxg hxh]
  · rw [List.map_map]; exact hn
  · rw [producer_toMFunc, hroot]; rfl
  · intro g hg hm q hq hl
    obtain ⟨f, hf, rfl⟩ := List.mem_map.mp hg
    rw [mfree_toMFunc] at hq
    obtain ⟨ms, e, _⟩ := hC q (hG.reach ((LN_iff_LNt q).mp hl)) f hf hq
    have : τ f.core.outputs = none := hm
    rw [this] at e; cases e
  · intro g hg ms hm
    obtain ⟨f, hf, rfl⟩ := List.mem_map.mp hg
    have hm' : τ f.core.outputs = some ms := hm
    obtain ⟨h1, h2, h3, _⟩ := hG f hf ms hm'
    refine ⟨h1, h2, ?_, ?_⟩
    · intro a ha
      obtain ⟨a1, a2, a3⟩ := h3 a ha
      rw [mfree_toMFunc]
      exact ⟨a1, a2, (LN_iff_LNt a.name).mpr a3⟩
    · intro q hq hl
      rw [mfree_toMFunc] at hq
      obtain ⟨ms', e', a, ha, han⟩ := hC q (hG.reach ((LN_iff_LNt q).mp hl)) f hf hq
      rw [hm'] at e'
      injection e' with e'
      subst e'
      exact ⟨a, ha, han⟩

theorem Reach.last {fs : List RFunc} {q x : String} (h : Reach fs q x) :
    x = q ∨ ∃ g ∈ fs, ∃ y ∈ freeParams g, Reach fs q y ∧ x ∈ g.core.outputs := by
  cases h with
  | root => exact Or.inl rfl
  | step g hg y hy hr _ ho => exact Or.inr ⟨g, hg, y, hy, hr, ho⟩

/-- an output carries the new axis iff it depends on `p` -/
theorem isL_iff_reach (hu : UniqueOutR fs) (hroot : rproducer fs p = none)
    (hG : Good fs p axis τ) (hC : ∀ x, Reach fs p x → Closed fs τ x) (g : RFunc) (hg : g ∈ fs) (o : String) (ho : o ∈ g.core.outputs) :
    isL τ (fs.map toMFunc) o = true ↔ Reach fs p o := by
  rw [isL_iff_LNt]
  constructor
  · intro h; exact hG.reach (Or.inr h)
  · intro h
    rcases h.last with e | ⟨g', hg', y, hy, hr, ho'⟩
    · subst e
      obtain ⟨c, hc⟩ := rproducer_isSome fs o ⟨g, hg, ho⟩
      rw [hroot] at hc; cases hc
    · have : g' = g := hu g' hg' g hg o ho' ho
      subst this
      obtain ⟨ms, e, _⟩ := hC y hr g' hg' hy
      exact ⟨g', hg', by rw [e]; rfl, ho⟩

end lift
end PF.Rw
