import PfModel.Lemmas.MapSpecParse
import PfModel.Lemmas.RunInfoAgree
import PfModel.Lemmas.RunInfoHist
import PfModel.Lemmas.MapPiecesWhole
import PfModel.Lemmas.ResumeTop
/-!
C04, the two hypotheses of rounds 2-9 discharged.

* `MapSpec.from_string` for the folder model is C08's parser (`PF.MS.parse`, Model/MapSpecParse.lean) transported along the
  obvious isomorphism between the two MapSpec types (`PF.Map.MSpec` of the run model, `PF.MS.MapSpec` of C08): `fromString`.
  `printSpec` (the string `RunInfo.create` records) is C08's `toStr` under that isomorphism, so `parse_toStr` (the lemma behind
  `C08_roundtrip`) gives `fromString (printSpec ms) = some ms` for every well-formed MapSpec.
* the output names of the store a run fills are the output names of the pipeline along the execution order, hence distinct when the
  pipeline's output names are (`Pipeline` validation).
-/
namespace PF.RIC
open PF PF.Map

/-! ### the two MapSpec types -/

def toMSA (a : ASpec) : MS.ArraySpec := ⟨a.name, a.axes⟩
def ofMSA (a : MS.ArraySpec) : ASpec := ⟨a.name, a.axes⟩
/-- the MapSpec of the run model as C08's `MapSpec` -/
def toMS (ms : MSpec) : MS.MapSpec := ⟨ms.inputs.map toMSA, ms.outputs.map toMSA⟩
def ofMS (m : MS.MapSpec) : MSpec := ⟨m.inputs.map ofMSA, m.outputs.map ofMSA⟩

theorem ofMS_toMS (ms : MSpec) : ofMS (toMS ms) = ms := by
  obtain ⟨i, o⟩ := ms
  have : ∀ l : List ASpec, (l.map toMSA).map ofMSA = l := by
    intro l; induction l with
    | nil => rfl
    | cons a r ih => simp only [List.map_cons, ih]; rfl
  simp only [ofMS, toMS, this]

/-- `MapSpec.from_string`: C08's parser, read into the run model's MapSpec type -/
def fromString (s : String) : Option MSpec :=
  match MS.parse s with
  | .ok m => some (ofMS m)
  | .error _ => none

/-- a well-formed MapSpec: what `MapSpec.__post_init__` / `ArraySpec.__post_init__` accept (`PF.MS.Valid`: identifier names, no `:`
    in an output, all outputs with the same indices, input indices among them) and every array with at least one axis -/
def WFSpec (ms : MSpec) : Prop := MS.WF (toMS ms)

/-! ### `printSpec` is C08's `toStr` -/

theorem intercalate_eq_joinWith (sep : List Char) : ∀ ws : List (List Char), List.intercalate sep ws = MS.joinWith sep ws
  | [] => by simp [List.intercalate, MS.joinWith]
  | [w] => by simp [List.intercalate, MS.joinWith]
  | w :: v :: r => by
      have ih := intercalate_eq_joinWith sep (v :: r)
      simp only [List.intercalate, List.intersperse_cons_cons, List.flatten_cons] at ih ⊢
      simp [MS.joinWith, ← ih]

theorem join_toList (l : List String) : (", ".intercalate l).toList = MS.joinWith [',', ' '] (l.map String.toList) := by
  rw [String.toList_intercalate, intercalate_eq_joinWith]; rfl

theorem printASpec_toList (a : ASpec) : (printASpec a).toList = MS.specChars (toMSA a) := by
  have hax : (a.axes.map fun x => x.getD ":").map String.toList = a.axes.map MS.axisChars := by
    rw [List.map_map]
    apply List.map_congr_left
    intro x _
    cases x <;> rfl
  simp only [printASpec, String.toList_append, join_toList, hax, MS.specChars, toMSA]
  simp

theorem side_toList (l : List ASpec) : (", ".intercalate (l.map printASpec)).toList = MS.sideChars (l.map toMSA) := by
  rw [join_toList, MS.sideChars, List.map_map, List.map_map]
  congr 1
  apply List.map_congr_left
  intro a _
  exact printASpec_toList a

theorem printSpec_toList (ms : MSpec) : (printSpec ms).toList = MS.toChars (toMS ms) := by
  obtain ⟨ins, outs⟩ := ms
  cases ins with
  | nil =>
    simp only [printSpec, List.isEmpty_nil, if_true, String.toList_append, side_toList, MS.toChars, toMS, List.map_nil]
    rfl
  | cons a r =>
    simp only [printSpec, List.isEmpty_cons, Bool.false_eq_true, if_false, String.toList_append, side_toList, MS.toChars, toMS]
    rfl

theorem printSpec_eq_toStr (ms : MSpec) : printSpec ms = MS.toStr (toMS ms) := by
  unfold MS.toStr
  rw [← printSpec_toList, String.ofList_toList]

/-- **`from_string ∘ str = id`** on well-formed MapSpecs, from C08's round trip -/
theorem fromString_printSpec (ms : MSpec) (h : WFSpec ms) : fromString (printSpec ms) = some ms := by
  unfold fromString
  rw [printSpec_eq_toStr, MS.parse_toStr (toMS ms) h]
  simp only [ofMS_toMS]

/-! ### distinct output names of the store -/

theorem runMapStore_keys (fs : List MFunc) (inputs : List (String × Val)) (ui : List (String × List Nat))
    (res : MapResult) (store : List (String × Slot)) (h : runMapStore fs inputs ui = .ok (res, store)) :
    akeys store = (generations fs).flatten.flatMap (·.outputs) := by
  unfold runMapStore at h
  simp only [bind, Except.bind] at h
  cases hv : validateInputs fs inputs with
  | error e => simp [hv] at h
  | ok u =>
    simp only [hv] at h
    by_cases hc : (generations fs).flatten.length ≠ fs.length
    · rw [if_pos hc] at h
      simp [throw, throwThe, MonadExceptOf.throw] at h
    · simp only [hc, if_false] at h
      cases hsm : mapShapes fs inputs (constructInternal fs ui) with
      | error e => simp [hsm] at h
      | ok sm =>
        simp only [hsm] at h
        cases hre : runGensWith (runFuncWith opArray fs sm.1 sm.2) (generations fs) { inputs := inputs, store := [] } with
        | error e => simp [hre] at h
        | ok re =>
          simp only [hre, pure, Except.pure, Except.ok.injEq, Prod.mk.injEq] at h
          obtain ⟨_, h2⟩ := h
          subst h2
          obtain ⟨k, _, st⟩ := ResumeFS.runGensWith_slots (runFuncWith opArray fs sm.1 sm.2)
            (fun env f r hr => ResumeFS.runFuncWith_slots fs sm.1 sm.2 env f r hr) (generations fs) _ re.1 re.2
            (by cases re; exact hre)
          rw [st]
          simpa [akeys] using k

/-- the store of a run has distinct output names when the pipeline has -/
theorem runMapStore_nodup (fs : List MFunc) (inputs : List (String × Val)) (ui : List (String × List Nat))
    (res : MapResult) (store : List (String × Slot)) (h : runMapStore fs inputs ui = .ok (res, store))
    (hn : (allOutputs fs).Nodup) : (akeys store).Nodup := by
  rw [runMapStore_keys fs inputs ui res store h]
  exact Pieces.gens_outputs_nodup fs hn

/-- the same for a run in pieces, on any previous store -/
theorem runPart_nodup (fs : List MFunc) (inputs : List (String × Val)) (ui : List (String × List Nat))
    (fixed : Option (List (String × Pieces.Sel))) (old : List (String × Slot)) (part : Pieces.PartResult)
    (h : Pieces.runPart fs inputs ui fixed old = .ok part) (hn : (allOutputs fs).Nodup) : (akeys part.store).Nodup := by
  obtain ⟨_, _, _, _, _, hk⟩ := Pieces.runPart_inv fs inputs ui fixed old part h
  rw [hk]
  exact Pieces.gens_outputs_nodup fs hn

/-! ### the user-level hypotheses -/

/-- what the user's pipeline and `map` call satisfy (each clause is a check of pipefunc's constructors or of `init_store`):
    * `outputs_nodup` — no two functions produce the same name (`Pipeline.add` / `validate`);
    * `wf` — every MapSpec is well-formed (`MapSpec.__post_init__`, `ArraySpec.__post_init__`; rank ≥ 1);
    * `spec_outputs` — the MapSpec of a function names exactly the function's outputs (`PipeFunc.__init__`);
    * `storage_ok` — the storage argument names a class for every function mapped over inputs. -/
structure UserOK (fs : List MFunc) (storage : Storage) : Prop where
  outputs_nodup : (allOutputs fs).Nodup
  wf : ∀ f ∈ fs, ∀ ms, f.mapspec = some ms → WFSpec ms
  spec_outputs : ∀ f ∈ fs, ∀ ms, f.mapspec = some ms → ms.outputs.map (·.name) = f.outputs
  storage_ok : ∀ f ∈ fs, ∀ ms, f.mapspec = some ms → ms.inputs.isEmpty = false → (storageClass storage (storeKey f)).isSome = true

/-- `str` is injective on well-formed MapSpecs -/
theorem printSpec_inj (a b : MSpec) (ha : WFSpec a) (hb : WFSpec b) (h : printSpec a = printSpec b) : a = b := by
  have h1 := fromString_printSpec a ha
  rw [h, fromString_printSpec b hb] at h1
  exact (Option.some.inj h1).symm

theorem recorded_of_user (fs : List MFunc) (storage : Storage) (U : UserOK fs storage) : Recorded fromString fs storage :=
  { parse_print := fun f hf ms hms => fromString_printSpec ms (U.wf f hf ms hms)
    spec_outputs := U.spec_outputs
    outputs_nodup := U.outputs_nodup
    storage_ok := U.storage_ok }

/-- the table the driver uses for `from_string` agrees with C08's parser on everything the pipeline records -/
theorem tableParse_eq_fromString (fs : List MFunc) (hwf : ∀ f ∈ fs, ∀ ms, f.mapspec = some ms → WFSpec ms) :
    ∀ f ∈ fs, ∀ ms, f.mapspec = some ms → tableParse fs (printSpec ms) = fromString (printSpec ms) := by
  intro f hf ms hms
  rw [fromString_printSpec ms (hwf f hf ms hms)]
  have hmem : ms ∈ fs.filterMap (·.mapspec) := List.mem_filterMap.mpr ⟨f, hf, hms⟩
  unfold tableParse
  cases hfind : (fs.filterMap (·.mapspec)).find? (fun ms' => decide (printSpec ms' = printSpec ms)) with
  | none =>
    have := List.find?_eq_none.mp hfind ms hmem
    simp at this
  | some ms' =>
    obtain ⟨g, hg, hgm⟩ := List.mem_filterMap.mp (List.mem_of_find?_eq_some hfind)
    have h2 := List.find?_some hfind
    simp only [decide_eq_true_eq] at h2
    rw [printSpec_inj ms' ms (hwf g hg ms' hgm) (hwf f hf ms hms) h2]

theorem recorded_table_of_user (fs : List MFunc) (storage : Storage) (U : UserOK fs storage) : Recorded (tableParse fs) fs storage :=
  { parse_print := fun f hf ms hms => by
      rw [tableParse_eq_fromString fs U.wf f hf ms hms]; exact fromString_printSpec ms (U.wf f hf ms hms)
    spec_outputs := U.spec_outputs
    outputs_nodup := U.outputs_nodup
    storage_ok := U.storage_ok }

/-- `UserOK` for a pipeline of one mapped function and one function without MapSpec (used by the non-vacuity examples) -/
theorem userOK_of_two (f g : MFunc) (storage : Storage) (ms : MSpec) (hf : f.mapspec = some ms) (hg : g.mapspec = none)
    (hwf : WFSpec ms) (hout : ms.outputs.map (·.name) = f.outputs) (hn : (allOutputs [f, g]).Nodup)
    (hs : (storageClass storage (storeKey f)).isSome = true) : UserOK [f, g] storage := by
  refine ⟨hn, ?_, ?_, ?_⟩
  · intro h hh ms' hms'
    simp only [List.mem_cons, List.not_mem_nil, or_false] at hh
    rcases hh with e | e <;> subst e
    · rw [hf] at hms'; cases hms'; exact hwf
    · rw [hg] at hms'; cases hms'
  · intro h hh ms' hms'
    simp only [List.mem_cons, List.not_mem_nil, or_false] at hh
    rcases hh with e | e <;> subst e
    · rw [hf] at hms'; cases hms'; exact hout
    · rw [hg] at hms'; cases hms'
  · intro h hh ms' hms' _
    simp only [List.mem_cons, List.not_mem_nil, or_false] at hh
    rcases hh with e | e <;> subst e
    · exact hs
    · rw [hg] at hms'; cases hms'

end PF.RIC
