import PfModel.Lemmas.MapPiecesFlowTbl

namespace PF.C01
open PF PF.Map

-- `alookup_shapesOf` is already proved in `PfModel/Lemmas/MapTotal.lean` (same namespace, same statement).

theorem core_all_congr_mem {α} (l : List α) (p q : α → Bool) (h : ∀ a ∈ l, p a = q a) : l.all p = l.all q := by
  induction l with
  | nil => rfl
  | cons a l ih =>
    simp only [List.all_cons]
    rw [h a List.mem_cons_self, ih (fun x hx => h x (List.mem_cons_of_mem _ hx))]

theorem core_filterMap_congr_mem {α β} (l : List α) (p q : α → Option β) (h : ∀ a ∈ l, p a = q a) :
    l.filterMap p = l.filterMap q := by
  induction l with
  | nil => rfl
  | cons a l ih =>
    simp only [List.filterMap_cons]
    rw [h a List.mem_cons_self, ih (fun x hx => h x (List.mem_cons_of_mem _ hx))]

theorem outDims_congr (ms : MSpec) (s1 s2 : List (String × List Nat))
    (h : ∀ a ∈ ms.inputs, alookup s1 a.name = alookup s2 a.name) (ix : String) : outDims ms s1 ix = outDims ms s2 ix := by
  unfold outDims
  apply core_filterMap_congr_mem
  intro a ha
  rw [h a ha]

theorem goTot_congr (ms : MSpec) (s1 s2 : List (String × List Nat))
    (h : ∀ a ∈ ms.inputs, alookup s1 a.name = alookup s2 a.name) (ish : List Nat) :
    ∀ (l : List String) (k : Nat), goTot ms s1 ish l k = goTot ms s2 ish l k := by
  intro l
  induction l with
  | nil => intro k; rfl
  | cons ix rest ih =>
    intro k
    simp only [goTot]
    rw [outDims_congr ms s1 s2 h ix, ih k, ih (k + 1)]

theorem goOK_congr (ms : MSpec) (s1 s2 : List (String × List Nat))
    (h : ∀ a ∈ ms.inputs, alookup s1 a.name = alookup s2 a.name) (ish : Option (List Nat)) :
    ∀ (l : List String) (k : Nat), goOK ms s1 ish l k = goOK ms s2 ish l k := by
  intro l
  induction l with
  | nil => intro k; rfl
  | cons ix rest ih =>
    intro k
    simp only [goOK]
    rw [outDims_congr ms s1 s2 h ix, ih k, ih (k + 1)]

/-- funcShape and stepOK only look at the shapes of the MapSpec inputs and at `ishOf` -/
theorem funcShape_congr (ms : MSpec) (t1 t2 : Tbl) (i1 i2 : List (String × List Nat))
    (ht : ∀ a ∈ ms.inputs, alookup (shapesOf t1) a.name = alookup (shapesOf t2) a.name)
    (hi : ishOf ms i1 = ishOf ms i2) : funcShape ms t1 i1 = funcShape ms t2 i2 := by
  unfold funcShape
  rw [hi]
  exact goTot_congr ms _ _ ht _ _ _

theorem stepOK_congr (f : MFunc) (t1 t2 : Tbl) (i1 i2 : List (String × List Nat))
    (ht : ∀ ms, f.mapspec = some ms → ∀ a ∈ ms.inputs, alookup (shapesOf t1) a.name = alookup (shapesOf t2) a.name)
    (hi : ∀ ms, f.mapspec = some ms → ishOf ms i1 = ishOf ms i2) : stepOK i1 t1 f = stepOK i2 t2 f := by
  unfold stepOK
  cases hm : f.mapspec with
  | none => rfl
  | some ms =>
    simp only []
    rw [hi ms hm, goOK_congr ms _ _ (ht ms hm)]
    congr 1
    apply core_all_congr_mem
    intro a ha
    rw [ht ms hm a ha]

/-- strengthening of `Pieces.tblFrom_lookup`: the table `t'` at the moment `g` is processed passes `stepOK`, and everything it
    records survives -/
theorem tblFrom_lookup_ok (internal : List (String × List Nat)) : ∀ (l : List MFunc) (t : Tbl), l.Pairwise Pieces.Disj →
    shapesOK internal l t = true → ∀ g ∈ l, (∀ o ∈ g.outputs, alookup t o = none) →
    ∃ t', stepOK internal t' g = true ∧ (∀ n e, alookup t' n = some e → alookup (tblFrom internal l t) n = some e) ∧
      ∀ o ∈ g.outputs, alookup (tblFrom internal l t) o = g.mapspec.map (fun ms => funcShape ms t' internal) := by
  intro l
  induction l with
  | nil => intro t _ _ g hg; cases hg
  | cons f rest ih =>
    intro t hp hok g hg ht
    obtain ⟨h1, h2⟩ := List.pairwise_cons.mp hp
    simp only [shapesOK, Bool.and_eq_true] at hok
    rcases List.mem_cons.mp hg with rfl | hg'
    · refine ⟨t, hok.1, fun n e h => PF.Validate.tblFrom_preserved internal _ t n e h, fun o ho => ?_⟩
      simp only [tblFrom, List.foldl_cons]
      cases hm : g.mapspec with
      | none =>
        have : stepTbl internal t g = t := by unfold stepTbl; rw [hm]
        rw [this]
        exact Pieces.tblFrom_none internal rest t o (ht o ho) (fun b hb hob => h1 b hb o ho hob)
      | some ms =>
        apply PF.Validate.tblFrom_preserved
        unfold stepTbl
        rw [hm]
        simp only [Option.map_some]
        rw [alookup_append, ht o ho]
        simp only []
        rw [Pieces.alookup_const_map, if_pos ho]
    · have hn : ∀ o ∈ g.outputs, alookup (stepTbl internal t f) o = none := by
        intro o ho
        unfold stepTbl
        split
        · exact ht o ho
        · rw [alookup_append, ht o ho]
          simp only []
          rw [Pieces.alookup_const_map, if_neg (fun hf => h1 g hg' o hf ho)]
      obtain ⟨t', a, b, c⟩ := ih (stepTbl internal t f) h2 hok.2 g hg' hn
      exact ⟨t', a, b, c⟩

/-- CORE: processing a list `lS` of functions of `lF` in another order, from a table that agrees (on shapes) with the FINAL
    table of `lF` on every MapSpec input not produced earlier in `lS`, passes `shapesOK` and records the same entries for
    the outputs -/
theorem tbl_core (iS iF : List (String × List Nat)) (lF : List MFunc) (tF0 : Tbl)
    (hFd : lF.Pairwise Pieces.Disj) (hF0 : ∀ g ∈ lF, ∀ o ∈ g.outputs, alookup tF0 o = none)
    (hFok : shapesOK iF lF tF0 = true) :
    ∀ (lS : List MFunc) (tS : Tbl), lS.Pairwise Pieces.Disj → (∀ f ∈ lS, f ∈ lF) →
      (∀ f ∈ lS, ∀ o ∈ f.outputs, alookup tS o = none) →
      (∀ f ∈ lS, ∀ ms, f.mapspec = some ms → ishOf ms iS = ishOf ms iF) →
      (∀ pre f post, lS = pre ++ f :: post → ∀ ms, f.mapspec = some ms → ∀ a ∈ ms.inputs,
         (∃ g ∈ pre, a.name ∈ g.outputs) ∨
         alookup (shapesOf tS) a.name = alookup (shapesOf (tblFrom iF lF tF0)) a.name) →
      shapesOK iS lS tS = true ∧
      ∀ f ∈ lS, ∀ o ∈ f.outputs, alookup (tblFrom iS lS tS) o = alookup (tblFrom iF lF tF0) o := by
  intro lS
  induction lS with
  | nil => intro tS _ _ _ _ _; exact ⟨rfl, fun f hf => by cases hf⟩
  | cons f rest ih =>
    intro tS hp hsub hnone hish hord
    obtain ⟨h1, h2⟩ := List.pairwise_cons.mp hp
    have hfF := hsub f List.mem_cons_self
    obtain ⟨t', hok', hsurv, hrec⟩ := tblFrom_lookup_ok iF lF tF0 hFd hFok f hfF (hF0 f hfF)
    have hagree : ∀ ms, f.mapspec = some ms → ∀ a ∈ ms.inputs,
        alookup (shapesOf tS) a.name = alookup (shapesOf t') a.name := by
      intro ms hm a ha
      rcases hord [] f rest rfl ms hm a ha with ⟨g, hg, _⟩ | h
      · cases hg
      · rw [h]
        unfold stepOK at hok'
        rw [hm] at hok'
        simp only [Bool.and_eq_true, List.all_eq_true] at hok'
        have h3 := hok'.1 a ha
        rw [alookup_shapesOf] at h3
        rw [alookup_shapesOf, alookup_shapesOf]
        cases hl : alookup t' a.name with
        | none => rw [hl] at h3; simp at h3
        | some e => rw [hsurv _ _ hl]
    have hokS : stepOK iS tS f = true := by
      rw [stepOK_congr f tS t' iS iF hagree (hish f List.mem_cons_self)]; exact hok'
    have hstep : ∀ o ∈ f.outputs, alookup (stepTbl iS tS f) o = alookup (tblFrom iF lF tF0) o := by
      intro o ho
      rw [hrec o ho]
      cases hm : f.mapspec with
      | none =>
        unfold stepTbl
        rw [hm]
        simp only [Option.map_none]
        exact hnone f List.mem_cons_self o ho
      | some ms =>
        unfold stepTbl
        rw [hm]
        simp only [Option.map_some]
        rw [alookup_append, hnone f List.mem_cons_self o ho]
        simp only []
        rw [Pieces.alookup_const_map, if_pos ho,
          funcShape_congr ms tS t' iS iF (hagree ms hm) (hish f List.mem_cons_self ms hm)]
    have hnone' : ∀ g ∈ rest, ∀ o ∈ g.outputs, alookup (stepTbl iS tS f) o = none := by
      intro g hg o ho
      unfold stepTbl
      split
      · exact hnone g (List.mem_cons_of_mem _ hg) o ho
      · rw [alookup_append, hnone g (List.mem_cons_of_mem _ hg) o ho]
        simp only []
        rw [Pieces.alookup_const_map, if_neg (fun hf => h1 g hg o hf ho)]
    have hord' : ∀ pre f' post, rest = pre ++ f' :: post → ∀ ms, f'.mapspec = some ms → ∀ a ∈ ms.inputs,
        (∃ g ∈ pre, a.name ∈ g.outputs) ∨
        alookup (shapesOf (stepTbl iS tS f)) a.name = alookup (shapesOf (tblFrom iF lF tF0)) a.name := by
      intro pre f' post hrest ms hm a ha
      by_cases hao : a.name ∈ f.outputs
      · right
        rw [alookup_shapesOf, alookup_shapesOf, hstep _ hao]
      · rcases hord (f :: pre) f' post (by rw [hrest]; rfl) ms hm a ha with ⟨g, hg, hgo⟩ | h
        · rcases List.mem_cons.mp hg with he | hg'
          · rw [he] at hgo; exact absurd hgo hao
          · exact Or.inl ⟨g, hg', hgo⟩
        · right
          rw [← h, alookup_shapesOf, alookup_shapesOf]
          congr 1
          unfold stepTbl
          split
          · rfl
          · rw [alookup_append]
            cases alookup tS a.name with
            | some e => rfl
            | none =>
              simp only []
              rw [Pieces.alookup_const_map, if_neg hao]
    obtain ⟨ihok, ihrec⟩ := ih (stepTbl iS tS f) h2 (fun g hg => hsub g (List.mem_cons_of_mem _ hg)) hnone'
      (fun g hg => hish g (List.mem_cons_of_mem _ hg)) hord'
    refine ⟨?_, ?_⟩
    · simp only [shapesOK, Bool.and_eq_true]; exact ⟨hokS, ihok⟩
    · intro g hg o ho
      have e : tblFrom iS (f :: rest) tS = tblFrom iS rest (stepTbl iS tS f) := rfl
      rw [e]
      rcases List.mem_cons.mp hg with he | hg'
      · rw [he] at ho
        rw [← hstep o ho]
        cases hl : alookup (stepTbl iS tS f) o with
        | some e => exact PF.Validate.tblFrom_preserved iS rest _ o e hl
        | none => exact Pieces.tblFrom_none iS rest _ o hl (fun b hb hob => h1 b hb o ho hob)
      · exact ihrec g hg' o ho

end PF.C01
