/-
Model of running a map in pieces: `fixed_indices` (`pipefunc/map/_run.py:577-596, 648-661`: `_existing_and_missing_indices`,
`_prepare_submit_map_spec`, `_mask_fixed_axes`), its validation (`pipefunc/map/_prepare.py:120-189`: `_validate_fixed_indices`,
`_reduced_axes`), re-running on a store that already holds elements (`cleanup=False`; `_execute_single` / `_load_from_store`,
`_run.py:775-799`), and the learners of `create_learners` (`pipefunc/map/adaptive.py:146-389`: `_maybe_iterate_axes`,
`_identify_cross_product_axes`, `_iterate_axes`, `_learner`, `_sequence`, `_execute_iteration_in_map_spec/_single`;
`pipefunc/_pipeline/_base.py:1723-1777`: `_axis_in_root_arg`, `independent_axes_in_mapspecs`).
Built on `PF.Map` (`Model/MapRun.lean`): a partial run is the same generation loop (`runGensWith`) with a per-function runner
that looks at the previous store (`existing`/`missing` = presence of the element) and at the selection mask.
Core Lean only.
-/
import PfModel.Model.MapRun
namespace PF.Pieces
open PF PF.Map

/-! ### selections: `int | slice` -/

/-- one value of the `fixed_indices` dictionary -/
inductive Sel
  | idx (k : Int)
  | slice (start stop step : Option Int)
  deriving Repr, DecidableEq, Inhabited

/-- `slice(None)` -/
def Sel.full : Sel := .slice none none none

/-- `range(a, b, st)` for `st ≠ 0`, produced element by element (fuel bounds the number of elements) -/
def pyRange : Nat → Int → Int → Int → List Int
  | 0, _, _, _ => []
  | fuel+1, a, b, st => if (0 < st ∧ a < b) ∨ (st < 0 ∧ b < a) then a :: pyRange fuel (a + st) b st else []

/-- `PySlice_AdjustIndices` for one bound: negative values count from the end, then clamp to `[lower, upper]` -/
def adjust (n : Nat) (neg : Bool) (v : Int) : Int :=
  let lower : Int := if neg then -1 else 0
  let upper : Int := if neg then (n : Int) - 1 else n
  if v < 0 then (if v + n < lower then lower else v + n) else (if upper < v then upper else v)

/-- `slice.indices(n)[0]` for step `st` -/
def sliceStart (n : Nat) (st : Int) (start : Option Int) : Int :=
  match start with
  | none => if st < 0 then (n : Int) - 1 else 0
  | some v => adjust n (decide (st < 0)) v

/-- `slice.indices(n)[1]` for step `st` -/
def sliceStop (n : Nat) (st : Int) (stop : Option Int) : Int :=
  match stop with
  | none => if st < 0 then -1 else n
  | some v => adjust n (decide (st < 0)) v

/-- the indices `range(*slice(start, stop, step).indices(n))`; `none` is Python's `ValueError: slice step cannot be zero` -/
def sliceRange (n : Nat) (start stop step : Option Int) : Option (List Nat) :=
  let st := step.getD 1
  if st = 0 then none else
  some ((pyRange (n + 1) (sliceStart n st start) (sliceStop n st stop) st).map Int.toNat)

/-- the positions an `int | slice` selects on an axis of size `d` (NumPy basic indexing): `IndexError` for an integer outside
    `[-d, d)`, `ValueError` for a zero step; a slice is never out of range -/
def selIndices (d : Nat) : Sel → M (List Nat)
  | .idx k => if -(d : Int) ≤ k ∧ k < d then pure [(if k < 0 then k + d else k).toNat]
              else throw (.index s!"index {k} is out of bounds for axis with size {d}")
  | .slice a b s =>
    match sliceRange d a b s with
    | none => throw (.value "slice step cannot be zero")
    | some l => pure l

/-- `fixed_indices.get(axis, slice(None))` -/
def fixedLookup (fx : List (String × Sel)) (a : String) : Sel := (alookup fx a).getD Sel.full

/-- is the external key `E` inside the product selection? -/
def selected : List (List Nat) → List Nat → Bool
  | l :: ls, e :: es => l.contains e && selected ls es
  | _, _ => true

/-- `select[external_key] = True` on `zeros(external_shape)`: one list of positions per external axis -/
def selLists : List Sel → List Nat → M (List (List Nat))
  | s :: ss, d :: ds => do
    let l ← selIndices d s
    let ls ← selLists ss ds
    pure (l :: ls)
  | _, _ => pure []

/-- `_mask_fixed_axes` (`_run.py:648-661`): `none` when no indices are fixed, else the flat boolean selection over the
    external index space of the function's output -/
def fixedMask (fixed : Option (List (String × Sel))) (ms : MSpec) (shape : List Nat) (mask : List Bool) : M (Option (List Bool)) :=
  match fixed with
  | none => pure none
  | some fx => do
    let key := ms.outputIndices.map (fixedLookup fx)
    let es := extOf mask shape
    let ls ← selLists (extOf mask key) es
    pure (some ((List.range (prod es)).map fun li => selected ls (shapeToKey es li)))

/-- the selection as a predicate on external linear indices -/
def selOf : Option (List Bool) → Nat → Bool
  | none, _ => true
  | some m, li => m.getD li false

/-! ### `mapspec_axes`, `_reduced_axes`, `_validate_fixed_indices` -/

/-- every `ArraySpec` of the pipeline, functions in topological order (`Pipeline.mapspecs()`) -/
def specsOf (fs : List MFunc) : List ASpec :=
  (generations fs).flatten.flatMap fun f => match f.mapspec with
    | none => []
    | some ms => ms.inputs ++ ms.outputs

def axisAt (specs : List ASpec) (name : String) (i : Nat) : Option String :=
  (specs.filter (·.name = name)).findSome? fun a => a.axes.getD i none

def rankOf (specs : List ASpec) (name : String) : Nat :=
  ((specs.filter (·.name = name)).map (·.axes.length)).foldl max 0

/-- `Pipeline.mapspec_axes` (`_mapspec.py:424-432`), positional: the name of every axis of every MapSpec array, `none` for
    an axis that is only ever `:` -/
def mapspecAxes (fs : List MFunc) : List (String × List (Option String)) :=
  let specs := specsOf fs
  (specs.map (·.name)).eraseDups.map fun n => (n, (List.range (rankOf specs n)).map (axisAt specs n))

/-- the axes names a `fixed_indices` dictionary may mention -/
def knownAxes (axes : List (String × List (Option String))) : List String := axes.flatMap fun kv => kv.2.filterMap id

/-- the axes of `name` that function `f` reduces: all of them when `f` takes the array whole, the `:` positions when `f`'s
    MapSpec slices it (`_is_parameter_reduced_by_function`, `_get_partially_reduced_axes`) -/
def reducedBy (f : MFunc) (name : String) (ax : List (Option String)) : List String :=
  if f.params.any (·.1 = name) then
    match f.mapspec with
    | none => ax.filterMap id
    | some ms =>
      match ms.inputSpec name with
      | none => ax.filterMap id
      | some a => (List.zip ax a.axes).filterMap fun (g, s) => if s.isNone then g else none
  else []

/-- `_reduced_axes` (`_prepare.py:153-166`), as the union over all arrays -/
def reducedAxes (fs : List MFunc) (axes : List (String × List (Option String))) : List String :=
  (mapspecNames fs).flatMap fun name => fs.flatMap fun f => reducedBy f name ((alookup axes name).getD [])

/-- `inputs[parameter][key]` succeeds: every component of the key is valid for its dimension -/
def checkKey : List (Sel × Nat) → M Unit
  | [] => pure ()
  | (s, d) :: r => do
    let _ ← selIndices d s
    checkKey r

def axisSel (fx : List (String × Sel)) : Option String → Sel
  | none => Sel.full
  | some a => fixedLookup fx a

/-- one turn of the loop over `pipeline.mapspec_axes.items()` of `_validate_fixed_indices`: for an *input* array the key
    built from the fixed indices must index it -/
def checkInput (inputs : List (String × Val)) (fx : List (String × Sel)) (pa : String × List (Option String)) : M Unit :=
  match alookup inputs pa.1 with
  | none => pure ()
  | some v =>
    match shapeOf v with
    | none => pure ()
    | some sh => checkKey (List.zip (pa.2.map (axisSel fx)) sh)

def checkInputs (inputs : List (String × Val)) (fx : List (String × Sel)) : List (String × List (Option String)) → M Unit
  | [] => pure ()
  | pa :: r => do
    checkInput inputs fx pa
    checkInputs inputs fx r

/-- the axes some function maps over: the input indices of all MapSpecs (`mapped_over` in `_validate_fixed_indices`).  An axis
    of the pipeline that is not among them exists only as an internal axis (generated inside a function, `internal_shape`):
    its mask bit is `false` in every output that names it (`mspecShape`), so `_mask_fixed_axes` never looks at it. -/
def mappedAxes (fs : List MFunc) : List String :=
  fs.flatMap fun f => match f.mapspec with
    | none => []
    | some ms => ms.inputIndices

/-- `_validate_fixed_indices` (`_prepare.py:152-202`, with the repair DF-C06-internal-axis: an axis no MapSpec maps over is
    refused) -/
def validateFixed (fs : List MFunc) (inputs : List (String × Val)) (fixed : Option (List (String × Sel))) : M Unit :=
  match fixed with
  | none => pure ()
  | some fx => do
    let axes := mapspecAxes fs
    checkInputs inputs fx axes
    if fx.any (fun kv => !(knownAxes axes).contains kv.1) then throw (.value "got extra fixed_indices")
    if fx.any (fun kv => (reducedAxes fs axes).contains kv.1) then throw (.value "axis is reduced and cannot be in fixed_indices")
    if fx.any (fun kv => !(mappedAxes fs).contains kv.1) then
      throw (.value "axis is internal only (no function maps over it) and cannot be in fixed_indices")

/-! ### one function on an existing store -/

/-- the elements of output `o` the previous store holds (`init_store` re-opens the storage arrays of the run folder) -/
def oldCells (old : List (String × Slot)) (o : String) : List (Nat × Val) :=
  match alookup old o with
  | some (.array _ _ c) => c
  | _ => []

/-- an index is missing when *any* output of the function lacks it (`_existing_and_missing_indices`) -/
def missingIn (outs : List String) (C : String → List (Nat × Val)) (li : Nat) : Bool :=
  outs.any fun o => (cellLookup (C o) li).isNone

/-- the indices one run computes: selected and missing, in increasing order -/
def todoOf (outs : List String) (n : Nat) (sel : Nat → Bool) (C : String → List (Nat × Val)) : List Nat :=
  (List.range n).filter fun li => sel li && missingIn outs C li

/-- the elements dumped by one run -/
def cellsPart (f : MFunc) (todo : List Nat) (args : Nat → List (String × Val)) (o : String) : List (Nat × Val) :=
  todo.map fun li => (li, outVal f (args li) o)

def tlookup {β} : List (Nat × β) → Nat → Option β
  | [], _ => none
  | (k, v) :: r, i => if k = i then some v else tlookup r i

/-- `Result.output` of a partial run: computed and existing selected elements, `None` (`np.empty`) everywhere else -/
def partArray (shape : List Nat) (mask : List Bool) (sel : Nat → Bool) (cells : List (Nat × Val)) : Val :=
  let es := extOf mask shape
  .arr shape ((allIdx shape).map fun F =>
    let li := ravel es (extOf mask F)
    if sel li then
      match cellLookup cells li with
      | some v => elemAt mask v (intOf mask F)
      | none => .none
    else .none)

/-- a mapped function on a store that may already hold elements (`_prepare_submit_map_spec`, `_maybe_parallel_map` over
    `missing`, `_output_from_mapspec_task`): called once per selected missing index; `old` is the previous store, `env` the
    store this run reads its arguments from -/
def runMappedSel (fs : List MFunc) (old : List (String × Slot)) (sel : Nat → Bool) (env : Env) (f : MFunc) (ms : MSpec)
    (shape : List Nat) (mask : List Bool) : M FuncResult := do
  let es := extOf mask shape
  let todo := todoOf f.outputs (prod es) sel (oldCells old)
  let argsAt ← todo.mapM fun li => selectArgs fs env f ms (shapeToKey es li)
  let tab := List.zip todo argsAt
  let args : Nat → List (String × Val) := fun li => (tlookup tab li).getD []
  return { outputs := f.outputs.map fun o => (o, partArray shape mask sel (cellsPart f todo args o ++ oldCells old o)),
           slots := f.outputs.map fun o => (o, Slot.array shape mask (cellsPart f todo args o ++ oldCells old o)),
           calls := argsAt.map fun a => ({ name := f.name, args := a } : Call) }

def runMappedPart (fs : List MFunc) (old : List (String × Slot)) (fixed : Option (List (String × Sel))) (env : Env) (f : MFunc)
    (ms : MSpec) (shape : List Nat) (mask : List Bool) : M FuncResult := do
  let fm ← fixedMask fixed ms shape mask
  runMappedSel fs old (selOf fm) env f ms shape mask

/-- the stored whole values of all outputs, if all exist (`_load_from_store`) -/
def loadSingles (old : List (String × Slot)) : List String → Option (List (String × Val))
  | [] => some []
  | o :: r =>
    match alookup old o, loadSingles old r with
    | some (.single v), some vs => some ((o, v) :: vs)
    | _, _ => none

/-- `_execute_single`: load the output if it exists, otherwise call the function once -/
def runSinglePart (fs : List MFunc) (old : List (String × Slot)) (env : Env) (f : MFunc) : M FuncResult :=
  if f.outputs.isEmpty then runSingle fs env f else
  match loadSingles old f.outputs with
  | some vs => pure { outputs := vs, slots := vs.map fun (o, v) => (o, Slot.single v), calls := [] }
  | none => runSingle fs env f

/-- `_submit_func` + `_process_task` for one function of a partial run -/
def runFuncPart (fs : List MFunc) (shapes : List (String × List Nat)) (masks : List (String × List Bool))
    (fixed : Option (List (String × Sel))) (old : List (String × Slot)) (env : Env) (f : MFunc) : M FuncResult :=
  match f.mapspec with
  | some ms =>
    if ms.inputs.isEmpty then runSinglePart fs old env f else
    match f.outputs.head? with
    | none => throw (.value "function without outputs")
    | some o =>
      match alookup shapes o, alookup masks o with
      | some sh, some mk =>
        if sh.length ≠ mk.length then throw (.value "shape and mask of different rank") else runMappedPart fs old fixed env f ms sh mk
      | _, _ => throw (.key o)
  | none => runSinglePart fs old env f

structure PartResult where
  res : MapResult
  store : List (String × Slot)
  deriving Repr

/-- `run_map(..., fixed_indices=fixed, cleanup=False)` on a run folder holding `old` (sequential) -/
def runPart (fs : List MFunc) (inputs : List (String × Val)) (userInternal : List (String × List Nat))
    (fixed : Option (List (String × Sel))) (old : List (String × Slot)) : M PartResult := do
  validateInputs fs inputs
  if (generations fs).flatten.length ≠ fs.length then throw (.value "cyclic pipeline")
  validateFixed fs inputs fixed
  let internal := constructInternal fs userInternal
  let (shapes, masks) ← mapShapes fs inputs internal
  let (rs, env) ← runGensWith (runFuncPart fs shapes masks fixed old) (generations fs) { inputs := inputs, store := [] }
  return { res := { outputs := rs.flatMap (·.outputs), stored := env.store.map fun (o, s) => (o, s.toVal), shapes := shapes, masks := masks,
                    calls := rs.flatMap (·.calls), gens := (generations fs).map fun g => g.map (·.name) },
           store := env.store }

/-- a run in pieces: one `map(fixed_indices=…, cleanup=False)` per part, each on the folder the previous one left -/
def runPieces (fs : List MFunc) (inputs : List (String × Val)) (ui : List (String × List Nat)) :
    List (Option (List (String × Sel))) → List (String × Slot) → M (List PartResult)
  | [], _ => pure []
  | p :: ps, old => do
    let r ← runPart fs inputs ui p old
    let rest ← runPieces fs inputs ui ps r.store
    pure (r :: rest)

/-- `StorageBase.mask_linear()` as the list of present external linear indices -/
def presentOf : Slot → Option (List Nat)
  | .single _ => none
  | .array shape mask cells => some ((List.range (prod (extOf mask shape))).filter fun li => (cellLookup cells li).isSome)

/-! ### learners (`pipefunc/map/adaptive.py`) -/

/-- one `SequenceLearner`: the function and its sequence (`none` is the `[None]` of a function called once) -/
structure Learner where
  func : String
  seq : Option (List Nat)
  deriving Repr

/-- `_sequence` (`adaptive.py:315-327`, with the repaired `None` branch): one entry per external index, or
    `np.flatnonzero(fixed_mask)` -/
def learnerSeq (fixed : Option (List (String × Sel))) (ms : MSpec) (shape : List Nat) (mask : List Bool) : M (List Nat) := do
  let fm ← fixedMask fixed ms shape mask
  pure ((List.range (prod (extOf mask shape))).filter (selOf fm))

/-- `_sequence` before the repair (DF-15): `range(prod(shape))` over the *full* shape when nothing is fixed -/
def legacySeq (shape : List Nat) : List Nat := List.range (prod shape)

/-- `_learner` -/
def learnerFor (shapes : List (String × List Nat)) (masks : List (String × List Bool)) (fixed : Option (List (String × Sel)))
    (f : MFunc) : M Learner :=
  match f.mapspec with
  | some ms =>
    if ms.inputs.isEmpty then pure { func := f.name, seq := none } else
    match f.outputs.head? with
    | none => throw (.value "function without outputs")
    | some o =>
      match alookup shapes o, alookup masks o with
      | some sh, some mk => do return { func := f.name, seq := some (← learnerSeq fixed ms sh mk) }
      | _, _ => throw (.key o)
  | none => pure { func := f.name, seq := none }

/-- `Pipeline._axis_in_root_arg` (`_base.py:1723-1763`): depth-first through the producers of the arrays carrying `axis`;
    collects `true` for every root array carrying it and `false` for every function that introduces it as an internal axis -/
def axisInRoot (fs : List MFunc) (axes : List (String × List (Option String))) (axis : String) :
    Nat → String → List String → List Bool → (List String × List Bool)
  | 0, _, vis, res => (vis, res)
  | fuel+1, out, vis, res =>
    if vis.contains out then (vis, res) else
    match producer fs out with
    | none => (vis, res)
    | some f =>
      let vis := vis ++ f.outputs
      match f.mapspec with
      | none => (vis, res)
      | some ms =>
        let res := if ms.inputIndices.contains axis then res else res ++ [false]
        ms.inputs.foldl (fun (acc : List String × List Bool) a =>
          if ((alookup axes a.name).getD []).contains (some axis) then
            (if (producer fs a.name).isNone then (acc.1, acc.2 ++ [true])
             else axisInRoot fs axes axis fuel a.name acc.1 acc.2)
          else acc) (vis, res)

/-- `Pipeline.independent_axes_in_mapspecs` -/
def independentAxes (fs : List MFunc) (axes : List (String × List (Option String))) (f : MFunc) : List String :=
  match f.mapspec, f.outputs.head? with
  | some ms, some o => ms.outputIndices.filter fun a => (axisInRoot fs axes a (fs.length + 1) o [] []).2.all id
  | _, _ => []

/-- `Pipeline.leaf_nodes`: functions none of whose outputs is consumed -/
def leafFuncs (fs : List MFunc) : List MFunc :=
  fs.filter fun f => !(f.outputs.any fun o => fs.any fun g => g.params.any fun p => decide (p.1 = o) && (alookup g.bound o).isNone)

def insertSorted (a : String) : List String → List String
  | [] => [a]
  | b :: r => if a < b then a :: b :: r else if a = b then b :: r else b :: insertSorted a r

/-- `_identify_cross_product_axes` (sorted, without the assertion) -/
def crossProductAxes (fs : List MFunc) (axes : List (String × List (Option String))) : List String :=
  ((leafFuncs fs).flatMap (independentAxes fs axes)).foldl (fun acc a => insertSorted a acc) []

/-- names all functions below the leaves depend on whose axes are reduced (the `impossible_axes` of the assertion) -/
def upstreamOutputs (fs : List MFunc) : Nat → List String → List String
  | 0, _ => []
  | fuel+1, names =>
    let ups := (names.flatMap fun o => match producer fs o with
      | none => []
      | some f => f.params.flatMap fun p => if (alookup f.bound p.1).isSome then [] else
          match producer fs p.1 with
          | some g => g.outputs
          | none => []).eraseDups
    if ups.isEmpty then [] else ups ++ upstreamOutputs fs fuel ups

/-- the size of an independent axis: from the first input array carrying it (`_iterate_axes`) -/
def axisSize (axes : List (String × List (Option String))) (inputs : List (String × Val)) (shapes : List (String × List Nat))
    (axis : String) : M Nat :=
  match axes.find? (fun kv => kv.2.contains (some axis) && (alookup inputs kv.1).isSome) with
  | none => throw (.value "assert: no input carries the axis")
  | some (p, ax) =>
    match alookup shapes p, idxOf ax axis with
    | some sh, some q => pure (sh.getD q 0)
    | _, _ => throw (.key p)

/-- `_maybe_iterate_axes` -/
def iterateAxes (fs : List MFunc) (inputs : List (String × Val)) (shapes : List (String × List Nat))
    (fixed : Option (List (String × Sel))) (split : Bool) : M (List (Option (List (String × Sel)))) :=
  match fixed with
  | some (kv :: r) => do
    validateFixed fs inputs (some (kv :: r))
    pure [some (kv :: r)]
  | _ =>
    if !split then pure [none] else do
      let axes := mapspecAxes fs
      let ind := crossProductAxes fs axes
      let leafDeps := upstreamOutputs fs (fs.length + 1) ((leafFuncs fs).flatMap (·.outputs))
      let impossible := leafDeps.flatMap fun name => fs.flatMap fun f => reducedBy f name ((alookup axes name).getD [])
      if ind.any impossible.contains then throw (.value "assert: independent axis is reduced") else
      let sizes ← ind.mapM (axisSize axes inputs shapes)
      (allIdx sizes).mapM fun ix => do
        let fx := (List.zip ind ix).map fun (a, k) => (a, Sel.idx k)
        validateFixed fs inputs (some fx)
        pure (some fx)

/-- `_key`: an empty dictionary of fixed indices is the key `None` -/
def keyOf : Option (List (String × Sel)) → Option (List (String × Sel))
  | some [] => none
  | k => k

/-- `create_learners`: per key (fixed indices), per generation, one learner per function -/
def createLearners (fs : List MFunc) (inputs : List (String × Val)) (userInternal : List (String × List Nat))
    (fixed : Option (List (String × Sel))) (split : Bool) : M (List (Option (List (String × Sel)) × List (List Learner))) := do
  validateInputs fs inputs
  if (generations fs).flatten.length ≠ fs.length then throw (.value "cyclic pipeline")
  let internal := constructInternal fs userInternal
  let (shapes, masks) ← mapShapes fs inputs internal
  let keys ← iterateAxes fs inputs shapes fixed split
  keys.mapM fun k => do
    let gens ← (generations fs).mapM fun gen => gen.mapM (learnerFor shapes masks k)
    pure (keyOf k, gens)

/-- the shared `store` of the learners: replace a slot or add it -/
def setSlot (store : List (String × Slot)) (o : String) (s : Slot) : List (String × Slot) :=
  match store with
  | [] => [(o, s)]
  | (k, v) :: r => if k = o then (k, s) :: r else (k, v) :: setSlot r o s

def setSlots (store : List (String × Slot)) (slots : List (String × Slot)) : List (String × Slot) :=
  slots.foldl (fun st kv => setSlot st kv.1 kv.2) store

/-- one call `learner.function(x)`: `_execute_iteration_in_map_spec` (element `li` unless every output already has it) or
    `_execute_iteration_in_single`; all learners share one store -/
def execIter (fs : List MFunc) (shapes : List (String × List Nat)) (masks : List (String × List Bool))
    (inputs : List (String × Val)) (store : List (String × Slot)) (f : MFunc) (x : Option Nat) : M (List (String × Slot) × List Call) := do
  let env : Env := { inputs := inputs, store := store }
  match f.mapspec, x with
  | some ms, some li =>
    if ms.inputs.isEmpty then throw (.value "an index for a function without MapSpec inputs") else
    match f.outputs.head? with
    | none => throw (.value "function without outputs")
    | some o =>
      match alookup shapes o, alookup masks o with
      | some sh, some mk =>
        let r ← runMappedSel fs store (fun j => j == li) env f ms sh mk
        pure (setSlots store r.slots, r.calls)
      | _, _ => throw (.key o)
  | _, _ =>
    let r ← runSinglePart fs store env f
    pure (setSlots store r.slots, r.calls)

/-- executing a list of `(function, x)` steps on the shared store -/
def execSteps (fs : List MFunc) (shapes : List (String × List Nat)) (masks : List (String × List Bool))
    (inputs : List (String × Val)) : List (String × Option Nat) → List (String × Slot) → M (List (String × Slot) × List (List Call))
  | [], store => pure (store, [])
  | (name, x) :: rest, store =>
    match fs.find? (·.name = name) with
    | none => throw (.key name)
    | some f => do
      let (store', calls) ← execIter fs shapes masks inputs store f x
      let (storeF, more) ← execSteps fs shapes masks inputs rest store'
      pure (storeF, calls :: more)

/-- `RunInfo.init_store`: an empty storage array for every output of a function mapped over inputs -/
def initStore (fs : List MFunc) (shapes : List (String × List Nat)) (masks : List (String × List Bool)) : List (String × Slot) :=
  (generations fs).flatten.flatMap fun f =>
    match f.mapspec with
    | some ms =>
      if ms.inputs.isEmpty then [] else
      f.outputs.filterMap fun o =>
        match alookup shapes o, alookup masks o with
        | some sh, some mk => some (o, Slot.array sh mk [])
        | _, _ => none
    | none => []

end PF.Pieces
