import PfModel.Props.C10
import PfModel.Lemmas.RewriteTotal4
/-!
C10 (extension) — totality of `nest_funcs` / `simplified_pipeline`: the converse of `C10_nest_partial` /
`C10_simplify_partial`.  With an acyclicity witness `AcyclicR fs rank` for the ORIGINAL pipeline (the rank for the new
pipeline is derived from the model's own Kahn check `acyclic`, which both operations run before accepting), the new
pipeline returns a value for every one of its outputs that the original evaluates, provided the original evaluates every
nested function (the nest runs all of them: `call_full_output` for the leaf).  The fixed fuel `fuelOf S` of the nested
body is shown to be enough.

Well-formedness used (true of every real pipeline): `DefaultsOnParams` (defaults are declared for parameters) and every
function has at least one output name.
-/
namespace PF.C10
open PF PF.Pipe PF.Rw

/-- **The inner pipeline of a `NestedPipeFunc` is total at its fixed fuel** (`fuelOf S = S.length + 2`): if `S ⊆ fs`, the
    nest received for every outside name the original's value (`ValOld`) and the original evaluates every nested function,
    then every output of `S` evaluates inside the nest to the original's value. -/
theorem C10_nest_body_total (fs S : List RFunc) (kw args : List (String × Val)) (rank : String → Nat)
    (hS : ∀ g ∈ S, g ∈ fs) (hu : UniqueOutR fs) (hK : RootKw fs kw)
    (hA1 : ∀ p val, alookup args p = some val → ValOld fs kw p val)
    (hA2 : ∀ g ∈ S, ∀ p ∈ freeParams g, (∃ h ∈ S, p ∈ h.core.outputs) ∨ (alookup args p).isSome)
    (hac : AcyclicR fs rank) (hEv : ∀ g ∈ S, ∀ q ∈ g.core.outputs, ∃ m w, eval fs kw m q = .ok w)
    (q : String) (hq : ∃ g ∈ S, q ∈ g.core.outputs) (m : Nat) (w : Val) (hw : eval fs kw m q = .ok w) :
    eval S args (fuelOf S) q = .ok w :=
  eval_inner_total fs S kw args rank hS hu hK hA1 hA2 hac hEv q hq m w hw

/-- **The Kahn check of the model yields an acyclicity witness** (so the rank of the NEW pipeline is not a hypothesis). -/
theorem C10_acyclic_rank (fs : List RFunc) (hu : UniqueOutR fs) (h : acyclic fs = true) : ∃ rank, AcyclicR fs rank :=
  acyclic_rank fs hu h

/-- `validate_unique_output_names` passing (`dupOutputs = false`) means no two functions share an output name. -/
theorem C10_dupOutputs_unique (fs : List RFunc) (h : dupOutputs fs = false) : UniqueOutR fs := dupOutputs_unique fs h

/-- **nest_funcs is two-sided**: when `nest_funcs` accepts, with unique outputs, consistent defaults, an acyclicity witness
    for the original and `retainsAll`, then for root keywords under which the original evaluates every nested function, and
    for EVERY output `o` of the new pipeline: the new pipeline returns `v` for `o` (at some fuel) iff the original does. -/
theorem C10_nest (sel : List String) (out : Option (List String)) (fs r : List RFunc) (h : nestFuncs sel out fs = .ok r)
    (hu : UniqueOutR fs) (hc : ConsistentDefaults (cores fs)) (hdp : DefaultsOnParams fs) (hne : ∀ g ∈ fs, g.core.outputs ≠ [])
    (rank : String → Nat) (hac : AcyclicR fs rank) :
    ∃ N, r = fs.filter (fun f => !(sel.any fun o => f.core.outputs.contains o)) ++ [N] ∧
      (retainsAll fs (fun f => sel.any fun o => f.core.outputs.contains o) [N] = true →
        ∀ kw, RootKw fs kw → GroupEvaluates fs (fun f => sel.any fun o => f.core.outputs.contains o) kw →
        ∀ o, (∃ f ∈ r, o ∈ f.core.outputs) → ∀ v, (∃ n, eval r kw n o = .ok v) ↔ (∃ m, eval fs kw m o = .ok v)) := by
  unfold nestFuncs at h
  split at h
  · cases h
  · simp only [] at h
    split at h
    · cases h
    · next N hN =>
      split at h
      · next hacy =>
        injection h with h
        subst h
        have hIs := mkNest_isNestL _ out N hN (fun g hg => hne g (List.mem_filter.mp hg).1)
        refine ⟨N, rfl, ?_⟩
        intro hret kw hK hEvG o ho v
        have hu' := uniqueOut_nest1 fs (fun f => sel.any fun o => f.core.outputs.contains o) N hu hIs.nest
        obtain ⟨rank', hac'⟩ := acyclic_rank _ hu' hacy
        constructor
        · rintro ⟨n, hn⟩
          refine eval_nests fs (fun f => sel.any fun o => f.core.outputs.contains o) [N] kw ?_ hu hc hK
            (retainsAll_spec _ _ _ hret) n o v hn
          intro N' hN'
          have : N' = N := by simpa using hN'
          subst this
          exact ⟨_, fun _ _ h => h, hIs.nest⟩
        · rintro ⟨m, hm⟩
          refine eval_nests_total fs (fun f => sel.any fun o => f.core.outputs.contains o) [N] kw rank rank' ?_ ?_ hu hc hK
            (retainsAll_spec _ _ _ hret) hdp hne hac hac' hEvG o ho m v hm
          · intro N' hN'
            have : N' = N := by simpa using hN'
            subst this
            exact ⟨_, fun _ _ h => h, hIs⟩
          · intro g _ hg
            exact ⟨N, by simp, _, hg, hIs.nest⟩
      · cases h

/-- **nest_funcs is total** (the half missing from `C10_nest_partial`): under the hypotheses of `C10_nest`, every output
    of the new pipeline that the original evaluates is evaluated by the new pipeline, to the same value.  No rank for the
    new pipeline is assumed. -/
theorem C10_nest_total (sel : List String) (out : Option (List String)) (fs r : List RFunc) (h : nestFuncs sel out fs = .ok r)
    (hu : UniqueOutR fs) (hc : ConsistentDefaults (cores fs)) (hdp : DefaultsOnParams fs) (hne : ∀ g ∈ fs, g.core.outputs ≠ [])
    (rank : String → Nat) (hac : AcyclicR fs rank) :
    ∃ N, r = fs.filter (fun f => !(sel.any fun o => f.core.outputs.contains o)) ++ [N] ∧
      (retainsAll fs (fun f => sel.any fun o => f.core.outputs.contains o) [N] = true →
        ∀ kw, RootKw fs kw → GroupEvaluates fs (fun f => sel.any fun o => f.core.outputs.contains o) kw →
        ∀ o, (∃ f ∈ r, o ∈ f.core.outputs) → ∀ m v, eval fs kw m o = .ok v → ∃ n, eval r kw n o = .ok v) := by
  obtain ⟨N, hr, hN⟩ := C10_nest sel out fs r h hu hc hdp hne rank hac
  exact ⟨N, hr, fun hret kw hK hEvG o ho m v hv => (hN hret kw hK hEvG o ho v).mpr ⟨m, hv⟩⟩

/-- **`_output_name` establishes `retainsAll`** (the hypothesis of `C10_simplify_partial` discharged): when
    `simplified_pipeline` accepts a pipeline with unique, non-empty output names, the nested functions expose every grouped
    output that a function outside the groups or another nested function consumes.  Proved from the definitions of
    `identify` (every member of every group is a function of the pipeline), `combineNodes`, `groupOutputs`, `mkNest`. -/
theorem C10_simplify_retains (o : String) (c : Bool) (fs r : List RFunc) (h : simplify o c fs = .ok r)
    (hu : UniqueOutR fs) (hne : ∀ g ∈ fs, g.core.outputs ≠ []) :
    ∃ (plan : List (List RFunc × List String)) (Ns : List RFunc), simplifyPlan o c fs = .ok plan ∧
      r = fs.filter (fun f => !((plan.map (·.1)).flatten.any (sameF f))) ++ Ns ∧
      retainsAll fs (fun f => (plan.map (·.1)).flatten.any (sameF f)) Ns = true := by
  unfold simplify at h
  split at h
  · cases h
  · next plan hplan =>
    split at h
    · cases h
    · next Ns hNs =>
      split at h
      · cases h
      · split at h
        · injection h with h
          exact ⟨plan, Ns, hplan, h.symm, retainsAll_simplify o c fs hu hne plan hplan Ns hNs⟩
        · cases h

/-- **simplified_pipeline is two-sided**: when it accepts, with unique non-empty outputs, consistent defaults and an
    acyclicity witness for the original, then for root keywords under which the original evaluates every grouped function,
    and for every output `o'` of the simplified pipeline: it returns `v` for `o'` iff the original does.  (`retainsAll`,
    `UniqueOutR r` and the rank of `r` are all derived: from `_output_name` and from the `dupOutputs`/`acyclic` checks
    `simplified_pipeline` itself runs.) -/
theorem C10_simplify (o : String) (c : Bool) (fs r : List RFunc) (h : simplify o c fs = .ok r)
    (hu : UniqueOutR fs) (hc : ConsistentDefaults (cores fs)) (hdp : DefaultsOnParams fs) (hne : ∀ g ∈ fs, g.core.outputs ≠ [])
    (rank : String → Nat) (hac : AcyclicR fs rank) :
    ∃ (plan : List (List RFunc × List String)) (Ns : List RFunc), simplifyPlan o c fs = .ok plan ∧
      r = fs.filter (fun f => !((plan.map (·.1)).flatten.any (sameF f))) ++ Ns ∧
      (∀ kw, RootKw fs kw → GroupEvaluates fs (fun f => (plan.map (·.1)).flatten.any (sameF f)) kw →
        ∀ o', (∃ f ∈ r, o' ∈ f.core.outputs) → ∀ v, (∃ n, eval r kw n o' = .ok v) ↔ (∃ m, eval fs kw m o' = .ok v)) := by
  unfold simplify at h
  split at h
  · cases h
  · next plan hplan =>
    split at h
    · cases h
    · next Ns hNs =>
      split at h
      · cases h
      · next hdup =>
        split at h
        · next hacy =>
          injection h with h
          subst h
          refine ⟨plan, Ns, hplan, rfl, ?_⟩
          intro kw hK hEvG o' ho' v
          have hret := retainsAll_simplify o c fs hu hne plan hplan Ns hNs
          have hu' := dupOutputs_unique _ (Bool.eq_false_iff.mpr hdup)
          obtain ⟨rank', hac'⟩ := acyclic_rank _ hu' hacy
          have hNsL : ∀ N ∈ Ns, ∃ sel : RFunc → Bool,
              (∀ g ∈ fs, sel g = true → (plan.map (·.1)).flatten.any (sameF g) = true) ∧ IsNestL (fs.filter sel) N := by
            intro N hN
            obtain ⟨e, he, hm⟩ := buildNests_mem _ Ns hNs N hN
            obtain ⟨e0, he0, rfl⟩ := List.mem_map.mp he
            obtain ⟨g, outs⟩ := e0
            refine ⟨fun f => g.any (sameF f), ?_, mkNest_isNestL _ _ N hm (fun g' hg' => hne g' (List.mem_filter.mp hg').1)⟩
            intro f _ hsel
            obtain ⟨x, hx, hfx⟩ := List.any_eq_true.mp hsel
            exact List.any_eq_true.mpr ⟨x, List.mem_flatten.mpr ⟨g, List.mem_map.mpr ⟨(g, outs), he0, rfl⟩, hx⟩, hfx⟩
          constructor
          · rintro ⟨n, hn⟩
            refine eval_nests fs _ Ns kw ?_ hu hc hK (retainsAll_spec _ _ _ hret) n o' v hn
            intro N hN
            obtain ⟨sel, h1, h2⟩ := hNsL N hN
            exact ⟨sel, h1, h2.nest⟩
          · rintro ⟨m, hm⟩
            refine eval_nests_total fs _ Ns kw rank rank' hNsL ?_ hu hc hK (retainsAll_spec _ _ _ hret) hdp hne hac hac' hEvG
              o' ho' m v hm
            intro g _ hg
            obtain ⟨x, hx, hgx⟩ := List.any_eq_true.mp hg
            obtain ⟨grp, hgrp, hxg⟩ := List.mem_flatten.mp hx
            obtain ⟨e0, he0, rfl⟩ := List.mem_map.mp hgrp
            obtain ⟨g0, outs⟩ := e0
            obtain ⟨N, hN, hmk⟩ := buildNests_mem_conv _ Ns hNs (fs.filter (fun f => g0.any (sameF f)), outs)
              (List.mem_map.mpr ⟨(g0, outs), he0, rfl⟩)
            exact ⟨N, hN, fun f => g0.any (sameF f), List.any_eq_true.mpr ⟨x, hxg, hgx⟩, mkNest_isNest _ _ N hmk⟩
        · cases h

/-- **simplified_pipeline is total** (the half missing from `C10_simplify_partial`); `retainsAll` is no longer assumed. -/
theorem C10_simplify_total (o : String) (c : Bool) (fs r : List RFunc) (h : simplify o c fs = .ok r)
    (hu : UniqueOutR fs) (hc : ConsistentDefaults (cores fs)) (hdp : DefaultsOnParams fs) (hne : ∀ g ∈ fs, g.core.outputs ≠ [])
    (rank : String → Nat) (hac : AcyclicR fs rank) :
    ∃ (plan : List (List RFunc × List String)) (Ns : List RFunc), simplifyPlan o c fs = .ok plan ∧
      r = fs.filter (fun f => !((plan.map (·.1)).flatten.any (sameF f))) ++ Ns ∧
      (∀ kw, RootKw fs kw → GroupEvaluates fs (fun f => (plan.map (·.1)).flatten.any (sameF f)) kw →
        ∀ o', (∃ f ∈ r, o' ∈ f.core.outputs) → ∀ m v, eval fs kw m o' = .ok v → ∃ n, eval r kw n o' = .ok v) := by
  obtain ⟨plan, Ns, hp, hr, hN⟩ := C10_simplify o c fs r h hu hc hdp hne rank hac
  exact ⟨plan, Ns, hp, hr, fun kw hK hEvG o' ho' m v hv => (hN kw hK hEvG o' ho' v).mpr ⟨m, hv⟩⟩

/-- **nest_funcs with the default output name** (`new_output_name=None`: every inner output is exposed): `retainsAll` holds
    by construction, so the two-sided statement needs no retention hypothesis. -/
theorem C10_nest_default (sel : List String) (fs r : List RFunc) (h : nestFuncs sel none fs = .ok r)
    (hu : UniqueOutR fs) (hc : ConsistentDefaults (cores fs)) (hdp : DefaultsOnParams fs) (hne : ∀ g ∈ fs, g.core.outputs ≠ [])
    (rank : String → Nat) (hac : AcyclicR fs rank) (kw : List (String × Val)) (hK : RootKw fs kw)
    (hEv : GroupEvaluates fs (fun f => sel.any fun o => f.core.outputs.contains o) kw)
    (o : String) (ho : ∃ f ∈ r, o ∈ f.core.outputs) (v : Val) :
    (∃ n, eval r kw n o = .ok v) ↔ (∃ m, eval fs kw m o = .ok v) := by
  obtain ⟨N, hr, hN⟩ := C10_nest sel none fs r h hu hc hdp hne rank hac
  refine hN ?_ kw hK hEv o ho v
  unfold nestFuncs at h
  split at h
  · cases h
  · simp only [] at h
    split at h
    · cases h
    · next N' hN' =>
      split at h
      · injection h with h
        rw [hr] at h
        have : N' = N := by simpa using List.append_cancel_left h
        subst this
        exact retainsAll_nest_none fs _ N' hN'
      · cases h

/-- the same with the ORIGINAL's acyclicity given by the model's decidable Kahn check instead of a rank -/
theorem C10_nest_default_checked (sel : List String) (fs r : List RFunc) (h : nestFuncs sel none fs = .ok r)
    (hu : UniqueOutR fs) (hc : ConsistentDefaults (cores fs)) (hdp : DefaultsOnParams fs) (hne : ∀ g ∈ fs, g.core.outputs ≠ [])
    (hacy : acyclic fs = true) (kw : List (String × Val)) (hK : RootKw fs kw)
    (hEv : GroupEvaluates fs (fun f => sel.any fun o => f.core.outputs.contains o) kw)
    (o : String) (ho : ∃ f ∈ r, o ∈ f.core.outputs) (v : Val) :
    (∃ n, eval r kw n o = .ok v) ↔ (∃ m, eval fs kw m o = .ok v) := by
  obtain ⟨rank, hac⟩ := acyclic_rank fs hu hacy
  exact C10_nest_default sel fs r h hu hc hdp hne rank hac kw hK hEv o ho v

/-- **simplified_pipeline, all structural hypotheses decidable**: `dupOutputs fs = false`, `acyclic fs = true` (the
    model's own checks) replace `UniqueOutR` and the rank. -/
theorem C10_simplify_checked (o : String) (c : Bool) (fs r : List RFunc) (h : simplify o c fs = .ok r)
    (hdup : dupOutputs fs = false) (hacy : acyclic fs = true)
    (hc : ConsistentDefaults (cores fs)) (hdp : DefaultsOnParams fs) (hne : ∀ g ∈ fs, g.core.outputs ≠ [])
    (kw : List (String × Val)) (hK : RootKw fs kw) :
    ∃ (plan : List (List RFunc × List String)), simplifyPlan o c fs = .ok plan ∧
      (GroupEvaluates fs (fun f => (plan.map (·.1)).flatten.any (sameF f)) kw →
        ∀ o', (∃ f ∈ r, o' ∈ f.core.outputs) → ∀ v, (∃ n, eval r kw n o' = .ok v) ↔ (∃ m, eval fs kw m o' = .ok v)) := by
  have hu := dupOutputs_unique fs hdup
  obtain ⟨rank, hac⟩ := acyclic_rank fs hu hacy
  obtain ⟨plan, Ns, hp, _, hN⟩ := C10_simplify o c fs r h hu hc hdp hne rank hac
  exact ⟨plan, hp, fun hEv => hN kw hK hEv⟩

/-! ### non-vacuity

`P3` (from `Props/C10.lean`): `f0: r0 ↦ o0`, `f1: (o0, r1=7) ↦ (o1a, o1b)`, `f2: (o1b, r2 bound) ↦ o2`; the group is `{f1, f2}`.
(`identify` is not kernel-reducible; the last example unrolls it with its equation lemmas.) -/

example : dupOutputs P3 = false := by decide
example : acyclic P3 = true := by decide
example : ∃ rank, AcyclicR P3 rank := C10_acyclic_rank P3 (C10_dupOutputs_unique P3 (by decide)) (by decide)
example : AcyclicR P3 (fun s => if s = "o0" then 0 else if s = "o2" then 2 else 1) := ⟨by decide⟩
example : DefaultsOnParams P3 := by unfold DefaultsOnParams; decide
example : ∀ g ∈ P3, g.core.outputs ≠ [] := by decide
example : ((nestFuncs ["o1a", "o2"] none P3).toOption.map fun r =>
    retainsAll P3 (fun f => ["o1a", "o2"].any fun o => f.core.outputs.contains o) (r.drop 1)) = some true := by decide

/-- every hypothesis of `C10_nest` (hence of `C10_nest_total`) holds for nesting `{f1, f2}` of `P3` with `r0 = 1`: the
    theorem is applied and its conclusion obtained -/
example : ∃ r, nestFuncs ["o1a", "o2"] none P3 = .ok r ∧
    ∀ o, (∃ f ∈ r, o ∈ f.core.outputs) → ∀ v,
      (∃ n, eval r [("r0", .int 1)] n o = .ok v) ↔ (∃ m, eval P3 [("r0", .int 1)] m o = .ok v) := by
  have hs : (nestFuncs ["o1a", "o2"] none P3).toOption.isSome = true := by decide
  cases h : nestFuncs ["o1a", "o2"] none P3 with
  | error e => rw [h] at hs; simp [Except.toOption] at hs
  | ok r =>
    refine ⟨r, rfl, ?_⟩
    have hcd : ConsistentDefaults (cores P3) := by
      intro f hf g hg p v w h1 h2
      simp only [P3, cores, List.map_cons, List.map_nil, List.mem_cons, List.not_mem_nil, or_false] at hf hg
      rcases hf with rfl | rfl | rfl <;> rcases hg with rfl | rfl | rfl <;> simp_all [embed, g0, g1, g2]
    obtain ⟨N, hr, hN⟩ := C10_nest _ _ _ r h (dupOutputs_unique P3 (by decide)) hcd (by unfold DefaultsOnParams; decide) (by decide)
      (fun s => if s = "o0" then 0 else if s = "o2" then 2 else 1) ⟨by decide⟩
    have hret : retainsAll P3 (fun f => ["o1a", "o2"].any fun o => f.core.outputs.contains o) [N] = true := by
      have hd : ((nestFuncs ["o1a", "o2"] none P3).toOption.map fun r =>
          retainsAll P3 (fun f => ["o1a", "o2"].any fun o => f.core.outputs.contains o) (r.drop 1)) = some true := by decide
      have hlen : (P3.filter (fun f => !(["o1a", "o2"].any fun o => f.core.outputs.contains o))).length = 1 := by decide
      have hgen : ∀ (l : List RFunc), l.length = 1 → (l ++ [N]).drop 1 = [N] := by
        intro l hl
        cases l with
        | nil => simp at hl
        | cons a as =>
          cases as with
          | nil => rfl
          | cons b bs => simp at hl
      have hdrop : r.drop 1 = [N] := by rw [hr]; exact hgen _ hlen
      rw [h] at hd
      simp only [Except.toOption, Option.map, hdrop] at hd
      injection hd
    have hK : RootKw P3 [("r0", .int 1)] := by
      intro p ⟨c, hc⟩
      simp only [alookup]
      split
      · next e =>
        subst e
        have : producer (cores P3) "r0" = none := by decide
        rw [this] at hc; cases hc
      · rfl
    have hdec : ∀ g ∈ P3, (["o1a", "o2"].any fun o => g.core.outputs.contains o) = true → ∀ q ∈ g.core.outputs,
        (eval P3 [("r0", .int 1)] 5 q).toOption.isSome = true := by decide
    have hEv : GroupEvaluates P3 (fun f => ["o1a", "o2"].any fun o => f.core.outputs.contains o) [("r0", .int 1)] := by
      intro g hg hin q hq
      have := hdec g hg hin q hq
      cases he : eval P3 [("r0", .int 1)] 5 q with
      | ok w => exact ⟨5, w, he⟩
      | error e => rw [he] at this; simp [Except.toOption] at this
    exact hN hret _ hK hEv

/-- `C10_nest_body_total` applied: the whole of `P3` as the nested group, evaluated at the fixed fuel -/
example : ∃ w, eval P3 [("r0", .int 1), ("r1", .int 7)] (fuelOf P3) "o2" = .ok w := by
  have hK : RootKw P3 [("r0", .int 1)] := by
    intro p ⟨c, hc⟩
    simp only [alookup]
    split
    · next e =>
      subst e
      have : producer (cores P3) "r0" = none := by decide
      rw [this] at hc; cases hc
    · rfl
  have hdec : ∀ g ∈ P3, ∀ q ∈ g.core.outputs, (eval P3 [("r0", .int 1)] 5 q).toOption.isSome = true := by decide
  have hEv : ∀ g ∈ P3, ∀ q ∈ g.core.outputs, ∃ m w, eval P3 [("r0", .int 1)] m q = .ok w := by
    intro g hg q hq
    have := hdec g hg q hq
    cases he : eval P3 [("r0", .int 1)] 5 q with
    | ok w => exact ⟨5, w, he⟩
    | error e => rw [he] at this; simp [Except.toOption] at this
  obtain ⟨m, w, hw⟩ := hEv (embed g2) (by simp [P3]) "o2" (by simp [embed, g2])
  have hA1 : ∀ p val, alookup [("r0", Val.int 1), ("r1", Val.int 7)] p = some val → ValOld P3 [("r0", .int 1)] p val := by
    intro p val h
    simp only [alookup] at h
    split at h
    · next e => subst e; injection h with h; subst h; exact Or.inl rfl
    · split at h
      · next e => subst e; injection h with h; subst h; exact Or.inr (Or.inr ⟨rfl, rfl, rfl⟩)
      · cases h
  exact ⟨w, C10_nest_body_total P3 P3 [("r0", .int 1)] [("r0", .int 1), ("r1", .int 7)]
    (fun s => if s = "o0" then 0 else if s = "o2" then 2 else 1)
    (fun _ h => h) (C10_dupOutputs_unique P3 (by decide)) hK hA1 (by decide) ⟨by decide⟩ hEv
    "o2" (by decide) m w hw⟩

/-- `C10_nest_default_checked` applied to `P3`: every hypothesis is a closed, checked fact -/
example : ∃ r, nestFuncs ["o1a", "o2"] none P3 = .ok r ∧
    ∀ o, (∃ f ∈ r, o ∈ f.core.outputs) → ∀ v,
      (∃ n, eval r [("r0", .int 1)] n o = .ok v) ↔ (∃ m, eval P3 [("r0", .int 1)] m o = .ok v) := by
  have hcd : ConsistentDefaults (cores P3) := by
    intro f hf g hg p v w h1 h2
    simp only [P3, cores, List.map_cons, List.map_nil, List.mem_cons, List.not_mem_nil, or_false] at hf hg
    rcases hf with rfl | rfl | rfl <;> rcases hg with rfl | rfl | rfl <;> simp_all [embed, g0, g1, g2]
  have hK : RootKw P3 [("r0", .int 1)] := by
    intro p ⟨c, hc⟩
    simp only [alookup]
    split
    · next e =>
      subst e
      have : producer (cores P3) "r0" = none := by decide
      rw [this] at hc; cases hc
    · rfl
  have hdec : ∀ g ∈ P3, ∀ q ∈ g.core.outputs, (eval P3 [("r0", .int 1)] 5 q).toOption.isSome = true := by decide
  have hEv : ∀ g ∈ P3, ∀ q ∈ g.core.outputs, ∃ m w, eval P3 [("r0", .int 1)] m q = .ok w := by
    intro g hg q hq
    have := hdec g hg q hq
    cases he : eval P3 [("r0", .int 1)] 5 q with
    | ok w => exact ⟨5, w, he⟩
    | error e => rw [he] at this; simp [Except.toOption] at this
  have hs : (nestFuncs ["o1a", "o2"] none P3).toOption.isSome = true := by decide
  cases h : nestFuncs ["o1a", "o2"] none P3 with
  | error e => rw [h] at hs; simp [Except.toOption] at hs
  | ok r =>
    exact ⟨r, rfl, fun o ho v => C10_nest_default_checked _ P3 r h (C10_dupOutputs_unique P3 (by decide)) hcd
      (by unfold DefaultsOnParams; decide) (by decide) (by decide) _ hK (fun g hg _ q hq => hEv g hg q hq) o ho v⟩

/-- a closed instance of `simplify … = .ok r` (`identify` unrolled with its equation lemmas: `f2` is combined with `f1`,
    which shares its root arguments; `f0` does not), and `C10_simplify_checked` (hence `C10_simplify`,
    `C10_simplify_total`, `C10_simplify_retains`) applied to it -/
example : ∃ r, simplify "o2" false P3 = .ok r ∧
    ∀ o', (∃ f ∈ r, o' ∈ f.core.outputs) → ∀ v,
      (∃ n, eval r [("r0", .int 1)] n o' = .ok v) ↔ (∃ m, eval P3 [("r0", .int 1)] m o' = .ok v) := by
  have hcd : ConsistentDefaults (cores P3) := by
    intro f hf g hg p v w h1 h2
    simp only [P3, cores, List.map_cons, List.map_nil, List.mem_cons, List.not_mem_nil, or_false] at hf hg
    rcases hf with rfl | rfl | rfl <;> rcases hg with rfl | rfl | rfl <;> simp_all [embed, g0, g1, g2]
  have hK : RootKw P3 [("r0", .int 1)] := by
    intro p ⟨c, hc⟩
    simp only [alookup]
    split
    · next e =>
      subst e
      have : producer (cores P3) "r0" = none := by decide
      rw [this] at hc; cases hc
    · rfl
  have hdec : ∀ g ∈ P3, ∀ q ∈ g.core.outputs, (eval P3 [("r0", .int 1)] 5 q).toOption.isSome = true := by decide
  have hEv : ∀ g ∈ P3, ∀ q ∈ g.core.outputs, ∃ m w, eval P3 [("r0", .int 1)] m q = .ok w := by
    intro g hg q hq
    have := hdec g hg q hq
    cases he : eval P3 [("r0", .int 1)] 5 q with
    | ok w => exact ⟨5, w, he⟩
    | error e => rw [he] at this; simp [Except.toOption] at this
  have hs : (simplify "o2" false P3).toOption.isSome = true := by
    have p0 : predFuncs P3 (embed g0) = [] := rfl
    have p1 : predFuncs P3 (embed g1) = [embed g0] := rfl
    have p2 : predFuncs P3 (embed g2) = [embed g1] := rfl
    have e0 : identify P3 false 2 (embed g0) [] = .ok [] := by
      rw [identify.eq_2, p0, identify.go.eq_1]; rfl
    have r01 : (rootArgsOf P3 (embed g0) == rootArgsOf P3 (embed g1)) = false := by decide
    have r12 : (rootArgsOf P3 (embed g1) == rootArgsOf P3 (embed g2)) = true := by decide
    have m0 : (embed g0).mapspec.isSome = false := rfl
    have m1 : (embed g1).mapspec.isSome = false := rfl
    have e1 : identify P3 false 3 (embed g1) [] = .ok [] := by
      rw [identify.eq_2, p1, identify.go.eq_2]
      simp only [m0, Bool.false_eq_true, ↓reduceIte, e0, r01, Bool.false_and, identify.go.eq_1]
      rfl
    have hid : identify P3 false (P3.length + 1) (embed g2) [] = .ok [(embed g2, [embed g1])] := by
      show identify P3 false 4 (embed g2) [] = _
      rw [identify.eq_2, p2, identify.go.eq_2]
      simp only [m1, Bool.false_eq_true, ↓reduceIte, e1, r12, Bool.true_and, identify.go.eq_1]
      rfl
    have hp : rproducer P3 "o2" = some (embed g2) := rfl
    unfold simplify simplifyPlan
    rw [hp]
    simp only [hid]
    decide
  cases h : simplify "o2" false P3 with
  | error e => rw [h] at hs; simp [Except.toOption] at hs
  | ok r =>
    obtain ⟨plan, _, hN⟩ := C10_simplify_checked "o2" false P3 r h (by decide) (by decide) hcd
      (by unfold DefaultsOnParams; decide) (by decide) [("r0", .int 1)] hK
    exact ⟨r, rfl, hN (fun g hg _ q hq => hEv g hg q hq)⟩

end PF.C10
