import PfModel.Lemmas.LazySound
import PfModel.Lemmas.LazyEval
/-! Helper lemmas for `Props/C18.lean`, part 5: the session invariant and the core fact about one lazy call. -/
namespace PF.Lazy
open PF PF.Pipe

/-- the invariant of a session whose calls all use the keyword arguments `kw` (the task graph's cache is keyed by root-argument
    values only; entries made for other keyword arguments are outside this invariant) -/
structure Sess (fs : List Func) (kw : List (String × Val)) (s : LSt) : Prop where
  closed : Closed s.nodes
  cache : CacheSound fs kw s
  graph : GInv s
  done : DoneSound s.nodes s.ev
  log : LogInv s.ev

theorem sess_inv0 {fs : List Func} {kw : List (String × Val)} {s : LSt} (h : Sess fs kw s) :
    Inv fs kw { s with memo := kw.map fun (k, v) => (k, LArg.val v), used := [], usedNone := false } := by
  refine ⟨h.closed, ?_, h.cache, h.graph⟩
  intro p a hk hp
  simp only [] at hp
  rw [alookup_map_val, hk] at hp; cases hp

/-- the core fact about one lazy call `pipeline(o, **kw)` -/
theorem lrunTop_name {fs : List Func} {kw : List (String × Val)} (hu : Unique fs) {s : LSt} (hs : Sess fs kw s) {o : String}
    {a : LArg} {s' : LSt} (h : lrunTop fs kw (.name o) s = .ok (a, s')) :
    Step s s' ∧ Inv fs kw s' ∧ ∃ v k, den s'.nodes a = some v ∧ compose fs kw k o = .ok v := by
  simp only [lrunTop] at h
  split at h
  · cases h
  · next hko =>
    split at h
    · cases h
    · next a1 s1 hrun =>
      split at h
      · injection h with h; injection h with h1 h2; subst h1; subst h2
        have hko' : alookup kw o = none := by
          cases hh : alookup kw o with
          | none => rfl
          | some _ => rw [hh] at hko; simp at hko
        obtain ⟨hst, hi, hv⟩ := lrun_sound hu (fuelFor fs) o _ a1 s1 (sess_inv0 hs) hrun
        exact ⟨hst, hi, hv hko'⟩
      · cases h

theorem sess_after {fs : List Func} {kw : List (String × Val)} {s s' : LSt} (hs : Sess fs kw s) (hst : Step s s')
    (hi : Inv fs kw s') : Sess fs kw s' := by
  obtain ⟨⟨ext, hext⟩, hev, _⟩ := hst
  refine ⟨hi.closed, hi.cache, hi.graph, ?_, by rw [hev]; exact hs.log⟩
  intro i w hl
  rw [hev] at hl
  rw [hext]; exact den_ext ext (hs.done i w hl)

end PF.Lazy
