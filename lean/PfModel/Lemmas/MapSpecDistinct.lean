/-
Lemmas for `C08_key_tests_agree_iff` (round 9): `len(set(l))` (`nDistinct`) depends only on the members of `l`, and equals the
length exactly for duplicate-free lists.
-/
import PfModel.Lemmas.MapSpecExtend
namespace PF.MS

theorem filter_ne_of_not_mem (x : String) : ∀ (l : List String), x ∉ l → l.filter (· != x) = l
  | [], _ => rfl
  | y :: ys, h => by
    have hy : y ≠ x := fun e => h (e ▸ List.mem_cons_self)
    have := filter_ne_of_not_mem x ys (fun hm => h (List.mem_cons_of_mem _ hm))
    rw [List.filter_cons_of_pos (by simpa using hy), this]

theorem contains_filter_ne (x y : String) (hxy : y ≠ x) (l : List String) :
    (l.filter (· != x)).contains y = l.contains y := by
  rw [Bool.eq_iff_iff]
  simp only [List.contains_iff_mem, List.mem_filter, bne_iff_ne, ne_eq]
  exact ⟨fun h => h.1, fun h => ⟨h, hxy⟩⟩

/-- removing all copies of a member lowers the count by exactly one -/
theorem nDistinct_remove (x : String) : ∀ (l : List String), x ∈ l → nDistinct l = nDistinct (l.filter (· != x)) + 1
  | [], h => by cases h
  | y :: ys, h => by
    by_cases hyx : y = x
    · subst hyx
      have hf : (y :: ys).filter (· != y) = ys.filter (· != y) := by simp [List.filter]
      rw [hf]
      simp only [nDistinct]
      by_cases hm : y ∈ ys
      · rw [if_pos (List.contains_iff_mem.mpr hm)]
        exact nDistinct_remove y ys hm
      · have : ys.contains y = false := by
          cases hc : ys.contains y with
          | false => rfl
          | true => exact absurd (List.contains_iff_mem.mp hc) hm
        rw [this, filter_ne_of_not_mem y ys hm]; simp
    · have hm : x ∈ ys := by
        rcases List.mem_cons.mp h with e | e
        · exact absurd e.symm hyx
        · exact e
      have ih := nDistinct_remove x ys hm
      have hf : (y :: ys).filter (· != x) = y :: ys.filter (· != x) := List.filter_cons_of_pos (by simpa using hyx)
      rw [hf]
      simp only [nDistinct, contains_filter_ne x y hyx ys]
      split
      · exact ih
      · rw [ih]

theorem length_filter_ne_lt (x : String) (l : List String) (h : x ∈ l) : (l.filter (· != x)).length < l.length := by
  induction l with
  | nil => cases h
  | cons y ys ih =>
    by_cases hyx : y = x
    · subst hyx
      have : ((y :: ys).filter (· != y)).length = (ys.filter (· != y)).length := by simp [List.filter]
      rw [this]
      exact Nat.lt_succ_of_le (List.length_filter_le _ _)
    · have hm : x ∈ ys := by
        rcases List.mem_cons.mp h with e | e
        · exact absurd e.symm hyx
        · exact e
      have := ih hm
      rw [List.filter_cons_of_pos (by simpa using hyx)]; simp only [List.length_cons]; omega

/-- `len(set(l))` depends on the members only -/
theorem nDistinct_congr : ∀ (n : Nat) (l₁ l₂ : List String), l₁.length ≤ n → (∀ x, x ∈ l₁ ↔ x ∈ l₂) →
    nDistinct l₁ = nDistinct l₂
  | 0, l₁, l₂, hl, h => by
    have e1 : l₁ = [] := List.eq_nil_of_length_eq_zero (by omega)
    subst e1
    have e2 : l₂ = [] := by
      cases l₂ with
      | nil => rfl
      | cons y ys => exact absurd ((h y).mpr List.mem_cons_self) (by simp)
    rw [e2]
  | n + 1, [], l₂, _, h => by
    have e2 : l₂ = [] := by
      cases l₂ with
      | nil => rfl
      | cons y ys => exact absurd ((h y).mpr List.mem_cons_self) (by simp)
    rw [e2]
  | n + 1, x :: xs, l₂, hl, h => by
    have h1 : x ∈ x :: xs := List.mem_cons_self
    have h2 : x ∈ l₂ := (h x).mp h1
    rw [nDistinct_remove x (x :: xs) h1, nDistinct_remove x l₂ h2]
    congr 1
    apply nDistinct_congr n
    · have := length_filter_ne_lt x (x :: xs) h1; omega
    · intro y
      simp only [List.mem_filter, h y]

theorem nDistinct_le : ∀ (l : List String), nDistinct l ≤ l.length
  | [] => Nat.le_refl _
  | x :: xs => by
    have := nDistinct_le xs
    simp only [nDistinct, List.length_cons]
    split <;> omega

theorem nDistinct_eq_length_iff : ∀ (l : List String), nDistinct l = l.length ↔ l.Nodup
  | [] => by simp [nDistinct]
  | x :: xs => by
    have ih := nDistinct_eq_length_iff xs
    have hle := nDistinct_le xs
    simp only [nDistinct, List.length_cons, List.nodup_cons]
    by_cases hm : x ∈ xs
    · rw [if_pos (List.contains_iff_mem.mpr hm)]
      constructor
      · intro e; omega
      · intro ⟨h, _⟩; exact absurd hm h
    · have : xs.contains x = false := by
        cases hc : xs.contains x with
        | false => rfl
        | true => exact absurd (List.contains_iff_mem.mp hc) hm
      rw [this]
      simp only [Bool.false_eq_true, ↓reduceIte, Nat.add_right_cancel_iff, ih]
      exact ⟨fun h => ⟨hm, h⟩, fun h => h.2⟩

/-- for a valid spec the external indices and the input indices are the same set -/
theorem mem_external_iff (m : MapSpec) (hv : Valid m) (x : String) : x ∈ externalIndices m ↔ x ∈ inputIndexList m := by
  unfold externalIndices
  simp only [List.mem_filter, List.contains_iff_mem]
  constructor
  · exact fun h => h.2
  · intro h
    obtain ⟨a, ha, hx⟩ := (mem_inputIndexList m x).mp h
    exact ⟨hv.in_sub a ha x hx, h⟩

/-- the length tests of `output_key` (`len(input_indices)`, a set) and `input_keys` (`len(external_indices)`, a tuple) ask for
    the same length exactly when the external indices are pairwise distinct -/
theorem key_tests_agree_iff (m : MapSpec) (hv : Valid m) :
    nDistinct (inputIndexList m) = (externalIndices m).length ↔ (externalIndices m).Nodup := by
  rw [nDistinct_congr _ (inputIndexList m) (externalIndices m) (Nat.le_refl _) (fun x => (mem_external_iff m hv x).symm)]
  exact nDistinct_eq_length_iff _

end PF.MS
