import PfModel.Lemmas.RewriteAxisFunc
/-!
`add_mapspec_axis` on a pipeline without prior MapSpecs (part 5): the result of one function, one generation and all
generations of the lifted run against the `K` pointwise runs.
-/
namespace PF.Rw.Ax
open PF PF.Map PF.C01

section sim
variable {τ : List String → Option MSpec} {gs : List MFunc} {p axis : String}
variable (K : Nat) (vs : List Val) (rest : List (String × Val))

/-- what `runSingle` returns, given the argument list -/
def singleResult (g : MFunc) (args : List (String × Val)) : FuncResult :=
  { outputs := g.outputs.map fun o => (o, outVal g args o),
    slots := (g.outputs.map fun o => (o, outVal g args o)).map fun (o, v) => (o, Slot.single v),
    calls := [{ name := g.name, args := args }] }

theorem runSingle_inv (fs : List MFunc) (env : Env) (g : MFunc) (r : FuncResult) (h : runSingle fs env g = .ok r) :
    ∃ args, g.params.mapM (fun x => (do return (x.2, ← argWhole fs env g x.1) : M _)) = .ok args ∧ r = singleResult g args := by
  unfold runSingle at h
  cases hm : g.params.mapM (fun x => (do return (x.2, ← argWhole fs env g x.1) : M _)) with
  | error e =>
    have : (g.params.mapM fun x => (do return (x.2, ← argWhole fs env g x.1) : M _)) = .error e := hm
    simp only [bind, Except.bind] at h this
    rw [this] at h; cases h
  | ok args =>
    have : (g.params.mapM fun x => (do return (x.2, ← argWhole fs env g x.1) : M _)) = .ok args := hm
    simp only [bind, Except.bind] at h this
    rw [this] at h
    simp only [pure, Except.pure] at h
    injection h with h
    exact ⟨args, rfl, h.symm⟩

theorem tv_single (os : List (String × Val)) : tv (os.map fun (o, v) => (o, Slot.single v)) = os := by
  induction os with
  | nil => rfl
  | cons e es ih =>
    obtain ⟨k, v⟩ := e
    simp only [tv, List.map_cons, List.map_map] at ih ⊢
    rw [ih]; rfl

/-- **one function**: the lifted function run on the array of variants returns, for each output, the array of what the
    `K` pointwise runs return (a function that depends on `p`), or exactly what each of them returns (one that does not) -/
theorem func_sim (ok : LiftOK τ gs p axis) (hlen : vs.length = K) (hK : 0 < K) (hrest : ∀ k ∈ akeys rest, producer gs k = none)
    (env' : Env) (envs : Nat → Env) (R : EnvRel τ gs p K vs rest env' envs) (done : List String)
    (hst : Stored gs env' done) (g : MFunc) (hg : g ∈ gs) (hr : Ready gs done g)
    (shapes' : List (String × List Nat)) (masks' : List (String × List Bool))
    (hsh : (τ g.outputs).isSome = true → ∀ o ∈ g.outputs, alookup shapes' o = some [K] ∧ alookup masks' o = some [true])
    (sh : Nat → List (String × List Nat)) (mk : Nat → List (String × List Bool)) (r : Nat → FuncResult)
    (hrun : ∀ n, n < K → runFuncWith denoteArray gs (sh n) (mk n) (envs n) g = .ok (r n)) :
    ∃ r', runFuncWith denoteArray (gs.map (withSpec τ)) shapes' masks' env' (withSpec τ g) = .ok r' ∧
      VRel τ gs K r'.outputs (fun n => (r n).outputs) ∧ tv r'.slots = r'.outputs ∧
      (∀ n, n < K → tv (r n).slots = (r n).outputs) ∧ akeys r'.slots = g.outputs := by
  -- the pointwise runs are single calls
  have hsingle : ∀ n, n < K → runSingle gs (envs n) g = .ok (r n) := by
    intro n hn
    have := hrun n hn
    unfold runFuncWith at this
    rw [ok.nospec g hg] at this
    exact this
  have hargs : ∀ n, n < K → ∃ a, g.params.mapM (fun x => (do return (x.2, ← argWhole gs (envs n) g x.1) : M _)) = .ok a ∧
      r n = singleResult g a := fun n hn => runSingle_inv gs (envs n) g (r n) (hsingle n hn)
  have hslots : ∀ n, n < K → tv (r n).slots = (r n).outputs := by
    intro n hn
    obtain ⟨a, _, hra⟩ := hargs n hn
    rw [hra]
    exact tv_single _
  cases hm : τ g.outputs with
  | none =>
    have hrun' : ∀ n, n < K → runFuncWith denoteArray (gs.map (withSpec τ)) shapes' masks' env' (withSpec τ g) = .ok (r n) := by
      intro n hn
      unfold runFuncWith
      have : (withSpec τ g).mapspec = none := hm
      rw [this]
      simp only []
      rw [runSingle_plain K vs rest ok env' envs R g hg hm n hn]
      exact hsingle n hn
    have heq : ∀ n, n < K → r n = r 0 := by
      intro n hn
      have a := hrun' n hn
      rw [hrun' 0 hK] at a
      injection a with a
      exact a.symm
    obtain ⟨a0, _, hr0⟩ := hargs 0 hK
    refine ⟨r 0, hrun' 0 hK, ?_, hslots 0 hK, hslots, ?_⟩
    · have hkeys : ∀ x, (alookup (r 0).outputs x).isSome = true → x ∈ g.outputs := by
        intro x hx
        rw [hr0] at hx
        simp only [singleResult, alookup_map_fn] at hx
        by_cases hxo : x ∈ g.outputs
        · exact hxo
        · simp [hxo] at hx
      refine ⟨fun x n hn => by rw [heq n hn], ?_, fun x _ n hn => by rw [heq n hn]⟩
      intro x hx v' hv
      have hxo := hkeys x (by rw [hv]; rfl)
      have := ok.isL_iff g hg x hxo
      rw [hx, hm] at this
      cases this
    · rw [hr0]
      simp [singleResult, akeys, Function.comp_def]
  | some ms =>
    obtain ⟨ho, hne, hin, hcov⟩ := ok.lifted g hg ms hm
    -- the argument lists of the pointwise runs, as a function of the index
    let A : Nat → M (List (String × Val)) := fun n => g.params.mapM (fun x => (do return (x.2, ← argWhole gs (envs n) g x.1) : M _))
    let a : Nat → List (String × Val) := fun n => match A n with | .ok l => l | .error _ => []
    have hA : ∀ n, n < K → A n = .ok (a n) ∧ r n = singleResult g (a n) := by
      intro n hn
      obtain ⟨l, hl, hrl⟩ := hargs n hn
      have : A n = .ok l := hl
      have ha : a n = l := by simp only [a, this]
      rw [ha]; exact ⟨this, hrl⟩
    have hsel : (List.range K).mapM (fun li => selectArgs (gs.map (withSpec τ)) env' (withSpec τ g) ms (shapeToKey [K] li)) =
        .ok ((List.range K).map a) := by
      apply mapM_ok_map
      intro li hli
      have hli' : li < K := List.mem_range.mp hli
      rw [shapeToKey_one K li hli', selectArgs_lift K vs rest ok hlen hrest env' envs R done hst g hg hr ms hm li hli']
      exact (hA li hli').1
    obtain ⟨o0, os, hos⟩ : ∃ o0 os, g.outputs = o0 :: os := by
      cases hgo : g.outputs with
      | nil => exact absurd hgo (ok.outs g hg)
      | cons o0 os => exact ⟨o0, os, rfl⟩
    obtain ⟨hs0, hm0⟩ := hsh (by rw [hm]; rfl) o0 (by rw [hos]; exact List.mem_cons_self)
    have hne' : ms.inputs.isEmpty = false := by
      cases hmi : ms.inputs with
      | nil => exact absurd hmi hne
      | cons _ _ => rfl
    let args : Nat → List (String × Val) := fun li => ((List.range K).map a).getD li []
    have hargsEq : ∀ i, i < K → args i = a i := by
      intro i hi
      simp [args, List.getD, hi]
    let r' : FuncResult :=
      { outputs := g.outputs.map fun o => (o, denoteArray (withSpec τ g) [K] [true] args o),
        slots := g.outputs.map fun o => (o, Slot.array [K] [true] (cellsOf (withSpec τ g) K args o)),
        calls := ((List.range K).map a).map fun l => ({ name := g.name, args := l } : Call) }
    have hrun' : runFuncWith denoteArray (gs.map (withSpec τ)) shapes' masks' env' (withSpec τ g) = .ok r' := by
      unfold runFuncWith
      have hspec : (withSpec τ g).mapspec = some ms := hm
      have hout : (withSpec τ g).outputs = g.outputs := rfl
      rw [hspec]
      simp only [hne', Bool.false_eq_true, ↓reduceIte, hout, hos, List.head?_cons, hs0, hm0, List.length_cons, List.length_nil,
        ne_eq, not_true_eq_false]
      unfold runMappedWith
      have he : extOf [true] [K] = [K] := rfl
      have hp : prod [K] = K := by simp [prod]
      simp only [he, hp]
      rw [hsel]
      simp only [bind, Except.bind, pure, Except.pure, r', hout, hos]
      rfl
    have hden : ∀ o, denoteArray (withSpec τ g) [K] [true] args o = .arr [K] ((List.range K).map fun n => outVal g (a n) o) := by
      intro o
      rw [denoteArray_one]
      congr 1
      apply List.map_congr_left
      intro i hi
      rw [hargsEq i (List.mem_range.mp hi)]
      rfl
    refine ⟨r', hrun', ?_, ?_, hslots, ?_⟩
    · refine ⟨?_, ?_, ?_⟩
      · intro x n hn
        rw [(hA n hn).2]
        simp only [r', singleResult, alookup_map_fn]
        by_cases hx : x ∈ g.outputs <;> simp [hx]
      · intro x _ v' hv
        simp only [r', alookup_map_fn] at hv
        by_cases hx : x ∈ g.outputs
        · simp only [hx, ↓reduceIte, Option.some.injEq] at hv
          rw [← hv, hden]
          congr 1
          apply List.map_congr_left
          intro n hn
          rw [(hA n (List.mem_range.mp hn)).2]
          simp [singleResult, alookup_map_fn, hx]
        · simp [hx] at hv
      · intro x hx n hn
        rw [(hA n hn).2]
        simp only [r', singleResult, alookup_map_fn]
        by_cases hxo : x ∈ g.outputs
        · have := ok.isL_iff g hg x hxo
          rw [hx, hm] at this
          cases this
        · simp [hxo]
    · simp only [r', tv, List.map_map]
      apply List.map_congr_left
      intro o _
      simp only [Function.comp]
      have := stored_eq_denote (withSpec τ g) [K] [true] args o rfl
      have hp : prod (extOf [true] [K]) = K := by simp [extOf, prod]
      rw [hp] at this
      rw [this]
    · simp [r', akeys, Function.comp_def]

end sim
end PF.Rw.Ax
