import PfModel.Model.ResumePar
import PfModel.Lemmas.ResumeTop
/-! The pool runner on a run folder: task bodies in any order (`runGensP_spec`), and the frame argument for arbitrary
    interleavings of threads that touch disjoint files (`shufN_safe`). -/
namespace PF.ResumeFS
open PF PF.Map

/-! ### `splitCalls` recovers the task bodies -/

def isCall : Ev → Bool
  | .call _ _ _ => true
  | _ => false

theorem callsOf_nil_iff (l : List Ev) : callsOf l = [] ↔ ∀ e ∈ l, isCall e = false := by
  induction l with
  | nil => simp [callsOf]
  | cons e r ih =>
    cases e <;> simp_all [callsOf, isCall]

/-- the groups start with a call (or there is none) -/
def HeadCall : List (List Ev) → Prop
  | [] => True
  | b :: _ => ∃ fn li a r, b = .call fn li a :: r

theorem splitCalls_nocall (r : List Ev) (hr : ∀ e ∈ r, isCall e = false) (Y : List Ev) (hY : HeadCall (splitCalls Y)) :
    splitCalls (r ++ Y) = if r = [] then splitCalls Y else r :: splitCalls Y := by
  induction r with
  | nil => simp
  | cons e r' ih =>
    have ih' := ih (fun x hx => hr x (by simp [hx]))
    simp only [List.cons_append, splitCalls, ih']
    by_cases hr' : r' = []
    · subst hr'
      simp only [↓reduceIte]
      cases hs : splitCalls Y with
      | nil => simp
      | cons b bs =>
        rw [hs] at hY
        obtain ⟨fn, li, a, r, rfl⟩ := hY
        simp
    · simp only [hr', ↓reduceIte, List.cons_ne_nil]
      cases r' with
      | nil => exact absurd rfl hr'
      | cons e' r'' =>
        have : isCall e' = false := hr e' (by simp)
        cases e' <;> simp_all [isCall]

theorem splitCalls_bodies : ∀ bs : List (List Ev), (∀ b ∈ bs, IsBody b) → splitCalls bs.flatten = bs ∧ HeadCall (splitCalls bs.flatten) := by
  intro bs
  induction bs with
  | nil => intro _; exact ⟨rfl, trivial⟩
  | cons b rest ih =>
    intro h
    obtain ⟨ih1, ih2⟩ := ih fun x hx => h x (by simp [hx])
    obtain ⟨fn, li, a, r, rfl, hc⟩ := h b (by simp)
    have hr := (callsOf_nil_iff r).mp hc
    have key : splitCalls ((Ev.call fn li a :: r) ++ rest.flatten) = (Ev.call fn li a :: r) :: rest := by
      simp only [List.cons_append, splitCalls, splitCalls_nocall r hr rest.flatten ih2, ih1]
      by_cases hr' : r = []
      · subst hr'
        simp only [↓reduceIte]
        cases rest with
        | nil => rfl
        | cons b' rest' =>
          obtain ⟨fn', li', a', r', rfl, _⟩ := h b' (by simp)
          rfl
      · simp only [hr', ↓reduceIte]
        cases r with
        | nil => exact absurd rfl hr'
        | cons e' r'' =>
          have : isCall e' = false := hr e' (by simp)
          cases e' <;> simp_all [isCall]
    rw [List.flatten_cons, key]
    exact ⟨rfl, ⟨fn, li, a, r, rfl⟩⟩

theorem bodies_perm_safe {J : FS → Prop} {l : List Ev} (hb : Bodies J l) (bs' : List (List Ev)) (hp : bs'.Perm (splitCalls l)) :
    Safe J bs'.flatten := by
  obtain ⟨bs, hf, hall⟩ := hb
  subst hf
  rw [(splitCalls_bodies bs fun b hb => (hall b hb).1).1] at hp
  have : bs'.flatten = bs'.flatMap id := by simp
  rw [this]
  exact Safe.flatMap _ _ fun b hb => (hall b (hp.subset hb)).2

/-! ### the generation loop of the pool runner, bodies in any order -/

theorem runGensP_spec (W : Right) (names : List String) (fs0 : FS) (cfg : Cfg) (R : Env → MFunc → M FuncResult)
    (step : Env → FS → Nat → MFunc → FOut) (sched : Sched) (hsched : PermSched sched)
    (Pf : MFunc → Prop)
    (hstep : ∀ env f r, Pf f → R env f = .ok r → SlotsRight W r.slots → ∀ fs, I W names fs0 fs → ∀ nc, StepOk W names fs0 cfg f r (step env fs nc f)) :
    ∀ (gens : List (List MFunc)) (g0 : Nat) (env : Env) (rs : List FuncResult) (envF : Env) (fs : FS) (nc : Nat), (∀ f ∈ gens.flatten, Pf f) →
      runGensWith R gens env = .ok (rs, envF) → (∀ r ∈ rs, SlotsRight W r.slots) → I W names fs0 fs →
      LoopOk W names fs0 cfg gens rs envF (runGensP step sched g0 gens env fs nc) := by
  intro gens
  induction gens with
  | nil =>
    intro g0 env rs envF fs nc _ h _ _
    simp only [runGensWith, pure, Except.pure] at h
    cases h
    exact ⟨Safe.nil _, by simp [runGensP], Or.inl ⟨[], rfl, rfl⟩⟩
  | cons gen rest ih =>
    intro g0 env rs envF fs nc hP h hSR hI
    simp only [runGensWith, bind, Except.bind] at h
    split at h
    · cases h
    · next rs1 hrs1 =>
      split at h
      · cases h
      · next p hp =>
        obtain ⟨more, envF'⟩ := p
        simp only [pure, Except.pure] at h
        cases h
        obtain ⟨_, b, c, d, e⟩ := runGenR_spec W names fs0 cfg R step Pf hstep env gen rs1 fs nc (fun g hg => hP g (by simp [hg])) hrs1
          (fun x hx => hSR x (by simp [hx])) hI
        obtain ⟨bs', hperm, hsch⟩ := hsched g0 (splitCalls (runGenR step env fs nc gen).subEvs) (runGenR step env fs nc gen).procEvs
        have hsafe : Safe (I W names fs0) (sched g0 (splitCalls (runGenR step env fs nc gen).subEvs) (runGenR step env fs nc gen).procEvs) := by
          rw [hsch]; exact Safe.append (bodies_perm_safe e bs' hperm) b
        have hc : ∀ x ∈ (runGenR step env fs nc gen).calls, ∃ f ∈ (gen :: rest).flatten, x.fn = f.name ∧ doneInC cfg fs0 f x.li = false := by
          intro x hx; obtain ⟨f, hf, hh⟩ := c x hx; exact ⟨f, by simp [hf], hh⟩
        rcases d with ⟨rs', hres, ho, hs⟩ | ⟨hne, fn, hres⟩
        · have henv : ({ env with store := env.store ++ rs'.flatMap (·.slots) } : Env) = { env with store := env.store ++ rs1.flatMap (·.slots) } := by
            rw [hs]
          obtain ⟨a2, c2, d2⟩ := ih (g0 + 1) _ more envF
            (applyAll fs (sched g0 (splitCalls (runGenR step env fs nc gen).subEvs) (runGenR step env fs nc gen).procEvs)) (runGenR step env fs nc gen).nc
            (fun g hg => hP g (by simp only [List.flatten_cons, List.mem_append]; exact Or.inr hg)) hp
            (fun x hx => hSR x (by simp [hx])) (hsafe.final fs hI)
          simp only [runGensP, hres, henv]
          refine ⟨Safe.append hsafe a2, ?_, ?_⟩
          · intro x hx
            rcases List.mem_append.mp hx with hx | hx
            · exact hc x hx
            · obtain ⟨f, hf, hh⟩ := c2 x hx; exact ⟨f, by simp [hf], hh⟩
          · rcases d2 with ⟨rs2, hres2, ho2⟩ | ⟨hne, fn, hres2⟩
            · rw [hres2]
              exact Or.inl ⟨rs' ++ rs2, rfl, by simp [List.flatMap_append, ho, ho2]⟩
            · rw [hres2]
              exact Or.inr ⟨hne, fn, rfl⟩
        · simp only [runGensP, hres]
          exact ⟨hsafe, hc, Or.inr ⟨hne, fn, rfl⟩⟩

/-! ### frame argument: interleavings of threads that touch disjoint files -/

theorem apply_untouched (fs : FS) (e : Ev) (q : Path) (h : touches e q = false) : (apply fs e).files q = fs.files q := by
  cases e <;> simp_all [touches, apply, FS.set]

/-- an event reads only paths it touches -/
theorem apply_agree (S : Path → Prop) (e : Ev) (hS : ∀ q, touches e q = true → S q) (fs fs' : FS)
    (h : ∀ q, S q → fs.files q = fs'.files q) : ∀ q, S q → (apply fs e).files q = (apply fs' e).files q := by
  intro q hq
  cases e with
  | mkdirp d => exact h q hq
  | begin p => simp only [apply, FS.set]; split <;> simp [h q hq]
  | chunk p => simp only [apply, FS.set]; split <;> simp [h q hq]
  | commit p v => simp only [apply, FS.set]; split <;> simp [h q hq]
  | unlink p => simp only [apply, FS.set]; split <;> simp [h q hq]
  | rmtree => rfl
  | call _ _ _ => exact h q hq
  | rename p p' =>
    simp only [apply, FS.set]
    split
    · rfl
    · split
      · exact h p (hS p (by simp [touches]))
      · exact h q hq

def Touches (t : List Ev) (q : Path) : Prop := ∃ e ∈ t, touches e q = true

theorem crashAt_cons_succ (fs : FS) (e : Ev) (t : List Ev) (k : Nat) : crashAt fs (e :: t) (k + 1) = crashAt (apply fs e) t k := by
  simp [crashAt, applyAll]

theorem crashAt_untouched : ∀ (t : List Ev) (q : Path), ¬ Touches t q → ∀ fs k, (crashAt fs t k).files q = fs.files q := by
  intro t
  induction t with
  | nil => intro q _ fs k; simp [crashAt, applyAll]
  | cons e t ih =>
    intro q h fs k
    cases k with
    | zero => simp [crashAt, applyAll]
    | succ k =>
      rw [crashAt_cons_succ, ih q (fun ⟨x, hx, hq⟩ => h ⟨x, by simp [hx], hq⟩)]
      apply apply_untouched
      cases ht : touches e q with
      | false => rfl
      | true => exact absurd ⟨e, by simp, ht⟩ h

theorem crashAt_agree : ∀ (t : List Ev) (fs fs' : FS), (∀ q, Touches t q → fs.files q = fs'.files q) →
    ∀ k q, Touches t q → (crashAt fs t k).files q = (crashAt fs' t k).files q := by
  intro t
  induction t with
  | nil => intro fs fs' _ k q hq; obtain ⟨_, h, _⟩ := hq; cases h
  | cons e t ih =>
    intro fs fs' h k q hq
    cases k with
    | zero => simpa [crashAt, applyAll] using h q hq
    | succ k =>
      rw [crashAt_cons_succ, crashAt_cons_succ]
      have hag : ∀ q, Touches (e :: t) q → (apply fs e).files q = (apply fs' e).files q :=
        apply_agree (Touches (e :: t)) e (fun q hq => ⟨e, by simp, hq⟩) fs fs' h
      by_cases ht : Touches t q
      · exact ih _ _ (fun q' hq' => hag q' (by obtain ⟨x, hx, h'⟩ := hq'; exact ⟨x, by simp [hx], h'⟩)) k q ht
      · rw [crashAt_untouched t q ht, crashAt_untouched t q ht]
        exact hag q hq

/-- **Frame**: at every prefix of an interleaving of two threads that touch disjoint files, every file holds what a prefix
    of the thread that touches it (run alone from the same start) leaves there -/
theorem shuf_frame {a b m : List Ev} (h : Shuf a b m) (hd : ∀ q, Touches a q → Touches b q → False) :
    ∀ fs k, ∃ ka kb, ∀ q, (Touches a q → (crashAt fs m k).files q = (crashAt fs a ka).files q) ∧
      (¬ Touches a q → (crashAt fs m k).files q = (crashAt fs b kb).files q) := by
  induction h with
  | nil => intro fs k; exact ⟨0, 0, fun q => ⟨fun _ => by simp [crashAt, applyAll], fun _ => by simp [crashAt, applyAll]⟩⟩
  | @left e a b m _ ih =>
    intro fs k
    cases k with
    | zero => exact ⟨0, 0, fun q => ⟨fun _ => by simp [crashAt, applyAll], fun _ => by simp [crashAt, applyAll]⟩⟩
    | succ k =>
      have hd' : ∀ q, Touches a q → Touches b q → False := fun q ⟨x, hx, h1⟩ h2 => hd q ⟨x, by simp [hx], h1⟩ h2
      obtain ⟨ka, kb, hk⟩ := ih hd' (apply fs e) k
      refine ⟨ka + 1, kb, fun q => ⟨fun hq => ?_, fun hq => ?_⟩⟩
      · rw [crashAt_cons_succ, crashAt_cons_succ]
        by_cases ha : Touches a q
        · exact (hk q).1 ha
        · rw [(hk q).2 ha, crashAt_untouched a q ha, crashAt_untouched b q (fun hb => hd q hq hb)]
      · have hne : touches e q = false := by
          cases ht : touches e q with
          | false => rfl
          | true => exact absurd ⟨e, by simp, ht⟩ hq
        have ha : ¬ Touches a q := fun ⟨x, hx, h1⟩ => hq ⟨x, by simp [hx], h1⟩
        rw [crashAt_cons_succ, (hk q).2 ha]
        by_cases hb : Touches b q
        · apply crashAt_agree b _ _ _ kb q hb
          intro q' hq'
          apply apply_untouched
          cases ht : touches e q' with
          | false => rfl
          | true => exact absurd hq' (fun hb' => hd q' ⟨e, by simp, ht⟩ hb')
        · rw [crashAt_untouched b q hb, crashAt_untouched b q hb, apply_untouched fs e q hne]
  | @right e a b m _ ih =>
    intro fs k
    cases k with
    | zero => exact ⟨0, 0, fun q => ⟨fun _ => by simp [crashAt, applyAll], fun _ => by simp [crashAt, applyAll]⟩⟩
    | succ k =>
      have hd' : ∀ q, Touches a q → Touches b q → False := fun q h1 ⟨x, hx, h2⟩ => hd q h1 ⟨x, by simp [hx], h2⟩
      obtain ⟨ka, kb, hk⟩ := ih hd' (apply fs e) k
      refine ⟨ka, kb + 1, fun q => ⟨fun hq => ?_, fun hq => ?_⟩⟩
      · rw [crashAt_cons_succ, (hk q).1 hq]
        apply crashAt_agree a _ _ _ ka q hq
        intro q' hq'
        apply apply_untouched
        cases ht : touches e q' with
        | false => rfl
        | true => exact absurd ⟨e, by simp, ht⟩ (fun hb' => hd q' hq' hb')
      · rw [crashAt_cons_succ, crashAt_cons_succ]
        exact (hk q).2 hq

theorem shuf_mem {a b m : List Ev} (h : Shuf a b m) : ∀ e, e ∈ m → e ∈ a ∨ e ∈ b := by
  induction h with
  | nil => intro e he; cases he
  | left x _ ih =>
    intro e he
    rcases List.mem_cons.mp he with rfl | he
    · exact Or.inl (by simp)
    · rcases ih e he with h | h
      · exact Or.inl (by simp [h])
      · exact Or.inr h
  | right x _ ih =>
    intro e he
    rcases List.mem_cons.mp he with rfl | he
    · exact Or.inr (by simp)
    · rcases ih e he with h | h
      · exact Or.inl h
      · exact Or.inr (by simp [h])

theorem shufN_mem {ts : List (List Ev)} {m : List Ev} (h : ShufN ts m) : ∀ e, e ∈ m → ∃ t ∈ ts, e ∈ t := by
  induction h with
  | nil => intro e he; cases he
  | cons _ hs ih =>
    intro e he
    rcases shuf_mem hs e he with h | h
    · exact ⟨_, by simp, h⟩
    · obtain ⟨t, ht, h'⟩ := ih e h; exact ⟨t, by simp [ht], h'⟩

def isMeta : Path → Bool
  | .runInfo => true
  | .defaults => true
  | .input _ => true
  | _ => false

/-- two threads that touch disjoint files, the first of which touches neither `run_info.json` nor the inputs/defaults: if each
    keeps the invariant at every prefix when run alone from `fs`, every prefix of every interleaving keeps it -/
theorem shuf_safe (W : Right) (names : List String) (fs0 : FS) {a b m : List Ev} (h : Shuf a b m)
    (hd : ∀ q, Touches a q → Touches b q → False) (hm : ∀ q, isMeta q = true → ¬ Touches a q) (fs : FS)
    (ha : ∀ k, I W names fs0 (crashAt fs a k)) (hb : ∀ k, I W names fs0 (crashAt fs b k)) : ∀ k, I W names fs0 (crashAt fs m k) := by
  intro k
  obtain ⟨ka, kb, hk⟩ := shuf_frame h hd fs k
  have pick : ∀ q, (crashAt fs m k).files q = (crashAt fs a ka).files q ∨ (crashAt fs m k).files q = (crashAt fs b kb).files q := by
    intro q
    by_cases hq : Touches a q
    · exact Or.inl ((hk q).1 hq)
    · exact Or.inr ((hk q).2 hq)
  have metaB : ∀ q, isMeta q = true → (crashAt fs m k).files q = (crashAt fs b kb).files q := fun q hq => (hk q).2 (hm q hq)
  refine ⟨?_, ?_, ?_⟩
  · intro q hq
    rcases pick q with e | e <;> rw [e]
    · exact (ha ka).inv q hq
    · exact (hb kb).inv q hq
  · intro hr
    rw [metaB _ rfl] at hr
    obtain ⟨h1, h2⟩ := (hb kb).metaOk hr
    refine ⟨fun n hn => ?_, ?_⟩
    · rw [metaB _ rfl]; exact h1 n hn
    · rw [metaB _ rfl]; exact h2
  · intro q hq h0
    rcases pick q with e | e <;> rw [e]
    · exact (ha ka).mono q hq h0
    · exact (hb kb).mono q hq h0

/-- the same for any number of threads -/
theorem shufN_safe (W : Right) (names : List String) (fs0 : FS) (fs : FS) (hI : I W names fs0 fs) :
    ∀ {ts : List (List Ev)} {m : List Ev}, ShufN ts m →
      ts.Pairwise (fun a b => ∀ q, Touches a q → Touches b q → False) → (∀ t ∈ ts, ∀ q, isMeta q = true → ¬ Touches t q) →
      (∀ t ∈ ts, ∀ k, I W names fs0 (crashAt fs t k)) → ∀ k, I W names fs0 (crashAt fs m k) := by
  intro ts m h
  induction h with
  | nil => intro _ _ _ k; simpa [crashAt, applyAll] using hI
  | @cons t ts m' m hN hS ih =>
    intro hp hm hs
    obtain ⟨hp1, hp2⟩ := List.pairwise_cons.mp hp
    apply shuf_safe W names fs0 hS ?_ (hm t (by simp)) fs (hs t (by simp))
      (ih hp2 (fun x hx => hm x (by simp [hx])) (fun x hx => hs x (by simp [hx])))
    intro q hq ⟨e, he, hte⟩
    obtain ⟨t', ht', he'⟩ := shufN_mem hN e he
    exact hp1 t' ht' q hq ⟨e, he', hte⟩

end PF.ResumeFS
