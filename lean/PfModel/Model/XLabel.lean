/-
Model of the xarray labelling of map results: `mapspec_axes` (`pipefunc/map/_mapspec.py:424-437`, positional, `none` for an axis
that no MapSpec names), `_trace_dependencies` / `trace_dependencies` (`_mapspec.py:497-539`), `_xarray` (`pipefunc/map/xarray.py:101-161`:
coordinate assignment, one multi-index per group of 1-D inputs zipped on the same axis), `_xarray_dataset` (`xarray.py:164-188`: merge,
arrays that are coordinates elsewhere, un-mapped outputs) and the two public constructors `xarray_dataset_from_results` /
`load_xarray_dataset` (`xarray.py:46-89`, `_load.py:25-56`), which differ only in the data loader.
xarray itself (DataArray/Dataset construction, `merge(compat="override")`, `sel`) is specified here, not verified.
Core Lean only; built on `PF.Map`.
-/
import PfModel.Model.MapRun
namespace PF.XLabel
open PF PF.Map

/-! ### small containers: a `set[str]` read back with `sorted`, insertion-ordered dictionaries -/

/-- `s.add(a)` on a set of names kept sorted and duplicate-free (what `tuple(sorted(s))` reads back) -/
def sinsert (a : String) : List String → List String
  | [] => [a]
  | b :: r => if a = b then b :: r else if a < b then a :: b :: r else b :: sinsert a r

/-- `s.update(l)` -/
def sunion (l : List String) (s : List String) : List String := l.foldl (fun s a => sinsert a s) s

/-- `dependencies[axis].update(names)` on an insertion-ordered `defaultdict(set)` -/
def addDep : List (String × List String) → String → List String → List (String × List String)
  | [], axis, names => [(axis, sunion names [])]
  | (k, s) :: r, axis, names => if k = axis then (k, sunion names s) :: r else (k, s) :: addDep r axis names

/-- `reordered[output][input].add(axis)` on an insertion-ordered `defaultdict(set)`; the set is kept as a list -/
def addAxis : List (String × List String) → String → String → List (String × List String)
  | [], n, axis => [(n, [axis])]
  | (k, s) :: r, n, axis => if k = n then (k, if s.contains axis then s else s ++ [axis]) :: r else (k, s) :: addAxis r n axis

/-! ### `mapspec_axes` -/

def allSpecs (mss : List MSpec) : List ASpec := mss.flatMap fun ms => ms.inputs ++ ms.outputs

/-- the name recorded for position `i` of array `n`: the last MapSpec that names that position wins (`axes[name][i] = axis`) -/
def axisAt (specs : List ASpec) (n : String) (i : Nat) : Option String :=
  specs.foldl (fun acc s => if s.name = n then (match s.axes[i]? with | some (some a) => some a | _ => acc) else acc) none

/-- rank of array `n`: the longest axes tuple it is written with (all equal after `validate_consistent_axes`) -/
def rankOf (specs : List ASpec) (n : String) : Nat :=
  specs.foldl (fun acc s => if s.name = n then max acc s.axes.length else acc) 0

/-- `mapspec_axes(mapspecs)[n]`: positional axes of array `n`; `none` (KeyError) when no MapSpec mentions `n` -/
def mapspecAxes (mss : List MSpec) (n : String) : Option (List (Option String)) :=
  let specs := allSpecs mss
  if specs.any (fun s => s.name = n) then some ((List.range (rankOf specs n)).map (axisAt specs n)) else none

/-! ### `trace_dependencies` -/

/-- `mapspec_mapping`: output name ↦ its MapSpec, for MapSpecs that have inputs (output names are unique in a pipeline) -/
def mapspecMapping (mss : List MSpec) : List (String × MSpec) :=
  mss.flatMap fun ms => if ms.inputs.isEmpty then [] else ms.outputs.map fun o => (o.name, ms)

/-- one `(input_spec, axis)` step of the double loop of `_trace_dependencies`; `nested` is the traced dictionary of an
    input that is itself a mapped output -/
def traceStep (mapping : List (String × MSpec)) (nested : String → List (String × List String))
    (a : ASpec) (d : List (String × List String)) (ax : Option String) : List (String × List String) :=
  match ax with
  | none => d
  | some axis =>
    if (alookup mapping a.name).isSome then
      match alookup (nested a.name) axis with
      | some names => addDep d axis names
      | none => d
    else addDep d axis [a.name]

/-- `_trace_dependencies(output_name, mapspec_mapping)`: axis ↦ sorted root inputs (and input-free producers' outputs) that
    reach `o` along that axis.  The recursion follows the (acyclic) MapSpec graph; `fuel` bounds its depth. -/
def traceDeps (mapping : List (String × MSpec)) : Nat → String → List (String × List String)
  | 0, _ => []
  | fuel + 1, o =>
    match alookup mapping o with
    | none => []
    | some ms =>
      ms.inputs.foldl (fun d a => a.axes.foldl (traceStep mapping (traceDeps mapping fuel) a) d) []

/-- `{axis: inputs}` → `{input: set(axes)}` -/
def reorder (d : List (String × List String)) : List (String × List String) :=
  d.foldl (fun acc e => e.2.foldl (fun acc n => addAxis acc n e.1) acc) []

/-- `order_like_mapspec_axes` -/
def orderLike (full : List (Option String)) (s : List String) : List String :=
  full.filterMap fun ax => match ax with
    | some i => if s.contains i then some i else none
    | none => none

/-- `trace_dependencies(mapspecs)[o]`: input name ↦ the axes of that input along which it reaches `o`, ordered as in the
    input's own axes.  (`{}` for names that are not mapped outputs, as `all_dependencies.get(o, {})`.) -/
def traceDependencies (mss : List MSpec) (o : String) : List (String × List String) :=
  let mapping := mapspecMapping mss
  (reorder (traceDeps mapping (mss.length + 1) o)).map fun e => (e.1, orderLike ((mapspecAxes mss e.1).getD []) e.2)

/-! ### `_xarray` -/

inductive CoordVal
  | plain (v : Val)                                      -- an array used as the coordinate
  | multi (names : List String) (arrays : List Val)      -- `pd.MultiIndex.from_arrays(arrays, names=names)`
  deriving Repr, Inhabited

structure Coord where
  name : String
  dims : List String
  val : CoordVal
  deriving Repr, Inhabited

structure DataArray where
  name : String
  dims : List (Option String)
  data : Val
  coords : List Coord
  deriving Repr, Inhabited

/-- the array offered for a dependency: the input of that name, else (with `load_intermediate`) whatever the loader has -/
def coordArray (inputs : List (String × Val)) (load : String → Option Val) (li : Bool) (name : String) : M (Option Val) :=
  match alookup inputs name with
  | some v => pure (some v)
  | none =>
    if li then
      match load name with
      | some v => pure (some v)
      | none => throw (.key name)
    else pure none

/-- `coord_mapping[axes][name].append(array)` on insertion-ordered dictionaries -/
def addCoord : List (List String × List (String × Val)) → List String → String → Val → List (List String × List (String × Val))
  | [], axes, n, v => [(axes, [(n, v)])]
  | (k, g) :: r, axes, n, v => if k = axes then (k, g ++ [(n, v)]) :: r else (k, g) :: addCoord r axes n v

/-- one iteration of the first loop of `_xarray`: a dependency becomes a coordinate when an array is available for it and
    its traced axes are all of its axes -/
def eligibleOne (mss : List MSpec) (inputs : List (String × Val)) (load : String → Option Val) (li : Bool)
    (e : String × List String) : M (Option (String × List String × Val)) := do
  match ← coordArray inputs load li e.1 with
  | none => pure none
  | some v =>
    match mapspecAxes mss e.1 with
    | none => throw (.key e.1)
    | some full => pure (if full = e.2.map some then some (e.1, e.2, v) else none)

/-- the first loop of `_xarray` over `target_dependencies.items()` (stops at the first failing load) -/
def eligible (mss : List MSpec) (inputs : List (String × Val)) (load : String → Option Val) (li : Bool) :
    List (String × List String) → M (List (String × List String × Val))
  | [] => pure []
  | e :: rest => do
    let here ← eligibleOne mss inputs load li e
    let more ← eligible mss inputs load li rest
    pure (match here with
      | some y => y :: more
      | none => more)

def groupCoords (es : List (String × List String × Val)) : List (List String × List (String × Val)) :=
  es.foldl (fun cm e => addCoord cm e.2.1 e.1 e.2.2) []

/-- the second loop of `_xarray`: one coordinate per group; several 1-D arrays on the same axis become one multi-index named
    by joining the names with `:`; n-D arrays on the same axes stay separate coordinates -/
def coordsOfGroup (g : List String × List (String × Val)) : List Coord :=
  match g.2 with
  | [(n, v)] => [{ name := n, dims := g.1, val := .plain v }]
  | members =>
    if g.1.length ≠ 1 then members.map fun m => { name := m.1, dims := g.1, val := .plain m.2 }
    else [{ name := ":".intercalate (members.map (·.1)), dims := g.1, val := .multi (members.map (·.1)) (members.map (·.2)) }]

/-- `_xarray(output_name, mapspecs, inputs, data_loader, load_intermediate)` -/
def xarrayOf (mss : List MSpec) (inputs : List (String × Val)) (load : String → Option Val) (li : Bool) (o : String) :
    M DataArray :=
  match load o with
  | none => throw (.key o)
  | some data =>
    match eligible mss inputs load li (traceDependencies mss o) with
    | .error e => .error e
    | .ok es =>
      match mapspecAxes mss o with
      | none => throw (.key o)
      | some dims => pure { name := o, dims := dims, data := data, coords := (groupCoords es).flatMap coordsOfGroup }

/-! ### `_xarray_dataset` -/

/-- a data variable: `dims = none` is a bare ndarray assigned without dimension names (`ds[name] = array`) -/
structure Var where
  name : String
  dims : Option (List (Option String))
  data : Val
  deriving Repr, Inhabited

structure Dataset where
  vars : List Var
  coords : List Coord
  deriving Repr, Inhabited

/-- first occurrence of every coordinate name (`merge(compat="override")` keeps the first of equally named variables) -/
def dedupCoords : List Coord → List String → List Coord
  | [], _ => []
  | c :: r, seen => if seen.contains c.name then dedupCoords r seen else c :: dedupCoords r (c.name :: seen)

/-- how the value of an output without MapSpec is stored: a non-array as a 0-d variable (`((), value)`), a 0-d/1-D ndarray
    bare (`none`: xarray names the dimension of a 1-D array after the variable), an n-D ndarray with the dimension names
    `<name>_dim_<k>` -/
def singleDims (n : String) : Val → Option (List (Option String))
  | .arr sh _ => if sh.length ≤ 1 then none else some ((List.range sh.length).map fun k => some (n ++ "_dim_" ++ toString k))
  | _ => some []

/-- `_xarray_dataset(mapspecs, inputs, data_loader, output_names, load_intermediate)` -/
def xarrayDataset (mss : List MSpec) (inputs : List (String × Val)) (load : String → Option Val) (outputNames : List String)
    (li : Bool) : M Dataset := do
  let msOut := (mss.flatMap fun ms => ms.outputs.map (·.name)).filter fun n => outputNames.contains n
  let single := outputNames.filter fun n => !msOut.contains n
  let das ← msOut.mapM (xarrayOf mss inputs load li)
  let allCoords := das.flatMap fun da => da.coords.map (·.name)
  let toMerge := das.filter fun da => !allCoords.contains da.name
  let singles ← single.mapM fun n =>
    match load n with
    | none => throw (Err.key n)
    | some v => pure ({ name := n, dims := singleDims n v, data := v } : Var)
  pure { vars := (toMerge.map fun da => { name := da.name, dims := some da.dims, data := da.data }) ++ singles,
         coords := dedupCoords (toMerge.flatMap (·.coords)) [] }

/-! ### the two constructors -/

/-- `{**pipeline.defaults, **inputs}`: a mapped root input may be supplied through a default; given inputs win -/
def effectiveInputs (fs : List MFunc) (inputs : List (String × Val)) : List (String × Val) := inputs ++ pdefaults fs

/-- `xarray_dataset_from_results(inputs, results, pipeline)`: the loader reads `results[name].output`; `inputs` is
    `effectiveInputs` of the call's inputs -/
def fromResults (mss : List MSpec) (inputs : List (String × Val)) (r : MapResult) (li : Bool) : M Dataset :=
  xarrayDataset mss inputs (alookup r.outputs) (akeys r.outputs) li

/-- `load_xarray_dataset(run_folder=…)`: MapSpecs, inputs and defaults come back from `run_info.json` / `inputs/*` /
    `defaults/*` (C04: unchanged), the loader is `load_outputs` on the stored arrays -/
def fromFolder (mss : List MSpec) (inputs : List (String × Val)) (r : MapResult) (li : Bool) : M Dataset :=
  xarrayDataset mss inputs (alookup r.stored) (akeys r.stored) li

/-- the MapSpecs of the pipeline in the order of `Pipeline.mapspecs()` (topological generations) -/
def pipelineMapspecs (fs : List MFunc) : List MSpec := (generations fs).flatten.filterMap (·.mapspec)

/-! ### `sel` (specification of what xarray does for a 1-D coordinate) -/

/-- position of the first element equal to `v` (JSON-level equality is decided by the driver; here: a decidable test) -/
def findPos (eq : Val → Val → Bool) (xs : List Val) (v : Val) : Option Nat := xs.findIdx? (eq v)

/-- the key `[:, …, p, …, :]` with `p` at position `q` -/
def keyAt (rank q p : Nat) : List (Option Nat) := (List.range rank).map fun k => if k = q then some p else none

/-- `da.sel({c: v})` for a coordinate `c` on one dimension: the position of `v` among the coordinate's values selects along
    that dimension -/
def sel (eq : Val → Val → Bool) (da : DataArray) (c : String) (v : Val) : Option Val :=
  match da.coords.find? (fun k => k.name = c) with
  | some { dims := [a], val := .plain (.arr _ xs), .. } =>
    match findPos eq xs v, da.dims.findIdx? (· = some a) with
    | some p, some q => indexVal da.data (keyAt da.dims.length q p)
    | _, _ => none
  | _ => none

end PF.XLabel
