import PfModel.Model.ErrorsOwed
import PfModel.Props.C13Store
/-!
C13 (catch round s5) — the elements a failed run OWES ("results completed before the failure remain loadable", read invocation by
invocation): `owedStore done` lists the elements the completed invocations `done` produced.  The harness evaluates it on the
invocations the IMPLEMENTATION logged as completed before the failure and requires every owed element to load.
-/
namespace PF.C13
open PF PF.Map PF.Errors

/-- every owed element is the element the failure-free run stores at that index (same shape and mask) -/
theorem C13_owed_cells_right (done : Task → Bool) (f : MFunc) (r : FuncResult) : SubStore (owedSlots done f r) r.slots := by
  unfold owedSlots
  split
  · exact keepSlots_sub _ _ _
  · exact SubStore.nil _

/-- which elements are owed: exactly those whose invocation completed -/
theorem C13_owed_cell (done : Task → Bool) (ts : List Task) (cells : List (Nat × Val)) (li : Nat) :
    cellLookup (cells.filter fun c => owedCell done ts c.1) li = if owedCell done ts li then cellLookup cells li else none :=
  C13_kept_cells (owedCell done ts) cells li

/-- **The sequential model stores what is owed.**  When the invocations of the failing function are `ts0 ++ t :: ts1` (`t` the raising
    one, `C13_seq_failing_cells`) and the invocations before `t` completed, every element `seqGen` keeps of the failing function
    (`li < ts0.length`) is owed — and when nothing else completed, nothing else is. -/
theorem C13_seq_owed (done : Task → Bool) (ts0 ts1 : List Task) (t : Task) (hd : ∀ u ∈ ts0, done u = true) (li : Nat)
    (hli : li < ts0.length) : owedCell done (ts0 ++ t :: ts1) li = true := by
  unfold owedCell
  rw [List.getElem?_append_left hli, List.getElem?_eq_getElem hli]
  exact hd _ (List.getElem_mem hli)

theorem C13_seq_owed_only (done : Task → Bool) (ts0 ts1 : List Task) (t : Task) (hn : ∀ u ∈ t :: ts1, done u = false) (li : Nat)
    (hli : ts0.length ≤ li) : owedCell done (ts0 ++ t :: ts1) li = false := by
  unfold owedCell
  rw [List.getElem?_append_right hli]
  cases h : (t :: ts1)[li - ts0.length]? with
  | none => rfl
  | some u => exact hn u (List.mem_of_getElem? h)

/-- a function without mapspec inputs owes nothing element-wise (its outputs are written by `_process_generation`) -/
theorem C13_owed_elementwise_only (done : Task → Bool) (f : MFunc) (r : FuncResult) (h : elementwise f = false) :
    owedSlots done f r = [] := by
  simp [owedSlots, h]

/-- non-vacuity: with the first invocation completed, element 0 is owed and element 1 (the raising one) is not -/
example (t u : Task) : owedCell (fun _ => true) ([t] ++ u :: []) 0 = true := C13_seq_owed _ [t] [] u (fun _ _ => rfl) 0 (by simp)
example (t u : Task) : owedCell (fun _ => false) ([t] ++ u :: []) 1 = false := C13_seq_owed_only _ [t] [] u (fun _ _ => rfl) 1 (by simp)
example : elementwise { name := "g", params := [], outputs := ["y"], mapspec := none, ret := none, internal := none, defaults := [], bound := [] } = false := rfl

end PF.C13
