import PfModel.Lemmas.HashableCalls
import PfModel.Props.C15Keys
/-!
C15, the last sentence of the statement at the level of a CALL of a function that accepts a value positionally and by keyword
(`*args`, `**kwargs`, optional parameters): the key `to_hashable((args, kwargs))` keeps positionals and keywords apart, so a
stored result comes back only for a call with the same effective arguments under `bindSig` (Python's binding for
`def f(p…, *args, **kwargs)`).  The flattened layout of seeded change C15-s3-B does not have that property (witness).
-/
namespace PF.C15
open PF.Hashable

def nmLabel : Name := [108, 97, 98, 101, 108]

/-- Two calls with the same `memoize` key have the same effective arguments for every signature with `*args` / `**kwargs`:
    both are rejected by Python's binding, or both bind every parameter to the same value, pass the same surplus positionals
    and the same surplus keywords. -/
theorem C15_memoize_effective_args_var (vp vk : Bool) (ps : List Param) (args args' : List PV) (kw kw' : List (Name × PV)) (k : PV)
    (hn : (kw.map Prod.fst).Nodup) (hn' : (kw'.map Prod.fst).Nodup)
    (h : memoKey args kw = .ok k) (h' : memoKey args' kw' = .ok k) :
    BindSameSig (bindSig vp vk ps args kw) (bindSig vp vk ps args' kw') := by
  obtain ⟨ha, hk⟩ := C15_memoize_key_sound args args' kw kw' k hn hn' h h'
  exact bindSig_congr vp vk ps ha hk

/-- non-vacuity, and the binding itself: `def f(x, label=None, **options)` called as `f(1, label=2)`, `f(1, ("label", 2))`
    and `f(1, tol=2)` -/
example : let ps : List Param := [⟨nmX, none⟩, ⟨nmLabel, some (.atom .none)⟩]
    (∃ k, memoKey [vOne] [(nmLabel, vTwo)] = .ok k) ∧
    (bindSig false true ps [vOne] [(nmLabel, vTwo)]).map (fun b => (b.params, b.star, b.kw)) =
      some ([(nmX, vOne), (nmLabel, vTwo)], [], []) ∧
    (bindSig false true ps [vOne, tup [strAtom nmLabel, vTwo]] []).map (fun b => (b.params, b.star, b.kw)) =
      some ([(nmX, vOne), (nmLabel, tup [strAtom nmLabel, vTwo])], [], []) ∧
    (bindSig false true ps [vOne] [(nmY, vTwo)]).map (fun b => (b.params, b.star, b.kw)) =
      some ([(nmX, vOne), (nmLabel, .atom .none)], [], [(nmY, vTwo)]) ∧
    (bindSig false false ps [vOne] [(nmY, vTwo)]).isNone ∧ (bindSig false true ps [vOne, vOne, vOne] []).isNone ∧
    (bindSig true true ps [vOne, vOne, vOne] []).map (fun b => b.star) = some [vOne] := by
  refine ⟨⟨_, rfl⟩, ?_, ?_, ?_, ?_, ?_, ?_⟩ <;> decide

/-- `memoize` returns a stored result only for a call with the same effective arguments as the call that produced it, for
    every signature `def f(p…[, *args][, **kwargs])`. -/
theorem C15_memoize_call_var (m m' : Memo) (args : List PV) (kw : List (Name × PV)) (r : Nat) (hi : m.Inv)
    (hn : (kw.map Prod.fst).Nodup) (h : m.call (callArg args kw) = .ok (r, true, m')) :
    ∃ k a, (k, a, r) ∈ m.entries ∧
      ∀ args0 kw0, a = callArg args0 kw0 → (kw0.map Prod.fst).Nodup →
        ∀ vp vk ps, BindSameSig (bindSig vp vk ps args kw) (bindSig vp vk ps args0 kw0) := by
  obtain ⟨k, a, hm, _, hall⟩ := C15_memoize_call m m' args kw r hi hn h
  refine ⟨k, a, hm, ?_⟩
  intro args0 kw0 e hn0 vp vk ps
  obtain ⟨ha, hk, _⟩ := hall args0 kw0 e hn0
  exact bindSig_congr vp vk ps ha hk

/-- non-vacuity: `f(1, ("label", 2))`, then `f(1, label=2)` (computed: another call), then `f(1, label=2)` again (a hit) -/
example : Memo.run {} [callArg [vOne, tup [strAtom nmLabel, vTwo]] [], callArg [vOne] [(nmLabel, vTwo)], callArg [vOne] [(nmLabel, vTwo)]] =
    [some (0, false), some (1, false), some (1, true)] := by decide

/-- The layout matters.  `f(1, ("label", 2))` and `f(1, label=2)` are different calls (`x, label=None, **options` binds them
    differently) and `memoKey` tells them apart; a key over the flattened `args + kwargs.items()` (seeded change C15-s3-B)
    gives both the same key — with hashable and with unhashable values. -/
theorem C15_memoize_layout_distinguished :
    memoKey [vOne, tup [strAtom nmLabel, vTwo]] [] ≠ memoKey [vOne] [(nmLabel, vTwo)] ∧
    key true (flatCallArg [vOne, tup [strAtom nmLabel, vTwo]] []) = key true (flatCallArg [vOne] [(nmLabel, vTwo)]) ∧
    memoKey [lst [vOne], tup [strAtom nmLabel, lst [vTwo]]] [] ≠ memoKey [lst [vOne]] [(nmLabel, lst [vTwo])] ∧
    key true (flatCallArg [lst [vOne], tup [strAtom nmLabel, lst [vTwo]]] []) = key true (flatCallArg [lst [vOne]] [(nmLabel, lst [vTwo])]) ∧
    ¬ BindSameSig (bindSig false true [⟨nmX, none⟩, ⟨nmLabel, some (.atom .none)⟩] [vOne, tup [strAtom nmLabel, vTwo]] [])
        (bindSig false true [⟨nmX, none⟩, ⟨nmLabel, some (.atom .none)⟩] [vOne] [(nmLabel, vTwo)]) := by
  refine ⟨by decide, by decide, by decide, by decide, ?_⟩
  intro h
  have h1 : bindSig false true [⟨nmX, none⟩, ⟨nmLabel, some (.atom .none)⟩] [vOne, tup [strAtom nmLabel, vTwo]] [] =
      some ⟨[(nmX, vOne), (nmLabel, tup [strAtom nmLabel, vTwo])], [], []⟩ := by rfl
  have h2 : bindSig false true [⟨nmX, none⟩, ⟨nmLabel, some (.atom .none)⟩] [vOne] [(nmLabel, vTwo)] =
      some ⟨[(nmX, vOne), (nmLabel, vTwo)], [], []⟩ := by rfl
  rw [h1, h2] at h
  obtain ⟨hp, _, _⟩ := h
  cases hp with
  | cons _ hp2 =>
    cases hp2 with
    | cons hq _ => exact absurd hq.2 (by intro e; cases e)

end PF.C15
