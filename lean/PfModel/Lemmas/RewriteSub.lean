import PfModel.Lemmas.Rewrite
/-! Evaluation inside a cone is independent of the rest of the pipeline: lemmas for `C10_split`, `C10_join_conservative`. -/
namespace PF.Rw
open PF PF.Pipe

theorem composeArgs_cone (gs gs' : List Func) (kw : List (String × Val)) (f : Func) (r r' : String → Except Err Val) :
    ∀ ps : List (String × String), (∀ p ∈ ps, resolve gs' kw f p.1 = resolve gs kw f p.1) →
      (∀ p ∈ ps, resolve gs kw f p.1 = .upstream → r' p.1 = r p.1) →
      composeArgsWith r' gs' kw f ps = composeArgsWith r gs kw f ps := by
  intro ps
  induction ps with
  | nil => intro _ _; rfl
  | cons e es ih =>
    obtain ⟨p, orig⟩ := e
    intro h1 h2
    have ih' := ih (fun x hx => h1 x (List.mem_cons_of_mem _ hx)) (fun x hx => h2 x (List.mem_cons_of_mem _ hx))
    have e1 := h1 (p, orig) (by simp)
    have e2 := h2 (p, orig) (by simp)
    simp only [composeArgsWith]
    simp only [] at e1 e2
    rw [e1, ih']
    cases hres : resolve gs kw f p with
    | missing => rfl
    | val v => rfl
    | upstream => simp only [e2 hres]

/-- **Cone congruence**: two pipelines that agree, on a set of names closed under "is needed upstream", on who produces a
    name and on how parameters are resolved, evaluate every name of the set alike -/
theorem eval_cone (fs fs' : List RFunc) (kw : List (String × Val)) (C : String → Prop)
    (hp : ∀ x, C x → rproducer fs' x = rproducer fs x)
    (hres : ∀ x f, C x → rproducer fs x = some f → ∀ p ∈ f.core.params,
      resolve (cores fs') kw f.core p.1 = resolve (cores fs) kw f.core p.1)
    (hclosed : ∀ x f, C x → rproducer fs x = some f → ∀ p ∈ f.core.params,
      resolve (cores fs) kw f.core p.1 = .upstream → C p.1) :
    ∀ (n : Nat) (o : String), C o → eval fs' kw n o = eval fs kw n o := by
  intro n
  induction n with
  | zero => intro o _; simp [eval]
  | succ n ih =>
    intro o ho
    rw [eval_succ, eval_succ, hp o ho]
    cases hf : rproducer fs o with
    | none => rfl
    | some f =>
      simp only []
      rw [composeArgs_cone (cores fs) (cores fs') kw f.core (eval fs kw n) (eval fs' kw n) f.core.params
        (hres o f ho hf) (fun p hpm hu => ih p.1 (hclosed o f ho hf p hpm hu))]

theorem producer_cores (fs : List RFunc) (p : String) : producer (cores fs) p = (rproducer fs p).map (·.core) := by
  induction fs with
  | nil => rfl
  | cons g gs ih =>
    simp only [producer, rproducer, cores, List.map_cons, List.find?_cons] at ih ⊢
    by_cases h : p ∈ g.core.outputs
    · simp [h]
    · simp only [h, decide_false]; exact ih

/-- the pipeline default is determined by membership in `pdefaults` when defaults are consistent -/
theorem pdefault_eq_of (gs gs' : List Func) (hc : ConsistentDefaults gs) (hc' : ConsistentDefaults gs') (p : String)
    (key : ∀ v, (p, v) ∈ pdefaults gs' ↔ (p, v) ∈ pdefaults gs) : pdefault gs' p = pdefault gs p := by
  cases h : pdefault gs p with
  | some v => exact (pdefault_eq_some_iff gs' hc' p v).mpr ((key v).mpr ((pdefault_eq_some_iff gs hc p v).mp h))
  | none =>
    cases h' : pdefault gs' p with
    | none => rfl
    | some w =>
      rw [(pdefault_eq_some_iff gs hc p w).mpr ((key w).mp ((pdefault_eq_some_iff gs' hc' p w).mp h'))] at h
      cases h

/-- no two functions share an output name -/
def UniqueOutR (fs : List RFunc) : Prop :=
  ∀ f ∈ fs, ∀ g ∈ fs, ∀ o, o ∈ f.core.outputs → o ∈ g.core.outputs → f = g

theorem rproducer_some_iff (fs : List RFunc) (hu : UniqueOutR fs) (o : String) (f : RFunc) :
    rproducer fs o = some f ↔ f ∈ fs ∧ o ∈ f.core.outputs := by
  unfold rproducer
  constructor
  · intro h
    have h1 := List.find?_some h
    have h2 := List.mem_of_find?_eq_some h
    exact ⟨h2, by simpa using h1⟩
  · intro ⟨hf, ho⟩
    cases h : fs.find? (fun f => decide (o ∈ f.core.outputs)) with
    | none =>
      rw [List.find?_eq_none] at h
      exact absurd (by simpa using ho) (h f hf)
    | some g =>
      have h1 := List.find?_some h
      have h2 := List.mem_of_find?_eq_some h
      rw [hu g h2 f hf o (by simpa using h1) ho]

/-! ### split: a closed selection of the functions -/

theorem find?_filter_of {α} (l : List α) (P q : α → Bool) (h : ∀ a ∈ l, q a = true → P a = true) :
    (l.filter P).find? q = l.find? q := by
  induction l with
  | nil => rfl
  | cons a as ih =>
    have ih' := ih (fun x hx => h x (List.mem_cons_of_mem _ hx))
    by_cases hq : q a = true
    · have hP := h a (by simp) hq
      simp [List.filter_cons, hP, List.find?_cons, hq]
    · by_cases hP : P a = true
      · simp [List.filter_cons, hP, List.find?_cons, hq, ih']
      · simp [List.filter_cons, hP, List.find?_cons, hq, ih']

theorem closedPart_spec (fs : List RFunc) (P : RFunc → Bool) (h : closedPart fs P = true) :
    ∀ g ∈ fs, P g = true → ∀ p ∈ freeParams g, ∀ h' ∈ fs, mentions h' p = true → P h' = true := by
  intro g hg hP p hp h' hh' hm
  unfold closedPart at h
  rw [List.all_eq_true] at h
  have := h g hg
  simp only [hP, Bool.not_true, Bool.false_or, List.all_eq_true] at this
  have := this p hp h' hh'
  simpa [hm] using this

theorem mem_freeParams (f : RFunc) (p : String × String) (hp : p ∈ f.core.params) (hb : alookup f.core.bound p.1 = none) :
    p.1 ∈ freeParams f := by
  unfold freeParams
  rw [List.mem_filterMap]
  refine ⟨p, hp, ?_⟩
  obtain ⟨a, b⟩ := p
  simp only [] at hb
  simp [hb]

theorem consistent_sublist (gs gs' : List Func) (h : ∀ g ∈ gs', g ∈ gs) (hc : ConsistentDefaults gs) : ConsistentDefaults gs' :=
  fun f hf g hg => hc f (h f hf) g (h g hg)

theorem eval_split (fs : List RFunc) (P : RFunc → Bool) (hcl : closedPart fs P = true) (hu : UniqueOutR fs)
    (hc : ConsistentDefaults (cores fs)) (kw : List (String × Val)) :
    ∀ (n : Nat) (o : String), (∃ g ∈ fs, P g = true ∧ o ∈ g.core.outputs) → eval (fs.filter P) kw n o = eval fs kw n o := by
  have hspec := closedPart_spec fs P hcl
  -- whoever mentions a name that a selected function needs is selected
  have hprodC : ∀ x, (∀ h' ∈ fs, x ∈ h'.core.outputs → P h' = true) → rproducer (fs.filter P) x = rproducer fs x := by
    intro x hx
    unfold rproducer
    apply find?_filter_of
    intro a ha hq
    exact hx a ha (by simpa using hq)
  have hc' : ConsistentDefaults (cores (fs.filter P)) := by
    apply consistent_sublist (cores fs) _ _ hc
    intro g hg
    obtain ⟨f, hf, rfl⟩ := List.mem_map.mp hg
    exact List.mem_map.mpr ⟨f, (List.mem_filter.mp hf).1, rfl⟩
  apply eval_cone fs (fs.filter P) kw (fun x => ∃ g ∈ fs, P g = true ∧ x ∈ g.core.outputs)
  · intro x ⟨g, hg, hP, hx⟩
    apply hprodC
    intro h' hh' hx'
    rw [hu h' hh' g hg x hx' hx]; exact hP
  · intro x f ⟨g, hg, hP, hx⟩ hf p hpm
    obtain ⟨hfmem, hxf⟩ := (rproducer_some_iff fs hu x f).mp hf
    have hPf : P f = true := by rw [hu f hfmem g hg x hxf hx]; exact hP
    unfold resolve
    cases hb : alookup f.core.bound p.1 with
    | some v => rfl
    | none =>
      have hfree := mem_freeParams f p hpm hb
      have hment : ∀ h' ∈ fs, mentions h' p.1 = true → P h' = true := hspec f hfmem hPf p.1 hfree
      have hprod : rproducer (fs.filter P) p.1 = rproducer fs p.1 := by
        apply hprodC
        intro h' hh' hx'
        apply hment h' hh'
        simp [mentions, hx']
      have hprod' : producer (cores (fs.filter P)) p.1 = producer (cores fs) p.1 := by
        rw [producer_cores, producer_cores, hprod]
      have hdef : pdefault (cores (fs.filter P)) p.1 = pdefault (cores fs) p.1 := by
        apply pdefault_eq_of _ _ hc hc'
        intro v
        rw [mem_pdefaults, mem_pdefaults, hprod']
        constructor
        · rintro ⟨c, hcm, a, b, d⟩
          obtain ⟨f', hf', rfl⟩ := List.mem_map.mp hcm
          exact ⟨f'.core, List.mem_map.mpr ⟨f', (List.mem_filter.mp hf').1, rfl⟩, a, b, d⟩
        · rintro ⟨c, hcm, a, b, d⟩
          obtain ⟨f', hf', rfl⟩ := List.mem_map.mp hcm
          have hPf' : P f' = true := by
            apply hment f' hf'
            have hany : f'.core.defaults.any (fun kv => decide (kv.1 = p.1)) = true :=
              List.any_eq_true.mpr ⟨(p.1, v), a, by simp⟩
            have hbn : alookup f'.core.bound p.1 = none := by
              cases hh : alookup f'.core.bound p.1 with
              | none => rfl
              | some w => rw [hh] at b; simp at b
            simp [mentions, hany, hbn]
          exact ⟨f'.core, List.mem_map.mpr ⟨f', List.mem_filter.mpr ⟨hf', hPf'⟩, rfl⟩, a, b, d⟩
      simp only [hprod', hdef]
  · intro x f ⟨g, hg, hP, hx⟩ hf p hpm hup
    obtain ⟨hfmem, hxf⟩ := (rproducer_some_iff fs hu x f).mp hf
    have hPf : P f = true := by rw [hu f hfmem g hg x hxf hx]; exact hP
    have hb : alookup f.core.bound p.1 = none := by
      unfold resolve at hup
      cases hh : alookup f.core.bound p.1 with
      | none => rfl
      | some w => rw [hh] at hup; cases hup
    have hsome : ∃ c, producer (cores fs) p.1 = some c := by
      unfold resolve at hup
      rw [hb] at hup
      simp only [] at hup
      cases hk : alookup kw p.1 with
      | some w => rw [hk] at hup; cases hup
      | none =>
        rw [hk] at hup
        simp only [] at hup
        cases hpr : producer (cores fs) p.1 with
        | some c => exact ⟨c, rfl⟩
        | none =>
          rw [hpr] at hup
          simp only [] at hup
          cases hd : pdefault (cores fs) p.1 <;> rw [hd] at hup <;> cases hup
    obtain ⟨c, hcp⟩ := hsome
    rw [producer_cores] at hcp
    cases hr : rproducer fs p.1 with
    | none => rw [hr] at hcp; cases hcp
    | some h' =>
      obtain ⟨hh', hph⟩ := (rproducer_some_iff fs hu p.1 h').mp hr
      have hfree := mem_freeParams f p hpm hb
      have := hspec f hfmem hPf p.1 hfree h' hh' (by simp [mentions, hph])
      exact ⟨h', hh', this, hph⟩

/-! ### join: the cone of an output of the first pipeline that the second does not touch -/

theorem eval_join (fs gs : List RFunc) (kw : List (String × Val)) (C : String → Prop)
    (hc : ConsistentDefaults (cores (fs ++ gs)))
    (hclosed : ∀ x f, C x → rproducer fs x = some f → ∀ p ∈ f.core.params, C p.1)
    (hfree : ∀ x, C x → ∀ g ∈ gs, x ∉ g.core.outputs ∧ ∀ v, (x, v) ∉ g.core.defaults) :
    ∀ (n : Nat) (o : String), C o → eval (fs ++ gs) kw n o = eval fs kw n o := by
  have hprod : ∀ x, C x → rproducer (fs ++ gs) x = rproducer fs x := by
    intro x hx
    unfold rproducer
    rw [List.find?_append]
    have : gs.find? (fun f => decide (x ∈ f.core.outputs)) = none := by
      rw [List.find?_eq_none]
      intro g hg
      simpa using (hfree x hx g hg).1
    rw [this, Option.or_none]
  have hc0 : ConsistentDefaults (cores fs) := by
    apply consistent_sublist _ _ _ hc
    intro g hg
    obtain ⟨f, hf, rfl⟩ := List.mem_map.mp hg
    exact List.mem_map.mpr ⟨f, List.mem_append_left _ hf, rfl⟩
  apply eval_cone fs (fs ++ gs) kw C hprod
  · intro x f hx hf p hpm
    have hCp := hclosed x f hx hf p hpm
    have hprod' : producer (cores (fs ++ gs)) p.1 = producer (cores fs) p.1 := by
      rw [producer_cores, producer_cores, hprod p.1 hCp]
    have hdef : pdefault (cores (fs ++ gs)) p.1 = pdefault (cores fs) p.1 := by
      apply pdefault_eq_of _ _ hc0 hc
      intro v
      rw [mem_pdefaults, mem_pdefaults, hprod']
      constructor
      · rintro ⟨c, hcm, a, b, d⟩
        obtain ⟨f', hf', rfl⟩ := List.mem_map.mp hcm
        rcases List.mem_append.mp hf' with h | h
        · exact ⟨f'.core, List.mem_map.mpr ⟨f', h, rfl⟩, a, b, d⟩
        · exact absurd a ((hfree p.1 hCp f' h).2 v)
      · rintro ⟨c, hcm, a, b, d⟩
        obtain ⟨f', hf', rfl⟩ := List.mem_map.mp hcm
        exact ⟨f'.core, List.mem_map.mpr ⟨f', List.mem_append_left _ hf', rfl⟩, a, b, d⟩
    unfold resolve
    simp only [hprod', hdef]
  · intro x f hx hf p hpm _
    exact hclosed x f hx hf p hpm

end PF.Rw
