import PfModel.DriverVal
import PfModel.Model.ValidateCtor
/-! Driver entry `"ctor"` of C12: one `PipeFunc(...)` call (`PF.ValidateCtor.pipeFuncInit`).
    Request: `{"sig": [..], "sig_defaults": [..], "output": {"s": "y"} | {"t": [..]} | {"l": [..]} | "bad", "renames": [[k, v], ..],
    "defaults": [..], "bound": [..], "mapspec": {"inputs": [[name, [axis|null, ..]], ..], "outputs": ..} | null, "internal": [..] | null,
    "rv": str | null, "scope": str | null}`. -/
namespace PF.Drv
open Lean PF PF.Map PF.Validate PF.ValidateCtor

def ctorASpec (j : Json) : R ASpec := do
  let (n, ax) ← asPair asStr (asList (asOpt asStr)) j
  return { name := n, axes := ax }

def ctorMSpec (j : Json) : R MSpec := do
  return { inputs := ← listF ctorASpec j "inputs", outputs := ← listF ctorASpec j "outputs" }

def ctorOutName (j : Json) : R OutName :=
  match j with
  | .str "bad" => .ok .bad
  | _ =>
    match fld? j "s", fld? j "t", fld? j "l" with
    | some s, _, _ => do return .str (← asStr s)
    | _, some t, _ => do return .tup (← asList asStr t)
    | _, _, some l => do return .lst (← asList asStr l)
    | _, _, _ => .error "output: {s} | {t} | {l} | \"bad\" expected"

def getCtorArgs (a : Json) : R CtorArgs := do
  let r : CtorArgs :=
    { sig := ← listF asStr a "sig", sigDefaults := ← listF asStr a "sig_defaults", outputName := ← ctorOutName (← fld a "output"),
      renames := ← listF (asPair asStr asStr) a "renames", defaults := ← listF asStr a "defaults", bound := ← listF asStr a "bound",
      mapspec := ← optF ctorMSpec a "mapspec", internal := ← optF (asList asNat) a "internal",
      resourcesVariable := ← optF asStr a "rv", scope := ← optF asStr a "scope" }
  -- what Python guarantees: distinct signature names / dictionary keys, MapSpec array names that `ArraySpec` accepted
  if hasDup r.sig then .error "duplicate signature name"
  if hasDup (r.renames.map (·.1)) then .error "duplicate renames key"
  if hasDup r.defaults || hasDup r.bound then .error "duplicate defaults/bound key"
  if !(r.sigDefaults.all r.sig.contains) then .error "sig_defaults must be signature names"
  match r.mapspec with
  | some ms => if !((ms.inputs ++ ms.outputs).all fun x => arrayNameOk x.name) then .error "MapSpec array name that ArraySpec refuses"
  | none => pure ()
  return r

def putCtorExc : Exc → Json
  | .value => jStr "ValueError"
  | .type => jStr "TypeError"
  | .key => jStr "KeyError"
  | .index => jStr "IndexError"
  | .unfeasible => jStr "Other:NetworkXUnfeasible"
  | .other => jStr "Other"

def handleCtor (a : Json) : R Json := do
  let r ← getCtorArgs a
  let steps := (pipeFuncInit r).map fun s => match s with | .check n _ => n | .eff _ => "effect"
  match ctorResult r with
  | .ok _ =>
    let b := effective r
    return jObj [("ok", jBool true), ("steps", jList jStr steps), ("parameters", jList jStr (parameters b)),
                 ("outputs", jList jStr (outNames b)), ("defaults", jList jStr (defaultsView b)),
                 ("renames", jList (jPair jStr jStr) b.renames)]
  | .error e => return jObj [("err", putCtorExc e.exc), ("check", jStr e.check), ("steps", jList jStr steps)]

/-- `validate_scopes` on `[[scopes, parameters, outputs], …]` -/
def handleScopes (a : Json) : R Json := do
  let fs ← listF (fun j => do
    match ← asArr j with
    | [p, o] => do
      let ps ← asList asStr p
      return (parameterScopes ps, ps, ← asList asStr o)
    | _ => .error "[parameters, outputs] expected") a "funcs"
  return jObj [("clash", jBool (scopeClash fs))]

end PF.Drv
