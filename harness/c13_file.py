"""C13, stream `snapfile`: `ErrorSnapshot.save_to_file` / `load_from_file` against the file model of lean/PfModel/Model/ErrorsFile.lean.

A real `ErrorSnapshot` is obtained from a real failing `PipeFunc.__call__` (or built directly, to have positional `args`), whose keyword
argument values have KINDS: atoms (terms, ints, strings, None, object arrays), tuples, lists, dicts, dataclass instances (`terms.DBox`,
`Pair`), nested.  The in-memory snapshot — every dataclass field — is encoded kind-preservingly and handed to the driver entry
`snap.file`; the model's `loadFile (saveFile s)` (`C13_file_roundtrip`) is compared with the encoding of what `load_from_file` returns,
the model's `reproduceFile` with the real `reproduce()` of the loaded snapshot, and the model's `asdict` answers (`C13_file_asdict_iff`,
the seeded change C13-s4-B as a model function) with `dataclasses.asdict` applied to the real snapshot."""
from __future__ import annotations

import dataclasses
import json
import os

import pfimport  # noqa: F401
from pfimport import exc_enum

import c13_exc
import mapgen
import terms


@dataclasses.dataclass(frozen=True)
class Pair:
    """a two-field dataclass value (a one-field one is `terms.DBox`)"""

    a: object
    b: object


# what the raising functions compare their arguments with: set by the harness before the first call, read again by `reproduce()`
STATE = {"key": None, "kind": "value", "tag": 0}


def seen(v):
    """what a user function makes of a value (it looks through a DBox; any other unknown object is itself)"""
    return terms.enc(terms.freeze(v))


def _key(args, kw):
    return json.dumps([[seen(a) for a in args], sorted([k, seen(v)] for k, v in kw.items())], sort_keys=True, default=repr)


def _body(args, kw):
    if STATE["key"] is None or _key(args, kw) == STATE["key"]:
        raise c13_exc.make(STATE["kind"], STATE["tag"])
    return "ok"


def snapfn1(p0):
    return _body((), {"p0": p0})


def snapfn2(p0, p1):
    return _body((), {"p0": p0, "p1": p1})


def snapfn3(p0, p1, p2=None):
    return _body((), {"p0": p0, "p1": p1, "p2": p2})


def snapfn_var(*args, **kw):
    return _body(args, kw)


FUNCS = {1: snapfn1, 2: snapfn2, 3: snapfn3}


# ------------------------------------------------------------------------------------------------ values with kinds
def gen_atom(rng):
    r = rng.random()
    if r < 0.35:
        return {"a": {"f": "in", "k": [["n", {"s": rng.choice("xyz")}], ["at", rng.randrange(4)]]}}
    if r < 0.55:
        return {"a": rng.randrange(-3, 50)}
    if r < 0.7:
        return {"a": {"s": rng.choice(["", "a", "kw:r0", "long string " * 3])}}
    if r < 0.85:
        return {"a": None}
    n = rng.randrange(1, 4)
    return {"a": {"arr": [[n], [rng.choice([rng.randrange(9), {"s": "e"}, None]) for _ in range(n)]]}}


def gen_pv(rng, depth=0):
    if depth >= 3 or rng.random() < (0.45 if depth == 0 else 0.6):
        return gen_atom(rng)
    k = rng.choice(["tuple", "list", "dict", "inst", "inst", "pair"])
    if k == "inst":
        return {"k": "inst", "cls": "terms.DBox", "fields": ["v"], "xs": [gen_pv(rng, depth + 1)]}
    if k == "pair":
        return {"k": "inst", "cls": "c13_file.Pair", "fields": ["a", "b"], "xs": [gen_pv(rng, depth + 1), gen_pv(rng, depth + 1)]}
    n = rng.randrange(0, 4)
    xs = [gen_pv(rng, depth + 1) for _ in range(n)]
    if k == "dict":
        return {"k": "dict", "keys": [f"k{i}" for i in rng.sample(range(6), n)], "xs": xs}
    return {"k": k, "xs": xs}


def build_pv(j):
    if "a" in j:
        return terms.dec(j["a"])
    xs = [build_pv(x) for x in j["xs"]]
    if j["k"] == "tuple":
        return tuple(xs)
    if j["k"] == "list":
        return xs
    if j["k"] == "dict":
        return dict(zip(j["keys"], xs))
    if j["cls"] == "terms.DBox":
        return terms.DBox(xs[0])
    return Pair(*xs)


def enc_pv(v):
    """kind-preserving encoding of a Python value (the inverse of `build_pv`; it does NOT look through dataclass instances)"""
    if dataclasses.is_dataclass(v) and not isinstance(v, type):
        fs = [f.name for f in dataclasses.fields(v)]
        return {"k": "inst", "cls": f"{type(v).__module__}.{type(v).__qualname__}", "fields": fs, "xs": [enc_pv(getattr(v, f)) for f in fs]}
    if isinstance(v, tuple):
        return {"k": "tuple", "xs": [enc_pv(x) for x in v]}
    if isinstance(v, list):
        return {"k": "list", "xs": [enc_pv(x) for x in v]}
    if isinstance(v, dict):
        return {"k": "dict", "keys": [str(k) for k in v], "xs": [enc_pv(x) for x in v.values()]}
    return {"a": terms.enc(v)}


def has_inst(j):
    return "a" not in j and (j["k"] == "inst" or any(has_inst(x) for x in j["xs"]))


def kinds_of(j, acc):
    if "a" in j:
        acc.add("atom")
    else:
        acc.add("Pair" if j["k"] == "inst" and j["cls"].endswith("Pair") else "DBox" if j["k"] == "inst" else j["k"])
        for x in j["xs"]:
            kinds_of(x, acc)


META = ["traceback", "timestamp", "user", "machine", "ip_address", "current_directory"]


def enc_snapshot(s):
    """every field of the dataclass, kind-preservingly"""
    return {"fname": s.function.__name__, "exn": {"cls": c13_exc.clsname(s.exception), "args": [c13_exc.enc_arg(a) for a in s.exception.args]},
            "args": [enc_pv(a) for a in s.args], "kwargs": [[k, enc_pv(v)] for k, v in s.kwargs.items()],
            "meta": {m: str(getattr(s, m)) for m in META}}


def canon_pv(j):
    if "a" in j:
        return {"a": terms.canon(j["a"])}
    d = dict(j)
    d["xs"] = [canon_pv(x) for x in j["xs"]]
    return d


def canon_snap(j, sort=True):
    kws = [[k, canon_pv(v)] for k, v in j["kwargs"]]
    return {"fname": j["fname"], "exn": [j["exn"]["cls"], json.dumps([terms.canon(a) for a in j["exn"]["args"]], sort_keys=True)],
            "args": [canon_pv(a) for a in j["args"]], "kwargs": sorted(kws, key=lambda kv: kv[0]) if sort else kws, "meta": j["meta"]}


def outcome(fn):
    try:
        mapgen.quiet(fn)
        return "returned"
    except BaseException as e:  # noqa: BLE001
        return [c13_exc.clsname(e), json.dumps([c13_exc.enc_arg(a) for a in e.args], sort_keys=True)]


def model_outcome(j):
    return j if isinstance(j, str) else [j["cls"], json.dumps([terms.canon(a) for a in j["args"]], sort_keys=True)]


# ------------------------------------------------------------------------------------------------ one case
CORPUS = [
    # seeded change C13-s4-B (`save_to_file` writes `dataclasses.asdict(self)`): a DBox argument, bare and nested in containers
    {"n": 1, "kw": [{"k": "inst", "cls": "terms.DBox", "fields": ["v"], "xs": [{"a": 1}]}], "args": [], "kind": "value"},
    {"n": 2, "kw": [{"k": "tuple", "xs": [{"a": None}, {"k": "dict", "keys": ["q"], "xs": [{"k": "inst", "cls": "terms.DBox", "fields": ["v"], "xs": [{"a": {"s": "z"}}]}]}]},
                    {"k": "inst", "cls": "c13_file.Pair", "fields": ["a", "b"], "xs": [{"a": 2}, {"k": "list", "xs": []}]}], "args": [], "kind": "custom"},
    {"n": 0, "kw": [{"a": 3}], "args": [{"k": "list", "xs": [{"k": "inst", "cls": "terms.DBox", "fields": ["v"], "xs": [{"a": None}]}]}, {"a": {"s": "pos"}}], "kind": "quiet"},
    {"n": 3, "kw": [{"a": None}, {"a": 0}], "args": [], "kind": "noargs"},
]


def gen_case(rng):
    direct = rng.random() < 0.3
    n = 0 if direct else rng.choice([1, 2, 2, 3, 3])
    nkw = rng.randrange(0, 4) if direct else (n if n < 3 else rng.choice([2, 3]))
    kind = rng.choice(c13_exc.KINDS) if rng.random() < 0.7 else c13_exc.pick_proto(rng)
    return {"n": n, "kw": [gen_pv(rng) for _ in range(nkw)], "args": [gen_pv(rng) for _ in range(rng.randrange(0, 3))] if direct else [], "kind": kind}


def real_snapshot(case, tag):
    """the in-memory ErrorSnapshot of the case; None + reason when the case cannot be set up"""
    from pipefunc import PipeFunc
    from pipefunc._pipefunc import ErrorSnapshot

    STATE.update(key=None, kind=case["kind"], tag=tag)
    kw = {f"p{i}": build_pv(j) for i, j in enumerate(case["kw"])}
    if case["n"] == 0:                      # built directly: positional `args` too (`reproduce` calls `function(*args, **kwargs)`)
        args = tuple(build_pv(j) for j in case["args"])
        try:
            snapfn_var(*args, **kw)
        except Exception as e:  # noqa: BLE001
            snap = ErrorSnapshot(snapfn_var, e, args, kw)
        STATE["key"] = _key(args, kw)
        return snap
    pf = PipeFunc(FUNCS[case["n"]], "out")
    try:
        mapgen.quiet(pf, **kw)
    except Exception:  # noqa: BLE001
        pass
    snap = pf.error_snapshot
    if snap is not None:
        STATE["key"] = _key(snap.args, snap.kwargs)
    return snap


def run_stream(ctx, base, n):
    """returns nothing; records cases and violations on ctx"""
    from pipefunc._pipefunc import ErrorSnapshot

    rng = ctx.rng
    cases = [dict(c) for c in CORPUS] + [gen_case(rng) for _ in range(n)]
    # the real side first (the model's input is the encoding of the real in-memory snapshot)
    obs, reqs = [], []
    for i, case in enumerate(cases):
        o = {}
        try:
            snap = real_snapshot(case, 3000 + i)
            if snap is None:
                o["err"] = "no error_snapshot after the failing call"
            else:
                o["snap"] = enc_snapshot(snap)
                o["reproduce"] = outcome(snap.reproduce)
                path = os.path.join(base, f"snapfile-{i}.pkl")
                try:
                    snap.save_to_file(path)
                    again = ErrorSnapshot.load_from_file(path)
                    o["loaded"] = enc_snapshot(again)
                    o["loaded_reproduce"] = outcome(again.reproduce)
                except Exception as e:  # noqa: BLE001
                    o["load_err"] = exc_enum(e) + ": " + str(e)[:200]
                finally:
                    if os.path.exists(path):
                        os.unlink(path)
                # the seeded transformation applied to the real snapshot (Python's own `dataclasses.asdict`)
                try:
                    d = dataclasses.asdict(snap)
                    o["asdict_kwargs"] = [[k, enc_pv(v)] for k, v in d["kwargs"].items()]
                    o["asdict_args"] = [enc_pv(a) for a in d["args"]]
                    o["asdict_reproduce"] = outcome(lambda d=d, snap=snap: snap.function(*d["args"], **d["kwargs"]))
                except Exception as e:  # noqa: BLE001
                    o["asdict_err"] = exc_enum(e)
        except Exception as e:  # noqa: BLE001
            o["err"] = exc_enum(e) + ": " + str(e)[:200]
        obs.append(o)
        if "snap" in o:
            s = o["snap"]
            x = {k: v for k, v in c13_exc.model_exn(case["kind"], 3000 + i).items() if k in ("cls", "args")}
            reqs.append({"m": "snap.file", "a": {"fname": s["fname"], "exn": x, "args": s["args"], "kwargs": s["kwargs"], "meta": s["meta"]}})
    resps = iter(ctx.lean(reqs)) if reqs else iter(())
    for case, o in zip(cases, obs):
        rcase = {"kind": "snapfile", "case": case}
        ctx.count("snapfile:cases")
        if "snap" not in o:
            ctx.record(rcase, False)
            ctx.violation(rcase, f"snapfile: the failing call left no usable ErrorSnapshot ({o.get('err')})", impl=o)
            continue
        M = next(resps)["r"]
        ks = set()
        for _, v in o["snap"]["kwargs"]:
            kinds_of(v, ks)
        for a in o["snap"]["args"]:
            kinds_of(a, ks)
        for kk in sorted(ks):
            ctx.count(f"snapfile:kind:{kk}")
        ctx.count("snapfile:" + ("positional-args" if o["snap"]["args"] else "kwargs-only"))
        ctx.count("snapfile:exception:" + ("protocol" if c13_exc.is_proto(case["kind"]) else case["kind"]))
        inst = any(has_inst(v) for _, v in o["snap"]["kwargs"]) or any(has_inst(a) for a in o["snap"]["args"])
        ctx.record(rcase, bool(ks - {"atom"}))
        if M.get("loaded") is None or M.get("truncatedLoads") or M["hasInst"] != inst:
            raise AssertionError(f"driver: snap.file does not round-trip / hasInst differs: {json.dumps(M)[:400]}")
        if canon_snap(M["loaded"], sort=False) != canon_snap(o["snap"], sort=False):
            raise AssertionError("driver: loadFile (saveFile s) ≠ s (C13_file_roundtrip)")
        want_exc = model_outcome(M["reproduce"])
        if o["reproduce"] != want_exc or want_exc == "returned":
            ctx.violation(rcase, f"snapfile: reproduce() of the in-memory snapshot gives {o['reproduce']}, the exception was {want_exc}", impl=o, model=M["reproduce"])
            continue
        # ---- clause: reproduce() after save_to_file / load_from_file raises the same exception
        if "load_err" in o:
            ctx.violation(rcase, f"snapfile: save_to_file/load_from_file failed: {o['load_err']}", impl=o)
            continue
        if o["loaded_reproduce"] != want_exc:
            ctx.violation(rcase, f"ErrorSnapshot.reproduce() after save_to_file/load_from_file does not raise the same exception (got {o['loaded_reproduce']}, "
                          f"the failing call raised {want_exc[0]}); argument kinds {sorted(ks)}", impl={"loaded": o["loaded"], "reproduce": o["loaded_reproduce"]}, model=M["loaded"])
            continue
        # ---- correspondence: every field of the loaded snapshot is the model's `loadFile (saveFile s)`
        got, want = canon_snap(o["loaded"]), canon_snap(M["loaded"])
        diff = sorted(k for k in want if got[k] != want[k])
        if diff:
            ctx.violation(rcase, f"snapfile: the snapshot read back differs from the one saved in {diff} (C13_file_roundtrip)", found_input=False,
                          item="correspondence:C13_file_roundtrip", impl={k: got[k] for k in diff}, model={k: want[k] for k in diff})
            continue
        ctx.count("snapfile:agree")
        # ---- the seeded transformation, replayed with Python's own `dataclasses.asdict` (C13_file_asdict_iff)
        if "asdict_err" in o:
            ctx.count("snapfile:asdict-not-applicable")
            continue
        ma = M["asdict"]
        same_real = o["asdict_kwargs"] == o["snap"]["kwargs"] and o["asdict_args"] == o["snap"]["args"]
        agree = (sorted([k, canon_pv(v)] for k, v in o["asdict_kwargs"]) == sorted([k, canon_pv(v)] for k, v in ma["kwargs"])
                 and [canon_pv(a) for a in o["asdict_args"]] == [canon_pv(a) for a in ma["args"]] and same_real == (not inst)
                 and o["asdict_reproduce"] == model_outcome(M["asdictReproduce"]))
        if not agree:
            ctx.violation(rcase, "snapfile: `asdict` of the model and `dataclasses.asdict` disagree on the snapshot's argument values", found_input=False,
                          item="correspondence:C13_file_asdict_iff", impl={"kwargs": o["asdict_kwargs"], "reproduce": o["asdict_reproduce"]},
                          model={"kwargs": ma["kwargs"], "reproduce": M["asdictReproduce"]})
            continue
        ctx.count("snapfile:asdict:" + ("changes-values(has instance)" if inst else "identity(no instance)"))
        ctx.count("snapfile:asdict-reproduce:" + ("returned" if o["asdict_reproduce"] == "returned" else "raises"))


def replay(ctx, case, base):
    from pipefunc._pipefunc import ErrorSnapshot

    snap = real_snapshot(case, 3000)
    print("in memory:", json.dumps(enc_snapshot(snap))[:2000])
    path = os.path.join(base, "snapfile-replay.pkl")
    snap.save_to_file(path)
    again = ErrorSnapshot.load_from_file(path)
    print("loaded:   ", json.dumps(enc_snapshot(again))[:2000])
    print("reproduce:", outcome(snap.reproduce), "after load:", outcome(again.reproduce))
    s = enc_snapshot(snap)
    r = ctx.lean([{"m": "snap.file", "a": {"fname": s["fname"], "exn": s["exn"], "args": s["args"], "kwargs": s["kwargs"], "meta": s["meta"]}}])
    print("model:    ", json.dumps(r[0]["r"])[:3000])
