/-
C10 round 4 — `nest_funcs` / `NestedPipeFunc` / `simplified_pipeline` on pipelines WITH MapSpecs, and `Pipeline.map` on a
pipeline that contains a `NestedPipeFunc`.

* `combineSpecs` mirrors `NestedPipeFunc._combine_mapspecs` + `_validate_combinable_mapspecs` + `_validate_consistent_array_use`
  (`pipefunc/_pipefunc.py`, after the three round-4 repairs): the inner MapSpecs are removed, the nested function gets the
  combined one; refusals carry the reason.
* `mkNestM / nestFuncsM / simplifyM` are `mkNest / nestFuncs / simplify` (Model/Rewrite.lean) with the MapSpec combination
  in place of the blanket refusal; on functions without MapSpecs they ARE the old definitions (`Lemmas/RewriteNestMap.lean`).
* `runMapB OV` is `PF.Map.runMapWith opArray` with the value of one call (`PF.Map.outVal`) as a parameter, so that a nested
  function can be run: its value at one index is the evaluation of its inner pipeline on the arguments selected at that index
  (`_NestedFuncWrapper.__call__` inside `_run_iteration`).  `runMapB PF.Map.outVal = PF.Map.runMap` by `rfl`.
Core Lean only.
-/
import PfModel.Model.Rewrite
namespace PF.Rw
open PF PF.Pipe

/-! ### `_combine_mapspecs` -/

/-- two index collections are the same SET (`m.input_indices != set(m.output_indices)`) -/
def sameSet (a b : List String) : Bool := a.all b.contains && b.all a.contains

/-- the checks of `_validate_combinable_mapspecs` for one MapSpec against the first, in the code's order -/
def combineCheck (first m : PF.Map.MSpec) : Option String :=
  if !(sameSet m.inputIndices m.outputIndices) then some "combine:in-out" else
  if !(sameSet m.inputIndices first.inputIndices) then some "combine:inputs" else
  if m.outputIndices ≠ first.outputIndices then some "combine:outputs" else none

/-- every ArraySpec (inputs, then outputs) of the nested functions' MapSpecs, in function order -/
def specMentions (S : List RFunc) : List PF.Map.ASpec :=
  S.flatMap fun f => match f.mapspec with
    | none => []
    | some ms => ms.inputs ++ ms.outputs

/-- the axes an array has in the MapSpecs of the nested functions: its first mention (`dict.setdefault`) -/
def nestAxesOf (S : List RFunc) (n : String) : Option (List (Option String)) :=
  ((specMentions S).find? (·.name = n)).map (·.axes)

/-- `_validate_consistent_array_use`, first loop: an array is indexed with the same axes wherever a MapSpec mentions it -/
def axesClash (S : List RFunc) : Bool :=
  (specMentions S).any fun a => nestAxesOf S a.name ≠ some a.axes

/-- `_validate_consistent_array_use`, second loop: no nested function takes whole (un-bound, not listed in its MapSpec) an
    array that a MapSpec of the nest mentions -/
def wholeClash (S : List RFunc) : Bool :=
  S.any fun f => match f.mapspec with
    | none => false
    | some ms => (freeParams f).any fun p => (nestAxesOf S p).isSome && !(ms.inputs.any (·.name = p))

/-- `NestedPipeFunc._combine_mapspecs` for the nested functions `S`, the nest's parameters and its output names:
    `none` when no nested function has a MapSpec; refused when they cannot be combined; else the parameters that some
    MapSpec mentions (sorted) with their axes `->` the outputs, in `output_name` order, with theirs -/
def combineSpecs (S : List RFunc) (params outs : List String) : Except Err (Option PF.Map.MSpec) :=
  if S.all (fun f => f.mapspec.isNone) then .ok none else
  if S.any (fun f => f.mapspec.isNone) then .error (.missing "combine:mix") else
  match S.filterMap (·.mapspec) with
  | [] => .ok none
  | first :: rest =>
    match (first :: rest).findSome? (combineCheck first) with
    | some why => .error (.missing why)
    | none =>
      if axesClash S then .error (.missing "combine:axes") else
      if wholeClash S then .error (.missing "combine:whole") else
      .ok (some { inputs := (sortDedup params).filterMap fun p => (nestAxesOf S p).map fun ax => ⟨p, ax⟩
                  outputs := outs.map fun o => ⟨o, (nestAxesOf S o).getD []⟩ })

/-- `NestedPipeFunc(S, output_name=out)` with MapSpecs (the checks in the order of `__init__`: at least two functions, one
    leaf, `output_name` a subset, then `_combine_mapspecs`); the inner pipeline is CALLED (`eval` never reads a MapSpec: `f.mapspec = None`, `_pipefunc.py:1121`) -/
def mkNestM (S : List RFunc) (out : Option (List String)) : Except Err RFunc :=
  if S.length < 2 then .error (.missing "at least two functions") else
  match leaves S with
  | [lf] =>
    let all := sortDedup (allOutputs S)
    let outs := out.getD all
    if outs.isEmpty || !(outs.all all.contains) then .error (.missing "output_name not a subset") else
    let ps := nestParams S
    match combineSpecs S ps outs with
    | .error e => .error e
    | .ok ms =>
      .ok { core := { name := "NestedPipeFunc_" ++ "_".intercalate outs
                      params := ps.map fun p => (p, p)
                      outputs := outs
                      defaults := (pdefaults (cores S)).filter fun kv => ps.contains kv.1
                      bound := [] }
            outOrig := outs
            body := some (nestBody S (lf.core.outputs.headD ""))
            mapspec := ms }
  | _ => .error (.missing "only one leaf node")

/-- `Pipeline.nest_funcs(sel, new_output_name=out)` on a copy, MapSpecs allowed -/
def nestFuncsM (sel : List String) (out : Option (List String)) (fs : List RFunc) : Except Err (List RFunc) :=
  if sel.any (fun o => (rproducer fs o).isNone) then .error (.noFunc "nest") else
  let S := fs.filter fun f => sel.any fun o => f.core.outputs.contains o
  let rest := fs.filter fun f => !(sel.any fun o => f.core.outputs.contains o)
  match mkNestM S out with
  | .error e => .error e
  | .ok N =>
    let r := rest ++ [N]
    if acyclic r then .ok r else .error .fuel

def buildNestsM : List (List RFunc × List String) → Except Err (List RFunc)
  | [] => .ok []
  | (g, outs) :: more =>
    match mkNestM g (some outs) with
    | .error e => .error e
    | .ok N => match buildNestsM more with
      | .error e => .error e
      | .ok Ns => .ok (N :: Ns)

/-- `simplified_pipeline` on a pipeline that may carry MapSpecs: a PREDECESSOR with a MapSpec is refused by `identify`
    (`NotImplementedError`), a head with one goes to `_combine_mapspecs` (`ValueError`: a mix of None and MapSpec) -/
def simplifyM (o : String) (conservative : Bool) (fs : List RFunc) : Except Err (List RFunc) :=
  match simplifyPlan o conservative fs with
  | .error e => .error e
  | .ok plan =>
    match buildNestsM (plan.map fun (g, outs) => (fs.filter (fun f => g.any (sameF f)), outs)) with
    | .error e => .error e
    | .ok Ns =>
      if dupOutputs (fs.filter (fun f => !((plan.map (·.1)).flatten.any (sameF f))) ++ Ns) then .error (.missing "duplicate output") else
      if acyclic (fs.filter (fun f => !((plan.map (·.1)).flatten.any (sameF f))) ++ Ns) then
        .ok (fs.filter (fun f => !((plan.map (·.1)).flatten.any (sameF f))) ++ Ns)
      else .error .fuel

/-! ### `Pipeline.map` with nested functions -/

namespace MapB
open PF.Map

/-- how the value of ONE call of a function is obtained: `PF.Map.outVal` for a primitive -/
abbrev OutV := MFunc → List (String × Val) → String → Val

/-- `PF.Map.opArray` with the call value as a parameter -/
def opArrayB (OV : OutV) (f : MFunc) (shape : List Nat) (mask : List Bool) (args : Nat → List (String × Val)) (o : String) : Val :=
  let es := extOf mask shape
  let is := intOf mask shape
  let flat := fill mask es is (fun E I => elemAt mask (OV f (args (ravel es E)) o) I)
  .arr shape ((List.range (prod shape)).map fun j => (flat j).getD .none)

/-- `PF.Map.cellsOf` with the call value as a parameter -/
def cellsOfB (OV : OutV) (f : MFunc) (n : Nat) (args : Nat → List (String × Val)) (o : String) : List (Nat × Val) :=
  (List.range n).map fun li => (li, OV f (args li) o)

/-- `PF.Map.runMappedWith opArray` with the call value as a parameter -/
def runMappedB (OV : OutV) (fs : List MFunc) (env : PF.Map.Env) (f : MFunc) (ms : MSpec) (shape : List Nat) (mask : List Bool) :
    M FuncResult := do
  let es := extOf mask shape
  let n := prod es
  let argsAt ← (List.range n).mapM fun li => selectArgs fs env f ms (shapeToKey es li)
  let args : Nat → List (String × Val) := fun li => argsAt.getD li []
  return { outputs := f.outputs.map fun o => (o, opArrayB OV f shape mask args o),
           slots := f.outputs.map fun o => (o, Slot.array shape mask (cellsOfB OV f n args o)),
           calls := argsAt.map fun a => ({ name := f.name, args := a } : Call) }

/-- `PF.Map.runSingle` with the call value as a parameter -/
def runSingleB (OV : OutV) (fs : List MFunc) (env : PF.Map.Env) (f : MFunc) : M FuncResult := do
  let args ← f.params.mapM fun (p, orig) => do return (orig, ← argWhole fs env f p)
  let outs := f.outputs.map fun o => (o, OV f args o)
  return { outputs := outs, slots := outs.map fun (o, v) => (o, Slot.single v), calls := [{ name := f.name, args := args }] }

/-- `PF.Map.runFuncWith opArray` with the call value as a parameter -/
def runFuncB (OV : OutV) (fs : List MFunc) (shapes : List (String × List Nat)) (masks : List (String × List Bool)) (env : PF.Map.Env)
    (f : MFunc) : M FuncResult :=
  match f.mapspec with
  | some ms =>
    if ms.inputs.isEmpty then runSingleB OV fs env f else
    match f.outputs.head? with
    | none => throw (.value "function without outputs")
    | some o =>
      match alookup shapes o, alookup masks o with
      | some sh, some mk =>
        if sh.length ≠ mk.length then throw (.value "shape and mask of different rank") else runMappedB OV fs env f ms sh mk
      | _, _ => throw (.key o)
  | none => runSingleB OV fs env f

/-- `PF.Map.runMap` with the call value as a parameter (validation, shapes, generations and the generation loop are the
    shared definitions) -/
def runMapB (OV : OutV) (fs : List MFunc) (inputs : List (String × Val)) (userInternal : List (String × List Nat)) : M MapResult := do
  validateInputs fs inputs
  if (generations fs).flatten.length ≠ fs.length then throw (.value "cyclic pipeline")
  let internal := constructInternal fs userInternal
  let (shapes, masks) ← mapShapes fs inputs internal
  let (rs, env) ← runGensWith (runFuncB OV fs shapes masks) (generations fs) { inputs := inputs, store := [] }
  return { outputs := rs.flatMap (·.outputs), stored := env.store.map fun (o, s) => (o, s.toVal), shapes := shapes, masks := masks,
           calls := rs.flatMap (·.calls), gens := (generations fs).map fun g => g.map (·.name) }

end MapB

/-- what a failing inner pipeline leaves in a cell (never produced for an accepted nest: the inner pipeline is total at its
    fixed fuel, `C10_nest_body_total`; a disagreement would show it) -/
def nestFailed (e : Err) : Val := .app "<nested pipeline failed>" [("why", .str (toString (repr e)))]

/-- the value of one call of `f` under `map`: a primitive builds its term (`PF.Map.outVal`), a `NestedPipeFunc` evaluates
    its inner pipeline on the arguments of THIS call and hands out the requested inner output (`_NestedFuncWrapper`) -/
def callVal (f : RFunc) (args : List (String × Val)) (o : String) : Val :=
  match f.body with
  | none => PF.Map.outVal (toMFunc f) args o
  | some _ => match outVal f args o with
    | .ok v => v
    | .error e => nestFailed e

/-- the call values of a pipeline: nested functions are found by name (`NestedPipeFunc_<outputs>`, unique in a pipeline) -/
def callVals (fs : List RFunc) : MapB.OutV := fun mf args o =>
  match fs.find? (fun f => f.body.isSome && f.core.name = mf.name) with
  | some f => callVal f args o
  | none => PF.Map.outVal mf args o

/-- **`Pipeline.map` of a rewritten pipeline**, nested functions included -/
def runMapR (fs : List RFunc) (inputs : List (String × Val)) (userInternal : List (String × List Nat)) : PF.Map.M PF.Map.MapResult :=
  MapB.runMapB (callVals fs) (fs.map toMFunc) inputs userInternal

/-- decidable side conditions under which the theorems of `Props/C10NestMap.lean` speak about a nest: every output index of the
    combined MapSpec is carried by one of its inputs (no internal axis) -/
def specCovered (ms : PF.Map.MSpec) : Bool := ms.outputIndices.all ms.inputIndices.contains

end PF.Rw
