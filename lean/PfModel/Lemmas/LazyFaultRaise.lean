import PfModel.Model.LazyFault
import PfModel.Lemmas.LazyExact
import PfModel.Lemmas.LazyRun
/-! Helper lemmas for `Props/C18FaultRaise.lean`: what the fault-aware evaluation `evalF` (Model/LazyFault.lean) leaves behind when a user
function raises, on tables whose arguments are older nodes (`Closed`). -/
namespace PF.Lazy
open PF PF.Pipe

theorem needs_le_f {nodes : List Lazy.Node} (hc : Closed nodes) {r j : Nat} (h : Needs nodes (.ref r) j) : j ≤ r := by
  induction h with
  | self e => injection e with e; subst e; exact Nat.le_refl _
  | arg _ hn hj ih => exact Nat.le_trans (Nat.le_of_lt (hc _ _ hn _ hj)) ih

/-- node `j` is a call of a function that is switched to faulty -/
def BadCall (bad : List String) (nodes : List Lazy.Node) (j : Nat) : Prop :=
  ∃ f args, nodes[j]? = some (Lazy.Node.call f args) ∧ bad.contains f.name = true

def okOf {α} : Except FErr α → Bool
  | .ok _ => true
  | .error _ => false

def raisedE : FErr → Option Nat
  | .raised j => some j
  | .model _ => none

def raisedOf {α} : Except FErr α → Option Nat
  | .error e => raisedE e
  | .ok _ => none

/-- what a fault-aware evaluation of the objects `roots` does (`okb`: it returned; `rj`: the node whose function raised) -/
structure FPost (bad : List String) (nodes : List Lazy.Node) (roots : List Nat) (s s' : ESt) (okb : Bool) (rj : Option Nat) : Prop where
  closed : DoneClosed nodes s → DoneClosed nodes s'
  mono : ∀ i, (dlookup s.done i).isSome → (dlookup s'.done i).isSome
  new : ∀ i, (dlookup s'.done i).isSome → (dlookup s.done i).isSome ∨ ∃ r ∈ roots, Needs nodes (.ref r) i
  good : ∀ i, (dlookup s'.done i).isSome → (dlookup s.done i).isSome ∨ ¬ BadCall bad nodes i
  logext : ∃ l, s'.log = s.log ++ l
  ok : okb = true → ∀ r ∈ roots, (dlookup s'.done r).isSome
  raised : ∀ j, rj = some j → dlookup s'.done j = none ∧ (∃ r ∈ roots, Needs nodes (.ref r) j) ∧ BadCall bad nodes j ∧
    s'.log.getLast? = some j

theorem fpost_refl {bad : List String} {nodes : List Lazy.Node} (s : ESt) (okb : Bool) : FPost bad nodes [] s s okb none :=
  ⟨id, fun _ h => h, fun _ h => Or.inl h, fun _ h => Or.inl h, ⟨[], by simp⟩, (fun _ r hr => by cases hr), (fun j h => by cases h)⟩

theorem fpost_widen {bad : List String} {nodes : List Lazy.Node} {roots roots' : List Nat} {s s' : ESt} {rj : Option Nat}
    (h : FPost bad nodes roots s s' false rj) (hsub : ∀ r ∈ roots, ∃ r' ∈ roots', Needs nodes (.ref r') r) :
    FPost bad nodes roots' s s' false rj := by
  refine ⟨h.closed, h.mono, ?_, h.good, h.logext, (fun hb => by cases hb), ?_⟩
  · intro i hi
    rcases h.new i hi with h1 | ⟨r, hr, hn⟩
    · exact Or.inl h1
    · obtain ⟨r', hr', hn'⟩ := hsub r hr
      exact Or.inr ⟨r', hr', needs_trans hn' hn⟩
  · intro j hj
    obtain ⟨h1, ⟨r, hr, hn⟩, h3, h4⟩ := h.raised j hj
    obtain ⟨r', hr', hn'⟩ := hsub r hr
    exact ⟨h1, ⟨r', hr', needs_trans hn' hn⟩, h3, h4⟩

theorem fpost_cons {bad : List String} {nodes : List Lazy.Node} {i : Nat} {rest : List Nat} {s s1 s2 : ESt} {okb : Bool} {rj : Option Nat}
    (h1 : FPost bad nodes [i] s s1 true none) (h2 : FPost bad nodes rest s1 s2 okb rj) : FPost bad nodes (i :: rest) s s2 okb rj := by
  refine ⟨fun hc => h2.closed (h1.closed hc), fun x hx => h2.mono x (h1.mono x hx), ?_, ?_, ?_, ?_, ?_⟩
  · intro x hx
    rcases h2.new x hx with h | ⟨r, hr, hn⟩
    · rcases h1.new x h with h | ⟨r, hr, hn⟩
      · exact Or.inl h
      · simp only [List.mem_singleton] at hr; subst hr; exact Or.inr ⟨r, List.mem_cons_self, hn⟩
    · exact Or.inr ⟨r, List.mem_cons_of_mem _ hr, hn⟩
  · intro x hx
    rcases h2.good x hx with h | h
    · exact h1.good x h
    · exact Or.inr h
  · obtain ⟨l1, e1⟩ := h1.logext
    obtain ⟨l2, e2⟩ := h2.logext
    exact ⟨l1 ++ l2, by rw [e2, e1, List.append_assoc]⟩
  · intro hb r hr
    rcases List.mem_cons.mp hr with rfl | hr
    · exact h2.mono _ (h1.ok rfl _ (List.mem_singleton.mpr rfl))
    · exact h2.ok hb r hr
  · intro j hj
    obtain ⟨a, ⟨r, hr, hn⟩, c, d⟩ := h2.raised j hj
    exact ⟨a, ⟨r, List.mem_cons_of_mem _ hr, hn⟩, c, d⟩

def FPostRec (bad : List String) (nodes : List Lazy.Node) (rec : Nat → ESt → ESt × Except FErr Val) : Prop :=
  ∀ i s, FPost bad nodes [i] s (rec i s).1 (okOf (rec i s).2) (raisedOf (rec i s).2)

theorem evalArgsF_post {bad : List String} {nodes : List Lazy.Node} {rec : Nat → ESt → ESt × Except FErr Val} (hr : FPostRec bad nodes rec) :
    ∀ (args : List (String × LArg)) (s : ESt),
      FPost bad nodes (argRefs args) s (evalArgsF rec args s).1 (okOf (evalArgsF rec args s).2) (raisedOf (evalArgsF rec args s).2) := by
  intro args
  induction args with
  | nil => intro s; simp only [evalArgsF, argRefs, raisedOf]; exact fpost_refl s _
  | cons e rest ih =>
    obtain ⟨k, a⟩ := e
    intro s
    cases a with
    | val w =>
      have h := ih s
      simp only [evalArgsF, evalArgF, argRefs]
      rcases hres : evalArgsF rec rest s with ⟨s2, (e | vs)⟩
      · rw [hres] at h; simpa [okOf, raisedOf] using h
      · rw [hres] at h; simpa [okOf, raisedOf] using h
    | ref i =>
      have h1 := hr i s
      simp only [evalArgsF, evalArgF, argRefs]
      rcases hres1 : rec i s with ⟨s1, (e | v)⟩
      · rw [hres1] at h1
        simp only [okOf] at h1 ⊢
        exact fpost_widen h1 (fun r hr => by
          simp only [List.mem_singleton] at hr; subst hr; exact ⟨r, List.mem_cons_self, .self rfl⟩)
      · rw [hres1] at h1
        simp only [okOf, raisedOf] at h1
        have h2 := ih s1
        rcases hres : evalArgsF rec rest s1 with ⟨s2, (e | vs)⟩
        · rw [hres] at h2; simp only [hres, okOf, raisedOf] at h2 ⊢; exact fpost_cons h1 h2
        · rw [hres] at h2; simp only [hres, okOf, raisedOf] at h2 ⊢; exact fpost_cons h1 h2

/-- the arguments of node `id` have been handled (and did not return, or a model error): seen from `id` -/
theorem fpost_lift {bad : List String} {nodes : List Lazy.Node} {id : Nat} {nd : Lazy.Node} {s s' : ESt} {rj : Option Nat}
    (hnd : nodes[id]? = some nd) (h : FPost bad nodes nd.refs s s' false rj) : FPost bad nodes [id] s s' false rj :=
  fpost_widen h (fun _ hr => ⟨id, List.mem_singleton.mpr rfl, .arg (.self rfl) hnd hr⟩)

theorem dlookup_cons_none {d : List (Nat × Val)} {id j : Nat} {r : Val} (h : dlookup ((id, r) :: d) j = none) : dlookup d j = none := by
  simp only [dlookup] at h; split at h
  · cases h
  · exact h

/-- node `id` (not evaluated so far) returns `r` after its arguments returned -/
theorem fpost_push {bad : List String} {nodes : List Lazy.Node} {id : Nat} {nd : Lazy.Node} {s s1 : ESt} {r : Val} {okb : Bool}
    (hnd : nodes[id]? = some nd) (hgood : ¬ BadCall bad nodes id) (p : FPost bad nodes nd.refs s s1 true none) :
    FPost bad nodes [id] s { done := (id, r) :: s1.done, log := s1.log ++ [id] } okb none := by
  refine ⟨?_, fun x h => dlookup_cons_isSome (p.mono x h), ?_, ?_, ?_, ?_, (fun j hj => by cases hj)⟩
  · intro hcl i nd' hi hn j hj
    by_cases e : id = i
    · subst e; rw [hnd] at hn; injection hn with hn; subst hn
      exact dlookup_cons_isSome (p.ok rfl j hj)
    · have : (dlookup s1.done i).isSome := by simpa [dlookup, e] using hi
      exact dlookup_cons_isSome (p.closed hcl i nd' this hn j hj)
  · intro x hx
    by_cases e : id = x
    · subst e; exact Or.inr ⟨id, List.mem_singleton.mpr rfl, .self rfl⟩
    · have : (dlookup s1.done x).isSome := by simpa [dlookup, e] using hx
      rcases p.new x this with h | ⟨r', hr', hn⟩
      · exact Or.inl h
      · exact Or.inr ⟨id, List.mem_singleton.mpr rfl, needs_trans (.arg (.self rfl) hnd hr') hn⟩
  · intro x hx
    by_cases e : id = x
    · subst e; exact Or.inr hgood
    · have : (dlookup s1.done x).isSome := by simpa [dlookup, e] using hx
      exact p.good x this
  · obtain ⟨l, e⟩ := p.logext
    exact ⟨l ++ [id], by simp only [e, List.append_assoc]⟩
  · intro _ r' hr'; simp only [List.mem_singleton] at hr'; subst hr'; simp [dlookup]

theorem evalF_post (bad : List String) {nodes : List Lazy.Node} (hc : Closed nodes) : ∀ n, FPostRec bad nodes (evalF bad nodes n) := by
  intro n
  induction n with
  | zero => intro id s; simp only [evalF, okOf, raisedOf]; exact fpost_widen (fpost_refl s false) (fun r hr => by cases hr)
  | succ n ih =>
    intro id s
    simp only [evalF]
    cases hd : dlookup s.done id with
    | some w =>
      simp only [okOf, raisedOf]
      exact ⟨fun h => h, fun _ h => h, fun _ h => Or.inl h, fun _ h => Or.inl h, ⟨[], by simp⟩,
        (fun _ r hr => by simp only [List.mem_singleton] at hr; subst hr; simp [hd]), (fun j h => by cases h)⟩
    | none =>
      simp only
      cases hn : nodes[id]? with
      | none => simp only [okOf, raisedOf, raisedE]; exact fpost_widen (fpost_refl s false) (fun r hr => by cases hr)
      | some nd =>
        cases nd with
        | call f args =>
          simp only
          have hargs := evalArgsF_post ih args s
          rcases hres : evalArgsF (evalF bad nodes n) args s with ⟨s1, (e | vals)⟩
          · rw [hres] at hargs
            simp only [okOf] at hargs ⊢
            exact fpost_lift hn hargs
          · rw [hres] at hargs
            simp only [okOf, raisedOf] at hargs
            simp only
            by_cases hb : bad.contains f.name = true
            · rw [if_pos hb]
              simp only [okOf, raisedOf, raisedE]
              have hnone1 : dlookup s1.done id = none := by
                cases h1 : dlookup s1.done id with
                | none => rfl
                | some w =>
                  exfalso
                  rcases hargs.new id (by simp [h1]) with h | ⟨r, hr, hne⟩
                  · rw [hd] at h; cases h
                  · have := needs_le_f hc hne
                    have := hc id _ hn r hr
                    omega
              refine ⟨hargs.closed, hargs.mono, ?_, hargs.good, ?_, (fun h => by cases h), ?_⟩
              · intro x hx
                rcases hargs.new x hx with h | ⟨r', hr', hne⟩
                · exact Or.inl h
                · exact Or.inr ⟨id, List.mem_singleton.mpr rfl, needs_trans (.arg (.self rfl) hn hr') hne⟩
              · obtain ⟨l, e⟩ := hargs.logext
                exact ⟨l ++ [id], by simp only [e, List.append_assoc]⟩
              · intro j hj
                injection hj with hj; subst hj
                exact ⟨hnone1, ⟨id, List.mem_singleton.mpr rfl, .self rfl⟩, ⟨f, args, hn, hb⟩, by simp⟩
            · rw [if_neg hb]
              simp only [okOf, raisedOf]
              refine fpost_push hn ?_ hargs
              rintro ⟨f', args', hn', hb'⟩
              rw [hn] at hn'; injection hn' with hn'; injection hn' with hf _; subst hf
              exact hb hb'
        | pick f src name =>
          simp only
          have hnb : ¬ BadCall bad nodes id := by
            rintro ⟨f', args', hn', _⟩
            rw [hn] at hn'; injection hn' with hn'; cases hn'
          cases src with
          | val w =>
            simp only [evalArgF]
            cases hp : pickVal f.outputs name w with
            | none => simp only [okOf, raisedOf, raisedE]; exact fpost_widen (fpost_refl s false) (fun r hr => by cases hr)
            | some r =>
              simp only [okOf, raisedOf]
              exact fpost_push hn hnb (by simpa [Node.refs] using fpost_refl s true)
          | ref i =>
            simp only [evalArgF]
            have h1 := ih i s
            rcases hres : evalF bad nodes n i s with ⟨s1, (e | v)⟩
            · rw [hres] at h1
              simp only [okOf] at h1 ⊢
              exact fpost_lift hn (by simpa [Node.refs] using h1)
            · rw [hres] at h1
              simp only [okOf, raisedOf] at h1
              simp only
              cases hp : pickVal f.outputs name v with
              | none =>
                simp only [okOf, raisedOf, raisedE]
                have h1' : FPost bad nodes [i] s s1 false none :=
                  ⟨h1.closed, h1.mono, h1.new, h1.good, h1.logext, (fun h => by cases h), (fun j hj => by cases hj)⟩
                exact fpost_lift hn (by simpa [Node.refs] using h1')
              | some r =>
                simp only [okOf, raisedOf]
                exact fpost_push hn hnb (by simpa [Node.refs] using h1)

/-! ### a demo table for the non-vacuity examples: `f()` feeds `g(a)` -/
def fF : Func := { name := "f", params := [], outputs := ["a"], defaults := [], bound := [] }
def gF : Func := { name := "g", params := [("a", "a")], outputs := ["b"], defaults := [], bound := [] }
def nodesF : List Lazy.Node := [.call fF [], .call gF [("a", .ref 0)]]

theorem nodesF_closed : Closed nodesF := by
  intro i nd h j hj
  match i, h with
  | 0, h => simp [nodesF] at h; subst h; simp [Node.refs, argRefs] at hj
  | 1, h => simp [nodesF] at h; subst h; simp [Node.refs, argRefs] at hj; omega
  | k+2, h => simp [nodesF] at h

theorem doneClosed_empty (nodes : List Lazy.Node) (log : List Nat) : DoneClosed nodes ⟨[], log⟩ := by
  intro i nd h; simp [dlookup] at h

end PF.Lazy
