import PfModel.Lemmas.RunInfoParse
import PfModel.Props.C04Hist
/-!
C04 with user-level hypotheses only.

Rounds 2-9 left two hypotheses in `C04_agree`, `C04_reload`, `C04_reload_run`, `C04_resume_reload_run`, `C04_hist_step`,
`C04_hist_reachable`: `(akeys store).Nodup` (the outputs of the run's store are distinct) and `Recorded parse fs storage`, whose
first clause `parse (printSpec ms) = some ms` stood for `MapSpec.from_string ∘ str = id`.  Here

* `parse` is `PF.RIC.fromString`: C08's parser `PF.MS.parse` read into the run model's MapSpec type; `printSpec` IS C08's `toStr`
  (`C04_print_is_C08_str`), so the lemma behind `C08_roundtrip` gives the clause for every well-formed MapSpec (`C04_parse_print`);
* the store of a run — whole (`runMapStore`) or in pieces on any previous store (`runPart`) — holds the pipeline's output names along
  the execution order, hence distinct ones when the pipeline's output names are (`C04_store_nodup`, `C04_part_store_nodup`).

The restated theorems (`…_user`) assume `PF.RIC.UserOK fs storage` — unique output names, well-formed MapSpecs naming the
function's outputs, a storage class for every mapped function — plus the admissibility of what the user passes to the call (names are
identifiers, `inputs` is a dictionary, admissible keys of a storage dictionary), and the success of the run.
-/
namespace PF.C04
open PF PF.Map PF.RIC PF.Pieces

/-! ### `from_string ∘ str = id`, from C08 -/

/-- the string `RunInfo.create` records for a MapSpec is C08's `str` of it -/
theorem C04_print_is_C08_str (ms : MSpec) : printSpec ms = PF.MS.toStr (toMS ms) := printSpec_eq_toStr ms

/-- **`MapSpec.from_string(str(ms)) == ms`** for every well-formed MapSpec of the run model (C08's round trip, transported) -/
theorem C04_parse_print (ms : MSpec) (h : WFSpec ms) : fromString (printSpec ms) = some ms := fromString_printSpec ms h

/-- `str` is injective on well-formed MapSpecs: no two recorded strings of a pipeline collide -/
theorem C04_print_injective (a b : MSpec) (ha : WFSpec a) (hb : WFSpec b) (h : printSpec a = printSpec b) : a = b :=
  printSpec_inj a b ha hb h

/-- **`Recorded` from the user-level hypotheses**, for C08's parser and for the table the driver evaluates (they agree on every string
    the pipeline records) -/
theorem C04_recorded_of_user (fs : List MFunc) (storage : Storage) (U : UserOK fs storage) :
    Recorded fromString fs storage ∧ Recorded (tableParse fs) fs storage ∧
    ∀ f ∈ fs, ∀ ms, f.mapspec = some ms → tableParse fs (printSpec ms) = fromString (printSpec ms) :=
  ⟨recorded_of_user fs storage U, recorded_table_of_user fs storage U, tableParse_eq_fromString fs U.wf⟩

/-! ### distinct output names of the store -/

/-- **The store of a run holds the pipeline's output names, each once**: in execution order, and without repetition when the
    pipeline's output names are distinct. -/
theorem C04_store_nodup (fs : List MFunc) (inputs : List (String × Val)) (ui : List (String × List Nat)) (res : MapResult)
    (store : List (String × Slot)) (h : runMapStore fs inputs ui = .ok (res, store)) (hn : (allOutputs fs).Nodup) :
    akeys store = (generations fs).flatten.flatMap (·.outputs) ∧ (akeys store).Nodup :=
  ⟨runMapStore_keys fs inputs ui res store h, runMapStore_nodup fs inputs ui res store h hn⟩

/-- the same for a run in pieces (`fixed_indices`, resume), whatever the previous store held -/
theorem C04_part_store_nodup (fs : List MFunc) (inputs : List (String × Val)) (ui : List (String × List Nat))
    (fixed : Option (List (String × Sel))) (old : List (String × Slot)) (part : PartResult)
    (h : runPart fs inputs ui fixed old = .ok part) (hn : (allOutputs fs).Nodup) : (akeys part.store).Nodup :=
  runPart_nodup fs inputs ui fixed old part h hn

/-! ### the main theorems, restated -/

/-- **`init_store` finds what the run used** (`C04_agree` without `Recorded`). -/
theorem C04_agree_user (fs : List MFunc) (tupled intForm : List String) (inputs : List (String × Val))
    (user : List (String × IShape)) (storage : Storage) (version : String) (res : MapResult) (store : List (String × Slot))
    (hrun : runMapStore fs inputs (user.map fun kv => (kv.1, kv.2.dims)) = .ok (res, store)) (U : UserOK fs storage) :
    ∀ os ∈ store, agreeSlot fromString (createRunInfo fs tupled intForm inputs user storage version res.shapes res.masks)
      (backendFor fs storage) os.1 os.2 = true :=
  C04_agree fromString fs tupled intForm inputs user storage version res store hrun (recorded_of_user fs storage U)

/-- **Reload** (`C04_reload` without `Recorded` and without `(akeys store).Nodup`): for a successful run of any pipeline with unique
    output names and well-formed MapSpecs, under any storage configuration that names a class for every mapped function,
    `load_outputs(o)` on the folder the run leaves behind returns for every output exactly what the run's store held.
    `from_string` is C08's parser. -/
theorem C04_reload_user (fs : List MFunc) (tupled intForm : List String) (inputs : List (String × Val))
    (user : List (String × IShape)) (storage : Storage) (version : String) (res : MapResult) (store : List (String × Slot))
    (hrun : runMapStore fs inputs (user.map fun kv => (kv.1, kv.2.dims)) = .ok (res, store))
    (hid : IdentsOK fs) (hin : (akeys inputs).Nodup) (hst : ∀ m, storage = .per m → ∀ kv ∈ m, KeyOK kv.1)
    (U : UserOK fs storage) :
    ∀ os ∈ store, loadOutput fromString
      (folderOf true (createRunInfo fs tupled intForm inputs user storage version res.shapes res.masks) (backendFor fs storage) store) os.1
      = some os.2.toVal :=
  C04_reload fromString fs tupled intForm inputs user storage version res store hrun hid hin hst
    (runMapStore_nodup fs inputs _ res store hrun U.outputs_nodup) (recorded_of_user fs storage U)

/-- **Reload of a run (with C01)**, user-level: the run is `runMap`, equal to the MapSpec denotation `specMap`, and every value
    `load_outputs` returns from its folder is the value the run stored — read with C08's parser, and equally with the driver's table. -/
theorem C04_reload_run_user (fs : List MFunc) (tupled intForm : List String) (inputs : List (String × Val))
    (user : List (String × IShape)) (storage : Storage) (version : String) (res : MapResult) (store : List (String × Slot))
    (hrun : runMapStore fs inputs (user.map fun kv => (kv.1, kv.2.dims)) = .ok (res, store))
    (hid : IdentsOK fs) (hin : (akeys inputs).Nodup) (hst : ∀ m, storage = .per m → ∀ kv ∈ m, KeyOK kv.1)
    (U : UserOK fs storage) :
    runMap fs inputs (user.map fun kv => (kv.1, kv.2.dims)) = .ok res ∧
    specMap fs inputs (user.map fun kv => (kv.1, kv.2.dims)) = .ok res ∧
    ∀ ov ∈ res.stored,
      loadOutput fromString
        (folderOf true (createRunInfo fs tupled intForm inputs user storage version res.shapes res.masks) (backendFor fs storage) store) ov.1
        = some ov.2 ∧
      loadOutput (tableParse fs)
        (folderOf true (createRunInfo fs tupled intForm inputs user storage version res.shapes res.masks) (backendFor fs storage) store) ov.1
        = some ov.2 := by
  have hn := runMapStore_nodup fs inputs _ res store hrun U.outputs_nodup
  obtain ⟨h1, h2, h3⟩ := C04_reload_run fs tupled intForm inputs user storage version res store hrun hid hin hst hn
    (recorded_table_of_user fs storage U)
  refine ⟨h1, h2, fun ov hov => ⟨?_, h3 ov hov⟩⟩
  obtain ⟨_, hs⟩ := runMapStore_spec fs inputs _ res store hrun
  rw [hs] at hov
  obtain ⟨os, hos, e⟩ := List.mem_map.mp hov
  subst e
  exact C04_reload_user fs tupled intForm inputs user storage version res store hrun hid hin hst U os hos

/-- **Reload after a resume of a whole run**, user-level (`C04_resume_reload_run`): the folder held anything before. -/
theorem C04_resume_reload_run_user (eqv : Val → Val → Bool) (fo fo' : Folder) (cleanup : Bool) (fs : List MFunc)
    (tupled intForm : List String) (inputs : List (String × Val)) (user : List (String × IShape)) (storage : Storage)
    (version : String) (res : MapResult) (store : List (String × Slot))
    (hrun : runMapStore fs inputs (user.map fun kv => (kv.1, kv.2.dims)) = .ok (res, store))
    (hid : IdentsOK fs) (hin : (akeys inputs).Nodup) (hst : ∀ m, storage = .per m → ∀ kv ∈ m, KeyOK kv.1)
    (U : UserOK fs storage)
    (h : runOn eqv true fo { cleanup := cleanup, info := createRunInfo fs tupled intForm inputs user storage version res.shapes res.masks,
                             backend := backendFor fs storage, store := store } = .ok fo') :
    (∀ ov ∈ res.stored, loadOutput (tableParse fs) fo' ov.1 = some ov.2) ∧
    (decode fo').map (·.storage) = some storage ∧ (decode fo').map (·.inputs) = some inputs :=
  C04_resume_reload_run eqv fo fo' cleanup fs tupled intForm inputs user storage version res store hrun hid hin hst
    (runMapStore_nodup fs inputs _ res store hrun U.outputs_nodup) (recorded_table_of_user fs storage U) h

/-- **One `map` call on any folder**, user-level (`C04_hist_step` without `Recorded` and without `(akeys part.store).Nodup`).
    `c.parse` is C08's parser or the driver's table. -/
theorem C04_hist_step_user (c : HistCfg) (eqv : Val → Val → Bool) (fo fo' : Folder) (q : Req) (part : PartResult)
    (hp : c.parse = fromString ∨ c.parse = tableParse c.fs)
    (hid : IdentsOK c.fs) (hin : (akeys q.inputs).Nodup) (hst : ∀ m, q.storage = .per m → ∀ kv ∈ m, KeyOK kv.1)
    (U : UserOK c.fs q.storage) (h : stepRun c eqv true fo q = .ok (fo', part)) :
    decode fo' = some { c.info q part.res.shapes part.res.masks with
                        allOutputNames := sortNames (c.info q part.res.shapes part.res.masks).allOutputNames } ∧
    ∀ os ∈ part.store, loadOutput c.parse fo' os.1 = some os.2.toVal := by
  obtain ⟨shapes, masks, fo1, _, _, hr, _⟩ := stepRun_ok c eqv true fo fo' q part h
  have hn := runPart_nodup c.fs q.inputs c.ui q.fixed _ part hr U.outputs_nodup
  have H : Recorded c.parse c.fs q.storage := by
    rcases hp with e | e <;> rw [e]
    · exact recorded_of_user c.fs q.storage U
    · exact recorded_table_of_user c.fs q.storage U
  exact C04_hist_step c eqv fo fo' q part hid hin hst H hn h

/-- **Every reachable folder state reloads exactly**, user-level (`C04_hist_reachable`; the conclusion no longer asks for distinct
    store names): after ANY accepted sequence of `map` calls into one folder, the folder records the LAST call and `load_outputs`
    yields exactly what the LAST call's storage objects hold. -/
theorem C04_hist_reachable_user (c : HistCfg) (eqv : Val → Val → Bool) (fo0 fo' : Folder) (qs : List Req) (q : Req)
    (parts : List PartResult) (hp : c.parse = fromString ∨ c.parse = tableParse c.fs)
    (hid : IdentsOK c.fs) (hin : (akeys q.inputs).Nodup)
    (hst : ∀ m, q.storage = .per m → ∀ kv ∈ m, KeyOK kv.1) (U : UserOK c.fs q.storage)
    (h : runHist c eqv true fo0 (qs ++ [q]) = .ok (fo', parts)) :
    ∃ init part, parts = init ++ [part] ∧
      decode fo' = some { c.info q part.res.shapes part.res.masks with
                          allOutputNames := sortNames (c.info q part.res.shapes part.res.masks).allOutputNames } ∧
      ∀ os ∈ part.store, loadOutput c.parse fo' os.1 = some os.2.toVal := by
  rw [runHist_append] at h
  cases h1 : runHist c eqv true fo0 qs with
  | error e => simp [h1] at h
  | ok p1 =>
    obtain ⟨f1, init⟩ := p1
    simp only [h1] at h
    cases h2 : stepRun c eqv true f1 q with
    | error e => simp [h2] at h
    | ok p2 =>
      obtain ⟨f2, part⟩ := p2
      simp only [h2, Except.ok.injEq, Prod.mk.injEq] at h
      obtain ⟨e1, e2⟩ := h
      subst e1 e2
      exact ⟨init, part, rfl, C04_hist_step_user c eqv f1 f2 q part hp hid hin hst U h2⟩

/-! ### non-vacuity -/

/-- the MapSpec of `fsEx` / `fsH`, `x[i] -> y[i], z[i]`, is well-formed -/
theorem C04_wf_example : WFSpec { inputs := [⟨"x", [some "i"]⟩], outputs := [⟨"y", [some "i"]⟩, ⟨"z", [some "i"]⟩] } :=
  ⟨(PF.MS.valid_iff _).mpr ⟨by decide, rfl⟩, by decide⟩

example : printSpec { inputs := [⟨"x", [some "i"]⟩], outputs := [⟨"y", [some "i"]⟩, ⟨"z", [some "i"]⟩] } = "x[i] -> y[i], z[i]" := by
  decide
example : fromString "x[i] -> y[i], z[i]" = some { inputs := [⟨"x", [some "i"]⟩], outputs := [⟨"y", [some "i"]⟩, ⟨"z", [some "i"]⟩] } := rfl
/-- a MapSpec outside `WFSpec` (`:` in an output): `from_string` refuses its string -/
example : fromString (printSpec { inputs := [⟨"x", [some "i"]⟩], outputs := [⟨"y", [some "i", none]⟩] }) = none := by decide

/-- `UserOK` holds for the two-function pipeline of Props/C04.lean (tuple output, per-output storage dictionary); its run succeeds
    and fills three slots (example there), `IdentsOK`, the input dictionary and the storage keys are shown there and in
    Props/C04Hist.lean — so `C04_agree_user`, `C04_reload_user`, `C04_reload_run_user`, `C04_store_nodup` apply to it -/
example : UserOK fsEx stEx := userOK_of_two _ _ stEx _ rfl rfl C04_wf_example rfl (by decide) (by decide)

/-- … and for the pipeline of the histories of Props/C04Hist.lean under both storage configurations of `q1, q2, q3`: the history
    `q1, q2` is accepted (example there, `cfgEx.parse = tableParse fsH`), so `C04_hist_step_user` / `C04_hist_reachable_user` apply -/
example : UserOK cfgEx.fs q2.storage ∧ UserOK cfgEx.fs q1.storage ∧ (cfgEx.parse = fromString ∨ cfgEx.parse = tableParse cfgEx.fs) :=
  ⟨userOK_of_two _ _ stEx _ rfl rfl C04_wf_example rfl (by decide) (by decide),
   userOK_of_two _ _ (.uniform "file_array") _ rfl rfl C04_wf_example rfl (by decide) (by decide), Or.inr rfl⟩

/-- the run of `fsEx` succeeds and its store has the three output names in execution order (hypothesis of `C04_store_nodup`,
    `C04_reload_user`, `C04_resume_reload_run_user`); reading its folder with C08's parser gives all three outputs -/
example : (match runMapStore fsEx inEx [] with
  | .ok (res, store) =>
    akeys store == ["y", "z", "w"] &&
    (store.all fun (o, _) =>
      (loadOutput fromString (folderOf true (createRunInfo fsEx [] [] inEx [] stEx "v" res.shapes res.masks) (backendFor fsEx stEx) store) o).isSome)
  | _ => false) = true := by decide

/-- a partial run on an empty store succeeds (hypothesis of `C04_part_store_nodup`) -/
example : (match runPart fsH inEx [] (some [("i", .idx 0)]) [] with
  | .ok part => akeys part.store == ["y", "z", "w"]
  | _ => false) = true := by decide

/-- the history `q1, q2` with `from_string` = C08's parser is accepted as well (hypotheses of the two history theorems with the first
    disjunct of `hp`) -/
example : (match runHist { cfgEx with parse := fromString } (fun _ _ => true) true Folder.empty ([q1] ++ [q2]) with
  | .ok (fo, [_, p2]) => p2.store.length == 3 && (p2.store.all fun os => (loadOutput fromString fo os.1).isSome)
  | _ => false) = true := by decide

/-- the hypotheses of `C04_print_injective` hold (necessarily with `a = b`); two different well-formed MapSpecs print differently -/
example : WFSpec { inputs := [⟨"x", [some "i"]⟩], outputs := [⟨"y", [some "i"]⟩] } ∧
    printSpec { inputs := [⟨"x", [some "i"]⟩], outputs := [⟨"y", [some "i"]⟩] } = printSpec { inputs := [⟨"x", [some "i"]⟩], outputs := [⟨"y", [some "i"]⟩] } :=
  ⟨⟨(PF.MS.valid_iff _).mpr ⟨by decide, rfl⟩, by decide⟩, rfl⟩
example : printSpec { inputs := [⟨"x", [some "i"]⟩], outputs := [⟨"y", [some "i"]⟩] } ≠
    printSpec { inputs := [⟨"x", [some "i"]⟩], outputs := [⟨"y", [some "i"]⟩, ⟨"z", [some "i"]⟩] } := by decide

end PF.C04
