import PfModel.DriverVal
import PfModel.Model.MapRun
/-! Driver for C01 (`map.run`): the sequential map runner on a fresh store. Also used by C03/C04/C06/C11/C12/C13/C19. -/
open Lean PF PF.Drv PF.Map

def getASpec (j : Json) : R ASpec := do
  let (n, ax) ← asPair asStr (asList (asOpt asStr)) j
  return { name := n, axes := ax }

def getMSpec (j : Json) : R MSpec := do
  return { inputs := ← listF getASpec j "inputs", outputs := ← listF getASpec j "outputs" }

def getMFunc (j : Json) : R MFunc := do
  return { name := ← strF j "name", params := ← listF (asPair asStr asStr) j "params", outputs := ← listF asStr j "outputs",
           mapspec := ← optF getMSpec j "mapspec", ret := ← optF (asList asNat) j "ret", internal := ← optF (asList asNat) j "internal",
           defaults := (← optF getKw j "defaults").getD [], bound := (← optF getKw j "bound").getD [] }

def putMErr : PF.Map.Err → Json
  | .value w => jObj [("err", jStr "ValueError"), ("why", jStr w)]
  | .type w => jObj [("err", jStr "TypeError"), ("why", jStr w)]
  | .index w => jObj [("err", jStr "IndexError"), ("why", jStr w)]
  | .key w => jObj [("err", jStr "KeyError"), ("why", jStr w)]
  | .fuel => jObj [("err", jStr "RecursionError")]

def putCall (c : Call) : Json := jArr [jStr c.name, putKw c.args]

def handle (m : String) (a : Json) : R Json := do
  match m with
  | "map.run" =>
    let fs ← listF getMFunc a "funcs"
    let inputs ← getKw (← fld a "inputs")
    let internal := (← optF (asList (asPair asStr (asList asNat))) a "internal").getD []
    match runMap fs inputs internal with
    | .error e => return putMErr e
    | .ok r =>
      return jObj [("outputs", putKw r.outputs), ("stored", putKw r.stored),
                   ("shapes", jList (jPair jStr (jList jNat)) r.shapes), ("masks", jList (jPair jStr (jList jBool)) r.masks),
                   ("calls", jList putCall r.calls), ("gens", jList (jList jStr) r.gens)]
  | _ => .error s!"unknown entry {m}"

def main : IO Unit := loop handle
