import PfModel.Lemmas.StorageKeys
/-! Lemmas for `Props/C07Hist.lean`: the content of the reference array after a whole history is the last accepted dump
that names the element.  New definitions only (`writes`, `opWrite`, `lastWrite`); nothing existing is changed. -/
namespace PF.St
variable {V : Type}

/-- `dump(key, ·)` is accepted and writes element `E` -/
def writes (g : Geom) (key : List KE) (E : List Nat) : Bool :=
  match dumpTargets g key with
  | .ok ts => decide (E ∈ ts)
  | .error _ => false

/-- what one operation writes into element `E`, if anything (only an accepted `dump` naming `E` writes) -/
def opWrite (g : Geom) (E : List Nat) : Op V → Option (List V)
  | .dump key v => if writes g key E then some v else none
  | _ => none

/-- the value of the LAST operation of the history that wrote element `E` (`none`: never written) -/
def lastWrite (g : Geom) (E : List Nat) : List (Op V) → Option (List V)
  | [] => none
  | op :: ops =>
    match lastWrite g E ops with
    | some v => some v
    | none => opWrite g E op

theorem aStep_state (g : Geom) (a : MArr V) (op : Op V) (E : List Nat) :
    (aStep g a op).1 E = (match opWrite g E op with | some v => some v | none => a E) := by
  cases op with
  | dump key v =>
    cases hts : dumpTargets g key with
    | error e =>
      have hw : writes g key E = false := by unfold writes; rw [hts]
      simp only [aStep, hts, opWrite, hw]; rfl
    | ok ts =>
      have hw : writes g key E = decide (E ∈ ts) := by unfold writes; rw [hts]
      simp only [aStep, hts, opWrite, hw]
      by_cases h : E ∈ ts <;> simp [h]
  | get key => rfl
  | toArray s => rfl
  | mask => rfl
  | maskLinear => rfl
  | has i => simp only [aStep, opWrite]; split <;> rfl
  | «at» i => simp only [aStep, opWrite]; split <;> (try split) <;> rfl
  | persistReopen => rfl

theorem runOps_state (g : Geom) (E : List Nat) : ∀ (ops : List (Op V)) (a : MArr V),
    (runOps (aStep g) a ops).1 E = (match lastWrite g E ops with | some v => some v | none => a E)
  | [], _ => rfl
  | op :: ops, a => by
    simp only [runOps, lastWrite]
    rw [runOps_state g E ops, aStep_state]
    cases lastWrite g E ops <;> rfl

theorem lastWrite_append (g : Geom) (E : List Nat) : ∀ (pre post : List (Op V)),
    lastWrite g E (pre ++ post) = (match lastWrite g E post with | some v => some v | none => lastWrite g E pre)
  | [], post => by cases h : lastWrite g E post <;> simp [lastWrite, h]
  | op :: pre, post => by
    simp only [List.cons_append, lastWrite]
    rw [lastWrite_append g E pre post]
    cases lastWrite g E post <;> rfl

theorem lastWrite_none (g : Geom) (E : List Nat) : ∀ (ops : List (Op V)),
    lastWrite g E ops = none ↔ ∀ op ∈ ops, opWrite g E op = none
  | [] => by simp [lastWrite]
  | op :: ops => by
    simp only [lastWrite, List.mem_cons, forall_eq_or_imp]
    rw [← lastWrite_none g E ops]
    cases lastWrite g E ops <;> simp

theorem lastWrite_some (g : Geom) (E : List Nat) (v : List V) : ∀ (ops : List (Op V)),
    lastWrite g E ops = some v ↔
      ∃ pre op post, ops = pre ++ op :: post ∧ opWrite g E op = some v ∧ ∀ op' ∈ post, opWrite g E op' = none
  | [] => by simp [lastWrite]
  | op :: ops => by
    constructor
    · intro h
      simp only [lastWrite] at h
      cases hl : lastWrite g E ops with
      | some w =>
        rw [hl] at h
        injection h with h; subst h
        obtain ⟨pre, op', post, e, h1, h2⟩ := (lastWrite_some g E w ops).1 hl
        exact ⟨op :: pre, op', post, by rw [e]; rfl, h1, h2⟩
      | none =>
        rw [hl] at h
        exact ⟨[], op, ops, rfl, h, (lastWrite_none g E ops).1 hl⟩
    · rintro ⟨pre, op', post, e, h1, h2⟩
      rw [e, lastWrite_append]
      simp only [lastWrite, (lastWrite_none g E post).2 h2, h1]

/-- example history for the non-vacuity `example`s of `Props/C07Hist.lean` (geometry `g23`: shape (3,), internal (2,), mask
    (False, True)): a slice dump, an overwrite of one of its elements, a rejected dump (out of range) and a step-0 dump,
    with reads between -/
def hOps : List (Op Nat) :=
  [.dump [.slice none none (some (-2))] [1, 2], .get [.int 0, .int 2], .dump [.int 2] [7, 8], .dump [.int 3] [9, 9],
   .dump [.slice none none (some 0)] [5, 5], .has 1]

end PF.St
