/-
Run-folder HISTORIES as a state machine over the folder (round 9).

State: the folder (`PF.RIC.Folder`).  Transitions: `Pipeline.map(inputs, run_folder=F, storage=…, fixed_indices=…, cleanup=…)`
(`stepRun`): `RunInfo.create` on the folder as it is (`createOn`: clean-up, or the comparison with the previous record; then
`_dump_all`), `RunInfo.init_store` ON THAT FOLDER (`openStore`: `pipefunc/map/_run_info.py:103-142` — a `FileArray` sees the element
files that lie there, a `DictArray` / `SharedMemoryDictArray` what `dict_array.cloudpickle` holds (`_dict.py:185-204`), an un-mapped
output its `.cloudpickle` file: `_load_from_store`, `map/_run.py:750-783`), the run itself on the store so opened
(`PF.Pieces.runPart`, C06's model of `run_map(fixed_indices=…, cleanup=False)`: existing elements are kept, selected missing ones
computed, `_existing_and_missing_indices` `map/_run.py:579-600`, `_execute_single` `:785-811`), and the writes of the run's store
(`writeStore`: element files during the run, `persist()` at its end, `_maybe_persist_memory` `:321-328`).  Reading the folder
(`load_outputs`, `RunInfo.load`, `load_xarray_dataset`) is not a transition: `loadOutput` / `decode` are functions of the state.

What round 4 (`Model/RunInfoResume.lean`) left open: there a run's store was a free parameter of `Run`; here it is DERIVED from the
folder the run finds — under the storage classes of THIS run (elements an earlier run kept in another class are invisible to it and
are computed again; the stale files stay where they are) — and a partial earlier run is a partial run.
Core Lean only.
-/
import PfModel.Model.RunInfoResume
import PfModel.Model.MapPieces
namespace PF.RIC
open PF PF.Map PF.Pieces

/-- the elements a storage object opened on the folder holds: `(li, v)` for every external linear index `li < n` that is present
    (`mask_linear()` / `get_from_index`) -/
def cellsOn (look : Nat → Option Val) (n : Nat) : List (Nat × Val) :=
  (List.range n).filterMap fun li => (look li).map fun v => (li, v)

/-- **`RunInfo.init_store` on a folder that may already hold results** (`_run_info.py:103-142`): per output of the record, a storage
    array of the recorded class and geometry holding whatever that class finds in the folder, or — for an output that is not mapped —
    the stored value if its file exists (`_load_from_store`).  `parse` stands for `MapSpec.from_string`. -/
def openStore (parse : String → Option MSpec) (r : RunInfo) (fo : Folder) : List (String × Slot) :=
  r.allOutputNames.filterMap fun o =>
    match initEntry parse r o with
    | some (.array b sh mk) => some (o, Slot.array sh mk (cellsOn (reopen b fo o) (prod (extOf mk sh))))
    | some .file =>
      match fo (.output o) with
      | some (.val v) => some (o, Slot.single v)
      | _ => none
    | none => none

/-- what is fixed for all runs into one folder: the pipeline and how it was declared -/
structure HistCfg where
  fs : List MFunc
  tupled : List String
  intForm : List String
  user : List (String × IShape)
  version : String
  parse : String → Option MSpec

/-- one `map` call -/
structure Req where
  cleanup : Bool
  inputs : List (String × Val)
  storage : Storage
  fixed : Option (List (String × Sel))

inductive StepErr
  | refused (why : Refusal)        -- `RunInfo.create(cleanup=False)` refuses the folder
  | run (e : PF.Map.Err)           -- a validation of `prepare_run` / the run itself raises (the folder is then not modelled: C05)
  deriving Repr, Inhabited

def HistCfg.ui (c : HistCfg) : List (String × List Nat) := c.user.map fun kv => (kv.1, kv.2.dims)

/-- the record `RunInfo.create` writes for a request whose shapes and masks are `shapes`, `masks` -/
def HistCfg.info (c : HistCfg) (q : Req) (shapes : List (String × List Nat)) (masks : List (String × List Bool)) : RunInfo :=
  createRunInfo c.fs c.tupled c.intForm q.inputs c.user q.storage c.version shapes masks

/-- **one `Pipeline.map(..., run_folder=F)` as a transition of the folder**; also hands out what the run returns (`PartResult`:
    `Result.output` per output and the store the run's storage objects hold at its end). -/
def stepRun (c : HistCfg) (eqv : Val → Val → Bool) (pm : Bool) (fo : Folder) (q : Req) : Except StepErr (Folder × PartResult) :=
  match mapShapes c.fs q.inputs (constructInternal c.fs c.ui) with
  | .error e => .error (.run e)
  | .ok (shapes, masks) =>
    let r := c.info q shapes masks
    match createOn eqv q.cleanup fo r with
    | .error e => .error (.refused e)
    | .ok fo1 =>
      match runPart c.fs q.inputs c.ui q.fixed (openStore c.parse r fo1) with
      | .error e => .error (.run e)
      | .ok part => .ok (writeStore pm (backendFor c.fs q.storage) part.store fo1, part)

/-- a history: the requests one after the other; a refused or failing request ends it.  Returns the folder and what every run
    returned (last run last). -/
def runHist (c : HistCfg) (eqv : Val → Val → Bool) (pm : Bool) : Folder → List Req → Except StepErr (Folder × List PartResult)
  | fo, [] => .ok (fo, [])
  | fo, q :: rest =>
    match stepRun c eqv pm fo q with
    | .error e => .error e
    | .ok (fo1, part) =>
      match runHist c eqv pm fo1 rest with
      | .error e => .error e
      | .ok (fo2, parts) => .ok (fo2, part :: parts)

/-- which element files / dictionary entries / value files of output `o` lie in the folder (what `layout` of the harness lists) -/
def liesAs (fo : Folder) (o : String) (n : Nat) : List String :=
  (match fo (.output o) with | some _ => ["single"] | none => []) ++
  (match fo (.dictFile o) with | some _ => ["dict"] | none => []) ++
  (if (List.range n).any (fun li => (fo (.cell o li)).isSome) then ["file_array"] else [])

end PF.RIC
