/-
Model of `RunInfo.create` on a run folder that may already hold a run (`pipefunc/map/_run_info.py`: `RunInfo.create` :52-87,
`_cleanup_run_folder`, `_compare_to_previous_run_info` :283-327, `equal_dicts` / `_is_equal` in `pipefunc/_utils.py:107-164`),
and of a HISTORY of runs into one folder (`map(run_folder=F)`, then `map(run_folder=F, cleanup=False)` any number of times, each
with its own storage configuration and its own — compatible — inputs).

`_is_equal` is a parameter (`eqv`): the code compares floats with `rel_tol=1e-9`, arrays element-wise, everything else with `==`;
nothing proved about a history depends on how tolerant it is.
Core Lean only.
-/
import PfModel.Model.RunInfoCodec
namespace PF.RIC
open PF PF.Map

/-- `equal_dicts(d1, d2)`: same number of keys, every key of `d1` is a key of `d2`, and the values are `_is_equal` -/
def eqDict (eqv : Val → Val → Bool) (a b : List (String × Val)) : Bool :=
  a.length == b.length && a.all fun kv =>
    match alookup b kv.1 with
    | some w => eqv kv.2 w
    | none => false

/-- `==` of two dictionaries keyed by `OUTPUT_TYPE` (order does not matter) -/
def sameKeyed {β} [DecidableEq β] (a b : List (Key × β)) : Bool :=
  a.length == b.length && a.all fun kv => klookup b kv.1 == some kv.2

/-- why `RunInfo.create(..., cleanup=False)` refuses (each is a `ValueError` in the code) -/
inductive Refusal
  | previousUnreadable     -- "Could not load previous run info"
  | internalShapes         -- "Internal shapes do not match previous run"
  | mapspecs               -- "`MapSpec`s do not match previous run"
  | shapes                 -- "Shapes do not match previous run"
  | inputs                 -- "Inputs ... do not match previous run"
  | defaults               -- "Defaults ... do not match previous run"
  deriving Repr, DecidableEq, Inhabited

/-- **`_compare_to_previous_run_info`**: nothing to compare without a `run_info.json`; otherwise the previous record is loaded
    and the new run's internal shapes, MapSpec strings, shapes, inputs and defaults are compared with it.  The storage
    configuration is NOT compared: a resume may keep its results in another storage class. -/
def compareToPrevious (eqv : Val → Val → Bool) (fo : Folder) (new : RunInfo) : Except Refusal Unit :=
  match fo .runInfo with
  | none => .ok ()
  | some _ =>
    match decode fo with
    | none => .error .previousUnreadable
    | some old =>
      if new.internalShapes ≠ old.internalShapes then .error .internalShapes
      else if new.mapspecs ≠ old.mapspecs then .error .mapspecs
      else if !sameKeyed new.shapes old.shapes then .error .shapes
      else if !eqDict eqv new.inputs old.inputs then .error .inputs
      else if !eqDict eqv new.defaults old.defaults then .error .defaults
      else .ok ()

/-- **`RunInfo.create`** as far as the folder is concerned: `cleanup=True` removes the folder, `cleanup=False` compares with the
    previous run (and may refuse); then `_dump_all` writes `run_info.json`, the inputs and the defaults of THIS run — always. -/
def createOn (eqv : Val → Val → Bool) (cleanup : Bool) (fo : Folder) (r : RunInfo) : Except Refusal Folder :=
  if cleanup then .ok (dumpAll Folder.empty r)
  else (compareToPrevious eqv fo r).map fun _ => dumpAll fo r

/-- the writes of a run's store on top of a folder -/
def writeStore (pm : Bool) (backend : String → Option Backend) (store : List (String × Slot)) (fo : Folder) : Folder :=
  store.foldl (fun fo (os : String × Slot) => writeSlot pm (backend os.1) fo os.1 os.2) fo

/-- one run into a folder: `RunInfo.create`, then every slot of the store (`store` = what the run's storage objects hold when the
    run ends: for a resumed run the elements found in the folder and the new ones) -/
structure Run where
  cleanup : Bool
  info : RunInfo
  backend : String → Option Backend
  store : List (String × Slot)

def runOn (eqv : Val → Val → Bool) (pm : Bool) (fo : Folder) (x : Run) : Except Refusal Folder :=
  (createOn eqv x.cleanup fo x.info).map (writeStore pm x.backend x.store)

/-- a history of runs into one folder; a refused run ends it -/
def history (eqv : Val → Val → Bool) (pm : Bool) : Folder → List Run → Except Refusal Folder
  | fo, [] => .ok fo
  | fo, x :: rest =>
    match runOn eqv pm fo x with
    | .error e => .error e
    | .ok fo' => history eqv pm fo' rest

/-- the seeded variant C04-s3-A: a resume that was compared successfully with a previous record skips `_dump_all` -/
def createOnSkipping (eqv : Val → Val → Bool) (cleanup : Bool) (fo : Folder) (r : RunInfo) : Except Refusal Folder :=
  if cleanup then .ok (dumpAll Folder.empty r)
  else (compareToPrevious eqv fo r).map fun _ => if (fo .runInfo).isSome then fo else dumpAll fo r

end PF.RIC
