import PfModel.Lemmas.RewriteTotal
/-! Totality of the pipeline with `NestedPipeFunc`s: the converse of `eval_nests` (lemmas for `Props/C10Total.lean`). -/
namespace PF.Rw
open PF PF.Pipe

/-- `IsNest` plus: the leaf the body evaluates first is an output of a nested function -/
structure IsNestL (S : List RFunc) (N : RFunc) : Prop where
  nest : IsNest S N
  leaf : ∃ leaf, (∃ g ∈ S, leaf ∈ g.core.outputs) ∧ N.body = some (nestBody S leaf)

theorem mkNest_isNestL (S : List RFunc) (out : Option (List String)) (N : RFunc) (h : mkNest S out = .ok N)
    (hne : ∀ g ∈ S, g.core.outputs ≠ []) : IsNestL S N := by
  refine ⟨mkNest_isNest S out N h, ?_⟩
  unfold mkNest at h
  split at h
  · cases h
  · split at h
    · cases h
    · split at h
      · next lf hlf =>
        simp only [] at h
        split at h
        · cases h
        · simp only [Except.ok.injEq] at h
          subst h
          have hlfS : lf ∈ S := by
            have : lf ∈ leaves S := by rw [hlf]; simp
            unfold leaves at this
            exact (List.mem_filter.mp this).1
          refine ⟨_, ⟨lf, hlfS, ?_⟩, rfl⟩
          have := hne lf hlfS
          cases ho : lf.core.outputs with
          | nil => exact absurd ho this
          | cons a as => simp
      · cases h

/-- defaults are declared for parameters only (every `PipeFunc` satisfies this) -/
def DefaultsOnParams (fs : List RFunc) : Prop :=
  ∀ f ∈ fs, ∀ kv ∈ f.core.defaults, ∃ q ∈ f.core.params, q.1 = kv.1

/-- `p` is consumed by a function outside the groups or by a nested function -/
def Consumed (fs : List RFunc) (inG : RFunc → Bool) (Ns : List RFunc) (p : String) : Prop :=
  (∃ f ∈ fs, inG f = false ∧ p ∈ freeParams f) ∨ (∃ N ∈ Ns, ∃ q ∈ N.core.params, q.1 = p)

/-- the original evaluates every output of every function selected by `inG` -/
def GroupEvaluates (fs : List RFunc) (inG : RFunc → Bool) (kw : List (String × Val)) : Prop :=
  ∀ g ∈ fs, inG g = true → ∀ q ∈ g.core.outputs, ∃ m w, eval fs kw m q = .ok w

section outerTotal
variable (fs : List RFunc) (inG : RFunc → Bool) (Ns : List RFunc) (kw : List (String × Val))

theorem prodNew
    (hNs : ∀ N ∈ Ns, ∃ sel : RFunc → Bool, (∀ g ∈ fs, sel g = true → inG g = true) ∧ IsNest (fs.filter sel) N)
    (p : String) (c : Func) (hpc : producer (cores (fs.filter (fun f => !inG f) ++ Ns)) p = some c) :
    ∃ c', producer (cores fs) p = some c' := by
  obtain ⟨g, hg, hpg⟩ := producer_some_mem _ p c hpc
  rcases List.mem_append.mp hg with hg | hg
  · exact producer_some_of fs p ⟨g, (List.mem_filter.mp hg).1, hpg⟩
  · obtain ⟨sel, _, hN⟩ := hNs g hg
    obtain ⟨h', hh', hph'⟩ := hN.outs p hpg
    exact producer_some_of fs p ⟨h', (List.mem_filter.mp hh').1, hph'⟩

theorem noProdNew
    (hret : ∀ p, (∃ g ∈ fs, inG g = true ∧ p ∈ g.core.outputs) → Consumed fs inG Ns p → ∃ N ∈ Ns, p ∈ N.core.outputs)
    (p : String) (hpn : producer (cores (fs.filter (fun f => !inG f) ++ Ns)) p = none) (hcons : Consumed fs inG Ns p) :
    producer (cores fs) p = none := by
  apply producer_none_of
  rintro ⟨g, hg, hpg⟩
  cases hsg : inG g with
  | false =>
    have : ∃ c, producer (cores (fs.filter (fun f => !inG f) ++ Ns)) p = some c :=
      producer_some_of _ p ⟨g, List.mem_append_left _ (List.mem_filter.mpr ⟨hg, by simp [hsg]⟩), hpg⟩
    rw [hpn] at this; obtain ⟨_, h⟩ := this; cases h
  | true =>
    obtain ⟨N', hN', hpN'⟩ := hret p ⟨g, hg, hsg, hpg⟩ hcons
    have : ∃ c, producer (cores (fs.filter (fun f => !inG f) ++ Ns)) p = some c :=
      producer_some_of _ p ⟨N', List.mem_append_right _ hN', hpN'⟩
    rw [hpn] at this; obtain ⟨_, h⟩ := this; cases h

/-- converse of `pdefault_nests`: a pipeline default of the original is still a pipeline default after nesting -/
theorem pdefault_nests_conv
    (hcov : ∀ g ∈ fs, inG g = true → ∃ N ∈ Ns, ∃ sel : RFunc → Bool, sel g = true ∧ IsNest (fs.filter sel) N)
    (hdp : DefaultsOnParams fs) (p : String) (v : Val) (hd : pdefault (cores fs) p = some v)
    (hpn : producer (cores (fs.filter (fun f => !inG f) ++ Ns)) p = none) (hpo : producer (cores fs) p = none) :
    ∃ w, pdefault (cores (fs.filter (fun f => !inG f) ++ Ns)) p = some w := by
  have hm := List.mem_reverse.mp (alookup_some_mem _ _ _ hd)
  obtain ⟨c, hcm, hcd, hcb, _⟩ := (mem_pdefaults _ p v).mp hm
  obtain ⟨f, hf, rfl⟩ := List.mem_map.mp hcm
  have key : (p, v) ∈ pdefaults (cores (fs.filter (fun f => !inG f) ++ Ns)) := by
    cases hsg : inG f with
    | false =>
      exact (mem_pdefaults _ p v).mpr ⟨f.core, List.mem_map.mpr ⟨f, List.mem_append_left _ (List.mem_filter.mpr ⟨hf, by simp [hsg]⟩), rfl⟩,
        hcd, hcb, by rw [hpn]; rfl⟩
    | true =>
      obtain ⟨N, hN, sel, hself, hIs⟩ := hcov f hf hsg
      have hfS : f ∈ fs.filter sel := List.mem_filter.mpr ⟨hf, hself⟩
      have hnoS : ¬ ∃ h ∈ fs.filter sel, p ∈ h.core.outputs := by
        rintro ⟨h, hh, hph⟩
        obtain ⟨c, hc⟩ := producer_some_of fs p ⟨h, (List.mem_filter.mp hh).1, hph⟩
        rw [hpo] at hc; cases hc
      have hbn : alookup f.core.bound p = none := by
        cases hh : alookup f.core.bound p with
        | none => rfl
        | some w => rw [hh] at hcb; simp at hcb
      obtain ⟨q, hq, hqp⟩ := hdp f hf (p, v) hcd
      simp only [] at hqp
      have hfree : p ∈ freeParams f := by
        have := mem_freeParams f q hq (by rw [hqp]; exact hbn)
        rwa [hqp] at this
      have hnp : p ∈ nestParams (fs.filter sel) := (mem_nestParams _ _).mpr ⟨⟨f, hfS, hfree⟩, hnoS⟩
      have hin : (p, v) ∈ N.core.defaults := by
        rw [hIs.defaults]
        refine List.mem_filter.mpr ⟨?_, by simpa using hnp⟩
        exact (mem_pdefaults _ p v).mpr ⟨f.core, List.mem_map.mpr ⟨f, hfS, rfl⟩, hcd, hcb,
          by rw [producer_none_of _ p hnoS]; rfl⟩
      exact (mem_pdefaults _ p v).mpr ⟨N.core, List.mem_map.mpr ⟨N, List.mem_append_right _ hN, rfl⟩, hin,
        by rw [hIs.bound]; rfl, by rw [hpn]; rfl⟩
  exact alookup_isSome_of_mem _ p v (List.mem_reverse.mpr key)

variable (rank rank' : String → Nat)
  (hNs : ∀ N ∈ Ns, ∃ sel : RFunc → Bool, (∀ g ∈ fs, sel g = true → inG g = true) ∧ IsNestL (fs.filter sel) N)
  (hcov : ∀ g ∈ fs, inG g = true → ∃ N ∈ Ns, ∃ sel : RFunc → Bool, sel g = true ∧ IsNest (fs.filter sel) N)
  (hu : UniqueOutR fs) (hc : ConsistentDefaults (cores fs))
  (hK : ∀ p, (∃ c, producer (cores fs) p = some c) → alookup kw p = none)
  (hret : ∀ p, (∃ g ∈ fs, inG g = true ∧ p ∈ g.core.outputs) → Consumed fs inG Ns p → ∃ N ∈ Ns, p ∈ N.core.outputs)
  (hdp : DefaultsOnParams fs) (hne : ∀ g ∈ fs, g.core.outputs ≠ [])
  (hac : AcyclicR fs rank) (hac' : AcyclicR (fs.filter (fun f => !inG f) ++ Ns) rank')
  (hEvG : GroupEvaluates fs inG kw)

include hcov hret hdp in
/-- a consumed name that has a value in the original is never `.missing` after nesting -/
theorem new_not_missing (p : String) (hcons : Consumed fs inG Ns p) (hold : ∃ v, ValOld fs kw p v) (h : Func) :
    resolve (cores (fs.filter (fun f => !inG f) ++ Ns)) kw h p ≠ .missing := by
  apply resolve_ne_missing
  cases hk : alookup kw p with
  | some w => exact Or.inr (Or.inl rfl)
  | none =>
    cases hpn : producer (cores (fs.filter (fun f => !inG f) ++ Ns)) p with
    | some c => exact Or.inr (Or.inr (Or.inl ⟨c, rfl⟩))
    | none =>
      have hpo := noProdNew fs inG Ns hret p hpn hcons
      obtain ⟨v, hv⟩ := hold
      rcases hv with h1 | ⟨_, ⟨c, h2⟩, _⟩ | ⟨_, _, h3⟩
      · rw [hk] at h1; cases h1
      · rw [hpo] at h2; cases h2
      · obtain ⟨w, hw⟩ := pdefault_nests_conv fs inG Ns hcov hdp p v h3 hpn hpo
        exact Or.inr (Or.inr (Or.inr (by rw [hw]; rfl)))

include hNs hcov hu hc hK hret hdp hne hac hac' hEvG

/-- induction on the rank of the requested output in the NEW pipeline -/
theorem eval_nests_total_aux : ∀ (k : Nat) (o : String), rank' o < k →
    (∃ f ∈ fs.filter (fun f => !inG f) ++ Ns, o ∈ f.core.outputs) →
    ∀ m v, eval fs kw m o = .ok v → ∃ n, eval (fs.filter (fun f => !inG f) ++ Ns) kw n o = .ok v := by
  have hNs0 : ∀ N ∈ Ns, ∃ sel : RFunc → Bool, (∀ g ∈ fs, sel g = true → inG g = true) ∧ IsNest (fs.filter sel) N := by
    intro N hN
    obtain ⟨sel, h1, h2⟩ := hNs N hN
    exact ⟨sel, h1, h2.nest⟩
  have hsound := eval_nests fs inG Ns kw hNs0 hu hc hK hret
  intro k
  induction k with
  | zero => intro o h; omega
  | succ k ih =>
    intro o hk hprod m v hv
    obtain ⟨f, hf⟩ := rproducer_isSome _ o hprod
    obtain ⟨hfmem, hof⟩ := rproducer_mem _ o f hf
    -- the generic part: the arguments of `f` evaluate in the new pipeline
    have hgen : (∀ p ∈ freeParams f, Consumed fs inG Ns p) → (∀ p ∈ freeParams f, ∃ v, ValOld fs kw p v) →
        ∃ n a, composeArgsWith (eval (fs.filter (fun f => !inG f) ++ Ns) kw n) (cores (fs.filter (fun f => !inG f) ++ Ns)) kw
          f.core f.core.params = .ok a := by
      intro hcons hold
      apply composeArgs_total_eval
      · intro p hp
        cases hb : alookup f.core.bound p.1 with
        | some w => exact resolve_ne_missing _ _ _ _ (Or.inl (by rw [hb]; rfl))
        | none =>
          have hfree := mem_freeParams f p hp hb
          exact new_not_missing fs inG Ns kw hcov hret hdp p.1 (hcons _ hfree) (hold _ hfree) f.core
      · intro p hp hres
        obtain ⟨hb, hk', c, hcp⟩ := (resolve_upstream_iff _ _ _ _).mp hres
        have hfree := mem_freeParams f p hp hb
        obtain ⟨g, hg, hpg⟩ := producer_some_mem _ p.1 c hcp
        have hlt := hac'.lt f hfmem o hof p.1 hfree ⟨g, hg, hpg⟩
        obtain ⟨c', hc'⟩ := prodNew fs inG Ns hNs0 p.1 c hcp
        obtain ⟨w, hw⟩ := hold _ hfree
        rcases hw with h1 | ⟨_, _, m1, h2⟩ | ⟨_, h3, _⟩
        · rw [hk'] at h1; cases h1
        · obtain ⟨n, hn⟩ := ih p.1 (by omega) ⟨g, hg, hpg⟩ m1 w h2
          exact ⟨n, w, hn⟩
        · rw [hc'] at h3; cases h3
    -- it is enough that `outVal` succeeds: the value is the original's by soundness
    have hfin : ∀ n a w, composeArgsWith (eval (fs.filter (fun f => !inG f) ++ Ns) kw n) (cores (fs.filter (fun f => !inG f) ++ Ns)) kw
          f.core f.core.params = .ok a → outVal f a o = .ok w → ∃ n, eval (fs.filter (fun f => !inG f) ++ Ns) kw n o = .ok v := by
      intro n a w ha hout
      have hev : eval (fs.filter (fun f => !inG f) ++ Ns) kw (n+1) o = .ok w := by
        rw [eval_succ, hf]; simp only [ha]; exact hout
      obtain ⟨m', hm'⟩ := hsound (n+1) o w hev
      rw [eval_det fs kw hv hm']
      exact ⟨n+1, hev⟩
    rcases List.mem_append.mp hfmem with hfr | hfN
    · -- a function that was not nested
      obtain ⟨hffs, hself⟩ := List.mem_filter.mp hfr
      have hself' : inG f = false := by simpa using hself
      obtain ⟨m0, a0, ha0, hout0⟩ := eval_ok_unfold fs kw hu f hffs o hof m v hv
      obtain ⟨n, a, ha⟩ := hgen (fun p hp => Or.inl ⟨f, hffs, hself', hp⟩) (valOld_of_args fs kw f m0 a0 ha0)
      -- the original evaluates the same argument list
      have htr : ∃ m1, composeArgsWith (eval fs kw m1) (cores fs) kw f.core f.core.params = .ok a := by
        apply composeArgs_transfer fs kw f.core _ kw f.core _ f.core.params a ha
        intro p hp w hnew
        rcases hnew with hv' | ⟨hup, hr⟩
        · rcases (resolve_val_iff _ _ _ _ _).mp hv' with hb | ⟨hb, hk'⟩ | ⟨hb, hk', hpn, hd⟩
          · exact Or.inl ((resolve_val_iff _ _ _ _ _).mpr (Or.inl hb))
          · exact Or.inl ((resolve_val_iff _ _ _ _ _).mpr (Or.inr (Or.inl ⟨hb, hk'⟩)))
          · have hpo := noProdNew fs inG Ns hret p.1 hpn (Or.inl ⟨f, hffs, hself', mem_freeParams f p hp hb⟩)
            exact Or.inl ((resolve_val_iff _ _ _ _ _).mpr (Or.inr (Or.inr ⟨hb, hk', hpo, pdefault_nests fs inG Ns hNs0 hc p.1 w hd hpo⟩)))
        · obtain ⟨hb, hk', c, hcp⟩ := (resolve_upstream_iff _ _ _ _).mp hup
          obtain ⟨m2, hm2⟩ := hsound n p.1 w hr
          exact Or.inr ⟨(resolve_upstream_iff _ _ _ _).mpr ⟨hb, hk', prodNew fs inG Ns hNs0 p.1 c hcp⟩, m2, hm2⟩
      obtain ⟨m1, hm1⟩ := htr
      have : a = a0 := composeArgs_det fs kw f.core f.core.params hm1 ha0
      subst this
      exact hfin n a v ha hout0
    · -- a nested function
      obtain ⟨sel, hselG, hNL⟩ := hNs f hfN
      have hN := hNL.nest
      have hSfs : ∀ g ∈ fs.filter sel, g ∈ fs := fun g hg => (List.mem_filter.mp hg).1
      have hfreeN : ∀ p ∈ freeParams f, p ∈ nestParams (fs.filter sel) := by
        intro p hp
        obtain ⟨q, hq, hqp, _⟩ := freeParams_mem f p hp
        rw [hN.params] at hq
        obtain ⟨p', hp', rfl⟩ := List.mem_map.mp hq
        simp only [] at hqp
        rw [← hqp]; exact hp'
      have hconsN : ∀ p ∈ freeParams f, Consumed fs inG Ns p := by
        intro p hp
        obtain ⟨q, hq, hqp, _⟩ := freeParams_mem f p hp
        exact Or.inr ⟨f, hfN, q, hq, hqp⟩
      have holdN : ∀ p ∈ freeParams f, ∃ v, ValOld fs kw p v := by
        intro p hp
        obtain ⟨⟨g, hg, hpg⟩, _⟩ := (mem_nestParams _ _).mp (hfreeN p hp)
        obtain ⟨hgfs, hgsel⟩ := List.mem_filter.mp hg
        cases ho : g.core.outputs with
        | nil => exact absurd ho (hne g hgfs)
        | cons q qs =>
          have hq : q ∈ g.core.outputs := by rw [ho]; simp
          obtain ⟨m1, w1, hw1⟩ := hEvG g hgfs (hselG g hgfs hgsel) q hq
          obtain ⟨m2, a2, ha2, _⟩ := eval_ok_unfold fs kw hu g hgfs q hq m1 w1 hw1
          exact valOld_of_args fs kw g m2 a2 ha2 p hpg
      obtain ⟨n, a, ha⟩ := hgen hconsN holdN
      obtain ⟨hl1, hl2⟩ := composeArgs_lookup _ kw f.core _ f.core.params a ha
      obtain ⟨leaf, hleaf, hbody⟩ := hNL.leaf
      -- every argument of the nest is the original pipeline's value of that name
      have hA1 : ∀ p val, alookup a p = some val → ValOld fs kw p val := by
        intro p val hpv
        obtain ⟨q, hq, hq2, hnew⟩ := hl1 p val hpv
        have hq0 := hq
        rw [hN.params] at hq
        obtain ⟨p', hp', rfl⟩ := List.mem_map.mp hq
        simp only [] at hq2 hnew
        subst hq2
        rcases hnew with hv' | ⟨hup, hr⟩
        · rcases (resolve_val_iff _ _ _ _ _).mp hv' with hb | ⟨_, hk'⟩ | ⟨_, hk', hpn, hd⟩
          · rw [hN.bound] at hb; simp [alookup] at hb
          · exact Or.inl hk'
          · have hpo := noProdNew fs inG Ns hret p' hpn (Or.inr ⟨f, hfN, (p', p'), hq0, rfl⟩)
            exact Or.inr (Or.inr ⟨hk', hpo, pdefault_nests fs inG Ns hNs0 hc p' val hd hpo⟩)
        · obtain ⟨_, hk', c, hcp⟩ := (resolve_upstream_iff _ _ _ _).mp hup
          obtain ⟨m2, hm2⟩ := hsound n p' val hr
          exact Or.inr (Or.inl ⟨hk', prodNew fs inG Ns hNs0 p' c hcp, m2, hm2⟩)
      -- and the nest received every name its functions need from outside
      have hA2 : ∀ g ∈ fs.filter sel, ∀ p ∈ freeParams g, (∃ h ∈ fs.filter sel, p ∈ h.core.outputs) ∨ (alookup a p).isSome := by
        intro g hg p hp
        by_cases hex : ∃ h ∈ fs.filter sel, p ∈ h.core.outputs
        · exact Or.inl hex
        · right
          have hmem : p ∈ nestParams (fs.filter sel) := (mem_nestParams _ _).mpr ⟨⟨g, hg, hp⟩, hex⟩
          have := hl2 (p, p) (by rw [hN.params]; exact List.mem_map.mpr ⟨p, hmem, rfl⟩)
          simpa using this
      have hEvS : ∀ g ∈ fs.filter sel, ∀ q ∈ g.core.outputs, ∃ m w, eval fs kw m q = .ok w := by
        intro g hg q hq
        obtain ⟨hgfs, hgsel⟩ := List.mem_filter.mp hg
        exact hEvG g hgfs (hselG g hgfs hgsel) q hq
      have hinner := eval_inner_total fs (fs.filter sel) kw a rank hSfs hu hK hA1 hA2 hac hEvS
      obtain ⟨gl, hgl, hlgl⟩ := hleaf
      obtain ⟨ml, wl, hwl⟩ := hEvS gl hgl leaf hlgl
      have h1 := hinner leaf ⟨gl, hgl, hlgl⟩ ml wl hwl
      have h2 := hinner o (hN.outs o hof) m v hv
      apply hfin n a v ha
      unfold outVal origOf
      rw [hN.orig, alookup_zip_self]
      simp only [hof, ↓reduceIte, hbody]
      unfold nestBody
      rw [h1]
      exact h2

/-- **Nesting is total**: every output of the pipeline with the `NestedPipeFunc`s that the original evaluates is
    evaluated by the new pipeline, to the same value -/
theorem eval_nests_total (o : String) (ho : ∃ f ∈ fs.filter (fun f => !inG f) ++ Ns, o ∈ f.core.outputs) (m : Nat) (v : Val)
    (hv : eval fs kw m o = .ok v) : ∃ n, eval (fs.filter (fun f => !inG f) ++ Ns) kw n o = .ok v :=
  eval_nests_total_aux fs inG Ns kw rank rank' hNs hcov hu hc hK hret hdp hne hac hac' hEvG (rank' o + 1) o (Nat.lt_succ_self _) ho m v hv

end outerTotal

end PF.Rw
