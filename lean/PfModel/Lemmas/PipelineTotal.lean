import PfModel.Lemmas.PipelineNeeded
/-!
When does the memoised run succeed?  If no parameter of a reachable function resolves as `.missing` and the fuel exceeds
the rank of the requested output's producer.  Any acyclicity witness can be normalised to one below `fs.length`, so
`fuelFor fs` is always enough.  (Helper lemmas for `Props/C02Needed.lean`.)
-/
namespace PF.Pipe
open PF

variable (fs : List Func) (kw : List (String × Val)) (rank : String → Nat)

def IsMissing : Res → Prop
  | .missing => True
  | _ => False

/-! ### normalising the rank -/

theorem filter_length_le {α} (p q : α → Bool) (l : List α) (hpq : ∀ x ∈ l, p x = true → q x = true) :
    (l.filter p).length ≤ (l.filter q).length := by
  induction l with
  | nil => simp
  | cons a as ih =>
    have ih := ih (fun x hx => hpq x (List.mem_cons_of_mem _ hx))
    have ha := hpq a List.mem_cons_self
    simp only [List.filter]
    cases hp : p a <;> cases hq : q a <;> simp_all <;> omega

theorem filter_length_lt {α} (p q : α → Bool) (l : List α) (hpq : ∀ x ∈ l, p x = true → q x = true)
    (hx : ∃ x ∈ l, q x = true ∧ p x = false) : (l.filter p).length < (l.filter q).length := by
  induction l with
  | nil => obtain ⟨x, hx, _⟩ := hx; cases hx
  | cons a as ih =>
    have hle := filter_length_le p q as (fun x hx => hpq x (List.mem_cons_of_mem _ hx))
    have ha := hpq a List.mem_cons_self
    obtain ⟨x, hxm, hqx, hpx⟩ := hx
    simp only [List.filter]
    rcases List.mem_cons.mp hxm with rfl | hxm
    · simp [hqx, hpx]; omega
    · have ih := ih (fun x hx => hpq x (List.mem_cons_of_mem _ hx)) ⟨x, hxm, hqx, hpx⟩
      cases hp : p a <;> cases hq : q a <;> simp_all <;> omega

/-- the number of functions of strictly smaller rank -/
def rankOf (nm : String) : Nat := (fs.filter (fun g => decide (rank g.name < rank nm))).length

theorem rankOf_lt_length (f : Func) (hf : f ∈ fs) : rankOf fs rank f.name < fs.length := by
  have := filter_length_lt (fun g => decide (rank g.name < rank f.name)) (fun _ => true) fs (by simp)
    ⟨f, hf, rfl, by simp⟩
  have e : fs.filter (fun _ => true) = fs := List.filter_eq_self.mpr (by simp)
  rw [e] at this
  exact this

theorem rankOf_lt (f g : Func) (hg : g ∈ fs) (h : rank g.name < rank f.name) :
    rankOf fs rank g.name < rankOf fs rank f.name := by
  unfold rankOf
  apply filter_length_lt
  · intro x _ hx; simp at hx ⊢; omega
  · exact ⟨g, hg, by simp [h], by simp⟩

theorem WFp.normalise (hw : WFp fs rank) : WFp fs (rankOf fs rank) :=
  ⟨hw.names, hw.uniq, fun f hf p hp g hg hb => rankOf_lt fs rank f g (producer_mem fs hg) (hw.acyc f hf p hp g hg hb)⟩

/-! ### success -/

theorem argsWith_total (r : String → St → Except Err (Val × St)) (f : Func)
    (hr : ∀ q orig, (q, orig) ∈ f.params → IsUp (resolve fs kw f q) → ∀ s, ∃ v s', r q s = .ok (v, s')) :
    ∀ ps, (∀ p ∈ ps, p ∈ f.params) → (∀ p ∈ ps, ¬ IsMissing (resolve fs kw f p.1)) →
      ∀ s, ∃ a s', argsWith r fs kw f ps s = .ok (a, s') := by
  intro ps
  induction ps with
  | nil => intro _ _ s; exact ⟨[], s, by simp [argsWith]⟩
  | cons p ps ih =>
    obtain ⟨p, orig⟩ := p
    intro hps hnm s
    have hps' : ∀ q ∈ ps, q ∈ f.params := fun q hq => hps q (List.mem_cons_of_mem _ hq)
    have hnm' : ∀ q ∈ ps, ¬ IsMissing (resolve fs kw f q.1) := fun q hq => hnm q (List.mem_cons_of_mem _ hq)
    have hp := hnm (p, orig) List.mem_cons_self
    simp only [argsWith]
    split
    · next hm => simp only [] at hp; rw [hm] at hp; exact absurd trivial hp
    · obtain ⟨rest, s2, h2⟩ := ih hps' hnm' { s with used := s.used ++ [p] }
      rw [h2]; exact ⟨_, _, rfl⟩
    · next hup =>
      have hupP : IsUp (resolve fs kw f p) := by rw [hup]; trivial
      obtain ⟨v, s1, h1⟩ := hr p orig (hps _ List.mem_cons_self) hupP s
      rw [h1]
      obtain ⟨rest, s2, h2⟩ := ih hps' hnm' { s1 with used := s1.used ++ [p] }
      simp only [h2]; exact ⟨_, _, rfl⟩

/-- no parameter of a function reachable from `o` is left without a value -/
def Resolvable (o : String) : Prop :=
  ∀ f, Reach fs kw o f → ∀ p ∈ f.params, ¬ IsMissing (resolve fs kw f p.1)

theorem run_total (hw : WFp fs rank) : ∀ n o s, Resolvable fs kw o →
    (∃ f, producer fs o = some f ∧ rank f.name < n) → ∃ v s', run fs kw n o s = .ok (v, s') := by
  intro n
  induction n with
  | zero => intro o s _ ⟨f, _, h⟩; omega
  | succ n ihn =>
    intro o s hres ⟨f, hf, hlt⟩
    rw [run_succ]
    split
    · exact ⟨_, _, rfl⟩
    · simp only [hf]
      have hfmem := producer_mem fs hf
      have hrec : ∀ q orig, (q, orig) ∈ f.params → IsUp (resolve fs kw f q) → ∀ s, ∃ v s', run fs kw n q s = .ok (v, s') := by
        intro q orig hq hu s
        obtain ⟨hb, _, g, hg⟩ := resolve_upstream fs kw hu
        have := hw.acyc f hfmem (q, orig) hq g hg hb
        refine ihn q s ?_ ⟨g, hg, by omega⟩
        intro g' hg' p hp
        exact hres g' (Reach.trans fs kw (.root hf) hq hu hg') p hp
      obtain ⟨args, s1, h1⟩ := argsWith_total fs kw _ f hrec f.params (fun p hp => hp)
        (fun p hp => hres f (.root hf) p hp) s
      rw [h1]
      have := mem_outVals_keys f args o (producer_out fs hf)
      obtain ⟨w, hw'⟩ := Option.isSome_iff_exists.mp this
      simp only [hw']; exact ⟨_, _, rfl⟩

/-- with the fuel `runTop` uses -/
theorem run_total_fuelFor (hw : WFp fs rank) (o : String) (s : St) (hres : Resolvable fs kw o)
    (hp : (producer fs o).isSome) : ∃ v s', run fs kw (fuelFor fs) o s = .ok (v, s') := by
  obtain ⟨f, hf⟩ := Option.isSome_iff_exists.mp hp
  apply run_total fs kw (rankOf fs rank) (WFp.normalise fs rank hw) (fuelFor fs) o s hres
  have := rankOf_lt_length fs rank f (producer_mem fs hf)
  exact ⟨f, hf, by unfold fuelFor; omega⟩

end PF.Pipe
