"""C05 — An interrupted map resumes to the uninterrupted result, redoing no stored work.

Correspondence, three parts (DESIGN.md section 6, C05):
 (1) trace validation — a real `Pipeline.map(run_folder=F)` is run in a fresh interpreter under `strace`; the parsed
     file-system event list (with the written bytes, decoded) and the interleaved user calls must equal the event list of
     `PF.ResumeFS.runOn` (lean/PfModel/Model/ResumeFS.lean) up to the canonical abstraction (one open/write*/close group =
     one write; unsuccessful mkdirs dropped);
 (2) crash enumeration — for every prefix of the real trace, and torn states inside every write, the folder is materialised
     and the real `map(..., cleanup=False)` is run in a fresh interpreter; the property's clauses are evaluated directly
     (completes; same outputs as the uninterrupted run; no call for an element that was completely stored; the folder
     afterwards equals the uninterrupted folder) and status/outputs/calls are compared with the model run on the abstracted
     state; also second crashes inside resumed runs (history-aware: what was completely stored after ANY interruption of the history
     must not be recomputed - Lean `C05_stored_kept`, `C05_history_no_recompute`), and thread pools in thorough;
 (3) the k-th user call raises (`make_func(fail=)`), then the run is resumed.
"""
from __future__ import annotations

import concurrent.futures
import copy
import json
import os
import shutil
import tempfile
import threading

import pfimport  # noqa: F401

import c05_cleanup
import c05_crashfs as crashfs
import c05_fstrace as fstrace
import c05_keys
import c05_mutres
import c05_parfail
import mapgen
import terms

PID = "C05"
PROPS = ["PfModel.Props.C05", "PfModel.Props.C05Par", "PfModel.Props.C05Hist", "PfModel.Props.C05ParFail", "PfModel.Props.C05Key", "PfModel.Props.C05User"]
DRIVER = "C05"
RULE = ("corpus (element-wise map + reduction on file_array and dict; an un-mapped tuple-output function with a custom output_picker) then "
        "well-formed map pipelines of 1-3 functions from mapgen (element-wise/zip, outer product, partial and full reduction, internal axes via "
        "map(internal_shapes=), '... -> v[j]' producers, tuple outputs, plain functions), storages file_array and dict, sequential (thorough: also "
        "thread pools); every pipeline is traced once and then crashed at every event prefix and inside every write (half buffer; "
        "1 byte and all-but-one byte for the first write and run_info.json), each state resumed in a fresh interpreter; every user call index as "
        "raise point; second crashes inside traced resumed runs: first interruption = random in-between states, the COMPLETE folder, the first state "
        "inside the persist loop of dict storage, a raising call; second interruption = random crash points of the resumed run plus every window in "
        "which its trace has lost a file that was complete when it started; the third run is judged against what was stored after EITHER interruption; "
        "pool runs (permuting executor) in which the idx-th call of a function RAISES while the other bodies of the generation still run and store (the stored set "
        "is not a prefix), then resumed (thorough: killed inside, and a second failing pool run on what the first left); key <-> linear index on the real "
        "storage classes for random shapes (1-3 axes) and arbitrary stored subsets. "
        "A case = (pipeline, storage, mode, crash history); non-trivial = the crashed folder is neither empty nor complete; distinct by digest of the case")
ASSUMPTIONS = ["process death is modelled as stopping between or inside file-system calls with POSIX rename atomic; loss of un-synced data and "
               "kills inside CPython's buffered writer are represented only by the torn-write states",
               "the re-run uses the same pipeline and inputs (the comparison with the previous run is between equal requests)",
               "shutil.rmtree of cleanup=True is atomic in the model; first runs start in a folder that does not exist",
               "shared_memory_dict (a manager-backed dict persisted like `dict`; model: `Cfg.dict`) is exercised sequentially only: one corpus pipeline, three generated ones in thorough",
               "pool runs (thread pools only; process pools are not exercised): every global prefix of the merged strace order is taken as a crash state",
               "a raising user call inside a pool run is exercised with the permuting executor only (bodies atomic, every submitted body runs); pools that cancel or "
               "overlap bodies are covered by the theorem's `SubSched` hypothesis (any selection of the submitted bodies), not by generated cases"]

WORKERS = int(os.environ.get("VERIF_C05_WORKERS", "16"))
DICT_LIKE = ("dict", "shared_memory_dict")      # memory storages persisted at the end of the run into outputs/<o>/dict_array.cloudpickle (model: `Cfg.dict`)
KINDS = ["elem", "elem", "outer", "partial", "full", "internal", "gen", "scalar"]


# ------------------------------------------------------------------------------------------------ cases
def _in(name, ix):
    return {"f": "in", "k": [["n", {"s": name}], ["at", {"arr": [[len(ix)], list(ix)]}]]}


def _func(name, params, outputs, mapspec=None, **kw):
    f = {"name": name, "params": [[p, p] for p in params], "outputs": outputs, "mapspec": mapspec,
         "mapspec_str": mapgen.spec_str(mapspec) if mapspec else None, "autogen": False, "ret": None, "internal": None, "defaults": [], "bound": []}
    f.update(kw)
    return f


def _design_case(n=3):
    f = _func("f0", ["x0"], ["y0"], {"inputs": [["x0", ["i"]]], "outputs": [["y0", ["i"]]]})
    g = _func("f1", ["y0"], ["y1"])
    return {"funcs": [f, g], "inputs": [["x0", {"arr": [[n], [_in("x0", [i]) for i in range(n)]]}]], "input_kinds": {"x0": "list"}, "internal": [], "sizes": {}}


def _picker_case():
    f = _func("f0", ["c0"], ["y0a", "y0b"])
    g = _func("f1", ["y0a", "x0"], ["y1"], {"inputs": [["x0", ["i"]]], "outputs": [["y1", ["i"]]]})
    return {"funcs": [f, g], "inputs": [["c0", {"s": "in:c0"}], ["x0", {"arr": [[2], [_in("x0", [i]) for i in range(2)]]}]],
            "input_kinds": {"x0": "array"}, "internal": [], "sizes": {}}


def _tuple_case():
    f = _func("f0", ["x0"], ["y0a", "y0b"], {"inputs": [["x0", ["i"]]], "outputs": [["y0a", ["i"]], ["y0b", ["i"]]]})
    g = _func("f1", ["y0b"], ["y1"])
    return {"funcs": [f, g], "inputs": [["x0", {"arr": [[2], [_in("x0", [i]) for i in range(2)]]}]], "input_kinds": {"x0": "array"}, "internal": [], "sizes": {}}


def _mix_case():
    f = _func("f0", ["x0"], ["y0"], {"inputs": [["x0", ["i"]]], "outputs": [["y0", ["i"]]]})
    g = _func("f1", ["y0"], ["y1"], {"inputs": [["y0", ["i"]]], "outputs": [["y1", ["i"]]]})
    h = _func("f2", ["y1"], ["y2"])
    return {"funcs": [f, g, h], "inputs": [["x0", {"arr": [[2], [_in("x0", [i]) for i in range(2)]]}]], "input_kinds": {"x0": "array"}, "internal": [], "sizes": {}}


def _chain_case():
    f = _func("f0", ["x0"], ["y0"], {"inputs": [["x0", ["i"]]], "outputs": [["y0", ["i"]]]})
    g = _func("f1", ["y0"], ["y1"], {"inputs": [["y0", ["i"]]], "outputs": [["y1", ["i"]]]})
    return {"funcs": [f, g], "inputs": [["x0", {"arr": [[2], [_in("x0", [i]) for i in range(2)]]}]], "input_kinds": {"x0": "list"}, "internal": [], "sizes": {}}


def _outer_case():
    """A non-square outer product (2 x 3) followed by an element-wise consumer: the linear index of a stored element and its key differ in
    every non-trivial way (row- vs column-major, axis lengths swapped); two mapped outputs, so that a kill inside the persist loop of a memory
    storage leaves the first snapshot complete (seeded change C05-s4-B: `DictArray.get_from_index` unravelled column-major, seen only when a
    resumed run assembles a loaded 2-D dict array)."""
    f = _func("f0", ["x0", "x1"], ["y0"], {"inputs": [["x0", ["i"]], ["x1", ["j"]]], "outputs": [["y0", ["i", "j"]]]})
    g = _func("f1", ["y0"], ["y1"], {"inputs": [["y0", ["i", "j"]]], "outputs": [["y1", ["i", "j"]]]})
    return {"funcs": [f, g], "inputs": [["x0", {"arr": [[2], [_in("x0", [i]) for i in range(2)]]}], ["x1", {"arr": [[3], [_in("x1", [i]) for i in range(3)]]}]],
            "input_kinds": {"x0": "list", "x1": "array"}, "internal": [], "sizes": {}}


def _dflt(name, n):
    return {"arr": [[n], [{"f": "dflt", "k": [["n", {"s": name}], ["at", {"arr": [[1], [q]]}]]} for q in range(n)]]}


def _seq_default_case(suffix, tail):
    """Sequence-valued elements (terms.SEQ_SUFFIX: every stored cell / dict entry holds a tuple, a list or a 1-D array) of a two-output
    mapped function whose mapped root has a default of ANOTHER length and is supplied as well; then a reduction that returns a sequence."""
    f = _func("f0" + suffix, ["x0"], ["y0a", "y0b"], {"inputs": [["x0", ["i"]]], "outputs": [["y0a", ["i"]], ["y0b", ["i"]]]}, defaults=[["x0", _dflt("x0", 3)]])
    g = _func("f1" + tail, ["y0a"], ["y1"])
    return {"funcs": [f, g], "inputs": [["x0", {"arr": [[2], [_in("x0", [i]) for i in range(2)]]}]], "input_kinds": {"x0": "list"}, "internal": [], "sizes": {}}


# past failures first: DF-14 (every window of the pinned write protocol, file_array and dict), DF-33, DF-22
CORPUS = [
    {"desc": _design_case(3), "storage": "file_array", "mode": "seq", "picker": []},
    {"desc": _design_case(2), "storage": "dict", "mode": "seq", "picker": []},
    {"desc": _picker_case(), "storage": "file_array", "mode": "seq", "picker": ["f0"]},
    {"desc": _tuple_case(), "storage": "file_array", "mode": "seq", "picker": []},      # an element with one of two outputs stored is re-run
    {"desc": _mix_case(), "storage": "file_array", "other": ["f1"], "mode": "seq", "picker": []},   # per-output storage mix: y0 in files, y1 in a dict
    # sequence-valued elements + a supplied mapped root that also has a default (values read back from the folder are `terms.enc`'d and fed
    # into the model: `crashfs.canon` must be idempotent on them)
    {"desc": _seq_default_case("_nd", "_pair"), "storage": "file_array", "mode": "seq", "picker": []},
    {"desc": _seq_default_case("_lst", "_nd"), "storage": "dict", "mode": "seq", "picker": []},
    # the third persisting storage: a manager-backed dict persisted like `dict` (two mapped outputs: a kill inside the persist loop leaves
    # one snapshot; seeded change C05-s2-B names it: "shared_memory_dict gets FileNotFoundError in the same state")
    {"desc": _chain_case(), "storage": "shared_memory_dict", "mode": "seq", "picker": []},
    # multi-axis, non-square arrays under a memory storage and under files (key <-> linear index in the resume path)
    {"desc": _outer_case(), "storage": "dict", "mode": "seq", "picker": []},
    {"desc": _outer_case(), "storage": "file_array", "mode": "seq", "picker": []},
]


def gen_case(rng, max_funcs=3):
    """A mapgen pipeline with at least one function mapped over >= 2 elements and at most 12 user calls; `PipeFunc.internal_shape`
    is passed through `map(internal_shapes=)` instead (DF-30, owned by C06, refuses every resume of the former)."""
    for _ in range(200):
        d = mapgen.gen_case(rng, max_funcs=max_funcs, kinds=KINDS, max_size=3)
        for f in d["funcs"]:
            if f["internal"]:
                have = {o for o, _ in d["internal"]}
                d["internal"] += [[o, f["internal"]] for o in f["outputs"] if o not in have]
                f["internal"] = None
        ncalls = 0
        big = False
        for f in d["funcs"]:
            if f["mapspec"] and f["mapspec"]["inputs"]:
                axes = {a for s in f["mapspec"]["inputs"] for a in s[1] if a}
                n = 1
                for a in axes:
                    n *= d["sizes"][a]
                ncalls += n
                big = big or n >= 2
            else:
                ncalls += 1
        if big and ncalls <= 12:
            return d
    return _design_case(3)


def func_order(case):
    """The order in which the implementation processes the functions (generation by generation; within a generation the order
    networkx yields).  The model takes the function list in this order: the order within a generation is an input, not compared."""
    if "order" not in case:
        try:
            p, _ = mapgen.build(case["desc"])
            case["order"] = [f.__name__ for gen in p.topological_generations.function_lists for f in gen]
        except Exception:  # noqa: BLE001
            case["order"] = [f["name"] for f in case["desc"]["funcs"]]
    return case["order"]


def is_dict(case, fname):
    """Does the function's output live in a DictArray?  `case["other"]` lists the functions that use the non-default storage."""
    return (case["storage"] in DICT_LIKE) != (fname in (case.get("other") or []))


def body_orders(case, model_calls_, real):
    """For every generation: the order (indices into the bodies in submission order = the model's sequential calls of that
    generation) in which the pool really started the bodies (order of the `call` events of the real trace)."""
    p, _ = mapgen.build(case["desc"])
    gens = [[f.__name__ for f in gen] for gen in p.topological_generations.function_lists]
    key = lambda fn, kw: json.dumps([fn, sorted(([k, crashfs.canon(v)] for k, v in kw), key=lambda kv: kv[0])])  # noqa: E731
    rcalls = [json.dumps([e[1], e[2]]) for e in real if e[0] == "call"]
    orders = []
    for g in gens:
        sub = [key(fn, kw) for fn, _li, kw in model_calls_ if fn in g]
        if len(set(sub)) != len(sub):
            raise ValueError("indistinguishable bodies")
        seen = [c for c in rcalls if c in set(sub)]
        if sorted(seen) != sorted(sub):
            raise ValueError("calls of the generation differ")
        orders.append([sub.index(c) for c in seen])
    return orders


def model_req(case, cfg=None, **extra):
    a = dict(mapgen.model_request(case["desc"]))
    pos = {n: i for i, n in enumerate(func_order(case))}
    a["funcs"] = sorted(a["funcs"], key=lambda f: pos.get(f["name"], len(pos)))
    a["cfg"] = {"dict": case["storage"] in DICT_LIKE, "other": list(case.get("other") or []), **(cfg or {})}
    a.update(extra)
    return a


# ------------------------------------------------------------------------------------------------ running children
class Lab:
    """One temp directory; numbered run folders of equal path length; child specs; a pool of resumers."""

    def __init__(self):
        self.base = tempfile.mkdtemp(prefix="verif-c05-")
        self.n = 0
        self.lock = threading.Lock()
        self.pool = concurrent.futures.ThreadPoolExecutor(WORKERS)
        self.zygotes = fstrace.Zygotes(WORKERS) if not os.environ.get("VERIF_C05_FRESH") else None

    def close(self):
        self.pool.shutdown(wait=True, cancel_futures=True)
        if self.zygotes:
            self.zygotes.close()
        shutil.rmtree(self.base, ignore_errors=True)

    def slot(self):
        with self.lock:
            self.n += 1
            return os.path.join(self.base, f"run-{self.n:07d}")

    def spec(self, case, folder, cleanup, fail=None, mode=None):
        return {"desc": case["desc"], "storage": case["storage"], "other": case.get("other") or [], "folder": folder, "cleanup": cleanup, "log": folder + ".calls",
                "mode": mode or case.get("mode", "seq"), "picker": case.get("picker") or [], "fail": fail, "perm_seed": case.get("perm_seed", 0)}

    def run(self, spec, trace=False):
        """Run a child (under strace when `trace`); returns (result, events|None, calls)."""
        sp = spec["folder"] + ".spec.json"
        if os.path.exists(spec["log"]):
            os.unlink(spec["log"])
        if trace:
            res, ev = fstrace.traced_run(spec, sp, spec["folder"] + ".strace")
            os.unlink(spec["folder"] + ".strace")
        else:
            with open(sp, "w") as fh:
                json.dump(spec, fh)
            res, ev = (self.zygotes.run(sp) if self.zygotes else fstrace.run_child(sp)), None
        calls = [[c[0], c[1]] for c in terms.CallLog(spec["log"]).read() if c[2] == "call"]
        return res, ev, calls

    def cleanup(self, folder):
        shutil.rmtree(folder, ignore_errors=True)
        for suf in (".calls", ".spec.json", ".strace"):
            if os.path.exists(folder + suf):
                os.unlink(folder + suf)


def canon_calls(calls):
    return sorted(([n, sorted(([k, crashfs.canon(v)] for k, v in kw), key=lambda kv: kv[0])] for n, kw in calls), key=repr)


def model_calls(run):
    return canon_calls([[fn, kw] for fn, _li, kw in run["calls"]])


def data_files(fs_abs):
    """The non-temporary files of an abstract folder, as {path-json: content}."""
    return {json.dumps(p): c for p, c in fs_abs["files"] if p[0] != "tmp"}


# ------------------------------------------------------------------------------------------------ judging one resumed state
def judge_resume(ctx, case, history, fs_abs, impl, impl_calls, after_abs, full, model, prior=(), stored_before=()):
    """`history` describes how the folder state was produced; `full` is the uninterrupted run (outputs, model calls, folder).
    `prior` = the abstract folders left by the EARLIER interruptions of the history: what was completely stored after any of them
    counts as stored (a resumed run that is killed must not have lost it: Lean `C05_stored_kept` / `C05_history_no_recompute`);
    `stored_before` = files (json model paths) that were complete at SOME point of the interrupted runs before they were killed
    (`crashfs.ever_complete`): a run that stores a result and removes it again before the interruption has still stored it."""
    rec = rec_of(case, history)
    files = data_files(fs_abs)
    nontrivial = bool(files) and files != full["files"]
    ctx.record(rec, nontrivial, validated=False)
    ctx.count("state:" + ("empty" if not files else "complete" if files == full["files"] else "partial-file" if "P" in files.values() else "some-files"))
    # -- the property's clauses on the implementation's own answer
    if "err" in impl:
        ctx.count("resume-fails:" + impl["err"])
        ctx.violation(rec, f"resume after {history[-1]['kind']} fails with {impl['err']}: {impl.get('msg', '')[:140]}", impl=impl,
                      model=model.get("result"), key="resume fails " + impl["err"])
        return
    got = impl["ok"]["outputs"]
    if got != full["outputs"]:
        bad = sorted(n for n in full["outputs"] if got.get(n) != full["outputs"][n])
        ctx.violation(rec, f"resumed run returns a different value for {bad}", impl={n: got.get(n) for n in bad},
                      model={n: full["outputs"][n] for n in bad}, key="resume differs")
        return
    complete = {p for p, c in files.items() if c != "P"}
    earlier = {p for p in stored_before if json.loads(p)[0] != "tmp"}
    for fs_prev in prior:
        earlier |= {p for p, c in data_files(fs_prev).items() if c != "P"}
    lost = earlier - complete           # completely stored after an earlier interruption, absent or partial now
    if lost:
        ctx.count("history:stored-file-lost")
    complete = complete | earlier
    impl_c = canon_calls(impl_calls)
    # a call is identified by (function, keyword values); elements whose keyword values coincide (an upstream interpreted constant
    # function: `y0[i, k]` all "" next to `x1[i]`) are indistinguishable in the call log, so they are counted per group: more calls than
    # elements of the group that were NOT completely stored means a stored one was recomputed
    groups = {}
    for fn, li, kw in full["model_calls"]:
        f = next(x for x in case["desc"]["funcs"] if x["name"] == fn)
        mapped = bool(f["mapspec"] and f["mapspec"]["inputs"])
        if mapped and is_dict(case, fn):
            paths = [json.dumps(["dictArr", o]) for o in f["outputs"]]      # stored = the persisted dict of every output exists
        else:
            paths = [json.dumps(["cell", o, li] if mapped else ["single", o]) for o in f["outputs"]]
        g = groups.setdefault(json.dumps(canon_calls([[fn, kw]])[0]), {"fn": fn, "stored": [], "open": 0, "lost": []})
        if all(p in complete for p in paths):
            # elements the killed resumed run lost come first: they are the ones a recomputation is about
            g["stored"].insert(0, li) if any(p in lost for p in paths) else g["stored"].append(li)
            if any(p in lost for p in paths):
                g["lost"].append(li)
        else:
            g["open"] += 1
    ncalls = {}
    for c in impl_c:
        ncalls[json.dumps(c)] = ncalls.get(json.dumps(c), 0) + 1
    for key, g in groups.items():
        if g["stored"] and ncalls.get(key, 0) > g["open"]:
            if g["lost"]:
                how = (f"all its outputs were completely stored after the first interruption, the resumed run that was killed next ({history[-1].get('next')!r} pending) "
                       f"had removed them" if prior else "all its outputs had been completely stored by the interrupted run, which removed them again before it stopped")
                ctx.violation(rec, f"`{g['fn']}` was called again for element {g['lost'][0]}: {how} ({sorted(lost)[:3]})",
                              impl={"calls": impl_c, "lost": sorted(lost)}, key="recomputed element stored before an earlier interruption")
            else:
                ctx.violation(rec, f"`{g['fn']}` was called again for element {g['stored'][0]} although all its outputs were completely stored",
                              impl={"calls": impl_c}, key="recomputed stored element")
            return
    if data_files(after_abs) != full["files"]:
        a, b = data_files(after_abs), full["files"]
        diff = sorted(p for p in set(a) | set(b) if a.get(p) != b.get(p))
        ctx.violation(rec, f"the folder after the resumed run differs from the folder of an uninterrupted run at {diff[:4]}", key="folder differs")
        return
    # -- correspondence with the model (resume = the runner started on the abstracted folder)
    mres = model["result"]
    if "err" in mres:
        ctx.violation(rec, f"the model's resume fails ({mres['err']}) where the implementation completes", found_input=False,
                      item="correspondence:resume-status", impl=impl, model=mres)
        return
    if {k: crashfs.canon(v) for k, v in mres["outputs"]} != got:
        ctx.violation(rec, "model and implementation disagree on the resumed outputs", found_input=False, item="correspondence:resume-outputs")
        return
    if model_calls(model) != impl_c:
        ctx.violation(rec, "the set of recomputed elements differs from the model's (presence = done)", found_input=False,
                      item="correspondence:resume-calls", impl={"calls": impl_c}, model={"calls": model_calls(model)})


# ------------------------------------------------------------------------------------------------ one pipeline
def stages_state(lab, stages):
    """Materialise a crash history (list of (events, k, tear, src folder)) in a new slot; returns the folder."""
    dst = lab.slot()
    shutil.rmtree(dst, ignore_errors=True)
    for i, (events, k, tear, src) in enumerate(stages):
        crashfs.materialise(events, k, src, dst, tear, keep=i > 0)
    return dst


def resume_state(lab, case, stages, trace=False):  # noqa: FBT002
    """Materialise, abstract, resume in a fresh interpreter.  Returns everything `judge_resume` needs.  A traced run whose trace
    cannot be read is repeated once (strace output under heavy load), then reported."""
    st = _resume_state(lab, case, stages, trace)
    if trace and "unmodelled" in st:
        st = _resume_state(lab, case, stages, trace)
    return st


def _resume_state(lab, case, stages, trace):
    dst = None
    try:
        dst = stages_state(lab, stages)
        fs_abs = crashfs.abstract(dst)
        impl, ev, calls = lab.run(lab.spec(case, dst, False, mode="seq" if trace else None), trace=trace)
        if "ok" in impl:
            try:
                after = crashfs.abstract(dst)
            except crashfs.Unmodelled as e:        # the run left something behind that has no counterpart: judged as a folder that differs
                after = {"files": [[["?", str(e)[:80]], "P"]], "dirs": []}
        else:
            after = None
        return {"fs": fs_abs, "impl": impl, "calls": calls, "after": after, "events": ev, "folder": dst}
    except (crashfs.Unmodelled, fstrace.TraceError) as e:
        return {"unmodelled": str(e)}
    except Exception as e:  # noqa: BLE001  (replaying what pipefunc did must never crash the harness: an observation)
        return {"unmodelled": f"harness: {type(e).__name__}: {e}"[:300]}
    finally:
        if dst:
            lab.cleanup(dst)


def rec_of(case, history):
    return {"desc": case["desc"], "storage": case["storage"], "other": case.get("other") or [], "mode": case.get("mode", "seq"),
            "perm_seed": case.get("perm_seed", 0), "picker": case.get("picker") or [], "history": history}


def kill_hist(ev, folder, k, tear):
    nxt = None
    if k < len(ev):
        nxt = ev[k][0] + " " + (os.path.relpath(ev[k][1], folder) if ev[k][0] != "call" else ev[k][1])
    return {"kind": "kill", "after_events": k, "torn_bytes": tear, "of": len(ev), "next": nxt}


def trace_case(lab, case):
    """Phase A: the uninterrupted run, traced (repeated once when the trace cannot be read)."""
    t = _trace_case(lab, case)
    return _trace_case(lab, case) if "unmodelled" in t else t


def _trace_case(lab, case):
    f0 = lab.slot()
    try:
        res0, ev0, _calls = lab.run(lab.spec(case, f0, True), trace=True)
        full_abs = crashfs.abstract(f0) if "ok" in res0 else None
        return {"case": case, "f0": f0, "res0": res0, "ev0": ev0, "full_abs": full_abs}
    except (crashfs.Unmodelled, fstrace.TraceError) as e:
        return {"case": case, "f0": f0, "unmodelled": str(e)}
    except Exception as e:  # noqa: BLE001
        return {"case": case, "f0": f0, "unmodelled": f"harness: {type(e).__name__}: {e}"[:300]}
    finally:
        lab.cleanup(f0)


def raise_one(lab, case, order, g):
    fn = order[g][0]
    idx = sum(1 for q in order[:g] if q[0] == fn)        # the model's global call index g is the idx-th call of fn
    d = lab.slot()
    try:
        r1, ev1, _c1 = lab.run(lab.spec(case, d, True, fail={fn: idx}), trace=True)
        fs_abs = crashfs.abstract(d)
        r2, _e, c2 = lab.run(lab.spec(case, d, False))
        after = crashfs.abstract(d) if "ok" in r2 else None
        return {"first": r1, "events": ev1, "fs": fs_abs, "impl": r2, "calls": c2, "after": after, "folder": d, "fn": fn, "idx": idx, "g": g}
    except (crashfs.Unmodelled, fstrace.TraceError) as e:
        return {"unmodelled": str(e), "g": g}
    except Exception as e:  # noqa: BLE001
        return {"unmodelled": f"harness: {type(e).__name__}: {e}"[:300], "g": g}
    finally:
        lab.cleanup(d)


def check_all(ctx, lab, cases, second=0, max_states=None, max_raises=None, second_pts=24, raises2=1, raise_firsts_cap=10**9):
    # ---------------- phase A: uninterrupted runs under strace; one model batch
    traced = list(lab.pool.map(lambda c: trace_case(lab, c), cases))
    ctx.notes.append(f"t(traced runs)={ctx.elapsed():.1f}s")
    fresh = ctx.lean([{"m": "map.events", "a": model_req(t["case"])} for t in traced])
    live = []
    for t, fr in zip(traced, fresh):
        case, fr = t["case"], fr["r"]
        mode = case.get("mode", "seq")
        ctx.count(f"pipeline:{case['storage']}{'+mix' if case.get('other') else ''}:{mode}")
        rec0 = rec_of(case, [])
        if "unmodelled" in t:
            ctx.violation(rec0, f"the run performs a file-system operation the model has no counterpart for: {t['unmodelled']}", found_input=False,
                          item="correspondence:trace")
            continue
        if "err" in t["res0"]:
            ctx.violation(rec0, f"uninterrupted run fails with {t['res0']['err']}: {t['res0'].get('msg', '')[:140]}", impl=t["res0"])
            continue
        if "err" in fr["result"]:
            raise AssertionError(f"model refuses a generated case: {fr['result']}")
        t["fresh"] = fr
        t["full"] = {"outputs": t["res0"]["ok"]["outputs"], "files": data_files(t["full_abs"]), "model_calls": fr["calls"]}
        # (1) trace validation
        try:
            real = crashfs.canon_real(t["ev0"], t["f0"])
        except crashfs.Unmodelled as e:
            ctx.violation(rec0, f"the run performs a file-system operation the model has no counterpart for: {e}", found_input=False, item="correspondence:trace")
            continue
        model_ev = crashfs.canon_model(fr["events"])
        same = real == model_ev if mode == "seq" else sorted(map(json.dumps, real)) == sorted(map(json.dumps, model_ev))
        ctx.record(rec_of(case, [{"kind": "trace"}]), True, validated=True)
        ctx.count("trace-events", len(real))
        if {k: crashfs.canon(v) for k, v in fr["result"]["outputs"]} != t["full"]["outputs"]:
            ctx.violation(rec0, "model and implementation disagree on the uninterrupted outputs", found_input=False, item="correspondence:outputs")
            continue
        if not same:
            i = next((i for i, (a, b) in enumerate(zip(real, model_ev)) if a != b), min(len(real), len(model_ev)))
            ctx.violation(rec0, f"file-system event list of the real run differs from the model's at event {i}", found_input=False, item="correspondence:trace",
                          impl={"event": real[i] if i < len(real) else None, "n": len(real)},
                          model={"event": model_ev[i] if i < len(model_ev) else None, "n": len(model_ev)})
            # the crash enumeration below still evaluates the property itself on the real trace
        live.append(t)
    # ---------------- phase A': pool runs against the scheduled model (`runOnP` with the body order the pool really produced)
    par = []
    for t in live:
        if t["case"].get("mode", "seq") == "seq":
            continue
        try:
            orders = body_orders(t["case"], t["fresh"]["calls"], crashfs.canon_real(t["ev0"], t["f0"]))
            par.append((t, orders))
        except Exception as e:  # noqa: BLE001
            ctx.skip("par-order:" + type(e).__name__)
    if par:
        outs = ctx.lean([{"m": "map.par_events", "a": model_req(t["case"], orders=o)} for t, o in par])
        for (t, orders), o in zip(par, outs):
            real = crashfs.canon_real(t["ev0"], t["f0"])
            mod = crashfs.canon_model(o["r"]["events"])
            ctx.count("par-schedule:" + ("identity" if all(x == sorted(x) for x in orders) else "permuted"))
            ctx.record(rec_of(t["case"], [{"kind": "trace-par"}]), True, validated=True)
            exact = t["case"].get("mode") == "perm"        # bodies are atomic under the permuting executor: the event lists must be equal
            if [e for e in real if e[0] == "call"] != [e for e in mod if e[0] == "call"] or (exact and real != mod) or \
                    sorted(map(json.dumps, real)) != sorted(map(json.dumps, mod)) or "err" in o["r"]["result"]:
                ctx.violation(rec_of(t["case"], []), "the pool run is not the scheduled model's run for the body order it really had", found_input=False,
                              item="correspondence:trace-par", impl={"calls": [e for e in real if e[0] == "call"][:8]},
                              model={"calls": [e for e in mod if e[0] == "call"][:8], "orders": orders})
    # ---------------- phase B: every crash point of every trace, and every raising call; one model batch
    ctx.notes.append(f"t(trace validation)={ctx.elapsed():.1f}s")
    jobs = []
    for t in live:
        case, ev0, f0 = t["case"], t["ev0"], t["f0"]
        pts = crashfs.crash_points(ev0)
        ms = case.get("max_states") or max_states
        if ms and len(pts) > ms:
            # the last point (nothing lost: the COMPLETE folder is resumed, every stored value is read back) is always kept
            pts = [pts[i] for i in sorted(ctx.rng.sample(range(len(pts) - 1), ms - 1))] + [pts[-1]]
        t["ever0"] = crashfs.ever_complete(ev0, f0)
        for k, tear in pts:
            jobs.append((t, [kill_hist(ev0, f0, k, tear)], lab.pool.submit(resume_state, lab, case, [(ev0, k, tear, f0)])))
        t["raise_jobs"] = []
        if case.get("mode", "seq") == "seq":
            order = [(fn, li) for fn, li, _ in t["fresh"]["calls"]]
            gs = list(range(len(order)))
            if max_raises and len(gs) > max_raises:
                gs = sorted(ctx.rng.sample(gs, max_raises))
            t["raise_jobs"] = [lab.pool.submit(raise_one, lab, case, order, g) for g in gs]
    reqs, todo = [], []
    for t, h, fut in jobs:
        st = fut.result()
        if "unmodelled" in st:
            unmodelled(ctx, rec_of(t["case"], h), st); continue
        ctx.count("crash:torn" if h[-1]["torn_bytes"] is not None else "crash:prefix")
        reqs.append({"m": "map.run_on", "a": model_req(t["case"], fs=st["fs"])})
        todo.append(("kill", t, h, st))
    for t in live:
        for fut in t["raise_jobs"]:
            st = fut.result()
            if "unmodelled" in st:
                unmodelled(ctx, rec_of(t["case"], [{"kind": "raise", "global_call": st["g"]}]), st); continue
            reqs.append({"m": "map.events", "a": model_req(t["case"], cfg={"fail_at": st["g"]})})
            reqs.append({"m": "map.run_on", "a": model_req(t["case"], fs=st["fs"])})
            todo.append(("raise", t, [{"kind": "raise", "function": st["fn"], "call_index": st["idx"], "global_call": st["g"]}], st))
    ctx.notes.append(f"t(crash states resumed)={ctx.elapsed():.1f}s")
    outs = iter(ctx.lean(reqs) if reqs else [])
    ctx.notes.append(f"t(model on crash states)={ctx.elapsed():.1f}s")
    for kind, t, h, st in todo:
        case = t["case"]
        if kind == "kill":
            st["hist"] = h
            judge_resume(ctx, case, h, st["fs"], st["impl"], st["calls"], st["after"], t["full"], next(outs)["r"], stored_before=t["ever0"][h[0]["after_events"]])
            t.setdefault("states", []).append(st)
            continue
        mfail, mres = next(outs)["r"], next(outs)["r"]
        rec = rec_of(case, h)
        ctx.count("crash:raise")
        if st["first"].get("err") != "raised":
            ctx.violation(rec, f"the exception of the user function did not surface (got {st['first'].get('err', 'ok')})", impl=st["first"], key="raise not surfaced")
            continue
        try:
            if crashfs.canon_real(st["events"], st["folder"]) != crashfs.canon_model(mfail["events"]) or mfail["result"].get("err") != "raised":
                ctx.violation(rec, "event list of a run whose user function raises differs from the model's", found_input=False, item="correspondence:trace-raise")
            ctx.record(rec_of(case, h + [{"kind": "trace"}]), True, validated=True)
        except crashfs.Unmodelled as e:
            unmodelled(ctx, rec, {"unmodelled": str(e)})
        st["ever"] = crashfs.ever_complete(st["events"], st["folder"])[-1]
        judge_resume(ctx, case, h, st["fs"], st["impl"], st["calls"], st["after"], t["full"], mres, stored_before=st["ever"])
        if "ok" in st["impl"]:
            t.setdefault("raise_states", []).append((h, st))
    # ---------------- phase C: second crashes inside resumed runs (traced); two model batches
    # First interruptions: `second` random in-between states per pipeline, plus two directed ones - the COMPLETE folder (kill after
    # the last event: everything is stored, and the resumed run rewrites run_info.json, inputs, defaults and every dict snapshot, so
    # every rewrite window of the resumed run has a stored result at stake) and, for dict storage, the first state in which a
    # persisted dict exists while the folder is not complete (inside the persist loop).  Second interruptions: `second_pts` random
    # crash points of the traced resumed run, plus every window in which the trace of the resumed run has LOST a file that was
    # complete when it started (`crashfs.lost_at`; none on a tree that keeps `C05_stored_kept`).  The third run is judged against
    # what was stored after EITHER interruption.
    if not second:
        return
    firsts = []
    for t in live:
        sts = [st for st in t.get("states", []) if "ok" in st["impl"] and st["hist"][0]["torn_bytes"] is None]
        cand = [st for st in t.get("states", []) if "ok" in st["impl"] and data_files(st["fs"]) not in ({}, t["full"]["files"])]
        chosen = [("random", st) for st in (ctx.rng.sample(cand, min(second, len(cand))) if cand else [])]
        done = [st for st in sts if st["hist"][0]["after_events"] == len(t["ev0"])]
        chosen += [("complete", st) for st in done[:1]]
        mid = [st for st in sts if data_files(st["fs"]) != t["full"]["files"] and any(json.loads(p)[0] == "dictArr" and c != "P" for p, c in data_files(st["fs"]).items())]
        chosen += [("persist", st) for st in sorted(mid, key=lambda st: st["hist"][0]["after_events"])[:1] if all(st is not c for _, c in chosen)]
        for why, st in chosen:
            h = st["hist"]
            stage = (t["ev0"], h[0]["after_events"], h[0]["torn_bytes"], t["f0"])
            ctx.count("first-interruption:" + why)
            firsts.append((t, h, stage, why, lab.pool.submit(resume_state, lab, t["case"], [stage], True)))
        # ... and a first interruption that is a RAISING user call (the folder the failing run left = all events of its trace)
        rs = [x for x in t.get("raise_states", []) if data_files(x[1]["fs"]) not in ({}, t["full"]["files"])]
        for h, st in (ctx.rng.sample(rs, min(raises2, len(rs))) if rs and len(firsts) < raise_firsts_cap else []):
            stage = (st["events"], len(st["events"]), None, st["folder"])
            ctx.count("first-interruption:raise")
            firsts.append((t, h, stage, "raise", lab.pool.submit(resume_state, lab, t["case"], [stage], True)))
    firsts = [(t, h, stage, why, fut.result()) for t, h, stage, why, fut in firsts]
    for t, h, _stage, _why, first in firsts:
        if "unmodelled" in first:
            unmodelled(ctx, rec_of(t["case"], h + [{"kind": "trace"}]), first)
    firsts = [x for x in firsts if "unmodelled" not in x[4] and "ok" in x[4]["impl"]]
    m1s = ctx.lean([{"m": "map.run_on", "a": model_req(t["case"], fs=first["fs"])} for t, _h, _s, _w, first in firsts]) if firsts else []
    jobs = []
    for (t, h, stage, why, first), m1 in zip(firsts, m1s):
        case, ev1, f1 = t["case"], first["events"], first["folder"]
        try:
            if crashfs.canon_real(ev1, f1) != crashfs.canon_model(m1["r"]["events"], first["fs"]["dirs"]):
                ctx.violation(rec_of(case, h + [{"kind": "trace"}]), "event list of a resumed run differs from the model's", found_input=False,
                              item="correspondence:trace-resumed")
            ctx.record(rec_of(case, h + [{"kind": "trace"}]), True, validated=True)
        except crashfs.Unmodelled as e:
            unmodelled(ctx, rec_of(case, h + [{"kind": "trace"}]), {"unmodelled": str(e)})
        pts2 = crashfs.crash_points(ev1)
        n2 = second_pts if why == "random" else max(2, second_pts // 2)
        pts2 = [pts2[i] for i in sorted(ctx.rng.sample(range(len(pts2)), min(len(pts2), n2)))]
        lost = crashfs.lost_at(ev1, f1, first["fs"])
        ever1 = crashfs.ever_complete(ev1, f1, first["fs"])
        ever0 = t["ever0"][h[0]["after_events"]] if h[0]["kind"] == "kill" else crashfs.ever_complete(stage[0], stage[3])[-1]
        directed = [(k, None) for k in crashfs.loss_points(lost)]
        if directed:
            ctx.count("resumed-run-loses-stored-file", len(directed))
            if len(directed) > 8:
                directed = [directed[i] for i in sorted(ctx.rng.sample(range(len(directed)), 8))]
        for k2, t2 in directed + [p for p in pts2 if p not in directed]:
            h2 = kill_hist(ev1, f1, k2, t2)
            if t2 is None and lost[k2]:
                h2["lost"] = lost[k2][:6]
            jobs.append((t, h + [h2], (first["fs"], ever0 | ever1[k2]), lab.pool.submit(resume_state, lab, case, [stage, (ev1, k2, t2, f1)])))
    reqs, todo = [], []
    for t, h, fs1, fut in jobs:
        st = fut.result()
        if "unmodelled" in st:
            unmodelled(ctx, rec_of(t["case"], h), st); continue
        ctx.count("crash:second")
        reqs.append({"m": "map.run_on", "a": model_req(t["case"], fs=st["fs"])})
        todo.append((t, h, fs1, st))
    for (t, h, fs1, st), o in zip(todo, ctx.lean(reqs) if reqs else []):
        judge_resume(ctx, t["case"], h, st["fs"], st["impl"], st["calls"], st["after"], t["full"], o["r"], prior=[fs1[0]], stored_before=fs1[1])


def unmodelled(ctx, rec, st):
    """The harness could not replay / abstract what the implementation did (an operation, a file or a failure the model has no
    counterpart for): an observation, not a crash of the harness - reported as a disagreement without a failing input."""
    ctx.skip("unmodelled-file")
    ctx.violation(rec, f"what the run did cannot be replayed against the model: {st['unmodelled'][:200]}", found_input=False,
                  item="correspondence:replay", key="replay " + st["unmodelled"][:40])


# ------------------------------------------------------------------------------------------------ entry points
def _main_stream(ctx, lab, quick):
    cases = [copy.deepcopy(c) for c in CORPUS]
    for k in range(ctx.n(3, 30)):
        d = gen_case(ctx.rng)
        mapped = [f["name"] for f in d["funcs"] if f["mapspec"] and f["mapspec"]["inputs"]]
        other = [n for n in mapped if ctx.rng.random() < 0.5] if k % 4 == 3 else []      # every 4th pipeline: a per-output storage mix
        storage = "file_array" if k % 3 != 2 else "shared_memory_dict" if k % 12 == 5 and not other else "dict"      # (k = 5, 17, 29: thorough only)
        cases.append({"desc": d, "storage": storage, "other": other, "mode": "seq", "picker": []})
    for k in range(ctx.n(1, 6)):          # bodies of every generation in a random order (C03's permuting executor): `runOnP`
        cases.append({"desc": gen_case(ctx.rng), "storage": ["file_array", "dict"][k % 2], "mode": "perm", "perm_seed": ctx.rng.randrange(10**6),
                      "picker": [], "other": [], "max_states": 16 if quick else None})
    if not quick:
        for k in range(ctx.n(1, 8)):
            cases.append({"desc": gen_case(ctx.rng), "storage": ["file_array", "dict"][k % 2], "mode": "threads", "picker": []})
    check_all(ctx, lab, cases, second=1 if quick else 3, max_states=18 if quick else 200, max_raises=6 if quick else None, second_pts=4 if quick else 24,
              raises2=1, raise_firsts_cap=12 if quick else 10**9)      # quick: raise-then-kill histories for the first pipelines only (corpus)
    ctx.notes.append(f"t(crash enumeration)={ctx.elapsed():.1f}s")


def run(ctx):
    lab = Lab()
    try:
        quick = ctx.tier == "quick"
        only = set(filter(None, os.environ.get("VERIF_C05_ONLY", "").split(",")))      # debugging aid (mutation runs): a subset of main,cleanup,mutres,parfail
        pre = c05_parfail.prestart(ctx, lab, quick) if not only or "parfail" in only else None      # its real runs overlap with the phases below
        if not only or "main" in only:
            _main_stream(ctx, lab, quick)
        if not only or "cleanup" in only:
            c05_cleanup.stream(ctx, lab, quick)      # kills inside the removal of cleanup=True, then cleanup=False
            ctx.notes.append(f"t(+cleanup stream)={ctx.elapsed():.1f}s")
        if not only or "mutres" in only:
            c05_mutres.stream(ctx, lab, quick)       # resumes with a mutated request: refused, or equal to a fresh run of that request
            ctx.notes.append(f"t(+mutated-resume stream)={ctx.elapsed():.1f}s")
        if not only or "keys" in only:
            c05_keys.stream(ctx, lab, quick)         # key <-> linear index on the real storages, arbitrary stored subsets
            ctx.notes.append(f"t(+keys stream)={ctx.elapsed():.1f}s")
        if pre is not None:
            c05_parfail.stream(ctx, lab, quick, pre)     # pool runs in which a user call raises: later elements stored next to the failed one
            ctx.notes.append(f"t(+raising-pool-run stream)={ctx.elapsed():.1f}s")
    finally:
        lab.close()


def replay(ctx, rec):
    """Re-create the recorded crash history (one or two kills; a raise; a trace) on a fresh trace of the same pipeline and print
    both sides.  Records of the mutated-resume stream and of the cleanup stream are handed to their modules."""
    lab = Lab()
    try:
        hist = rec.get("history") or []
        kinds = [h["kind"] for h in hist]
        if "mutate" in kinds:
            import c05_mutres
            return c05_mutres.replay(ctx, lab, rec)
        if "keys" in kinds:
            return c05_keys.replay(ctx, lab, rec)
        if "raise-par" in kinds:
            return c05_parfail.replay(ctx, lab, rec)
        if "cleanup-kill" in kinds:
            try:
                import c05_cleanup
            except ImportError:
                print("harness/c05_cleanup.py is not present: cannot replay a cleanup-kill record")
                return None
            return c05_cleanup.replay(ctx, lab, rec)
        case = {"desc": rec["desc"], "storage": rec["storage"], "other": rec.get("other") or [], "mode": rec.get("mode", "seq"),
                "perm_seed": rec.get("perm_seed", 0), "picker": rec.get("picker") or []}
        f0 = lab.slot()
        res0, ev0, _ = lab.run(lab.spec(case, f0, True), trace=True)
        lab.cleanup(f0)
        print("uninterrupted:", json.dumps(res0)[:600])
        if not hist or hist[0]["kind"] == "trace":
            print("real events :", json.dumps(crashfs.canon_real(ev0, f0))[:3000])
            print("model events:", json.dumps(crashfs.canon_model(ctx.lean([{"m": "map.events", "a": model_req(case)}])[0]["r"]["events"]))[:3000])
            return None
        if hist[0]["kind"] == "raise" and len(hist) == 1:
            d = lab.slot()
            r1, _e, _c = lab.run(lab.spec(case, d, True, fail={hist[0]["function"]: hist[0]["call_index"]}))
            fs_abs = crashfs.abstract(d)
            r2, _e, c2 = lab.run(lab.spec(case, d, False))
            lab.cleanup(d)
            print("first run:", r1, "\nfolder:", json.dumps(fs_abs)[:1500], "\nresumed:", json.dumps(r2)[:600], "\ncalls:", c2)
        else:
            def show(n, ev, h, folder):
                print(f"stage {n}: killed after {h['after_events']} of {len(ev)} events" + (f" (recorded: of {h['of']})" if h.get("of") != len(ev) else "")
                      + (f", {h['torn_bytes']} bytes into the next write" if h["torn_bytes"] is not None else ""))
                for e in ev[:h["after_events"] + 1]:
                    print("   ", e[0], os.path.relpath(e[1], folder) if e[0] != "call" else e[1], len(e[2]) if e[0] == "write" else "")
            kills = [h for h in hist if h["kind"] == "kill"]
            if hist[0]["kind"] == "raise":      # first interruption: a raising call; the folder it leaves = all events of the failing run
                d = lab.slot()
                r1, evr, _c = lab.run(lab.spec(case, d, True, fail={hist[0]["function"]: hist[0]["call_index"]}), trace=True)
                lab.cleanup(d)
                print(f"stage 1: call {hist[0]['call_index']} of {hist[0]['function']} raises:", r1)
                stages, later = [(evr, len(evr), None, d)], kills
            else:
                stages, later = [(ev0, kills[0]["after_events"], kills[0]["torn_bytes"], f0)], kills[1:]
                show(1, ev0, kills[0], f0)
            for n, h in enumerate(later, 2):
                # the events of stage n are those of the (traced, sequential) resumed run on the state left by the stages before it
                prev = resume_state(lab, case, stages, True)
                if "unmodelled" in prev or "ok" not in prev["impl"]:
                    print(f"the resumed run on the state of stage {n - 1} does not complete; there is no stage {n}:", prev.get("unmodelled") or prev["impl"])
                    break
                print(f"resumed on the state of stage {n - 1} (traced):", json.dumps(prev["impl"])[:300], "\ncalls:", prev["calls"])
                show(n, prev["events"], h, prev["folder"])
                stages.append((prev["events"], h["after_events"], h["torn_bytes"], prev["folder"]))
            st = resume_state(lab, case, stages)
            print("folder:", json.dumps(st.get("fs"))[:1500], "\nresumed:", json.dumps(st.get("impl"))[:600], "\ncalls:", st.get("calls"))
            fs_abs = st.get("fs")
        print("model:", json.dumps(ctx.lean([{"m": "map.run_on", "a": model_req(case, fs=fs_abs)}])[0]["r"]["result"])[:600])
        return None
    finally:
        lab.close()
