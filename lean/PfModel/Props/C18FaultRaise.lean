import PfModel.Lemmas.LazyFaultRaise
import PfModel.Props.C18
/-!
C18, raising user functions — what a RAISING `evaluate()` leaves behind, for all tables (was "NOT proved … compared per step by the
harness" in fixes/C18/REPORT.md).  `evalF` is the fault-aware `_LazyFunction.evaluate` of Model/LazyFault.lean; `Closed` (the
`_LazyFunction`s among a node's arguments are older nodes) and `DoneClosed` (the arguments of an evaluated node are evaluated) are
clauses of the session invariant `Sess` (`Sess.closed`, `Sess.xclosed`); unlike `Sess` they survive a raise, so the theorems apply to
every `evaluate()` of a session of the stream `fault`, also after earlier raises.
-/
namespace PF.C18
open PF PF.Pipe PF.Lazy

/-- **A raising `evaluate()`.**  If `evaluate()` of node `id` raises out of node `j`, then `j` is a call of a function that is switched
    to faulty, the object depends on it, it had not returned before, its invocation is the last entry of the log — and NO node on the
    path from the object down to `j` (any node that depends on `j`, the object and `j` itself included) has its `_evaluated` flag set
    afterwards; what was evaluated stays evaluated, and the arguments of evaluated nodes are evaluated. -/
theorem C18_fault_raise (bad : List String) (nodes : List Lazy.Node) (hc : Closed nodes) (n id : Nat) (s s' : ESt) (j : Nat)
    (hdc : DoneClosed nodes s) (h : evalF bad nodes n id s = (s', .error (.raised j))) :
    BadCall bad nodes j ∧ Needs nodes (.ref id) j ∧ dlookup s.done j = none ∧ s'.log.getLast? = some j ∧
    (∀ i, Needs nodes (.ref i) j → dlookup s'.done i = none) ∧
    (∀ i, (dlookup s.done i).isSome → (dlookup s'.done i).isSome) ∧ (∃ l, s'.log = s.log ++ l) ∧ DoneClosed nodes s' := by
  have p := evalF_post bad hc n id s
  rw [h] at p
  simp only [okOf, raisedOf, raisedE] at p
  obtain ⟨hnone, ⟨r, hr, hn⟩, hb, hlast⟩ := p.raised j rfl
  simp only [List.mem_singleton] at hr; subst hr
  have hdc' := p.closed hdc
  refine ⟨hb, hn, ?_, hlast, ?_, p.mono, p.logext, hdc'⟩
  · cases hd : dlookup s.done j with
    | none => rfl
    | some w => have := p.mono j (by simp [hd]); rw [hnone] at this; cases this
  · intro i hi
    cases hd : dlookup s'.done i with
    | none => rfl
    | some w => have := needs_done hdc' (by simp [hd]) hi; rw [hnone] at this; cases this

/-- **A returning `evaluate()` under faults.**  If `evaluate()` of node `id` returns while functions are faulty, the node is memoised,
    everything it depends on is evaluated, and every faulty function it depends on had returned BEFORE this `evaluate()` (no faulty
    function returned now). -/
theorem C18_fault_return (bad : List String) (nodes : List Lazy.Node) (hc : Closed nodes) (n id : Nat) (s s' : ESt) (v : Val)
    (hdc : DoneClosed nodes s) (h : evalF bad nodes n id s = (s', .ok v)) :
    (∀ i, Needs nodes (.ref id) i → (dlookup s'.done i).isSome) ∧
    (∀ j, Needs nodes (.ref id) j → BadCall bad nodes j → (dlookup s.done j).isSome) ∧
    (∀ i, (dlookup s.done i).isSome → (dlookup s'.done i).isSome) ∧ (∃ l, s'.log = s.log ++ l) ∧ DoneClosed nodes s' := by
  have p := evalF_post bad hc n id s
  rw [h] at p
  simp only [okOf, raisedOf] at p
  have hid := p.ok rfl id (List.mem_singleton.mpr rfl)
  have hdc' := p.closed hdc
  refine ⟨fun i hi => needs_done hdc' hid hi, ?_, p.mono, p.logext, hdc'⟩
  intro j hj hb
  rcases p.good j (needs_done hdc' hid hj) with h1 | h1
  · exact h1
  · exact absurd hb h1

/-- **Raises iff a needed function that has not returned raises — the two directions that hold for all tables.**  (→) is
    `C18_fault_raise`; (←): while the object depends on a faulty function that has not returned, `evaluate()` does not return.
    NOT proved (hence `_partial`): that it then RAISES rather than ending in an error of the model (`FErr.model`: fuel, dangling id,
    pick on a non-tuple) — needs the totality argument of Lemmas/LazyTotal.lean redone for `evalF`. -/
theorem C18_fault_raises_iff_partial (bad : List String) (nodes : List Lazy.Node) (hc : Closed nodes) (n id : Nat) (s : ESt)
    (hdc : DoneClosed nodes s) :
    (∀ j, (evalF bad nodes n id s).2 = .error (.raised j) → Needs nodes (.ref id) j ∧ BadCall bad nodes j ∧ dlookup s.done j = none) ∧
    ((∃ j, Needs nodes (.ref id) j ∧ BadCall bad nodes j ∧ dlookup s.done j = none) → ∀ v, (evalF bad nodes n id s).2 ≠ .ok v) := by
  constructor
  · intro j hj
    obtain ⟨hb, hn, hd, _⟩ := C18_fault_raise bad nodes hc n id s (evalF bad nodes n id s).1 j hdc (by rw [← hj])
    exact ⟨hn, hb, hd⟩
  · rintro ⟨j, hn, hb, hd⟩ v hv
    obtain ⟨_, h2, _⟩ := C18_fault_return bad nodes hc n id s (evalF bad nodes n id s).1 v hdc (by rw [← hv])
    have := h2 j hn hb
    rw [hd] at this; cases this

/-- the same for `x.evaluate()` on an object of a session: the node table is untouched, the invariants used above are kept whatever the
    outcome, so the theorems apply to the next `evaluate()` too -/
theorem C18_fault_evaluate_keeps (bad : List String) (a : LArg) (s : LSt) (hc : Closed s.nodes) (hdc : DoneClosed s.nodes s.ev) :
    (evaluateF bad a s).1.nodes = s.nodes ∧ (evaluateF bad a s).1.tg = s.tg ∧ DoneClosed s.nodes (evaluateF bad a s).1.ev ∧
    (∀ i, (dlookup s.ev.done i).isSome → (dlookup (evaluateF bad a s).1.ev.done i).isSome) := by
  cases a with
  | val w => simp only [evaluateF, evalArgF]; exact ⟨trivial, trivial, hdc, fun _ h => h⟩
  | ref id =>
    have p := evalF_post bad hc (s.nodes.length + 1) id s.ev
    simp only [evaluateF, evalArgF]
    exact ⟨trivial, trivial, p.closed hdc, p.mono⟩

/-- the two hypotheses are clauses of the session invariant: they hold in every state a fault-free session reaches (and, by
    `C18_fault_evaluate_keeps`, after every `evaluate()` of a session with faults on the same table) -/
theorem C18_fault_hyps_of_session (fs : List Func) (s : LSt) (hs : Sess fs s) : Closed s.nodes ∧ DoneClosed s.nodes s.ev :=
  ⟨hs.closed, hs.xclosed⟩

example : Sess [] { memo := [], used := [], usedNone := false, nodes := [], tg := none, ev := ⟨[], []⟩, own := none, cfn := [] } :=
  C18_session_init [] false []

/-! ### non-vacuity: `f()` feeds `g(a)` (`nodesF` of Lemmas/LazyFaultRaise.lean), `f` is faulty -/

example :
    Closed nodesF ∧ DoneClosed nodesF ⟨[], []⟩ ∧
    (∃ s', evalF ["f"] nodesF 3 1 ⟨[], []⟩ = (s', .error (.raised 0))) ∧          -- hypotheses of `C18_fault_raise`
    (∃ s' v, evalF ["g"] nodesF 3 0 ⟨[], []⟩ = (s', .ok v)) ∧                     -- of `C18_fault_return` (the faulty `g` is not needed)
    (∃ j, Needs nodesF (.ref 1) j ∧ BadCall ["f"] nodesF j ∧ dlookup (⟨[], []⟩ : ESt).done j = none) :=
  ⟨nodesF_closed, doneClosed_empty _ _, ⟨_, rfl⟩, ⟨_, _, rfl⟩,
   ⟨0, .arg (.self rfl) (nd := .call gF [("a", .ref 0)]) rfl (by simp [Node.refs, argRefs]), ⟨fF, [], rfl, rfl⟩, rfl⟩⟩

/-- hypotheses of `C18_fault_evaluate_keeps` on a session state, and what `evaluateF` answers there -/
example :
    let s : LSt := { memo := [], used := [], usedNone := false, nodes := nodesF, tg := none, ev := ⟨[], []⟩ }
    Closed s.nodes ∧ DoneClosed s.nodes s.ev ∧ (evaluateF ["f"] (.ref 1) s).2 = .error (.raised 0) :=
  ⟨nodesF_closed, doneClosed_empty _ _, rfl⟩

/-- the raise leaves both nodes of the path unevaluated; the retry without the fault returns and memoises both -/
example :
    let r1 := evalF ["f"] nodesF 3 1 ⟨[], []⟩
    let r2 := evalF [] nodesF 3 1 r1.1
    r1.1.done.length = 0 ∧ r1.1.log = [0] ∧ r2.2.isOk = true ∧ r2.1.done.length = 2 ∧ r2.1.log = [0, 0, 1] := by
  decide

end PF.C18
