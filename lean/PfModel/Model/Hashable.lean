/-
Model of `pipefunc.cache.to_hashable` (`pipefunc/cache.py:652-759`) and of a memo table keyed by it
(`memoize`, `cache.py:514-599`).  Core Lean only.

Values (`PV`) are a rose tree: hashable leaves (`Atom`) and containers (`node kind children`).

* Numbers: `Atom.num r h` is the extended half-integer `h/2` (`r = 0`), `-inf` (`r = -1`) or `+inf` (`r = 1`).  Python's
  `==` and `hash` do not distinguish `1`, `1.0` and `True`, so the three are *one* model value (`num 0 2`); with that
  choice Python's `==` on hashable values is structural equality `=` of model values.  `nan` carries an object identity
  (`==`/`hash` of a NaN inside a tuple are identity based); NaNs produced by `ndarray.flatten()` are fresh objects on every
  call, the encoder gives them fresh identities.
* Class objects (`Atom.cls`) and the marker string are ordinary hashable values, so look-alikes of tagged keys can be
  written down as values (DF-32).
* `set`, `dict`, `defaultdict`, `Counter` children are listed in an *arbitrary* iteration order; dict-like children are
  the item tuples `(k, v)`.  A `frozenset` (hashable, never iterated by `to_hashable`) is listed in a canonical order
  chosen by the encoder.
* pandas objects and objects that reach the cloudpickle fallback are `opaque cls digest` (the digest is an input).
-/
namespace PF.Hashable

/-- class objects that occur as type tags (`tp = type(obj)`) or as values -/
inductive Cls
  | tuple | list | deque | set | frozenset | dict | odict | ddict | counter | bytearray | array | ndarray
  | int | float | bool | str | bytes | nonetype | other (n : Nat)
  deriving DecidableEq, Repr

inductive Atom
  | none
  | num (r h : Int)
  | nan (id : Nat)
  | str (s : List Nat)
  | bytes (b : List Nat)
  | cls (c : Cls)
  deriving DecidableEq, Repr

inductive Kind
  | tuple | fset | list | deque (maxlen : Option Nat) | set
  | dict | odict | ddict (factory : Atom) | counter
  | bytearray | array (tc : Nat) | ndarray (shape : List Nat) (dtype : List Nat)
  | opaque (cls : Nat) (digest : List Nat)
  deriving DecidableEq, Repr

inductive PV
  | atom (a : Atom)
  | node (k : Kind) (xs : List PV)
  deriving Repr

/-! ### decidable equality (no deriving handler for nested inductives) -/
mutual
def PV.beq : PV → PV → Bool
  | .atom a, .atom b => decide (a = b)
  | .node k xs, .node k' ys => decide (k = k') && PV.beqL xs ys
  | _, _ => false
def PV.beqL : List PV → List PV → Bool
  | [], [] => true
  | x :: xs, y :: ys => PV.beq x y && PV.beqL xs ys
  | _, _ => false
end

theorem PV.beq_iff : ∀ a b : PV, PV.beq a b = true ↔ a = b := by
  intro a
  refine PV.rec (motive_1 := fun a => ∀ b, PV.beq a b = true ↔ a = b)
    (motive_2 := fun xs => ∀ ys, PV.beqL xs ys = true ↔ xs = ys) ?_ ?_ ?_ ?_ a
  · intro a b; cases b <;> simp [PV.beq]
  · intro k xs ih b; cases b <;> simp [PV.beq, ih]
  · intro ys; cases ys <;> simp [PV.beqL]
  · intro x xs ihx ihxs ys; cases ys <;> simp [PV.beqL, ihx, ihxs]

instance : DecidableEq PV := fun a b =>
  if h : PV.beq a b = true then isTrue ((PV.beq_iff a b).1 h) else isFalse (fun e => h ((PV.beq_iff a b).2 e))

/-- `_HASH_MARKER = "__CONVERTED__"` (`cache.py:649`), as code points -/
def marker : List Nat := [95, 95, 67, 79, 78, 86, 69, 82, 84, 69, 68, 95, 95]

def tup (xs : List PV) : PV := .node .tuple xs
/-- `(m, tp, payload)` -/
def tagged (c : Cls) (p : PV) : PV := tup [.atom (.str marker), .atom (.cls c), p]

/-! ### `hash(obj)` succeeds -/
def Kind.hashableKind : Kind → Bool
  | .tuple | .fset => true
  | _ => false

mutual
/-- `hash(obj)` does not raise: scalars, class objects, tuples and frozensets of hashable values -/
def hashable : PV → Bool
  | .atom _ => true
  | .node k xs => k.hashableKind && hashableL xs
def hashableL : List PV → Bool
  | [] => true
  | x :: xs => hashable x && hashableL xs
end

/-- a tuple whose first element is the marker string -/
def markerHeaded : PV → Bool
  | .node .tuple (.atom (.str s) :: _) => decide (s = marker)
  | _ => false

/-! ### Python's `<` as used by `sorted` -/
inductive Cmp | lt | eq | gt | typeErr | partialOrd
  deriving DecidableEq, Repr

def Cmp.swap : Cmp → Cmp
  | .lt => .gt | .gt => .lt | c => c

/-- lexicographic comparison of code-point / byte strings -/
def cmpNL : List Nat → List Nat → Cmp
  | [], [] => .eq
  | [], _ :: _ => .lt
  | _ :: _, [] => .gt
  | a :: as, b :: bs => if a < b then .lt else if b < a then .gt else cmpNL as bs

/-- numbers (incl. bool) among themselves, str with str, bytes with bytes; `None`, class objects and mixed families
    raise `TypeError`; a NaN against a number answers `False` both ways (a partial order, no exception). -/
def cmpAtom : Atom → Atom → Cmp
  | .num r h, .num r' h' =>
    if r < r' then .lt else if r' < r then .gt else if h < h' then .lt else if h' < h then .gt else .eq
  | .nan _, .num _ _ => .partialOrd
  | .num _ _, .nan _ => .partialOrd
  | .nan _, .nan _ => .partialOrd
  | .str s, .str t => cmpNL s t
  | .bytes s, .bytes t => cmpNL s t
  | _, _ => .typeErr

mutual
/-- `a < b` / `b < a` for hashable values: tuples compare lexicographically (first index where the elements differ by
    `==`, then `<` there), frozensets by inclusion (a partial order), everything else raises `TypeError`. -/
def cmp : PV → PV → Cmp
  | .atom a, .atom b => cmpAtom a b
  | .node .tuple xs, .node .tuple ys => cmpL xs ys
  | .node .fset _, .node .fset _ => .partialOrd
  | _, _ => .typeErr
def cmpL : List PV → List PV → Cmp
  | [], [] => .eq
  | [], _ :: _ => .lt
  | _ :: _, [] => .gt
  | x :: xs, y :: ys => if x = y then cmpL xs ys else cmp x y
end

inductive Err | typeError | partialOrder | malformed
  deriving DecidableEq, Repr

instance : DecidableEq (Except Err PV)
  | .ok a, .ok b => if h : a = b then isTrue (h ▸ rfl) else isFalse (fun e => h (Except.ok.inj e))
  | .error a, .error b => if h : a = b then isTrue (h ▸ rfl) else isFalse (fun e => h (Except.error.inj e))
  | .ok _, .error _ => isFalse (fun e => nomatch e)
  | .error _, .ok _ => isFalse (fun e => nomatch e)

def pairwiseB (r : PV → PV → Bool) : List PV → Bool
  | [] => true
  | x :: xs => xs.all (r x) && pairwiseB r xs

def strictB (x y : PV) : Bool := cmp x y = .lt || cmp x y = .gt

def insertP (p : PV × PV) : List (PV × PV) → List (PV × PV)
  | [] => [p]
  | q :: qs => if cmp p.1 q.1 = .lt then p :: q :: qs else q :: insertP p qs

def isort : List (PV × PV) → List (PV × PV)
  | [] => []
  | p :: ps => insertP p (isort ps)

/-- `sorted(...)` of pairs `(sort key, converted item)` by the sort key.  Defined when the keys are pairwise strictly
    ordered by `<` (then every sorting algorithm returns the same list, `isort` is as good as timsort).  Otherwise:
    a pair in a partial order (NaN, frozensets) → `partialOrder` (Python's answer depends on the iteration order; the
    model leaves it unspecified); else a pair that raises → `typeError`; else (duplicates) `malformed`. -/
def sortP (ps : List (PV × PV)) : Except Err (List (PV × PV)) :=
  let ks := ps.map Prod.fst
  if pairwiseB strictB ks then .ok (isort ps)
  else if !pairwiseB (fun x y => cmp x y ≠ .partialOrd) ks then .error .partialOrder
  else if !pairwiseB (fun x y => cmp x y ≠ .typeErr) ks then .error .typeError
  else .error .malformed

/-! ### the type dispatch of `to_hashable` -/

/-- how the children of a container are converted (`cache.py:706-747`) -/
inductive Mode | elem | item | rawItem | rawAtom | leaf
  deriving DecidableEq, Repr

/-- `_hashable_iterable` → `elem`; `_hashable_mapping` → `item`; `tuple(sorted(obj.items()))` (Counter) → `rawItem`;
    `tuple(obj)` of bytearray / `array.array` / `ndarray.flatten()` → `rawAtom` -/
def Kind.mode : Kind → Mode
  | .tuple | .fset | .list | .deque _ | .set => .elem
  | .dict | .odict | .ddict _ => .item
  | .counter => .rawItem
  | .bytearray | .array _ | .ndarray _ _ => .rawAtom
  | .opaque _ _ => .leaf

/-- the branches called with `sort=True` (and Counter's explicit `sorted`).  A `frozenset` is hashable and returned as it
    is; the `set | frozenset` branch is reached by `set` only (an unhashable frozenset does not exist), the model lists
    it as unsorted so that the canonical listing of a frozenset is never reordered. -/
def Kind.sorted : Kind → Bool
  | .set | .dict | .ddict _ | .counter => true
  | _ => false

/-- `tp = type(obj)` -/
def Kind.cls : Kind → Cls
  | .tuple => .tuple | .fset => .frozenset | .list => .list | .deque _ => .deque | .set => .set
  | .dict => .dict | .odict => .odict | .ddict _ => .ddict | .counter => .counter
  | .bytearray => .bytearray | .array _ => .array | .ndarray _ _ => .ndarray | .opaque c _ => .other c

def natAtom (n : Nat) : PV := .atom (.num 0 (2 * (n : Int)))

/-- the payload built around the converted children `body` -/
def Kind.wrap (k : Kind) (body : List PV) : PV :=
  match k with
  | .deque ml => tup [match ml with | none => .atom .none | some n => natAtom n, tup body]      -- `(obj.maxlen, …)`
  | .ddict f => tup [.atom f, tup body]                                                          -- `(default_factory, …)`
  | .array tc => tup [.atom (.str [tc]), tup body]                                               -- `(obj.typecode, …)`
  | .ndarray sh dt => tup [tup (sh.map natAtom), .atom (.str dt), tup body]                      -- `(shape, dtype.str, …)`
  | .opaque _ d => .atom (.str d)                                                                -- `_cloudpickle_key(obj)`
  | _ => tup body

def isAtom : PV → Bool
  | .atom _ => true
  | _ => false

/-- Counter items `(k, count)`, used as they are; sort key `k` -/
def rawItems : List PV → Except Err (List (PV × PV))
  | [] => .ok []
  | .node .tuple [k, v] :: xs => do let cs ← rawItems xs; .ok ((k, tup [k, v]) :: cs)
  | _ :: _ => .error .malformed

def rawAtoms : List PV → Except Err (List (PV × PV))
  | [] => .ok []
  | x :: xs => if isAtom x then do let cs ← rawAtoms xs; .ok ((x, x) :: cs) else .error .malformed

/-- `sorted(...)` when the branch sorts -/
def sortIf (k : Kind) (cs : List (PV × PV)) : Except Err (List (PV × PV)) := if k.sorted then sortP cs else .ok cs

/-- sort (if the branch sorts), drop the sort keys, wrap, tag -/
def finish (k : Kind) (cs : List (PV × PV)) : Except Err PV :=
  match sortIf k cs with
  | .ok s => .ok (tagged k.cls (k.wrap (s.map Prod.snd)))
  | .error e => .error e

mutual
/-- `to_hashable(obj, fallback_to_pickle=True)` (`cache.py:652-759`).  `esc = true` is the repaired code (a tuple whose
    first element is the marker is tagged like an unhashable tuple), `esc = false` the pinned code (any hashable object
    is returned as it is).  The children are converted in iteration order, paired with their sort key, and sorted
    afterwards: `sorted(iterable)` followed by converting the items is the same list, because converting does not look
    at the neighbours.  `sorted(mapping.items())` compares item tuples; the keys of a mapping differ pairwise, so the
    comparison is decided at index 0: the sort key of an item is its dict key. -/
def key (esc : Bool) : PV → Except Err PV
  | .atom a => .ok (.atom a)
  | .node k xs =>
    if hashable (.node k xs) && !(esc && markerHeaded (.node k xs)) then .ok (.node k xs)      -- `hash(obj)` succeeded
    else match k.mode with
      | .elem => do let cs ← convElems esc xs; finish k cs
      | .item => do let cs ← convItems esc xs; finish k cs
      | .rawItem => do let cs ← rawItems xs; finish k cs
      | .rawAtom => do let cs ← rawAtoms xs; finish k cs
      | .leaf => match xs with
        | [] => finish k []
        | _ :: _ => .error .malformed
/-- `to_hashable(item) for item in items` -/
def convElems (esc : Bool) : List PV → Except Err (List (PV × PV))
  | [] => .ok []
  | x :: xs => do let c ← key esc x; let cs ← convElems esc xs; .ok ((x, c) :: cs)
/-- `(k, to_hashable(v)) for k, v in items` -/
def convItems (esc : Bool) : List PV → Except Err (List (PV × PV))
  | [] => .ok []
  | .node .tuple [k, v] :: xs => do let c ← key esc v; let cs ← convItems esc xs; .ok ((k, tup [k, c]) :: cs)
  | _ :: _ => .error .malformed
end

/-! ### well-formed values: what Python can actually build -/
def Kind.ordered : Kind → Bool
  | .set | .dict | .ddict _ | .counter => false
  | _ => true

mutual
/-- set / frozenset elements and mapping keys are hashable, mapping children are item pairs, Counter counts and the
    data of bytearray / array / ndarray are scalars, opaque objects have no children -/
def wf : PV → Bool
  | .atom _ => true
  | .node k xs =>
    wfL xs &&
    (match k with
     | .set | .fset => hashableL xs
     | .dict | .odict | .ddict _ => itemsOk xs
     | .counter => itemsOk xs && hashableL xs
     | .bytearray | .array _ | .ndarray _ _ => xs.all isAtom
     | .opaque _ _ => xs.isEmpty
     | _ => true)
def wfL : List PV → Bool
  | [] => true
  | x :: xs => wf x && wfL xs
def itemsOk : List PV → Bool
  | [] => true
  | .node .tuple [k, _] :: xs => hashable k && itemsOk xs
  | _ :: _ => false
end

/-- the sort key of a child: the element itself, or the dict key of an item -/
def sortKey1 : Mode → PV → PV
  | .item, .node .tuple (k :: _) => k
  | .rawItem, .node .tuple (k :: _) => k
  | _, x => x

mutual
/-- every collection that `to_hashable` sorts (set elements, keys of dict / defaultdict / Counter), at any depth, is
    pairwise strictly ordered by `<` — the hypothesis under which `sorted` neither raises nor depends on the input order -/
def comparable : PV → Bool
  | .atom _ => true
  | .node k xs => comparableL xs && (!k.sorted || pairwiseB strictB (xs.map (sortKey1 k.mode)))
def comparableL : List PV → Bool
  | [] => true
  | x :: xs => comparable x && comparableL xs
end

/-! ### the specification: two values are the same argument value -/
mutual
/-- `Equiv a b`: the same value up to the iteration order of sets and mappings at any depth.  (Numbers are already
    identified by value, attributes that `==` ignores — `default_factory`, `maxlen`, typecode, dtype — are part of the
    kind, so they must agree.) -/
inductive Equiv : PV → PV → Prop
  | atom (a : Atom) : Equiv (.atom a) (.atom a)
  | node (k : Kind) (xs xs' ys' ys : List PV) :
      (if k.ordered then xs = xs' else xs.Perm xs') → EquivL xs' ys' → (if k.ordered then ys' = ys else ys'.Perm ys) →
      Equiv (.node k xs) (.node k ys)
inductive EquivL : List PV → List PV → Prop
  | nil : EquivL [] []
  | cons (x y : PV) (xs ys : List PV) : Equiv x y → EquivL xs ys → EquivL (x :: xs) (y :: ys)
end

/-! ### a memo table keyed by `key` (`memoize`, `cache.py:560-592` with a `SimpleCache`) -/
structure Memo where
  /-- `(key, argument that produced the entry, stored result)` -/
  entries : List (PV × PV × Nat) := []
  /-- number of real calls so far; the result of the n-th real call is `n` (a fresh term) -/
  calls : Nat := 0

def Memo.lookup (k : PV) : List (PV × PV × Nat) → Option (PV × Nat)
  | [] => none
  | (k', a, r) :: es => if k' = k then some (a, r) else Memo.lookup k es

/-- one call of the memoized function: a hit returns the stored result, a miss calls the function and stores; a key
    error propagates (`unhashable_action="error"`) -/
def Memo.call (m : Memo) (arg : PV) : Except Err (Nat × Bool × Memo) :=
  match key true arg with
  | .error e => .error e
  | .ok k =>
    match Memo.lookup k m.entries with
    | some (_, r) => .ok (r, true, m)
    | none => .ok (m.calls, false, { entries := (k, arg, m.calls) :: m.entries, calls := m.calls + 1 })

/-- a sequence of calls: `(result, hit)` per call, `none` where the key is undefined -/
def Memo.run : Memo → List PV → List (Option (Nat × Bool))
  | _, [] => []
  | m, a :: as =>
    match m.call a with
    | .ok (r, hit, m') => some (r, hit) :: Memo.run m' as
    | .error _ => none :: Memo.run m as

end PF.Hashable
