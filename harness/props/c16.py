"""C16 — Type-annotation validation agrees with subtype compatibility.

Correspondence: `pipefunc.typing.is_type_compatible` on ordered pairs of real `typing` objects built from a recursive JSON
grammar, and `Pipeline([...], validate_type_annotations=...)` on 2-3 node pipelines wiring annotated functions directly,
through element-wise maps, reductions, partial reductions, generated and internal-shape MapSpecs, against `PF.Typing`
(lean/PfModel/Model/Typing.lean).  The clauses of the property statement (agreement with the declarative subtype relation
`Sub`, reflexivity, Any / missing, union source = all, union target = any, covariance, arity; accept / TypeError / validation
off) are evaluated directly on the implementation's answers as well.
"""
from __future__ import annotations

import contextlib
import copy
import functools
import operator
import io
import itertools
import json
import typing
from typing import Annotated, Any, TypeVar, Union

import numpy as np

import pfimport  # noqa: F401
from pfimport import exc_enum
from pipefunc import PipeFunc, Pipeline
from pipefunc.typing import Array, ArrayElementType, NoAnnotation, is_type_compatible

PID = "C16"
PROPS = ["PfModel.Props.C16", "PfModel.Props.C16Pipe", "PfModel.Props.C16Sem", "PfModel.Props.C16X", "PfModel.Props.C16XSub", "PfModel.Props.C16Inc", "PfModel.Props.C16Bridge"]
DRIVER = "C16"
RULE = ("annotations are real typing objects built from a JSON grammar (int,bool,float,str,bytes,None,Any,missing,object ndarray, "
        "list/set/tuple/dict[...], Union/Optional, Annotated[T, meta] with class or string metadata, unions spelled Union[...] or X | Y, Array[T], free/bounded/constrained "
        "TypeVar) and read back from the objects (so unions are as `typing` normalised them); pairs: all ordered pairs of the depth<=1 "
        "universe, sampled/exhaustive pairs of a depth-2 universe, and depth<=3 related pairs (b derived from a by widening, narrowing, "
        "perturbing a subterm, or independent); pipelines: 2-3 functions over 12 MapSpec wirings with related edge types, validation on "
        "and off. A pair is non-trivial when neither side is Any/missing/a TypeVar at top level and the two differ; a pipeline when it "
        "has an edge that is actually checked; distinct by the case's JSON. Extension: description-level pipelines (harness/c16_desc.py: 2-4 "
        "callables of 10 flavours built from generated source text, tuple outputs with tuple[...] / too short / too long / variadic / "
        "non-tuple / missing / unresolvable return hints, renames, scopes, bound parameters, defaults, quoted and __future__ annotations, "
        "MapSpecs; non-trivial when an explicitly annotated, non-exempt edge relates two different annotations) and annotations outside the "
        "grammar (harness/c16_exotic.py: all ordered pairs over a fixed list of Literal / Callable / type[...] / NDArray / abc generics / "
        "variadic tuples / bare aliases / user generics; not modelled, counted under exotic:not-modelled)")
ASSUMPTIONS = ["Python's `==` on typing objects (used by the shortcut typing.py:88) is structural equality up to the order of union members; "
               "the model has no such shortcut and proves reflexivity of the remaining dispatch instead",
               "Annotated carries exactly one metadata item (is_object_array_type unpacks exactly two arguments); variadic tuples, bare "
               "generics, Literal, Callable and user classes are outside the generated grammar",
               "TypeVar bounds and constraints are TypeVar-free annotations of depth <= 2",
               "description-level pipelines: the MapSpecs in the description are read from the constructed pipeline (MapSpec auto-generation "
               "is not modelled); the hints of each callable are predicted from the generated source (checked against parameter_annotations / "
               "output_annotation of the real PipeFunc); the loop's comparisons are observed by wrapping the module global "
               "pipefunc._pipeline._validation.is_type_compatible; Pipeline.add validates after every function, the last run of the loop is the "
               "one observed",
               "annotations outside the grammar (Literal, Callable, type[...], NDArray, abc generics, variadic tuples, user generics) are not "
               "modelled: only totality (a bool, no exception), reflexivity, Any / missing, union introduction / elimination and acceptance of "
               "an edge with identical annotations are demanded of them",
               "the MapSpec structure sent to the model is the case's own (the harness checks that pipefunc parsed/generated the same "
               "names, axes and _is_generated flags)"]

NDARR = np.ndarray[Any, np.dtype[np.object_]]
BASES = {"int": int, "bool": bool, "float": float, "str": str, "bytes": bytes, "None": type(None)}
GENS = {"list": list, "set": set, "tuple": tuple, "dict": dict}


class Meta:
    """metadata object for plain Annotated"""


class UserA:
    """a user-defined class of the grammar ("A")"""


class UserB(UserA):
    """a subclass of `UserA` ("B")"""


BASES.update({"A": UserA, "B": UserB})
_CLS_BACK: dict[int, tuple[str, Any]] = {}      # per-case classes of the description-level pipelines (harness/c16_desc.py)


def register_classes(a, b):
    if len(_CLS_BACK) > 4000:
        _CLS_BACK.clear()
    _CLS_BACK[id(a)] = ("A", a)
    _CLS_BACK[id(b)] = ("B", b)


def mentions(t, names):
    """does the JSON annotation mention one of the leaf names / constructor keys `names`"""
    if t is None:
        return False
    if isinstance(t, str):
        return t in names
    if isinstance(t, list):
        return any(mentions(x, names) for x in t)
    return any(k in names for k in t) or any(mentions(x, names) for v in t.values() for x in (v if isinstance(v, list) else [v]))


# ------------------------------------------------------------------------------------------------ JSON <-> typing objects
_TV: dict[str, TypeVar] = {}
_TV_BACK: dict[int, Any] = {}
_PY: dict[str, Any] = {}
_CANON: dict[tuple[str, str], Any] = {}


def key(j) -> str:
    return json.dumps(j, sort_keys=True)


def _tv(j):
    k = key(j)
    if k not in _TV:
        n = f"TV{len(_TV)}"
        if j == "T":
            tv = TypeVar(n)
        elif "tvb" in j:
            tv = TypeVar(n, bound=to_py(j["tvb"]))
        else:
            tv = TypeVar(n, *[to_py(c) for c in j["tvc"]])
        _TV[k] = tv
        _TV_BACK[id(tv)] = j
    return _TV[k]


def to_py(j, meta="class"):
    """the typing object denoted by the JSON annotation `j`"""
    k = meta + key(j)
    if k in _PY:
        return _PY[k]
    if isinstance(j, str):
        if j in BASES:
            o = BASES[j]
        elif j == "Any":
            o = Any
        elif j == "NoAnn":
            o = NoAnnotation
        elif j == "ndarray":
            o = NDARR
        elif j == "T":
            o = _tv(j)
        else:
            raise ValueError(j)
    elif "g" in j:
        args = tuple(to_py(x, meta) for x in j["a"])
        o = GENS[j["g"]][args if len(args) != 1 else args[0]]
    elif "u" in j:
        ms_ = tuple(to_py(x, meta) for x in j["u"])
        o = Union[ms_]
        if meta == "pipe":                      # PEP 604 spelling: `X | Y` (a types.UnionType when all members are classes)
            try:
                o = functools.reduce(operator.or_, ms_)
            except TypeError:
                pass
    elif "an" in j:
        o = Annotated[to_py(j["an"], meta), ("unit: m" if meta == "str" else Meta)]
    elif "arr" in j:
        o = Array[to_py(j["arr"], meta)]
    elif "tvb" in j or "tvc" in j:
        o = _tv(j)
    elif "lit" in j:                                # extended language (harness/c16_x.py): Literal[v, ..], JSON null = None
        o = typing.Literal[tuple(j["lit"])]
    elif "vt" in j:                                 # extended language: tuple[T, ...]
        o = tuple[to_py(j["vt"], meta), ...]
    else:
        raise ValueError(j)
    _PY[k] = o
    return o


class Unsupported(Exception):
    pass


def from_py(o):
    """read the JSON annotation back from a typing object (what `typing` actually built: unions flattened, deduplicated)"""
    for n, c in BASES.items():
        if o is c:
            return n
    if o is None:                                   # a raw `None` inside a string annotation (`'list[None]'`)
        return "None"
    if id(o) in _CLS_BACK and _CLS_BACK[id(o)][1] is o:
        return _CLS_BACK[id(o)][0]
    if o is Any:
        return "Any"
    if o is NoAnnotation:
        return "NoAnn"
    if isinstance(o, TypeVar):
        if id(o) in _TV_BACK:
            return _TV_BACK[id(o)]
        raise Unsupported("foreign TypeVar")
    if o == NDARR:
        return "ndarray"
    origin = typing.get_origin(o)
    args = typing.get_args(o)
    if origin in (Union, getattr(__import__("types"), "UnionType")):
        return {"u": [from_py(x) for x in args]}
    if origin is Annotated:
        primary, *md = args
        el = [typing.get_args(m)[0] for m in md if typing.get_origin(m) is ArrayElementType]
        if el:
            if primary != NDARR:
                raise Unsupported("ArrayElementType on a non-ndarray primary")
            return {"arr": from_py(el[0])}
        return {"an": from_py(primary)}
    for n, c in GENS.items():
        if origin is c:
            if Ellipsis in args:
                raise Unsupported("variadic tuple")
            return {"g": n, "a": [from_py(x) for x in args]}
    raise Unsupported(repr(o))


def canon(j, meta="class"):
    """(typing object, read-back JSON) of a generated annotation"""
    k = (meta, key(j))
    if k not in _CANON:
        o = to_py(j, meta)
        _CANON[k] = (o, from_py(o))
    return _CANON[k]


# ------------------------------------------------------------------------------------------------ reference relation Sub
def is_tv(t):
    return t == "T" or (isinstance(t, dict) and ("tvb" in t or "tvc" in t))


def strip(t):
    while isinstance(t, dict) and "an" in t:
        t = t["an"]
    return t


def sub_ref(a, b) -> bool:
    """decision procedure for the declarative relation `PF.Typing.Sub` (Lemmas/Typing.lean): Annotated transparent on both
    sides; incoming TypeVar / missing accepted; Any, missing, free TypeVar accept everything; union source needs all members,
    union target one; bounded TypeVar = its bound, constrained = one constraint; nominal bool <= int; covariant generics of equal
    arity (an unparametrised side accepts); Array covariant, Array[T] <= object ndarray, object ndarray accepted as Array[T]."""
    a, b = strip(a), strip(b)
    if is_tv(a) or a == "NoAnn" or b in ("Any", "NoAnn", "T"):
        return True
    if isinstance(a, dict) and "u" in a:
        return all(sub_ref(x, b) for x in a["u"])
    if isinstance(b, dict):
        if "tvb" in b:
            return sub_ref(a, b["tvb"])
        if "tvc" in b:
            return any(sub_ref(a, c) for c in b["tvc"])
        if "u" in b:
            return any(sub_ref(a, y) for y in b["u"])
    if a == "Any":
        return False
    if isinstance(a, str) and isinstance(b, str):
        return a == b or (a, b) in (("bool", "int"), ("B", "A"))
    if isinstance(a, dict) and isinstance(b, dict):
        if "g" in a and "g" in b:
            if a["g"] != b["g"]:
                return False
            if not a["a"] or not b["a"]:
                return True
            return len(a["a"]) == len(b["a"]) and all(sub_ref(x, y) for x, y in zip(a["a"], b["a"]))
        if "arr" in a and "arr" in b:
            return sub_ref(a["arr"], b["arr"])
        return False
    if isinstance(a, dict) and "arr" in a:
        return b == "ndarray"
    if isinstance(b, dict) and "arr" in b:
        return a == "ndarray"
    return False


def atoms(t):
    """the non-union, non-Annotated alternatives a source annotation consists of"""
    t = strip(t)
    if isinstance(t, dict) and "u" in t:
        return [x for m in t["u"] for x in atoms(m)]
    return [t]


# ------------------------------------------------------------------------------------------------ generators
LEAVES = ["int", "bool", "float", "str", "bytes", "None", "Any", "NoAnn", "T", "ndarray", "A", "B"]
COMMON = ["int", "bool", "float", "str", "bytes", "None", "Any", "A", "B"]


def kind(t):
    if isinstance(t, str):
        return t if t in ("Any", "NoAnn", "T", "ndarray") else "base"
    return next(iter(k for k in ("g", "u", "an", "arr", "tvb", "tvc", "lit", "vt") if k in t))


def depth(t):
    if isinstance(t, str):
        return 0
    if "g" in t:
        return 1 + max([depth(x) for x in t["a"]] + [0])
    for k in ("u", "tvc"):
        if k in t:
            return 1 + max(depth(x) for x in t[k])
    for k in ("an", "arr", "tvb", "vt"):
        if k in t:
            return 1 + depth(t[k])
    if "lit" in t:
        return 0
    raise ValueError(t)


def gen_leaf(rng):
    return rng.choice(COMMON) if rng.random() < 0.85 else rng.choice(LEAVES)


def gen_simple(rng):
    """TypeVar-free annotation of depth <= 1 (bounds and constraints of TypeVars)"""
    r = rng.random()
    if r < 0.6:
        return rng.choice(["int", "bool", "float", "str", "bytes", "None"])
    if r < 0.75:
        return {"g": rng.choice(["list", "set"]), "a": [rng.choice(COMMON[:6])]}
    if r < 0.85:
        return {"u": rng.sample(COMMON[:6], 2)}
    if r < 0.93:
        return {"arr": rng.choice(COMMON[:6])}
    return {"an": rng.choice(COMMON[:6])}


def gen_union(rng, d, n=None):
    ms = []
    for _ in range(n or rng.choice([2, 2, 2, 3])):
        for _ in range(8):
            m = gen_ty(rng, d)
            if kind(m) != "u" and all(key(m) != key(x) for x in ms):
                ms.append(m)
                break
    if len(ms) < 2:
        ms = ["int", "None"]
    return {"u": ms}


def gen_ty(rng, d):
    """a well-formed annotation of depth <= d"""
    if d <= 0 or rng.random() < 0.25:
        return gen_leaf(rng)
    r = rng.random()
    if r < 0.12:
        return {"g": "list", "a": [gen_ty(rng, d - 1)]}
    if r < 0.18:
        return {"g": "set", "a": [gen_ty(rng, d - 1)]}
    if r < 0.32:
        return {"g": "tuple", "a": [gen_ty(rng, d - 1) for _ in range(rng.choice([1, 2, 2, 3]))]}
    if r < 0.42:
        return {"g": "dict", "a": [gen_ty(rng, d - 1), gen_ty(rng, d - 1)]}
    if r < 0.60:
        return gen_union(rng, d - 1)
    if r < 0.66:
        m = gen_ty(rng, d - 1)
        return {"u": [m, "None"]} if kind(m) != "u" and m != "None" else m
    if r < 0.78:
        for _ in range(8):
            p = gen_ty(rng, d - 1)
            if kind(p) not in ("an", "arr"):
                return {"an": p}
        return {"an": "int"}
    if r < 0.90:
        return {"arr": gen_ty(rng, d - 1)}
    if r < 0.95:
        return {"tvb": gen_simple(rng)}
    cs = []
    while len(cs) < 2:
        c = gen_simple(rng)
        if all(key(c) != key(x) for x in cs):
            cs.append(c)
    return {"tvc": cs}


def subterms(t, path=()):
    yield path, t
    if isinstance(t, dict):
        for k in ("a", "u"):
            if k in t:
                for i, x in enumerate(t[k]):
                    yield from subterms(x, path + ((k, i),))
        for k in ("an", "arr", "vt"):
            if k in t:
                yield from subterms(t[k], path + ((k, None),))


def replace_at(t, path, new):
    if not path:
        return new
    t = copy.deepcopy(t)
    cur = t
    for k, i in path[:-1]:
        cur = cur[k] if i is None else cur[k][i]
    k, i = path[-1]
    if i is None:
        cur[k] = new
    else:
        cur[k][i] = new
    return t


def well_formed(t):
    if isinstance(t, str):
        return True
    if "u" in t:
        ms = t["u"]
        return len(ms) >= 2 and all(kind(m) != "u" for m in ms) and len({key(m) for m in ms}) == len(ms) and all(map(well_formed, ms))
    if "an" in t:
        return kind(t["an"]) not in ("an", "arr") and well_formed(t["an"])
    if "g" in t:
        return bool(t["a"]) and all(map(well_formed, t["a"]))
    if "arr" in t:
        return well_formed(t["arr"])
    if "tvb" in t:
        return well_formed(t["tvb"])
    return all(map(well_formed, t["tvc"]))


def widen1(rng, t):
    """a variant that usually accepts `t`"""
    r = rng.random()
    if r < 0.12:
        return rng.choice(["Any", "NoAnn", "T"])
    if r < 0.30:
        ms = (list(t["u"]) if kind(t) == "u" else [t]) + [rng.choice(COMMON[:6])]
        rng.shuffle(ms)
        return {"u": ms}
    if r < 0.42 and kind(t) not in ("an", "arr"):
        return {"an": t}
    if r < 0.50:
        return {"tvb": t} if depth(t) <= 1 and not any(is_tv(s) for _, s in subterms(t)) else t
    if r < 0.58 and depth(t) <= 1 and not any(is_tv(s) for _, s in subterms(t)):
        return {"tvc": rng.sample([t, rng.choice(["float", "bytes"])], 2)} if key(t) not in (key("float"), key("bytes")) else t
    if r < 0.70 and kind(t) == "u":
        ms = list(t["u"])
        rng.shuffle(ms)
        return {"u": ms}
    if t == "bool":
        return "int"
    if t == "B":
        return "A"
    if kind(t) == "arr" and r < 0.8:
        return "ndarray"
    return t


def narrow1(rng, t):
    """a variant that `t` usually accepts"""
    r = rng.random()
    if t == "int" and r < 0.6:
        return "bool"
    if t == "A" and r < 0.6:
        return "B"
    if kind(t) == "u":
        ms = list(t["u"])
        if r < 0.5:
            return rng.choice(ms)
        if len(ms) > 2:
            ms.pop(rng.randrange(len(ms)))
            return {"u": ms}
    if kind(t) == "an" and r < 0.5:
        return t["an"]
    if kind(t) == "tvb" and r < 0.7:
        return t["tvb"]
    if kind(t) == "tvc" and r < 0.7:
        return rng.choice(t["tvc"]) if r < 0.4 else {"u": list(t["tvc"])}
    if r < 0.15 and kind(t) not in ("an", "arr"):
        return {"an": t}
    if r < 0.2:
        return rng.choice(["NoAnn", "T"])
    return t


def perturb1(rng, t, d):
    r = rng.random()
    if kind(t) == "g" and r < 0.4:
        a = list(t["a"])
        if t["g"] == "tuple" and r < 0.25:
            if len(a) > 1 and rng.random() < 0.5:
                a.pop(rng.randrange(len(a)))
            else:
                a.insert(rng.randrange(len(a) + 1), gen_ty(rng, 0))
            return {"g": "tuple", "a": a}
        if len(a) == 1:
            return {"g": rng.choice(["list", "set", "tuple"]), "a": a}
        return {"g": rng.choice(["tuple", "dict"]) if len(a) == 2 else "tuple", "a": a}
    return gen_ty(rng, d)


def derive(rng, t, how):
    """apply one of widen / narrow / perturb at a random subterm"""
    subs = list(subterms(t))
    path, s = rng.choice(subs)
    d = max(0, 3 - len(path))
    new = {"widen": widen1, "narrow": narrow1}[how](rng, s) if how != "perturb" else perturb1(rng, s, min(d, 2))
    out = replace_at(t, path, new)
    return out if well_formed(out) and depth(out) <= 3 else t


def gen_pair(rng):
    r = rng.random()
    a = gen_ty(rng, rng.choice([1, 2, 2, 3, 3]))
    if r < 0.08:
        return a, a, "same"
    if r < 0.40:
        b = derive(rng, a, "widen")
        if rng.random() < 0.4:
            b = derive(rng, b, "widen")
        return a, b, "widened"
    if r < 0.62:
        b = derive(rng, a, "narrow")
        if rng.random() < 0.3:
            b = derive(rng, b, "narrow")
        return b, a, "narrowed-source"
    if r < 0.72:
        return derive(rng, a, "widen"), a, "widened-source"
    if r < 0.88:
        return (a, derive(rng, a, "perturb"), "perturbed") if rng.random() < 0.5 else (derive(rng, a, "perturb"), a, "perturbed")
    return a, gen_ty(rng, rng.choice([1, 2, 3])), "independent"


def universe1():
    """all annotations of depth <= 1 over a fixed menu"""
    b = ["int", "bool", "float", "str", "None", "A", "B"]
    out = list(LEAVES)
    for t in b + ["Any", "NoAnn", "T"]:
        out += [{"g": "list", "a": [t]}, {"g": "set", "a": [t]}, {"an": t}, {"arr": t}, {"g": "tuple", "a": [t]}]
    for t in b[:4]:
        out += [{"tvb": t}]
    for t, u in itertools.product(["int", "bool", "str", "None", "A", "B"], repeat=2):
        out += [{"g": "tuple", "a": [t, u]}, {"g": "dict", "a": [t, u]}]
        if t < u:
            out += [{"u": [t, u]}, {"tvc": [t, u]}]
    out += [{"g": "tuple", "a": ["int", "int", "int"]}, {"u": ["int", "str", "None"]}, {"u": ["bool", "Any"]}, {"u": ["ndarray", "None"]},
            {"u": ["int", "NoAnn"]}, {"u": ["int", "T"]}]
    return out


def universe2(rng, n):
    """depth-2 annotations built over a sample of the depth-1 universe"""
    u1 = universe1()
    inner = [t for t in u1 if kind(t) not in ("Any", "NoAnn", "T")]
    out, seen = [], set()
    while len(out) < n:
        t = rng.choice(inner)
        r = rng.random()
        if r < 0.2:
            c = {"g": rng.choice(["list", "set"]), "a": [t]}
        elif r < 0.35:
            c = {"g": "tuple", "a": [t, rng.choice(inner)][: rng.choice([1, 2])]}
        elif r < 0.45:
            c = {"g": "dict", "a": [rng.choice(["int", "str"]), t]}
        elif r < 0.65:
            c = {"u": [t, rng.choice(inner)]}
        elif r < 0.8:
            c = {"an": t}
        elif r < 0.95:
            c = {"arr": t}
        else:
            c = {"u": [t, "None"]}
        if well_formed(c) and depth(c) <= 2 and key(c) not in seen:
            seen.add(key(c))
            out.append(c)
    return out


# ------------------------------------------------------------------------------------------------ pairs: one case
def impl_compat(a_obj, b_obj):
    try:
        r = is_type_compatible(a_obj, b_obj)
        return r if isinstance(r, bool) else f"non-bool:{r!r}"
    except Exception as e:  # noqa: BLE001
        return "EXC:" + exc_enum(e)


def nontrivial_pair(a, b):
    top = ("Any", "NoAnn", "T", "tvb", "tvc")
    return kind(a) not in top and kind(b) not in top and key(a) != key(b)


def pair_laws(ctx, a, b, ao, bo, got, meta):
    """the algebraic clauses of the statement, evaluated on the implementation only; returns the first failing clause"""
    c = impl_compat
    if c(ao, ao) is not True:
        return "not reflexive: is_type_compatible(A, A) is not True"
    if c(ao, Any) is not True:
        return "Any does not accept A"
    if c(NoAnnotation, bo) is not True or c(ao, NoAnnotation) is not True:
        return "a missing annotation is not compatible with everything"
    if kind(a) == "u":
        members = [c(to_py(m, meta), bo) for m in a["u"]]
        if got != all(m is True for m in members):
            return f"union source: whole={got} but members={members}"
        sh = list(a["u"])[::-1]
        if c(ao, to_py({"u": sh}, meta)) is not True:
            return "a union is not compatible with itself reordered"
    if kind(b) == "u":
        ats = atoms(a)
        want = all(any(c(to_py(x, meta), to_py(y, meta)) is True for y in b["u"]) for x in ats)
        if got != want:
            return f"union target: whole={got} but all-of-any over the source alternatives={want}"
    for wrap in ("list", "arr", "tuple2"):
        if wrap == "list":
            wa, wb = {"g": "list", "a": [a]}, {"g": "list", "a": [b]}
        elif wrap == "arr":
            wa, wb = {"arr": a}, {"arr": b}
        else:
            wa, wb = {"g": "tuple", "a": [a, "str"]}, {"g": "tuple", "a": [b, "str"]}
        if c(to_py(wa, meta), to_py(wb, meta)) != got:
            return f"covariance: {wrap}[A] -> {wrap}[B] differs from A -> B = {got}"
    if c(to_py({"g": "tuple", "a": [a, a]}, meta), to_py({"g": "tuple", "a": [a]}, meta)) is not False:
        return "arity: tuple[A, A] accepted for tuple[A]"
    return None


def check_pairs(ctx, cases, laws_every=1):
    """cases: dicts {"kind": "pair", "a": json, "b": json, "meta": "class"|"str", "src": label}"""
    todo, reqs = [], []
    for i, case in enumerate(cases):
        meta = case.get("meta", "class")
        try:
            ao, a = canon(case["a"], meta)
            bo, b = canon(case["b"], meta)
        except Unsupported as e:
            ctx.skip(f"unsupported:{e}")
            continue
        if key(a) != key(case["a"]) or key(b) != key(case["b"]):
            ctx.count("pair:normalised-by-typing")
        got = impl_compat(ao, bo)
        law = pair_laws(ctx, a, b, ao, bo, got, meta) if i % laws_every == 0 else None
        todo.append((case, a, b, got, law))
    for k in range(0, len(todo), 500):
        reqs.append({"m": "typing.compat", "a": {"pairs": [[a, b] for _, a, b, _, _ in todo[k:k + 500]]}})
    outs = [x for resp in ctx.lean(reqs) for x in resp["r"]] if reqs else []
    for (case, a, b, got, law), model in zip(todo, outs):
        want = sub_ref(a, b)
        ctx.count(f"pair:src:{case.get('src', '?')}")
        ctx.count(f"pair:result:{model}")
        ctx.count(f"pair:kinds:{kind(a)}->{kind(b)}")
        ctx.count(f"pair:depth:{max(depth(a), depth(b))}")
        if case.get("meta", "class") != "class":
            ctx.count("pair:variant:" + {"str": "string-metadata", "pipe": "pep604-union-syntax"}[case["meta"]])
        ctx.record({"a": a, "b": b, "meta": case.get("meta", "class")}, nontrivial_pair(a, b))
        rcase = {"kind": "pair", "a": a, "b": b, "meta": case.get("meta", "class")}
        if got != want:
            ctx.violation(rcase, f"is_type_compatible(A, B) = {got} but {'every' if want else 'not every'} value of A is acceptable for B "
                                 f"(reference relation Sub = {want})", impl=got, model=model, key=f"pair-vs-sub:{got}:{want}")
        elif law:
            ctx.violation(rcase, f"clause fails on the implementation: {law}", impl=got, model=model, key="law:" + law[:30])
        elif got != model:
            ctx.violation(rcase, "implementation and model disagree on is_type_compatible (reference relation agrees with the implementation)",
                          found_input=False, item="correspondence:typing.compat", impl=got, model=model)
        if model != want:
            ctx.violation(rcase, f"model compat = {model} but the Python transcription of Sub = {want} (theorem C16_sound/C16_complete or the "
                                 "transcription is wrong)", found_input=False, item="correspondence:sub_ref", impl=got, model=model)


# ------------------------------------------------------------------------------------------------ pipelines
def ms(ins, outs, generated=False):
    return {"ins": ins, "outs": outs, "generated": generated}


def ms_str(m):
    def side(specs):
        return ", ".join(f"{n}[{', '.join(':' if a is None else a for a in ax)}]" for n, ax in specs)
    return f"{side(m['ins']) or '...'} -> {side(m['outs'])}"


# wiring templates: per function (params, user mapspec, mapspec after Pipeline's auto-generation)
# f0(x[, z]) -> y0 ; f1(y0[, w]) -> y1 ; f2(..) -> y2
def templates():
    E = lambda i, o: ms([[i, ["i"]]], [[o, ["i"]]])  # noqa: E731
    t = {}
    t["direct"] = [(["x"], None, None), (["y0"], None, None), (["y1"], None, None)]
    t["elementwise"] = [(["x"], E("x", "y0"), None), (["y0"], E("y0", "y1"), None), (["y1"], E("y1", "y2"), None)]
    t["map-reduce-direct"] = [(["x"], E("x", "y0"), None), (["y0"], None, None), (["y1"], None, None)]
    t["map-map-reduce"] = [(["x"], E("x", "y0"), None), (["y0"], E("y0", "y1"), None), (["y1"], None, None)]
    t["partial-reduce"] = [(["x", "z"], ms([["x", ["i"]], ["z", ["j"]]], [["y0", ["i", "j"]]]), None),
                           (["y0"], ms([["y0", ["i", None]]], [["y1", ["i"]]]), None), (["y1"], E("y1", "y2"), None)]
    t["partial-reduce-reduce"] = [(["x", "z"], ms([["x", ["i"]], ["z", ["j"]]], [["y0", ["i", "j"]]]), None),
                                  (["y0"], ms([["y0", [None, "j"]]], [["y1", ["j"]]]), None), (["y1"], None, None)]
    t["generated-producer"] = [(["x"], None, ms([], [["y0", ["i"]]], True)), (["y0"], E("y0", "y1"), None), (["y1"], None, None)]
    t["internal-shape"] = [(["x"], ms([], [["y0", ["i"]]]), None), (["y0"], E("y0", "y1"), None), (["y1"], None, None)]
    t["internal-shape-reduced"] = [(["x"], ms([], [["y0", ["i"]]]), None), (["y0"], None, None), (["y1"], None, None)]
    t["fan-in-map"] = [(["x"], E("x", "y0"), None), (["y0"], E("y0", "y1"), None),
                       (["y0", "y1"], ms([["y0", ["i"]], ["y1", ["i"]]], [["y2", ["i"]]]), None)]
    t["fan-in-reduce"] = [(["x"], E("x", "y0"), None), (["y0"], E("y0", "y1"), None), (["y0", "y1"], None, None)]
    t["reduce-other-arg-mapped"] = [(["x"], E("x", "y0"), None), (["y0", "w"], ms([["w", ["k"]]], [["y1", ["k"]]]), None),
                                    (["y1"], ms([["y1", ["k"]]], [["y2", ["k"]]]), None)]
    return t


TEMPLATES = templates()


def edges_of(case):
    """(producer index, consumer index, param) for every wired parameter"""
    outs = {f["out"]: i for i, f in enumerate(case["funcs"])}
    return [(outs[p], j, p) for j, f in enumerate(case["funcs"]) for p, _ in f["params"] if p in outs and outs[p] < j]


def model_edges(case):
    fs = case["funcs"]
    out = []
    for i, j, p in edges_of(case):
        out.append({"param": p, "out": canon(fs[i]["ret"])[1], "inp": canon(dict(fs[j]["params"])[p])[1],
                    "prod": fs[i].get("auto") or fs[i]["mapspec"], "cons": fs[j].get("auto") or fs[j]["mapspec"]})
    return out


def related_inp(rng, out_t, reduced):
    """a parameter annotation for a consumer of `out_t`"""
    src = {"arr": out_t} if reduced and kind(out_t) not in ("arr", "ndarray", "NoAnn") and rng.random() < 0.85 else out_t
    r = rng.random()
    if r < 0.30:
        b = derive(rng, src, "widen")
    elif r < 0.42:
        b = src
    elif r < 0.60:
        b = derive(rng, src, "narrow")
    elif r < 0.80:
        b = derive(rng, src, "perturb")
    elif r < 0.90:
        b = out_t                                  # forgets the Array wrapping of a reduction
    else:
        b = gen_ty(rng, 2)
    return b if well_formed(b) and depth(b) <= 3 else src


def gen_pipe(rng):
    name = rng.choice(list(TEMPLATES))
    tpl = TEMPLATES[name]
    n = rng.choice([2, 3, 3])
    funcs = []
    for i in range(n):
        params, user, auto = tpl[i]
        funcs.append({"name": f"f{i}", "out": f"y{i}", "params": [[p, None] for p in params], "ret": gen_ty(rng, rng.choice([0, 1, 1, 2])),
                      "mapspec": copy.deepcopy(user), "auto": copy.deepcopy(auto)})
    case = {"kind": "pipe", "template": name, "validate": rng.random() < 0.75, "missing_as": rng.choice(["absent", "class"]), "funcs": funcs}
    red = {}
    for i, j, p in edges_of(case):
        e = {"param": p, "prod": funcs[i].get("auto") or funcs[i]["mapspec"], "cons": funcs[j].get("auto") or funcs[j]["mapspec"]}
        red[(j, p)] = (i, ref_reduced(e))
    for j, f in enumerate(funcs):
        for pr in f["params"]:
            if (j, pr[0]) in red:
                i, r = red[(j, pr[0])]
                pr[1] = related_inp(rng, funcs[i]["ret"], r)
            else:
                pr[1] = gen_ty(rng, 1)
    return case


def ref_reduced(e):
    """the statement's notion: the consumer receives the whole mapped output (or whole slices of it)"""
    prod, cons = e["prod"], e["cons"]
    if not prod or e["param"] not in [n for n, _ in prod["outs"]]:
        return False
    if not cons:
        return True
    axes = dict((n, ax) for n, ax in cons["ins"]).get(e["param"])
    return axes is None or None in axes


def ref_exempt(e):
    """generated MapSpecs and internal shapes are not 'user-written MapSpecs of a map': no verdict is demanded"""
    prod, cons = e["prod"], e["cons"]
    if prod and cons and (prod["generated"] or cons["generated"]):
        return True
    if prod and e["param"] in [n for n, _ in prod["outs"]]:
        idx = dict((n, ix) for n, ix in prod["outs"])[e["param"]]
        inputs = {a for _, ax in prod["ins"] for a in ax if a is not None}
        return not set(idx) <= inputs
    return False


def ref_edge_ok(e):
    if ref_exempt(e):
        return True
    out = e["out"]
    if ref_reduced(e) and out not in ("NoAnn", "ndarray") and kind(strip(out)) not in ("arr", "ndarray"):
        out = {"arr": out}
    return sub_ref(out, e["inp"])


def mkfunc(f, missing_as):
    names = [p for p, _ in f["params"]]
    ns: dict = {}
    exec(f"def {f['name']}({', '.join(names)}):\n    return None\n", ns)  # noqa: S102
    fn = ns[f["name"]]
    ann = {}
    for p, t in f["params"]:
        if t == "NoAnn" and missing_as == "absent":
            continue
        ann[p] = to_py(t)
    if not (f["ret"] == "NoAnn" and missing_as == "absent"):
        ann["return"] = to_py(f["ret"])
    fn.__annotations__ = ann
    return fn


def build(case, validate):
    pfs = [PipeFunc(mkfunc(f, case.get("missing_as", "absent")), f["out"], mapspec=ms_str(f["mapspec"]) if f["mapspec"] else None)
           for f in case["funcs"]]
    with contextlib.redirect_stdout(io.StringIO()):
        return Pipeline(pfs, validate_type_annotations=validate)


def seen_mapspec(pf):
    m = pf.mapspec
    if m is None:
        return None
    return {"ins": [[s.name, list(s.axes)] for s in m.inputs], "outs": [[s.name, list(s.axes)] for s in m.outputs], "generated": bool(m._is_generated)}


def run_pipe(case):
    """-> (outcome with validation as in the case, outcome with validation off, mapspecs pipefunc ended up with)"""
    def attempt(v):
        try:
            return "ok", build(case, v)
        except TypeError as e:
            return ("TypeError" if type(e) is TypeError else "EXC:" + exc_enum(e)), None
        except Exception as e:  # noqa: BLE001
            return "EXC:" + exc_enum(e), None
    off, p = attempt(False)
    seen = None
    if p is not None:
        by = {f.output_name: f for f in p.functions}
        seen = [seen_mapspec(by[f["out"]]) for f in case["funcs"]]
    on = attempt(case["validate"])[0] if case["validate"] else off
    return on, off, seen


def nontrivial_pipe(case, medges):
    return any(not ref_exempt(e) and nontrivial_pair(e["out"], e["inp"]) for e in medges)


def check_pipes(ctx, cases):
    todo, reqs = [], []
    for case in cases:
        try:
            medges = model_edges(case)
        except Unsupported as e:
            ctx.skip(f"unsupported:{e}")
            continue
        on, off, seen = run_pipe(case)
        expect_ms = [f.get("auto") or f["mapspec"] for f in case["funcs"]]
        if seen is not None and seen != expect_ms:
            ctx.skip("mapspec-differs-from-template")
            ctx.violation(case, f"pipefunc's MapSpecs {seen} differ from the case's {expect_ms}", found_input=False, item="harness:mapspec-template")
            continue
        todo.append((case, medges, on, off))
        reqs.append({"m": "typing.pipeline", "a": {"validate": case["validate"], "edges": medges}})
    outs = ctx.lean(reqs) if reqs else []
    for (case, medges, on, off), resp in zip(todo, outs):
        model = resp["r"]
        ref_ok = all(ref_edge_ok(e) for e in medges)
        want = "ok" if (ref_ok or not case["validate"]) else "TypeError"
        ctx.count(f"pipe:template:{case['template']}")
        ctx.count(f"pipe:n={len(case['funcs'])}")
        ctx.count(f"pipe:validate={case['validate']}")
        ctx.count(f"pipe:outcome:{model['outcome']}")
        for e, me in zip(medges, model["edges"]):
            ctx.count("pipe:edge:" + ("generated" if me["generated"] else "internal" if me["internal"] else
                                      ("reduced-wrapped" if me["wrapped"] else "reduced-unwrapped") if me["reduced"] else "plain")
                      + (":ok" if me["ok"] else ":bad"))
            if me["reduced"] != ref_reduced(e) or (me["generated"] or me["internal"]) != ref_exempt(e):
                ctx.violation(case, "model and reference classify an edge differently", found_input=False, item="correspondence:edge-class", model=me)
        ctx.record(case, nontrivial_pipe(case, medges))
        if off != "ok":
            ctx.violation(case, f"validate_type_annotations=False but construction raised {off}", impl=off, model="ok", key="pipe-off")
        elif on != want:
            what = ("every edge is compatible but the pipeline is rejected with " + on) if want == "ok" else \
                   ("an explicitly annotated, user-mapped edge is incompatible but construction gave " + on)
            ctx.violation(case, what, impl=on, model=model["outcome"], key=f"pipe:{want}:{on[:9]}")
        elif on != model["outcome"]:
            ctx.violation(case, "implementation and model disagree on pipeline construction (the statement's clauses hold)", found_input=False,
                          item="correspondence:typing.pipeline", impl=on, model=model["outcome"])
        if model["outcome"] != want:
            ctx.violation(case, "model and Python reference disagree on pipeline construction", found_input=False,
                          item="correspondence:pipeline-ref", impl=on, model=model["outcome"])


# ------------------------------------------------------------------------------------------------ corpus
def P(a, b, meta="class"):
    return {"kind": "pair", "a": a, "b": b, "meta": meta, "src": "corpus"}


T2 = lambda *a: {"g": "tuple", "a": list(a)}  # noqa: E731
CORPUS = [
    P(T2("int", "str"), T2("int")),                                        # DF-19 (a): zip truncation
    P({"g": "dict", "a": ["int", "str"]}, T2("int")), P(T2("int"), T2("int", "str")),
    P("bool", {"an": "int"}), P("int", {"an": "bool"}),                    # DF-19 (b): reversed direction
    P("int", {"an": {"u": ["int", "str"]}}), P({"u": ["int", "str"]}, {"an": {"u": ["int", "str"]}}),
    P({"an": "int"}, "int", "str"), P("bool", {"an": "int"}, "str"),       # DF-19 (c): string metadata
    P({"an": {"u": ["int", "str"]}}, {"u": ["int", "str"]}),               # DF-19 (d): Annotated[union] as a source
    P({"u": [{"an": {"u": ["int", "str"]}}, "bytes"]}, {"u": ["int", "str", "bytes"]}),
    P({"an": {"u": ["int", "str"]}}, {"tvc": ["int", "str"]}),
    P({"arr": "str"}, {"an": {"u": [{"arr": "int"}, "None"]}}),            # DF-19 (e): element type dropped
    P({"arr": "bool"}, {"an": {"u": [{"arr": "int"}, "None"]}}),
    P({"arr": "str"}, {"tvc": [{"arr": "int"}, "str"]}),                   # DF-19 (f): constrained TypeVar falls through
    P({"u": ["int", "str"]}, {"tvc": ["int", "str"]}), P("float", {"tvc": ["int", "str"]}),
    P({"u": ["int", "str"]}, {"u": ["str", "int"]}), P({"arr": "int"}, "ndarray"), P("ndarray", {"arr": "int"}),
    P("Any", {"u": ["int", "Any"]}), P("Any", "int"), P({"g": "list", "a": ["bool"]}, {"g": "list", "a": [{"tvb": "int"}]}),
]


def pipe_corpus():
    E = lambda i, o: ms([[i, ["i"]]], [[o, ["i"]]])  # noqa: E731
    def two(ret, inp, m0, m1, validate=True, auto0=None):
        return {"kind": "pipe", "template": "corpus", "validate": validate, "missing_as": "absent", "funcs": [
            {"name": "f0", "out": "y0", "params": [["x", "int"]], "ret": ret, "mapspec": m0, "auto": auto0},
            {"name": "f1", "out": "y1", "params": [["y0", inp]], "ret": "int", "mapspec": m1, "auto": None}]}
    return [
        two("int", "str", None, None), two("int", "str", None, None, validate=False), two("bool", "int", None, None),
        two("int", {"arr": "int"}, E("x", "y0"), None), two("int", "int", E("x", "y0"), None), two("int", {"g": "list", "a": ["int"]}, E("x", "y0"), None),
        two("int", "str", E("x", "y0"), E("y0", "y1")), two("bool", {"an": "int"}, E("x", "y0"), E("y0", "y1")),
        two(T2("int", "str"), T2("int"), None, None), two({"an": {"u": ["int", "str"]}}, {"u": ["int", "str"]}, None, None),
        two("int", "str", None, E("y0", "y1"), auto0=ms([], [["y0", ["i"]]], True)),
        two("int", "str", ms([], [["y0", ["i"]]]), E("y0", "y1")),
        two({"arr": "int"}, {"arr": "int"}, E("x", "y0"), None), two("ndarray", {"arr": "int"}, E("x", "y0"), None),
        two({"an": "int"}, {"arr": "bool"}, E("x", "y0"), None), two("NoAnn", "str", E("x", "y0"), None),
    ]


# ------------------------------------------------------------------------------------------------ run
import sys  # noqa: E402

import c16_desc  # noqa: E402
import c16_exotic  # noqa: E402
import c16_inc  # noqa: E402
import c16_x  # noqa: E402

c16_desc.B = c16_exotic.B = c16_x.B = c16_inc.B = sys.modules[__name__]


def run(ctx):
    rng = ctx.rng
    check_pairs(ctx, [copy.deepcopy(c) for c in CORPUS])
    check_pipes(ctx, pipe_corpus())
    c16_desc.check_descs(ctx, c16_desc.fix_corpus(c16_desc.corpus()))
    c16_x.run(ctx)               # extended language: Literal[...] and tuple[T, ...] through the model (typing.compatx)
    c16_exotic.run(ctx)          # spellings, annotations outside the grammar (not modelled: counted), TypeVars over depth-2 generics
    # 1. exhaustive depth <= 1
    u1 = universe1()
    ctx.extra["universe1"] = len(u1)
    check_pairs(ctx, [{"kind": "pair", "a": a, "b": b, "src": "universe1"} for a in u1 for b in u1], laws_every=7)
    # 2. depth 2: all ordered pairs of (universe2 + universe1) in thorough, a sample in quick
    u2 = universe2(rng, ctx.n(260, 520)) + u1
    ctx.extra["universe2"] = len(u2)
    if ctx.tier == "thorough":
        pairs2 = [{"kind": "pair", "a": a, "b": b, "src": "universe2"} for a in u2 for b in u2]
    else:
        pairs2 = [{"kind": "pair", "a": rng.choice(u2), "b": rng.choice(u2), "src": "universe2"} for _ in range(ctx.n(5500, 0))]
    for k in range(0, len(pairs2), 50000):
        check_pairs(ctx, pairs2[k:k + 50000], laws_every=23 if ctx.tier == "thorough" else 11)
    # 3. depth <= 3 related pairs; one in eight with string metadata in Annotated, one in eight spelling unions `X | Y`
    rel = []
    for _ in range(ctx.n(4500, 150000)):
        a, b, src = gen_pair(rng)
        rel.append({"kind": "pair", "a": a, "b": b, "src": src, "meta": rng.choice(["class"] * 6 + ["str", "pipe"])})
    for k in range(0, len(rel), 50000):
        check_pairs(ctx, rel[k:k + 50000], laws_every=3)
    # 4. pipelines
    pipes = [gen_pipe(rng) for _ in range(ctx.n(850, 30000))]
    for k in range(0, len(pipes), 5000):
        check_pipes(ctx, pipes[k:k + 5000])
    # 5. description-level pipelines: flavours of callables, tuple outputs, renames, scopes, bound, unresolvable hints
    descs = [c16_desc.gen_desc(rng) for _ in range(ctx.n(1000, 16000))]
    for k in range(0, len(descs), 500):
        check_descs_batch(ctx, descs[k:k + 500])
    # 6. incremental construction: `Pipeline.add` validates after every function (stages, first rejected add, shuffled orders)
    c16_inc.check_inc(ctx, c16_inc.corpus())
    incs = [c16_inc.gen_inc(rng) for _ in range(ctx.n(300, 5000))]
    for k in range(0, len(incs), 1000):
        c16_inc.check_inc(ctx, incs[k:k + 1000])


def check_descs_batch(ctx, cases):
    c16_desc.check_descs(ctx, cases)


def replay(ctx, case):
    if case.get("kind") == "inc":
        return c16_inc.replay(ctx, case)
    if case.get("kind") == "desc":
        return c16_desc.replay(ctx, case)
    if case.get("kind") in ("xpair", "xpipe"):
        return c16_x.replay(ctx, case)
    if case.get("kind") in ("exotic-pair", "exotic-pipe", "spelling"):
        return c16_exotic.replay(ctx, case)
    if case.get("kind") == "pipe":
        medges = model_edges(case)
        on, off, seen = run_pipe(case)
        print("functions:")
        for f in case["funcs"]:
            print(f"  {f['name']}({', '.join(f'{p}: {to_py(t)}' for p, t in f['params'])}) -> {to_py(f['ret'])}   mapspec={ms_str(f['mapspec']) if f['mapspec'] else None}")
        print("implementation: validate =", case["validate"], "->", on, "| validate=False ->", off, "| mapspecs:", seen)
        print("model:", ctx.lean([{"m": "typing.pipeline", "a": {"validate": case["validate"], "edges": medges}}])[0].get("r"))
        print("reference: edges ok =", [ref_edge_ok(e) for e in medges])
        return
    meta = case.get("meta", "class")
    ao, a = canon(case["a"], meta)
    bo, b = canon(case["b"], meta)
    got = impl_compat(ao, bo)
    print("A =", ao, "\nB =", bo)
    print("implementation: is_type_compatible(A, B) =", got, "| failing clause:", pair_laws(ctx, a, b, ao, bo, got, meta))
    print("model: compat =", ctx.lean([{"m": "typing.compat", "a": {"pairs": [[a, b]]}}])[0].get("r"), "| reference Sub =", sub_ref(a, b))
