/-
The provided names of `Pipeline.map(inputs, output_names=S, auto_subpipeline=…)` in the NESTED scope spelling
(`{"sc": {"y": v}}` for `{"sc.y": v}`): `prepare_run` (`pipefunc/map/_prepare.py:52`) flattens the scopes FIRST
(`Pipeline._flatten_scopes`, `_pipeline/_base.py:1088-1092`: every function's `PipeFunc._flatten_scopes`,
`_pipefunc.py:718-743`, in turn - a scope name holds no dot, so this is one pass over the union of the functions'
parameter scopes), and only then selects `subpipeline(set(inputs), output_names)` (`_prepare.py:53-54`) and runs.
Built on `PF.Rw.flattenKw` (the flattening of C10's call model) and `PF.Sub.mapSub`.  Core Lean only.
-/
import PfModel.Model.Rewrite
import PfModel.Model.SubPipe
namespace PF.Sub
open PF

/-- the characters before the first dot, if there is a dot -/
def beforeDot : List Char → Option (List Char)
  | [] => none
  | c :: cs => if c = '.' then some [] else (beforeDot cs).map (c :: ·)

/-- `k.split(".", 1)[0]` for a name `k` with `"." in k` (structural, so that closed instances evaluate in the kernel; agrees with the first
    component of `PF.Rw.dotSplit`) -/
def scopeOfName (p : String) : Option String := (beforeDot p.toList).map String.ofList

/-- `PipeFunc.parameter_scopes` (`_pipefunc.py:705-711`) of every function of the pipeline: the part before the first dot of
    every parameter name that holds one -/
def paramScopes (fs : List Map.MFunc) : List String :=
  (fs.flatMap fun f => f.params.filterMap fun (p, _) => scopeOfName p).eraseDups

/-- `prepare_run`, line 52: the inputs as given (a value under a name, or a dictionary under a scope) become the flat inputs, with
    respect to the FULL pipeline's parameter scopes -/
def flatInputs (fs : List Map.MFunc) (given : List (String × Rw.KwArg)) : List (String × Val) :=
  Rw.flattenKw (paramScopes fs) given

/-- `prepare_run` with inputs in any spelling: flatten, then `prepare` (the selection sees the flat NAMES) -/
def prepareScoped (fs : List Map.MFunc) (given : List (String × Rw.KwArg)) (S : Option (List String)) (auto : Bool) :
    Except SErr (List Map.MFunc) :=
  prepare fs (flatInputs fs given) S auto

/-- `Pipeline.map(inputs, output_names=S, auto_subpipeline=auto)` with inputs in any spelling -/
def mapSubScoped (fs : List Map.MFunc) (given : List (String × Rw.KwArg)) (internal : List (String × List Nat))
    (S : Option (List String)) (auto : Bool) : Except PErr (List Map.MFunc × Map.MapResult) :=
  mapSub fs (flatInputs fs given) internal S auto

end PF.Sub
