/-
Values of the model: a free term algebra.  User functions are uninterpreted: calling `f(x=v, y=w)` yields `app "f" [("x", v), ("y", w)]`,
so a swapped, mis-sliced or dropped argument changes the term.  Mirrored on the Python side by `harness/terms.py`.
-/
namespace PF

inductive Val
  | int (n : Int)
  | str (s : String)
  | none
  | masked                                   -- numpy.ma.masked / a missing element
  | app (f : String) (args : List (String × Val))   -- an uninterpreted call f(**args); args keyed by the function's own parameter names
  | pick (v : Val) (out : String)            -- output_picker(v, out) of a tuple-returning function
  | proj (v : Val) (idx : List Nat)          -- element idx of an array-valued result (internal shape)
  | arr (shape : List Nat) (elems : List Val)   -- an n-d object array, row-major
  | tup (vs : List Val)                      -- a Python tuple/list of values
  deriving Repr, Inhabited

/-- association lists keyed by names: the model of an insertion-ordered `dict[str, _]` -/
def alookup {β} : List (String × β) → String → Option β
  | [], _ => Option.none
  | (k, v) :: r, x => if k = x then some v else alookup r x

def akeys {β} (l : List (String × β)) : List String := l.map (·.1)

theorem alookup_append {β} (l1 l2 : List (String × β)) (x : String) :
    alookup (l1 ++ l2) x = match alookup l1 x with | some v => some v | Option.none => alookup l2 x := by
  induction l1 with
  | nil => simp [alookup]
  | cons e es ih => obtain ⟨k, v⟩ := e; simp only [List.cons_append, alookup]; split <;> simp_all

theorem alookup_some_mem {β} (l : List (String × β)) (x : String) (v : β) (h : alookup l x = some v) : (x, v) ∈ l := by
  induction l with
  | nil => simp [alookup] at h
  | cons e es ih =>
    obtain ⟨k, w⟩ := e
    simp only [alookup] at h
    split at h
    · next e => cases h; simp [e]
    · exact List.mem_cons_of_mem _ (ih h)

theorem alookup_none_iff {β} (l : List (String × β)) (x : String) : alookup l x = Option.none ↔ x ∉ akeys l := by
  induction l with
  | nil => simp [alookup, akeys]
  | cons e es ih =>
    obtain ⟨k, w⟩ := e
    simp only [alookup, akeys, List.map_cons, List.mem_cons]
    split
    · next e => simp [e]
    · next ne => simp only [akeys] at ih; rw [ih]; constructor
                 · intro h hh; rcases hh with hh | hh
                   · exact ne hh.symm
                   · exact h hh
                 · intro h hh; exact h (Or.inr hh)

end PF
