"""C09 round 9 — HISTORIES of `Pipeline.map` runs on ONE pipeline object (stream `mapseq`).

`pipeline.cache` outlives a map run, so the element computations of a later run meet the entries the earlier runs stored.  A session is a
pipeline with a cache, an identical uncached twin, and 2-4 successive `map` calls whose inputs are equal to / differ from the earlier ones:

  (a) equal inputs                                  -> no element call re-executes (its entry is resident),
  (b) changed upstream VALUES of equal length       -> every run returns what the uncached twin returns (no stale element),
  (c) changed lengths                               -> the same,

for every storage (`dict`, `file_array`, `shared_memory_dict`), with a run_folder that is REUSED by all runs of a session, fresh per run, or
absent; every cache type (simple / lru / hybrid / disk, lru and hybrid also `shared=True`), sequentially and under a thread pool.

The class that matters (seeded change C09-s4-B): a function WITH a mapspec that takes the WHOLE array output of an upstream mapspec function
as a non-indexed parameter (`a[i] -> sq[i]`, then `w[j] -> share[j]` for `share(w, sq)`) — its selected kwargs hold a storage object until
`_load_arrays`, and the key must be built from the LOADED values.  Every session of this stream has such a function BY CONSTRUCTION (hand
families) or by rejection sampling of `mapgen.gen_case(p_whole=1.0)`; `mapgen`'s plain stream has one in < 1 % of its cases.

The Lean side: the element calls of every run (the `calls` of C01's `map.run` on that run's inputs) go through `PF.PipeCache.runRuns` (driver
entry `map.hist`, theorems `C09_map_history_*`): it says which element calls of which run execute (exactly the first occurrences).
"""
from __future__ import annotations

import copy
import itertools
import os
from concurrent.futures import ThreadPoolExecutor

import pfimport  # noqa: F401
from pfimport import exc_enum

import c09_values
import mapgen
import terms


# ---------------------------------------------------------------------------------------------- descriptions
def whole_upstream(desc):
    """[(function, parameter)]: functions WITH a mapspec that take an upstream MAPSPEC output whole (not named in their MapSpec)."""
    arr_out = {o for f in desc["funcs"] if f.get("mapspec") for o, _ in f["mapspec"]["outputs"]}
    out = []
    for f in desc["funcs"]:
        ms = f.get("mapspec")
        if not ms or not ms["inputs"]:
            continue
        listed = {a[0] for a in ms["inputs"]}
        out += [(f["name"], p) for p, _ in f["params"] if p in arr_out and p not in listed]
    return out


def _func(name, params, outputs, ms):
    return {"name": name, "params": [[p, p] for p in params], "outputs": outputs, "mapspec": ms, "mapspec_str": mapgen.spec_str(ms) if ms else None,
            "autogen": False, "ret": None, "internal": None, "defaults": [], "bound": []}


def _root(p, shape, tag=""):
    elems = [{"f": "in", "k": [["n", {"s": p + tag}], ["at", {"arr": [[len(ix)], list(ix)]}]]} for ix in itertools.product(*map(range, shape))]
    return [p, {"arr": [list(shape), elems]}]


def hand_family(rng):
    """`x0[i] -> y0[i]`; `f1(x1 | x0, y0 WHOLE)`; optionally a third function downstream (reduction / element-wise with y0 whole again /
    2-D upstream).  Returns a mapgen-format description."""
    fam = rng.choice(["demo", "demo", "same-axis", "tuple", "2d", "two-whole", "chain"])
    n_i, n_j, n_k = rng.randint(1, 3), rng.randint(1, 3), rng.randint(1, 2)
    funcs, inputs = [], []
    if fam == "2d":
        funcs.append(_func("f0", ["x0", "x2"], ["y0"], {"inputs": [["x0", ["i"]], ["x2", ["k"]]], "outputs": [["y0", ["i", "k"]]]}))
        inputs += [_root("x0", [n_i]), _root("x2", [n_k])]
    elif fam == "tuple":
        funcs.append(_func("f0", ["x0"], ["y0", "y0b"], {"inputs": [["x0", ["i"]]], "outputs": [["y0", ["i"]], ["y0b", ["i"]]]}))
        inputs.append(_root("x0", [n_i]))
    else:
        funcs.append(_func("f0", ["x0"], ["y0"], {"inputs": [["x0", ["i"]]], "outputs": [["y0", ["i"]]]}))
        inputs.append(_root("x0", [n_i]))
    if fam == "same-axis":
        ps = ["x0", "y0"]
        rng.shuffle(ps)
        funcs.append(_func("f1", ps, ["y1"], {"inputs": [["x0", ["i"]]], "outputs": [["y1", ["i"]]]}))
    else:
        ps = ["x1", "y0"] + (["y0b"] if fam == "tuple" and rng.random() < 0.5 else [])
        rng.shuffle(ps)
        funcs.append(_func("f1", ps, ["y1"], {"inputs": [["x1", ["j"]]], "outputs": [["y1", ["j"]]]}))
        inputs.append(_root("x1", [n_j]))
    ax1 = funcs[1]["mapspec"]["outputs"][0][1][0]
    if fam == "two-whole":
        funcs.append(_func("f2", ["y1", "y0"], ["y2"], {"inputs": [["y1", [ax1]]], "outputs": [["y2", [ax1]]]}))     # y0 whole once more, y1 indexed
    elif fam == "chain":
        funcs.append(_func("f2", ["x0", "y1"], ["y2"], {"inputs": [["x0", ["i"]]], "outputs": [["y2", ["i"]]]}))     # y1 (computed from y0 whole) whole
    elif rng.random() < 0.5:
        funcs.append(_func("f2", ["y1"], ["y2"], None))                                                               # a reduction downstream
    if rng.random() < 0.3:                                                                                            # a scalar root, defaulted or supplied
        f = rng.choice(funcs)
        f["params"].append(["c9", "c9"])
        if rng.random() < 0.5:
            f["defaults"].append(["c9", {"s": "dflt:c9"}])
        if not f["defaults"] or rng.random() < 0.5:
            inputs.append(["c9", {"s": "in:c9"}])
    kinds = {e[0]: ("list" if rng.random() < 0.4 else "array") for e in inputs if isinstance(e[1], dict) and "arr" in e[1]}
    return {"funcs": funcs, "inputs": sorted(inputs, key=lambda e: e[0]), "input_kinds": kinds, "internal": [], "sizes": {"i": n_i, "j": n_j, "k": n_k},
            "family": fam}


def sampled(rng, tries=400):
    for _ in range(tries):
        d = mapgen.gen_case(rng, max_funcs=4, kinds=["elem", "elem", "elem", "outer", "partial", "full", "scalar"], p_whole=1.0,
                            p_default=0.2, p_bound=0.15, p_tuple=0.25)
        if whole_upstream(d):
            d["family"] = "sampled"
            return d
    return None


# ---------------------------------------------------------------------------------------------- input variants
def root_axes(desc):
    """root array -> per dimension the set of axis names some MapSpec gives it"""
    out = {}
    for name, v in desc["inputs"]:
        if isinstance(v, dict) and "arr" in v:
            dims = [set() for _ in v["arr"][0]]
            for f in desc["funcs"]:
                for a in (f.get("mapspec") or {}).get("inputs") or []:
                    if a[0] == name:
                        for q, ax in enumerate(a[1]):
                            if ax is not None and q < len(dims):
                                dims[q].add(ax)
            out[name] = dims
    return out


def variant_inputs(desc, rng, tag, names, one_element=False, resize=None, repeat=None):
    """The inputs of a run: the root arrays in `names` get other element VALUES (all, or one element only); `resize = (axis, n)` gives every
    dimension bound to that axis the length n; `repeat`: {array: m} makes the elements repeat with period m."""
    axes = root_axes(desc)
    out = []
    for name, v in desc["inputs"]:
        if not (isinstance(v, dict) and "arr" in v):
            out.append([name, copy.deepcopy(v)])
            continue
        shape = list(v["arr"][0])
        if resize is not None:
            shape = [resize[1] if resize[0] in axes[name][q] else s for q, s in enumerate(shape)]
        e = _root(name, shape)[1]
        els = e["arr"][1]
        m = (repeat or {}).get(name)
        if m and len(shape) == 1:
            els = [copy.deepcopy(els[q % m]) for q in range(len(els))]
        if name in names and els:
            hit = [rng.randrange(len(els))] if one_element else range(len(els))
            for q in hit:
                els[q]["k"][0][1] = {"s": name + tag}
        e["arr"][1] = els
        out.append([name, e])
    return out


PLANS = [["A", "A", "B", "A"], ["A", "B", "A"], ["A", "A"], ["A", "B"], ["A", "B", "B"], ["A", "b", "A"], ["A", "C", "A"], ["A", "B", "C"], ["A", "b"]]


def gen_session(rng):
    desc = hand_family(rng) if rng.random() < 0.6 else (sampled(rng) or hand_family(rng))
    arrays = [e[0] for e in desc["inputs"] if isinstance(e[1], dict) and "arr" in e[1]]
    if not arrays:
        return None
    repeat = {a: rng.choice([1, 2]) for a in arrays if rng.random() < 0.5}
    # the arrays whose values change: those UPSTREAM of a whole parameter first (the entry of the consumer is keyed by the whole array)
    up = set()
    prod = {o: f for f in desc["funcs"] for o in f["outputs"]}
    todo = [p for _, p in whole_upstream(desc)]
    while todo:
        o = todo.pop()
        for p, _ in prod[o]["params"] if o in prod else []:
            if p in arrays:
                up.add(p)
            elif p in prod:
                todo.append(p)
    changed = sorted(up) if up and rng.random() < 0.8 else [rng.choice(arrays)]
    if rng.random() < 0.25:
        changed = sorted(set(changed) | {rng.choice(arrays)})
    plan = rng.choice(PLANS)
    ax = rng.choice(sorted({a for dims in root_axes(desc).values() for s in dims for a in s}) or ["i"])
    old = desc["sizes"].get(ax, 2)
    resize = (ax, old + 1 if old < 3 and rng.random() < 0.7 else max(1, old - 1))
    variants = {"A": variant_inputs(desc, rng, "", [], repeat=repeat),
                "B": variant_inputs(desc, rng, "~B", changed, repeat=repeat),
                "b": variant_inputs(desc, rng, "~b", changed, one_element=True, repeat=repeat),
                "C": variant_inputs(desc, rng, "", [], resize=resize, repeat=repeat)}
    storage = rng.choice(["file_array", "file_array", "file_array", "dict", "dict", "shared_memory_dict"])
    folder = rng.choice(["reuse", "reuse", "reuse", "fresh"] + ([None] if storage != "file_array" or rng.random() < 0.3 else []))
    r = rng.random()
    mode = "threads" if r < 0.15 else "seq"
    r = rng.random()
    if mode == "threads":
        cfg = {"type": "simple"}
    elif r < 0.25:
        cfg = {"type": "simple"}
    elif r < 0.45:
        cfg = {"type": "lru", "kwargs": {"shared": False, "max_size": 4096}}
    elif r < 0.6:
        cfg = {"type": "hybrid", "kwargs": {"shared": False, "max_size": 4096}}
    elif r < 0.92:
        cfg = {"type": "disk", "kwargs": rng.choice([{}, {}, {"with_lru_cache": False}])}
    else:
        cfg = {"type": rng.choice(["lru", "hybrid"]), "kwargs": {"shared": True, "max_size": 4096}}
    d = {k: v for k, v in desc.items() if k != "inputs"}
    return {"kind": "mapseq", "desc": d, "plan": plan, "runs": [variants[v] for v in plan], "storage": storage, "folder": folder, "cache": cfg,
            "mode": mode, "changed": changed}


def run_desc(case, k):
    return dict(case["desc"], inputs=case["runs"][k])


# ---------------------------------------------------------------------------------------------- the implementation
def _obs(p, log, desc, **kw):
    log.clear()
    try:
        res = mapgen.quiet(p.map, mapgen.py_inputs(desc), internal_shapes=mapgen.internal_shapes_arg(desc), **kw)
        out = {"outputs": {name: terms.enc(r.output) for name, r in res.items()}}
    except Exception as e:  # noqa: BLE001
        out = {"err": exc_enum(e), "msg": str(e)[:160]}
    out["calls"] = sorted(([c[0], c[1]] for c in log.read() if c[2] == "call"), key=repr)
    return out


def run_session(case, base, cache_args):
    """Drive the cached pipeline and its twin through the session; every pipeline has run folders of its own."""
    import tempfile
    d = copy.deepcopy(case["desc"])
    d["inputs"] = case["runs"][0]
    root = tempfile.mkdtemp(dir=base)
    try:
        pu, lu = mapgen.build(d)
        for f in d["funcs"]:
            f["cache"] = True
        pc, lc = mapgen.build(d, **cache_args(case["cache"], base))
    except Exception as e:  # noqa: BLE001
        return {"construct": exc_enum(e)}
    out = {"u": [], "c": []}
    ex = ThreadPoolExecutor(4) if case["mode"] == "threads" else None
    try:
        for k in range(len(case["runs"])):
            rd = run_desc(case, k)
            for who, p, log in (("u", pu, lu), ("c", pc, lc)):
                kw = {"storage": case["storage"], "parallel": False}
                if case["folder"] == "reuse":
                    kw["run_folder"] = os.path.join(root, who)
                elif case["folder"] == "fresh":
                    kw["run_folder"] = os.path.join(root, f"{who}{k}")
                if ex is not None and who == "c":
                    kw.update(parallel=True, executor=ex)
                out[who].append(_obs(p, log, rd, **kw))
    finally:
        if ex is not None:
            ex.shutdown(wait=True)
    return out


# ---------------------------------------------------------------------------------------------- the stream
def _elems(desc, c01r):
    outs = {f["name"]: f["outputs"] for f in desc["funcs"]}
    return [{"name": n, "outs": outs[n], "kwargs": kw} for n, kw in (c01r.get("calls") or [])]


def _canon_call(e):
    return [e["name"], [[k, c09_values.canon(v)] for k, v in sorted(e["kwargs"], key=lambda kv: kv[0])]]


def judge(ctx, case, impl, c01s, hist):
    """The verdicts of one session.  Clause 1 (values) against the twin; clause 2 (no re-execution) against `runRuns`."""
    ctx.count(f"mapseq:family:{case['desc'].get('family')}")
    ctx.count(f"mapseq:storage:{case['storage']}:folder:{case['folder']}")
    ctx.count(f"mapseq:cache:{case['cache']['type']}" + (":shared" if (case['cache'].get('kwargs') or {}).get('shared') else "") + f":{case['mode']}")
    ctx.count("mapseq:plan:" + "".join(case["plan"]))
    if "construct" in impl:
        ctx.violation(case, f"valid map pipeline refused at construction: {impl['construct']}")
        return
    model_ok = all("err" not in m for m in c01s) and hist.get("own_values") and hist.get("flags_ok")
    if all("err" not in m for m in c01s) and not (hist.get("own_values") and hist.get("flags_ok")):
        ctx.violation(case, "the model's element keys are not injective on this session (two distinct element calls share a key)", found_input=False,
                      item="correspondence:mapseq-model-keys", model={k: hist.get(k) for k in ("own_values", "flags_ok")})
        return
    nontrivial = False
    for k, (u, c) in enumerate(zip(impl["u"], impl["c"])):
        what = f"map #{k + 1} of {len(case['plan'])} (inputs {'/'.join(case['plan'])}, storage={case['storage']}, run_folder {case['folder']}, {case['mode']})"
        if "err" in u:
            ctx.count(f"mapseq:twin-err:{u['err']}")
            break                                  # what the cache holds after a failed run is not modelled here
        if "err" in c:
            ctx.violation(case, f"{what} succeeds without cache but raises {c['err']} with the cache", impl={"run": k, "cached": c, "twin": u})
            return
        if c["outputs"] != u["outputs"]:
            stale = next((j for j in range(k) if "outputs" in impl["c"][j] and any(c["outputs"].get(o) == impl["c"][j]["outputs"].get(o) != u["outputs"].get(o)
                                                                                    for o in c["outputs"])), None)
            ctx.violation(case, f"{what} returns other arrays with the cache than without" + (f" (an output equals that of map #{stale + 1}: a stale entry)" if stale is not None else ""),
                          impl={"run": k, "cached": c["outputs"], "twin": u["outputs"]})
            return
        if not model_ok:
            ctx.count("mapseq:model-err")
            continue
        want = {o: c09_values.canon(v) for o, v in c01s[k]["outputs"]}
        if want != u["outputs"]:
            ctx.violation(case, f"uncached {what} differs from PF.Map.runMap", found_input=False, item="correspondence:map-twin", impl=u["outputs"], model=want)
            return
        els = _elems(case["desc"], c01s[k])
        flags = [r[1] for r in hist["runs"][k]]
        ran = sorted((_canon_call(e) for e, x in zip(els, flags) if x), key=repr)
        ctx.count("mapseq:run-executes-" + ("nothing" if not ran else "some" if len(ran) < len(els) else "all"))
        nontrivial = nontrivial or len(ran) < len(els)
        got = c["calls"]
        if case["mode"] == "threads":
            # a thread pool may run two equal element calls at once (both miss): compare the DISTINCT calls; a run the model says executes nothing must execute nothing
            got = sorted({repr(x): x for x in got}.values(), key=repr) if ran else got
        if got != ran:
            more = [x for x in got if x not in ran] or (len(got) > len(ran))
            if more:
                resident_before = [x for x in (more if isinstance(more, list) else got) if any(x in impl["c"][j]["calls"] for j in range(k))]
                ctx.violation(case, f"{what} re-executes element calls whose entries are resident"
                              + (" (they executed in an earlier map of this pipeline object)" if resident_before else " (a repeated element inside this map)"),
                              impl={"run": k, "executed": c["calls"]}, model={"executes": ran})
            else:
                ctx.violation(case, f"{what} executes fewer element calls than one per distinct (function, kwargs) not yet resident", found_input=False,
                              item="correspondence:mapseq-calls", impl={"run": k, "executed": c["calls"]}, model={"executes": ran})
            return
    ctx.record(case, nontrivial=nontrivial)


def stream(ctx, rng, base, cache_args, guarded):
    n = ctx.n(12, 150)
    cases = []
    shared = smd = 0
    for _ in range(n):
        case = gen_session(rng)
        if case is None:
            ctx.skip("mapseq-not-generated")
            continue
        if (case["cache"].get("kwargs") or {}).get("shared"):
            shared += 1
            if shared > (3 if ctx.tier == "quick" else 60):           # a Manager process each: keep them few
                case["cache"] = {"type": "simple"}
        if case["storage"] == "shared_memory_dict":                    # a Manager process per array (0.3-1 s per session): keep them few
            smd += 1
            if (ctx.tier == "quick" and rng.random() < 0.5) or smd > 40:
                case["storage"] = "dict"
        cases.append(case)
    cases = CORPUS_SESSIONS() + cases
    impls = [guarded(ctx, c, "run the map session", run_session, c, base, cache_args) for c in cases]
    flat = [(i, k) for i, c in enumerate(cases) for k in range(len(c["runs"]))]
    c01 = ctx.lean([{"m": "map.run", "a": mapgen.model_request(run_desc(cases[i], k))} for i, k in flat], driver="C01")
    per = [[] for _ in cases]
    for (i, k), m in zip(flat, c01):
        per[i].append(m["r"])
    hists = ctx.lean([{"m": "map.hist", "a": {"runs": [_elems(c["desc"], m) if "err" not in m else [] for m in ms]}} for c, ms in zip(cases, per)])
    for c, impl, ms, h in zip(cases, impls, per, hists):
        if impl is not None:
            guarded(ctx, c, "judge the map session", judge, ctx, c, impl, ms, h["r"])


def CORPUS_SESSIONS():
    """The demo of seeded change C09-s4-B as sessions (every cache type; file_array + reused run_folder, dict)."""
    funcs = [_func("f0", ["x0"], ["y0"], {"inputs": [["x0", ["i"]]], "outputs": [["y0", ["i"]]]}),
             _func("f1", ["x1", "y0"], ["y1"], {"inputs": [["x1", ["j"]]], "outputs": [["y1", ["j"]]]}),
             _func("f2", ["y1"], ["y2"], None)]
    desc = {"funcs": funcs, "input_kinds": {"x0": "list", "x1": "list"}, "internal": [], "sizes": {"i": 3, "j": 3, "k": 1}, "family": "corpus-demo"}

    def inp(tag):
        x1 = _root("x1", [3])
        x1[1]["arr"][1][2] = copy.deepcopy(x1[1]["arr"][1][0])          # w = [1, 2, 1]: a repeated value inside every map
        x0 = _root("x0", [3], tag)
        return [x0, x1]

    out = []
    for storage, folder in (("file_array", "reuse"), ("dict", None)):
        # disk WITHOUT the LRU front: every lookup goes through the file name = md5 of the pickled key (DF-C09-disk-key-sharing: equal keys whose
        # equal sub-objects are shared differently got different names, and the equal second map re-executed `f1`)
        for cfg in ({"type": "simple"}, {"type": "lru", "kwargs": {"shared": False}}, {"type": "hybrid", "kwargs": {"shared": False}}, {"type": "disk", "kwargs": {}},
                    {"type": "disk", "kwargs": {"with_lru_cache": False}}):
            out.append({"kind": "mapseq", "desc": copy.deepcopy(desc), "plan": ["A", "A", "B", "A"], "runs": [inp(""), inp(""), inp("~B"), inp("")],
                        "storage": storage, "folder": folder, "cache": cfg, "mode": "seq", "changed": ["x0"]})
    return out


def replay(ctx, case, base, cache_args):
    impl = run_session(case, base, cache_args)
    if "construct" in impl:
        print("implementation:", impl)
        return
    c01 = [m["r"] for m in ctx.lean([{"m": "map.run", "a": mapgen.model_request(run_desc(case, k))} for k in range(len(case["runs"]))], driver="C01")]
    hist = ctx.lean([{"m": "map.hist", "a": {"runs": [_elems(case["desc"], m) if "err" not in m else [] for m in c01]}}])[0]["r"]
    for k in range(len(case["runs"])):
        print(f"map #{k + 1} (inputs variant {case['plan'][k]}): {case['runs'][k]}")
        print("   uncached twin :", impl["u"][k])
        print("   cached        :", impl["c"][k])
        if "err" not in c01[k]:
            print("   model executes:", [_canon_call(e) for e, r in zip(_elems(case["desc"], c01[k]), hist["runs"][k]) if r[1]])
