import PfModel.Lemmas.HashableDef
/-!
C15, round 9 — when `to_hashable` returns a key at all.  `C15_defined_partial` (round 1) carried `comparable v` as a hypothesis that
the driver only evaluated per case; here it is shown to be exactly the condition: for well-formed values a key exists iff every
collection the dispatch sorts (set elements, keys of dict / defaultdict / Counter, at any depth where the conversion reaches
them) is pairwise strictly ordered by `<`.  The complement is the known findings DF-20 (a) (`TypeError`) and (d) (partial order).
-/
namespace PF.C15
open PF.Hashable

/-- A key exists iff every sorted collection is pairwise strictly ordered (both directions; no size bound). -/
theorem C15_defined_iff (v : PV) (hwf : wf v = true) : (∃ k, key true v = .ok k) ↔ comparable v = true :=
  ⟨fun ⟨k, hk⟩ => key_defined_conv v hwf k hk, key_defined v hwf⟩

/-- … and `to_hashable` raises / is left unspecified by the model iff some sorted collection is not. -/
theorem C15_undefined_iff (v : PV) (hwf : wf v = true) : (∃ e, key true v = .error e) ↔ comparable v = false := by
  constructor
  · rintro ⟨e, he⟩
    cases hc : comparable v with
    | false => rfl
    | true =>
      obtain ⟨k, hk⟩ := key_defined v hwf hc
      rw [hk] at he
      cases he
  · intro hc
    cases hk : key true v with
    | error e => exact ⟨e, rfl⟩
    | ok k =>
      have := key_defined_conv v hwf k hk
      rw [hc] at this
      cases this

/-- non-vacuity, both sides: `{"b", "a"}` has a key and is comparable; `[{1, "a"}]` (DF-20 a) and a set of two frozensets
    (DF-20 d) are well-formed, not comparable, and have no key -/
example : wf (.node .set [.atom (.str [98]), .atom (.str [97])]) = true ∧
    comparable (.node .set [.atom (.str [98]), .atom (.str [97])]) = true ∧
    ∃ k, key true (.node .set [.atom (.str [98]), .atom (.str [97])]) = .ok k := ⟨by decide, by decide, _, rfl⟩
example : wf (.node .list [.node .set [natAtom 1, .atom (.str [97])]]) = true ∧
    comparable (.node .list [.node .set [natAtom 1, .atom (.str [97])]]) = false ∧
    key true (.node .list [.node .set [natAtom 1, .atom (.str [97])]]) = .error .typeError := by decide
example : wf (.node .set [.node .fset [.atom (.str [97])], .node .fset [.atom (.str [98])]]) = true ∧
    comparable (.node .set [.node .fset [.atom (.str [97])], .node .fset [.atom (.str [98])]]) = false := by decide

end PF.C15
