/-
C09, round 9: lemmas about histories of map runs through one cache (`Model/PipeCacheMapHist.lean`).
-/
import PfModel.Model.PipeCacheMapHist
namespace PF.PipeCache
open PF PF.Pipe

/-- `C09_map_transparent` with the post-state: the entries resident after the run are right for every element of the
    class `S` (the elements of ALL runs of a history), so the next run starts from a right cache again -/
theorem runElems_post {H C} (P : Policy H C) (h : Val → H) (S : Elem → Prop)
    (hdet : ∀ a, S a → ∀ b, S b → elemKey h a = elemKey h b → a.value = b.value) :
    ∀ (es : List Elem) (c : C), (∀ e ∈ es, S e) →
      (∀ a, S a → ∀ v, P.res c (elemKey h a) = some v → v = a.value) →
      (runElems P h c es).1.map (·.1) = es.map (·.value) ∧
      (∀ a, S a → ∀ v, P.res (runElems P h c es).2 (elemKey h a) = some v → v = a.value) := by
  intro es
  induction es with
  | nil => intro c _ hinv; exact ⟨by simp [runElems], by simpa [runElems] using hinv⟩
  | cons e es ih =>
    intro c hS hinv
    have hSe : S e := hS e (by simp)
    have hS' : ∀ a ∈ es, S a := fun a ha => hS a (List.mem_cons_of_mem _ ha)
    simp only [runElems, getOrSet]
    cases hg : P.get c (elemKey h e) with
    | some vc =>
      obtain ⟨v, c'⟩ := vc
      have hv : v = e.value := hinv e hSe v (P.get_res _ _ _ _ hg)
      have hinv' : ∀ a, S a → ∀ w, P.res c' (elemKey h a) = some w → w = a.value :=
        fun a ha w hw => hinv a ha w (P.get_sub _ _ _ _ hg _ _ hw)
      obtain ⟨h1, h2⟩ := ih c' hS' hinv'
      exact ⟨by simp only [List.map_cons, hv, h1], h2⟩
    | none =>
      have hinv' : ∀ a, S a → ∀ w, P.res (P.put c (elemKey h e) e.value) (elemKey h a) = some w → w = a.value := by
        intro a ha w hw
        rcases P.put_sub _ _ _ _ _ hw with ⟨e1, e2⟩ | hold
        · rw [e2]; exact (hdet a ha e hSe e1).symm
        · exact hinv a ha w hold
      obtain ⟨h1, h2⟩ := ih _ hS' hinv'
      exact ⟨by simp only [List.map_cons, h1], h2⟩

theorem runRuns_post {H C} (P : Policy H C) (h : Val → H) (S : Elem → Prop)
    (hdet : ∀ a, S a → ∀ b, S b → elemKey h a = elemKey h b → a.value = b.value) :
    ∀ (rs : List (List Elem)) (c : C), (∀ r ∈ rs, ∀ e ∈ r, S e) →
      (∀ a, S a → ∀ v, P.res c (elemKey h a) = some v → v = a.value) →
      (runRuns P h c rs).1.map (·.map (·.1)) = rs.map (·.map (·.value)) ∧
      (∀ a, S a → ∀ v, P.res (runRuns P h c rs).2 (elemKey h a) = some v → v = a.value) := by
  intro rs
  induction rs with
  | nil => intro c _ hinv; exact ⟨by simp [runRuns], by simpa [runRuns] using hinv⟩
  | cons r rs ih =>
    intro c hS hinv
    obtain ⟨h1, h2⟩ := runElems_post P h S hdet r c (hS r (by simp)) hinv
    obtain ⟨h3, h4⟩ := ih (runElems P h c r).2 (fun r' hr' => hS r' (List.mem_cons_of_mem _ hr')) h2
    simp only [runRuns]
    exact ⟨by simp only [List.map_cons, h1, h3], h4⟩

/-- in a retaining container exactly the first occurrence of every key that is not resident executes -/
theorem runElems_flags {H C} [DecidableEq H] (P : Policy H C) (hr : Retains P) (h : Val → H) :
    ∀ (es : List Elem) (c : C) (seen : List (Key H)), (∀ k, P.res c k = none ↔ k ∉ seen) →
      (runElems P h c es).1.map (·.2) = firstOcc seen (es.map (elemKey h)) ∧
      (∀ k, P.res (runElems P h c es).2 k = none ↔ k ∉ (es.map (elemKey h)).reverse ++ seen) := by
  intro es
  induction es with
  | nil => intro c seen hs; exact ⟨by simp [runElems, firstOcc], by simpa [runElems] using hs⟩
  | cons e es ih =>
    intro c seen hs
    simp only [runElems, getOrSet]
    cases hg : P.get c (elemKey h e) with
    | some vc =>
      obtain ⟨v, c'⟩ := vc
      have hin : elemKey h e ∈ seen := by
        have h1 : ¬ P.res c (elemKey h e) = none := by
          intro hn; rw [← hr.get_none] at hn; rw [hn] at hg; cases hg
        exact Classical.byContradiction fun hn => h1 ((hs (elemKey h e)).mpr hn)
      have hs' : ∀ k, P.res c' k = none ↔ k ∉ elemKey h e :: seen := by
        intro k
        rw [hr.get_keep _ _ _ _ hg k, hs k]
        constructor
        · intro hk hm
          rcases List.mem_cons.mp hm with e1 | e1
          · exact hk (e1 ▸ hin)
          · exact hk e1
        · intro hk hm; exact hk (List.mem_cons_of_mem _ hm)
      obtain ⟨h1, h2⟩ := ih c' (elemKey h e :: seen) hs'
      refine ⟨?_, ?_⟩
      · simp only [List.map_cons, firstOcc, h1, hin, decide_true, Bool.not_true]
      · intro k; rw [h2 k]; simp only [List.map_cons, List.reverse_cons, List.append_assoc, List.singleton_append]
    | none =>
      have hnin : elemKey h e ∉ seen := (hs _).mp ((hr.get_none _ _).mp hg)
      have hs' : ∀ k, P.res (P.put c (elemKey h e) e.value) k = none ↔ k ∉ elemKey h e :: seen := by
        intro k
        by_cases hk : k = elemKey h e
        · subst hk; rw [hr.put_self]; simp
        · rw [hr.put_keep _ _ _ _ hk, hs k]; simp [hk]
      obtain ⟨h1, h2⟩ := ih _ (elemKey h e :: seen) hs'
      refine ⟨?_, ?_⟩
      · simp only [List.map_cons, firstOcc, h1, hnin, decide_false, Bool.not_false]
      · intro k; rw [h2 k]; simp only [List.map_cons, List.reverse_cons, List.append_assoc, List.singleton_append]

theorem runRuns_flags {H C} [DecidableEq H] (P : Policy H C) (hr : Retains P) (h : Val → H) :
    ∀ (rs : List (List Elem)) (c : C) (seen : List (Key H)), (∀ k, P.res c k = none ↔ k ∉ seen) →
      (runRuns P h c rs).1.map (·.map (·.2)) = firstOccRuns seen (rs.map (·.map (elemKey h))) := by
  intro rs
  induction rs with
  | nil => intro c seen _; simp [runRuns, firstOccRuns]
  | cons r rs ih =>
    intro c seen hs
    obtain ⟨h1, h2⟩ := runElems_flags P hr h r c seen hs
    have h3 := ih (runElems P h c r).2 _ h2
    simp only [runRuns, List.map_cons, firstOccRuns, h1, h3]

/-- every key already seen: nothing is a first occurrence -/
theorem firstOcc_all_seen {K} [DecidableEq K] : ∀ (ks seen : List K), (∀ k ∈ ks, k ∈ seen) → firstOcc seen ks = ks.map fun _ => false := by
  intro ks
  induction ks with
  | nil => intro _ _; rfl
  | cons k ks ih =>
    intro seen hk
    have h1 : k ∈ seen := hk k (by simp)
    simp only [firstOcc, h1, decide_true, Bool.not_true, List.map_cons]
    rw [ih (k :: seen) fun k' hk' => List.mem_cons_of_mem _ (hk k' (List.mem_cons_of_mem _ hk'))]

/-- the unbounded container keeps what was put -/
theorem simplePolicy_retains (H : Type) [DecidableEq H] : Retains (simplePolicy H) where
  get_none := by
    intro c k
    simp only [simplePolicy]
    cases mapGet c k <;> simp
  get_keep := by
    intro c k v c' hg k'
    simp only [simplePolicy] at hg ⊢
    cases hm : mapGet c k with
    | none => simp [hm] at hg
    | some w => simp [hm] at hg; rw [hg.2]
  put_self := by intro c k v; simp [simplePolicy, mapGet]
  put_keep := by
    intro c k v k' hne
    simp only [simplePolicy, mapGet]
    rw [if_neg (Ne.symm hne)]

end PF.PipeCache
