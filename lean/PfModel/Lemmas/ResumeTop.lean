import PfModel.Lemmas.ResumeLoop
/-! The whole resumable run (`runOn`, repaired protocol, file arrays) against `PF.Map.runMap`. -/
namespace PF.ResumeFS
open PF PF.Map

/-! ### the right content of every file, read off the uninterrupted run -/

/-- the generation loop of `PF.Map.runMap` behind its preconditions -/
def pfLoop (fsd : List MFunc) (inputs : List (String × Val)) (ui : List (String × List Nat)) : M (List FuncResult × Env) :=
  match preRun fsd inputs ui with
  | .error e => .error e
  | .ok (shapes, masks) =>
    runGensWith (runFuncWith opArray fsd shapes masks) (generations fsd) { inputs := inputs, store := [] }

/-- what the store of the uninterrupted run holds for every output -/
def freshSlots (fsd : List MFunc) (inputs : List (String × Val)) (ui : List (String × List Nat)) : List (String × Slot) :=
  match pfLoop fsd inputs ui with
  | .ok (rs, _) => rs.flatMap (·.slots)
  | .error _ => []

/-- `v` is a right content of `p`: what the uninterrupted run stores there (anything decodable for the inputs, the defaults
    and `run_info.json`, which the resumed run only checks for loadability; nothing for a temporary name) -/
def rightW (slots : List (String × Slot)) : Right
  | .cell o li, v => ∃ s, (o, s) ∈ slots ∧ slotHas s (.cell o li) v
  | .single o, v => ∃ s, (o, s) ∈ slots ∧ slotHas s (.single o) v
  | .dictArr o, v => ∃ s, (o, s) ∈ slots ∧ slotHas s (.dictArr o) v
  | .tmp _, _ => False
  | _, _ => True

theorem nodup_keys_functional {β} : ∀ (l : List (String × β)) (k : String) (a b : β),
    (l.map (·.1)).Nodup → (k, a) ∈ l → (k, b) ∈ l → a = b := by
  intro l
  induction l with
  | nil => intro k a b _ h; cases h
  | cons e es ih =>
    intro k a b hn ha hb
    simp only [List.map_cons, List.nodup_cons] at hn
    rcases List.mem_cons.mp ha with ha | ha <;> rcases List.mem_cons.mp hb with hb | hb
    · rw [← ha] at hb; cases hb; rfl
    · exact absurd (List.mem_map.mpr ⟨(k, b), hb, by rw [← ha]⟩) hn.1
    · exact absurd (List.mem_map.mpr ⟨(k, a), ha, by rw [← hb]⟩) hn.1
    · exact ih k a b hn.2 ha hb

theorem slotsRight_of_nodup (slots sub : List (String × Slot)) (hn : (slots.map (·.1)).Nodup) (hsub : ∀ e ∈ sub, e ∈ slots) :
    SlotsRight (rightW slots) sub := by
  intro o s hs
  have hm := hsub _ hs
  refine ⟨fun li v => ⟨?_, fun h => ⟨s, hm, h⟩⟩, fun v => ⟨?_, fun h => ⟨s, hm, h⟩⟩, fun v => ⟨?_, fun h => ⟨s, hm, h⟩⟩⟩
  · rintro ⟨s', hs', h⟩; rw [nodup_keys_functional slots o s s' hn hm hs']; exact h
  · rintro ⟨s', hs', h⟩; rw [nodup_keys_functional slots o s s' hn hm hs']; exact h
  · rintro ⟨s', hs', h⟩; rw [nodup_keys_functional slots o s s' hn hm hs']; exact h

/-! ### the prelude of a run -/

def Comp (fs : FS) (p : Path) : Prop := ∃ v, fs.files p = some (.complete v)

theorem comp_after_write (fs : FS) (p : Path) (v : Val) (q : Path) (hq : q.isTmp = false) (h : q = p ∨ Comp fs q) :
    Comp (applyAll fs (writeEvs false p v)) q := by
  have ht : q ≠ .tmp p := tmp_ne hq
  by_cases e : q = p
  · subst e; exact ⟨v, by simp [applyAll, writeEvs, apply, FS.set, ht]⟩
  · rcases h with h | ⟨w, hw⟩
    · exact absurd h e
    · exact ⟨w, by simp [applyAll, writeEvs, apply, FS.set, ht, e, hw]⟩

theorem comp_after_inputs : ∀ (l : List (String × Val)) (fs : FS) (q : Path), q.isTmp = false →
    ((∃ kv ∈ l, q = .input kv.1) ∨ Comp fs q) →
    Comp (applyAll fs (l.flatMap fun (kv : String × Val) => writeEvs false (.input kv.1) kv.2)) q := by
  intro l
  induction l with
  | nil => intro fs q _ h; rcases h with ⟨kv, hkv, _⟩ | h; cases hkv; simpa [applyAll] using h
  | cons a as ih =>
    intro fs q hq h
    rw [List.flatMap_cons, applyAll_append]
    apply ih _ q hq
    rcases h with ⟨kv, hkv, e⟩ | h
    · rcases List.mem_cons.mp hkv with hk | hk
      · exact Or.inr (comp_after_write fs _ _ q hq (Or.inl (by rw [e, hk])))
      · exact Or.inl ⟨kv, hk, e⟩
    · exact Or.inr (comp_after_write fs _ _ q hq (Or.inr h))

theorem prefix_then_safe {J : FS → Prop} {fs : FS} {a b : List Ev} (ha : ∀ k, J (crashAt fs a k)) (hb : Safe J b) :
    ∀ k, J (crashAt fs (a ++ b) k) := by
  intro k
  rw [crashAt_append]
  split
  · exact ha k
  · apply hb
    have := ha a.length
    rwa [crashAt_all fs a _ (Nat.le_refl _)] at this

/-- `RunInfo._dump_all` of the repaired tree keeps the invariant at every prefix -/
theorem dumpAll_safe (W : Right) (fs0 : FS) (inputs : List (String × Val))
    (hW : ∀ p v, (∀ o li, p ≠ .cell o li) → (∀ o, p ≠ .single o) → (∀ o, p ≠ .dictArr o) → p.isTmp = false → W p v) (fs : FS) (hI : I W (akeys inputs) fs0 fs) : ∀ k, I W (akeys inputs) fs0 (crashAt fs (dumpAllEvs false inputs) k) := by
  have hins : Safe (I W (akeys inputs) fs0) (inputs.flatMap fun (kv : String × Val) => writeEvs false (.input kv.1) kv.2) :=
    Safe.flatMap _ _ fun kv _ => safe_write W _ fs0 _ _ rfl (hW _ _ (by intro o li e; cases e) (by intro o e; cases e) (by intro o e; cases e) rfl) (by intro e; cases e)
  have hdfl : Safe (I W (akeys inputs) fs0) (writeEvs false .defaults (metaVal "defaults")) :=
    safe_write W _ fs0 _ _ rfl (hW _ _ (by intro o li e; cases e) (by intro o e; cases e) (by intro o e; cases e) rfl) (by intro e; cases e)
  have h1 : Safe (I W (akeys inputs) fs0) ((inputs.flatMap fun (kv : String × Val) => writeEvs false (.input kv.1) kv.2) ++
      writeEvs false .defaults (metaVal "defaults")) := Safe.append hins hdfl
  have hpost : AllMeta (akeys inputs) (applyAll fs ((inputs.flatMap fun (kv : String × Val) => writeEvs false (.input kv.1) kv.2) ++
      writeEvs false .defaults (metaVal "defaults"))) := by
    rw [applyAll_append]
    refine ⟨fun n hn => ?_, ?_⟩
    · apply comp_after_write _ _ _ _ rfl
      refine Or.inr (comp_after_inputs inputs fs _ rfl (Or.inl ?_))
      obtain ⟨kv, hkv, e⟩ := List.mem_map.mp hn
      exact ⟨kv, hkv, by rw [e]⟩
    · exact comp_after_write _ _ _ _ rfl (Or.inl rfl)
  have h2 := trip_runInfo W (akeys inputs) fs0 (metaVal "run_info") (hW _ _ (by intro o li e; cases e) (by intro o e; cases e) (by intro o e; cases e) rfl)
    _ (h1.final fs hI) hpost
  intro k
  have : dumpAllEvs false inputs = ((inputs.flatMap fun (kv : String × Val) => writeEvs false (.input kv.1) kv.2) ++
      writeEvs false .defaults (metaVal "defaults")) ++ writeEvs false .runInfo (metaVal "run_info") := by
    simp [dumpAllEvs]
  rw [this, crashAt_append]
  split
  · exact h1 fs hI k
  · exact h2.1 _

theorem compare_ok (W : Right) (fs0 fs : FS) (inputs : List (String × Val)) (hI : I W (akeys inputs) fs0 fs) :
    compare false fs inputs = ⟨[], .ok ()⟩ := by
  unfold compare
  rcases hI.inv .runInfo rfl with hn | ⟨v, hv, _⟩
  · rw [hn]
  · rw [hv]
    obtain ⟨h1, ⟨d, hd⟩⟩ := hI.metaOk (by rw [hv]; simp)
    have hm : inputs.mapM (fun (kv : String × Val) => readFile fs (.input kv.1)) =
        .ok (inputs.map fun kv => match fs.files (.input kv.1) with | some (.complete v) => v | _ => .none) := by
      apply mapM_ok_of_forall
      intro kv hkv
      obtain ⟨w, hw⟩ := h1 kv.1 (List.mem_map.mpr ⟨kv, hkv, rfl⟩)
      simp [readFile, hw]
    have hdd : readFile fs .defaults = .ok d := by simp [readFile, hd]
    simp [hm, hdd]

/-- `init_store` on a folder that satisfies the invariant (repaired protocol): it succeeds, makes directories only, and the
    dicts it loads are the persisted ones (`MemOk`); every `DictArray` output of the plan gets an entry -/
theorem initStore_spec (W : Right) (J : FS → Prop) (hJ : ∀ d, Safe J [.mkdirp d]) (fs : FS) (hInv : Inv W fs) :
    ∀ plan : List (String × Bool), ∃ mem, (initStore false fs plan).res = .ok mem ∧ MemOk W fs mem ∧
      (∀ o, (o, true) ∈ plan → alookup mem o ≠ none) ∧ Safe J (initStore false fs plan).evs := by
  intro plan
  induction plan with
  | nil => exact ⟨[], rfl, (fun o cs h => by simp [alookup] at h), (fun o h => by cases h), Safe.nil _⟩
  | cons od rest ih =>
    obtain ⟨o, d⟩ := od
    obtain ⟨mem, h1, h2, h3, h4⟩ := ih
    cases d with
    | false =>
      simp only [initStore, Bool.not_false, ↓reduceIte]
      refine ⟨mem, h1, h2, ?_, Safe.append (a := [.mkdirp (.arr o)]) (hJ _) h4⟩
      intro o' ho'
      rcases List.mem_cons.mp ho' with e | e
      · cases e
      · exact h3 o' e
    | true =>
      simp only [initStore, Bool.not_true, Bool.false_eq_true, ↓reduceIte]
      rcases hInv (.dictArr o) rfl with hn | ⟨v, hv, hw⟩
      · simp only [hn, Option.isSome_none, Bool.false_eq_true, ↓reduceIte, h1, Except.map]
        refine ⟨(o, []) :: mem, rfl, ?_, ?_, h4⟩
        · intro o' cs hl
          simp only [alookup] at hl
          split at hl
          · next e => subst e; cases hl; exact Or.inl ⟨rfl, hn⟩
          · exact h2 o' cs hl
        · intro o' ho'
          simp only [alookup]
          split
          · simp
          · next ne =>
            rcases List.mem_cons.mp ho' with e | e
            · cases e; exact absurd rfl ne
            · exact h3 o' e
      · simp only [hv, Option.isSome_some, ↓reduceIte, readFile, h1, Except.map]
        refine ⟨(o, dictCells v) :: mem, rfl, ?_, ?_, h4⟩
        · intro o' cs hl
          simp only [alookup] at hl
          split at hl
          · next e => subst e; cases hl; exact Or.inr ⟨v, hv, hw, rfl⟩
          · exact h2 o' cs hl
        · intro o' ho'
          simp only [alookup]
          split
          · simp
          · next ne =>
            rcases List.mem_cons.mp ho' with e | e
            · cases e; exact absurd rfl ne
            · exact h3 o' e

/-- `_maybe_persist_memory` (repaired `dump`): safe when every array of the final store is a right content of its dict file -/
theorem persist_safe (W : Right) (names : List String) (fs0 : FS) (store : List (String × Slot))
    (hS : ∀ o sh mk cells, alookup store o = some (.array sh mk cells) → W (.dictArr o) (.tup (cells.map (·.2)))) :
    ∀ plan : List (String × Bool), Safe (I W names fs0) (persistEvs false store plan) := by
  intro plan
  unfold persistEvs
  apply Safe.flatMap
  intro od _
  cases od.2 with
  | false => exact Safe.nil _
  | true =>
    simp only [Bool.not_true, Bool.false_eq_true, ↓reduceIte]
    cases hl : alookup store od.1 with
    | none => exact Safe.nil _
    | some s =>
      cases s with
      | single _ => exact Safe.nil _
      | array sh mk cells =>
        exact Safe.append (a := [.mkdirp (.arr od.1)]) (safe_mkdirp _ _ _ _)
          (safe_write W names fs0 _ _ rfl (hS _ _ _ _ hl) (by intro e; cases e))

/-! ### what the uninterrupted run stores: keys and well-keyed cells -/

/-- the cells of every array slot are keyed `0, 1, …` -/
def WK (slots : List (String × Slot)) : Prop :=
  ∀ o sh mk cells, (o, Slot.array sh mk cells) ∈ slots → cells.map (·.1) = List.range cells.length

theorem runFuncWith_slots (fsd : List MFunc) (shapes : List (String × List Nat)) (masks : List (String × List Bool)) (env : Env) (f : MFunc)
    (r : FuncResult) (h : runFuncWith opArray fsd shapes masks env f = .ok r) : r.slots.map (·.1) = f.outputs ∧ WK r.slots := by
  have single : runSingle fsd env f = .ok r → r.slots.map (·.1) = f.outputs ∧ WK r.slots := by
    intro h
    obtain ⟨args, _, _, hs⟩ := runSingle_ok fsd env f r h
    rw [hs]
    refine ⟨by simp [List.map_map, Function.comp_def], ?_⟩
    intro o sh mk cells hm
    obtain ⟨_, _, e⟩ := List.mem_map.mp hm
    cases e
  unfold runFuncWith at h
  cases hms : f.mapspec with
  | none => simp only [hms] at h; exact single h
  | some ms =>
    simp only [hms] at h
    by_cases he : ms.inputs.isEmpty = true
    · simp only [he, ↓reduceIte] at h; exact single h
    · simp only [he, Bool.false_eq_true, ↓reduceIte] at h
      cases hh : f.outputs.head? with
      | none => simp [hh] at h
      | some o =>
        simp only [hh] at h
        cases hs : alookup shapes o with
        | none => simp [hs] at h
        | some sh =>
          cases hk : alookup masks o with
          | none => simp [hs, hk] at h
          | some mk =>
            simp only [hs, hk] at h
            by_cases hlen : sh.length = mk.length
            · simp only [hlen, ne_eq, not_true_eq_false, ↓reduceIte] at h
              obtain ⟨args, _, _, hsl⟩ := runMappedWith_ok fsd env f ms sh mk r h
              rw [hsl]
              refine ⟨by simp [List.map_map, Function.comp_def], ?_⟩
              intro o' sh' mk' cells hm
              obtain ⟨_, _, e⟩ := List.mem_map.mp hm
              cases e
              simp [cellsOf, List.map_map, Function.comp_def]
            · simp [hlen] at h

theorem runGenWith_slots (R : Env → MFunc → M FuncResult)
    (hR : ∀ env f r, R env f = .ok r → r.slots.map (·.1) = f.outputs ∧ WK r.slots) (env : Env) :
    ∀ (gen : List MFunc) (rs : List FuncResult), runGenWith R env gen = .ok rs →
      (rs.flatMap (·.slots)).map (·.1) = gen.flatMap (·.outputs) ∧ WK (rs.flatMap (·.slots)) := by
  intro gen
  induction gen with
  | nil =>
    intro rs h
    simp only [runGenWith, pure, Except.pure] at h
    cases h
    exact ⟨rfl, fun o sh mk cells hm => by simp at hm⟩
  | cons f rest ih =>
    intro rs h
    simp only [runGenWith, bind, Except.bind] at h
    split at h
    · cases h
    · next r hr =>
      split at h
      · cases h
      · next rs1 hrs1 =>
        simp only [pure, Except.pure] at h
        cases h
        obtain ⟨k1, w1⟩ := hR env f r hr
        obtain ⟨k2, w2⟩ := ih rs1 hrs1
        refine ⟨by simp [List.flatMap_cons, k1, k2], ?_⟩
        intro o sh mk cells hm
        simp only [List.flatMap_cons, List.mem_append] at hm
        rcases hm with hm | hm
        · exact w1 o sh mk cells hm
        · exact w2 o sh mk cells hm

theorem runGensWith_slots (R : Env → MFunc → M FuncResult)
    (hR : ∀ env f r, R env f = .ok r → r.slots.map (·.1) = f.outputs ∧ WK r.slots) :
    ∀ (gens : List (List MFunc)) (env : Env) (rs : List FuncResult) (envF : Env), runGensWith R gens env = .ok (rs, envF) →
      (rs.flatMap (·.slots)).map (·.1) = gens.flatten.flatMap (·.outputs) ∧ WK (rs.flatMap (·.slots)) ∧
      envF.store = env.store ++ rs.flatMap (·.slots) := by
  intro gens
  induction gens with
  | nil =>
    intro env rs envF h
    simp only [runGensWith, pure, Except.pure] at h
    cases h
    exact ⟨rfl, fun o sh mk cells hm => by simp at hm, by simp⟩
  | cons gen rest ih =>
    intro env rs envF h
    simp only [runGensWith, bind, Except.bind] at h
    split at h
    · cases h
    · next rs1 hrs1 =>
      split at h
      · cases h
      · next p hp =>
        obtain ⟨more, envF'⟩ := p
        simp only [pure, Except.pure] at h
        cases h
        obtain ⟨k1, w1⟩ := runGenWith_slots R hR env gen rs1 hrs1
        obtain ⟨k2, w2, st⟩ := ih _ more envF hp
        refine ⟨by simp [List.flatMap_append, k1, k2], ?_, by rw [st]; simp [List.flatMap_append]⟩
        intro o sh mk cells hm
        simp only [List.flatMap_append, List.mem_append] at hm
        rcases hm with hm | hm
        · exact w1 o sh mk cells hm
        · exact w2 o sh mk cells hm

/-! ### distinct output names, from a predicate on the function list -/

/-- no two functions share an output name and no function names an output twice (`Pipeline` validation) -/
def UniqueOutputs (fsd : List MFunc) : Prop :=
  (fsd.Pairwise fun a b => ∀ o, o ∈ a.outputs → o ∉ b.outputs) ∧ ∀ f ∈ fsd, f.outputs.Nodup

theorem mem_layers_flatten (fsd : List MFunc) : ∀ (fuel : Nat) (done : List String) (rest : List MFunc) (f : MFunc),
    f ∈ (layers fsd fuel done rest).flatten → f ∈ rest := by
  intro fuel
  induction fuel with
  | zero => intro done rest f h; simp [layers] at h
  | succ fuel ih =>
    intro done rest f h
    simp only [layers] at h
    split at h
    · simp at h
    · split at h
      · simp at h
      · simp only [List.flatten_cons, List.mem_append] at h
        rcases h with h | h
        · exact (List.mem_filter.mp h).1
        · exact (List.mem_filter.mp (ih _ _ f h)).1

theorem pairwise_sym_of_mem {α} {R : α → α → Prop} (hsym : ∀ a b, R a b → R b a) (l : List α) (h : l.Pairwise R) (a b : α)
    (ha : a ∈ l) (hb : b ∈ l) (hne : a ≠ b) : R a b := by
  induction h with
  | nil => cases ha
  | cons hx _ ih =>
    rcases List.mem_cons.mp ha with rfl | ha' <;> rcases List.mem_cons.mp hb with rfl | hb'
    · exact absurd rfl hne
    · exact hx b hb'
    · exact hsym _ _ (hx a ha')
    · exact ih ha' hb'

theorem layers_pairwise (fsd : List MFunc) (D : MFunc → MFunc → Prop) (hsym : ∀ a b, D a b → D b a) :
    ∀ (fuel : Nat) (done : List String) (rest : List MFunc), rest.Pairwise D → (layers fsd fuel done rest).flatten.Pairwise D := by
  intro fuel
  induction fuel with
  | zero => intro done rest _; simp [layers]
  | succ fuel ih =>
    intro done rest hp
    simp only [layers]
    split
    · simp
    · split
      · simp
      · rw [List.flatten_cons, List.pairwise_append]
        refine ⟨hp.sublist List.filter_sublist, ih _ _ (hp.sublist List.filter_sublist), ?_⟩
        intro x hx y hy
        have hy' := List.mem_filter.mp (mem_layers_flatten fsd _ _ _ y hy)
        have hxr : x ∈ rest := (List.mem_filter.mp hx).1
        apply pairwise_sym_of_mem hsym rest hp x y hxr hy'.1
        intro e
        subst e
        have := hy'.2
        simp only [Bool.not_eq_eq_eq_not, Bool.not_true, List.any_eq_false, decide_eq_true_eq] at this
        exact this x hx rfl

theorem nodup_flatMap_outputs : ∀ l : List MFunc, (l.Pairwise fun a b => ∀ o, o ∈ a.outputs → o ∉ b.outputs) →
    (∀ f ∈ l, f.outputs.Nodup) → (l.flatMap (·.outputs)).Nodup := by
  intro l
  induction l with
  | nil => intro _ _; simp
  | cons f rest ih =>
    intro hp hn
    rw [List.flatMap_cons, List.nodup_append]
    obtain ⟨h1, h2⟩ := List.pairwise_cons.mp hp
    refine ⟨hn f (by simp), ih h2 fun g hg => hn g (by simp [hg]), ?_⟩
    intro a ha b hb e
    subst e
    obtain ⟨g, hg, hbg⟩ := List.mem_flatMap.mp hb
    exact h1 g hg a ha hbg

/-- **distinct output names among everything the uninterrupted run stores**, from `UniqueOutputs` of the function list -/
theorem freshSlots_nodup (fsd : List MFunc) (inputs : List (String × Val)) (ui : List (String × List Nat)) (hu : UniqueOutputs fsd) :
    ((freshSlots fsd inputs ui).map (·.1)).Nodup := by
  unfold freshSlots pfLoop
  cases hpre : preRun fsd inputs ui with
  | error e => simp
  | ok sm =>
    obtain ⟨shapes, masks⟩ := sm
    simp only []
    cases hl : runGensWith (runFuncWith opArray fsd shapes masks) (generations fsd) { inputs := inputs, store := [] } with
    | error e => simp
    | ok p =>
      obtain ⟨rs, envF⟩ := p
      simp only []
      rw [(runGensWith_slots _ (fun env f r h => runFuncWith_slots fsd shapes masks env f r h) _ _ rs envF hl).1]
      apply nodup_flatMap_outputs
      · exact layers_pairwise fsd _ (fun a b h o ho hb => h o hb ho) _ _ _ hu.1
      · intro f hf
        exact hu.2 f (mem_layers_flatten fsd _ _ _ f hf)

end PF.ResumeFS

namespace PF.ResumeFS
open PF PF.Map

theorem runMap_unfold (fsd : List MFunc) (inputs : List (String × Val)) (ui : List (String × List Nat)) (r0 : MapResult)
    (h : runMap fsd inputs ui = .ok r0) :
    ∃ shapes masks rs envF, preRun fsd inputs ui = .ok (shapes, masks) ∧
      runGensWith (runFuncWith opArray fsd shapes masks) (generations fsd) { inputs := inputs, store := [] } = .ok (rs, envF) ∧
      r0.outputs = rs.flatMap (·.outputs) := by
  unfold runMap runMapWith at h
  unfold preRun
  simp only [bind, Except.bind] at h ⊢
  split at h
  · cases h
  · next u hu =>
    by_cases hc : (generations fsd).flatten.length ≠ fsd.length
    · rw [if_pos hc] at h; simp only [throw, throwThe, MonadExceptOf.throw] at h; cases h
    · rw [if_neg hc] at h ⊢
      split at h
      · cases h
      · next sm hsm =>
        split at h
        · cases h
        · next p hp =>
          simp only [pure, Except.pure, Except.ok.injEq] at h
          exact ⟨sm.1, sm.2, p.1, p.2, hsm, hp, by rw [← h]⟩

end PF.ResumeFS
