import PfModel.Lemmas.LazyMultiFresh
/-!
C18, several pipelines — whole sessions of one Python process in which SEVERAL lazy pipelines are called, inside and outside
`construct_dag()` blocks, in any interleaving, with any keyword arguments, and any of the returned objects are evaluated at any time.

`PF.Lazy.GSt` (`Model/LazyMulti.lean`) is the state `pipefunc/lazy.py` shares across pipelines: the one id counter / object table
(`_LazyFunction._counter`), the `_evaluated/_result` slots and the log of invocations, the one `_TASK_GRAPH` with one cache per
pipeline called in the block (`TaskGraph.cache_for`), and per pipeline its own cache.  A call on pipeline `i` (`gcall`) runs the
single-pipeline `lrunTop fss[i]` of `Props/C18.lean` on pipeline `i`'s view and writes the view back; `runOps` runs a whole session.
Hypothesis `AllWF fss`: every pipeline satisfies `PF.PipeCache.WF` (what `Pipeline.__init__` validates; the driver evaluates it on
every generated pipeline).  A refused call leaves the state as it was (the harness ends a session there) and an eager pipeline
inside a block is not modelled (see the header of `Model/LazyMulti.lean`).
-/
namespace PF.C18
open PF PF.Pipe PF.Lazy

/-- **Whole sessions.** Every state a process can reach — by ANY sequence of blocks, calls on any of its pipelines (any request,
    any keyword arguments) and `evaluate()`s of any objects — satisfies the process invariant `GSess`; in particular every
    pipeline's view satisfies the single-pipeline invariant `Sess` all theorems of `Props/C18.lean` start from. -/
theorem C18_multi_session (fss : List (List Func)) (hwf : AllWF fss) (cfg : List (Bool × List (List String))) (ops : List Op) :
    GSess fss (runOps fss ops (ginit cfg)) ∧
    ∀ i fs, fss[i]? = some fs → Sess fs (proj (runOps fss ops (ginit cfg)) i) := by
  have h := runOps_gsess hwf ops _ (ginit_gsess fss cfg)
  exact ⟨h, fun i fs hi => h.proj hi⟩

/-- the invariant is kept by every single operation (so sessions can be continued from any reachable state) -/
theorem C18_multi_step (fss : List (List Func)) (hwf : AllWF fss) (g : GSt) (hG : GSess fss g) (op : Op) :
    GSess fss (gstep fss g op) := gstep_gsess hwf hG op

/-- **The task graph of a block with several pipelines.** In every reachable state with an active task graph: the graph has an
    edge `(x, n)` exactly when `n` is a recorded node and `x` is a `_LazyFunction` among `n`'s arguments — whichever pipelines
    created `x` and `n`; every recorded node exists; every edge goes from an older to a newer id; there is no directed cycle. -/
theorem C18_multi_dag (fss : List (List Func)) (hwf : AllWF fss) (cfg : List (Bool × List (List String))) (ops : List Op)
    (t : GTG) (ht : (runOps fss ops (ginit cfg)).tg = some t) :
    (∀ x n, (x, n) ∈ t.edges ↔ (n ∈ t.gnodes ∧ ∃ nd, (runOps fss ops (ginit cfg)).nodes[n]? = some nd ∧ x ∈ nd.refs)) ∧
    (∀ n ∈ t.gnodes, n < (runOps fss ops (ginit cfg)).nodes.length) ∧
    (∀ x n, (x, n) ∈ t.edges → x < n) ∧ (∀ n, ¬ Path t.edges n n) := by
  have h := (C18_multi_session fss hwf cfg ops).1
  obtain ⟨hn, hedges⟩ := h.graph t ht
  have hlt : ∀ x n, (x, n) ∈ t.edges → x < n := by
    intro x n he
    obtain ⟨_, nd, hnd, hx⟩ := (hedges x n).mp he
    exact h.closed n nd hnd x hx
  exact ⟨hedges, hn, hlt, fun n p => Nat.lt_irrefl n (path_lt hlt p)⟩

/-- the same from any state that satisfies the invariant -/
theorem C18_multi_dag_inv (fss : List (List Func)) (g : GSt) (h : GSess fss g) (t : GTG) (ht : g.tg = some t) :
    (∀ x n, (x, n) ∈ t.edges ↔ (n ∈ t.gnodes ∧ ∃ nd, g.nodes[n]? = some nd ∧ x ∈ nd.refs)) ∧
    (∀ x n, (x, n) ∈ t.edges → x < n) ∧ (∀ n, ¬ Path t.edges n n) := by
  obtain ⟨_, hedges⟩ := h.graph t ht
  have hlt : ∀ x n, (x, n) ∈ t.edges → x < n := by
    intro x n he
    obtain ⟨_, nd, hnd, hx⟩ := (hedges x n).mp he
    exact h.closed n nd hnd x hx
  exact ⟨hedges, hlt, fun n p => Nat.lt_irrefl n (path_lt hlt p)⟩

/-- **The recorded nodes are exactly the ids created since the block was entered** — by whichever pipelines, in whatever
    interleaving with `evaluate()`s: if the block was entered when `n0` objects existed (after any session `before`) and `inside`
    contains no further `enter`/`exit`, the graph's nodes are `n0, n0+1, …` up to the current value of the counter, in this order. -/
theorem C18_multi_gnodes (fss : List (List Func)) (cfg : List (Bool × List (List String))) (before inside : List Op)
    (hin : inside.all noBlockOp = true) :
    ∃ t, (runOps fss inside (genter (runOps fss before (ginit cfg)))).tg = some t ∧
      (runOps fss before (ginit cfg)).nodes.length ≤ (runOps fss inside (genter (runOps fss before (ginit cfg)))).nodes.length ∧
      t.gnodes = List.range' (runOps fss before (ginit cfg)).nodes.length
        ((runOps fss inside (genter (runOps fss before (ginit cfg)))).nodes.length - (runOps fss before (ginit cfg)).nodes.length) := by
  have h0 : SinceEnter (runOps fss before (ginit cfg)).nodes.length (genter (runOps fss before (ginit cfg))) :=
    ⟨Nat.le_refl _, ⟨[], [], []⟩, rfl, by simp [genter]⟩
  obtain ⟨hle, t, ht, hr⟩ := runOps_since fss inside _ h0 hin
  exact ⟨t, ht, hle, hr⟩

/-- in EVERY reachable state (nested `enter`s, blocks after blocks): an active graph records a contiguous run of ids that ends
    at the current value of the counter — nothing created inside the block is missing, nothing is recorded twice -/
theorem C18_multi_gnodes_range (fss : List (List Func)) (cfg : List (Bool × List (List String))) (ops : List Op) (t : GTG)
    (ht : (runOps fss ops (ginit cfg)).tg = some t) :
    ∃ base, base ≤ (runOps fss ops (ginit cfg)).nodes.length ∧
      t.gnodes = List.range' base ((runOps fss ops (ginit cfg)).nodes.length - base) :=
  runOps_grange fss ops _ (fun t h => by simp [ginit] at h) t ht

/-- **No cross-talk, deferred, eager value.** A call `pipelines[i](o, **kw)` anywhere in such a session evaluates nothing (slots
    and log unchanged, objects only added), keeps the invariant, and the returned object stands for `compose fss[i] kw` — the
    eager specification of ITS pipeline, whatever the other pipelines of the block cached under the same key — and `evaluate()`,
    whenever it returns, returns that value. -/
theorem C18_multi_call (fss : List (List Func)) (hwf : AllWF fss) (g : GSt) (hG : GSess fss g) (i : Nat)
    (kw : List (String × Val)) (o : String) (a : LArg) (g' : GSt) (h : gcall fss i kw (.name o) g = .ok (a, g')) :
    g'.ev = g.ev ∧ (∃ ext, g'.nodes = g.nodes ++ ext) ∧ GSess fss g' ∧
    ∃ fs v, fss[i]? = some fs ∧ (∃ k, compose fs kw k o = .ok v) ∧ den g'.nodes a = some v ∧
      ∀ v' g'', geval a g' = .ok (v', g'') → v' = v := by
  obtain ⟨fs, s', hf, hlt, hr, rfl⟩ := gcall_ok h
  obtain ⟨rank, wf⟩ := hwf i fs hf
  obtain ⟨hst, hi, v, k, hd, hc⟩ := lrunTop_name wf (hG.proj hf) hr
  have hs' := sess_after (hG.proj hf) hst hi
  have hG' := writeBack_gsess hG hf hlt hst hs'
  refine ⟨hst.2.1, hst.1, hG', fs, v, hf, ⟨k, hc⟩, hd, ?_⟩
  intro v' g'' he
  obtain ⟨_, hd', _⟩ := geval_gsess hG' he
  have hd2 : den s'.nodes a = some v' := hd'
  rw [hd] at hd2; injection hd2 with hd2; exact hd2.symm

/-- the same for a request of the whole tuple of one function of pipeline `i` -/
theorem C18_multi_call_whole (fss : List (List Func)) (hwf : AllWF fss) (g : GSt) (hG : GSess fss g) (i : Nat)
    (kw : List (String × Val)) (os : List String) (a : LArg) (g' : GSt) (h : gcall fss i kw (.whole os) g = .ok (a, g')) :
    g'.ev = g.ev ∧ (∃ ext, g'.nodes = g.nodes ++ ext) ∧ GSess fss g' ∧
    ∃ fs f k vals, fss[i]? = some fs ∧ fs.find? (fun f => f.outputs = os) = some f ∧
      composeArgsWith (compose fs kw k) fs kw f f.params = .ok vals ∧ den g'.nodes a = some (result f vals) ∧
      ∀ v' g'', geval a g' = .ok (v', g'') → v' = result f vals := by
  obtain ⟨fs, s', hf, hlt, hr, rfl⟩ := gcall_ok h
  obtain ⟨rank, wf⟩ := hwf i fs hf
  obtain ⟨hst, hi, f, k, vals, hfind, hk, hd⟩ := lrunTop_whole wf (hG.proj hf) hr
  have hs' := sess_after (hG.proj hf) hst hi
  have hG' := writeBack_gsess hG hf hlt hst hs'
  refine ⟨hst.2.1, hst.1, hG', fs, f, k, vals, hf, hfind, hk, hd, ?_⟩
  intro v' g'' he
  obtain ⟨_, hd', _⟩ := geval_gsess hG' he
  have hd2 : den s'.nodes a = some v' := hd'
  rw [hd] at hd2; injection hd2 with hd2; exact hd2.symm

/-- **Everything a returned object needs is recorded.** Inside a block (entered after any session `before`; `inside` contains no
    further `enter`/`exit`, but any calls on any pipelines and any evaluations), whatever a call on any pipeline returns depends
    only on objects created inside the block: every node the returned object needs (itself and, transitively, its lazy
    arguments) is a node of the task graph — and by `C18_multi_dag` so are the edges between them. -/
theorem C18_multi_closure (fss : List (List Func)) (hwf : AllWF fss) (cfg : List (Bool × List (List String)))
    (before inside : List Op) (hin : inside.all noBlockOp = true) (i : Nat) (kw : List (String × Val)) (req : Req) (a : LArg) (g' : GSt)
    (h : gcall fss i kw req (runOps fss inside (genter (runOps fss before (ginit cfg)))) = .ok (a, g')) :
    ∃ t', g'.tg = some t' ∧ ∀ j, Needs g'.nodes a j →
      ((runOps fss before (ginit cfg)).nodes.length ≤ j ∧ j ∈ t'.gnodes) := by
  have hG1 := runOps_gsess hwf before _ (ginit_gsess fss cfg)
  have hG2 := runOps_gsess hwf inside _ (genter_gsess hG1)
  have hB := runOps_bfresh fss inside _ (genter_bfresh (runOps fss before (ginit cfg))) hin
  have hS0 : SinceEnter (runOps fss before (ginit cfg)).nodes.length (genter (runOps fss before (ginit cfg))) :=
    ⟨Nat.le_refl _, ⟨[], [], []⟩, rfl, by simp [genter]⟩
  have hS := gstep_since fss (runOps_since fss inside _ hS0 hin) (.call i kw req) rfl
  simp only [gstep, h] at hS
  obtain ⟨hle, t', ht', hr⟩ := hS
  have hden : ∃ v, den g'.nodes a = some v ∧ GSess fss g' := by
    cases req with
    | name o =>
      obtain ⟨_, _, hG', fs, v, _, _, hd, _⟩ := C18_multi_call fss hwf _ hG2 i kw o a g' h
      exact ⟨v, hd, hG'⟩
    | whole os =>
      obtain ⟨_, _, hG', fs, f, k, vals, _, _, _, hd, _⟩ := C18_multi_call_whole fss hwf _ hG2 i kw os a g' h
      exact ⟨_, hd, hG'⟩
  obtain ⟨v, hd, hG'⟩ := hden
  obtain ⟨fs, s', _, _, hrun, rfl⟩ := gcall_ok h
  obtain ⟨hF', haF⟩ := lrunTop_fresh (proj_fresh hB i) hrun
  have hB' := writeBack_bfresh hB i hF'
  refine ⟨t', ht', ?_⟩
  intro j hn
  have h1 := needs_fresh hB'.nodes haF hn
  refine ⟨h1, ?_⟩
  cases a with
  | val w => exact (needs_val hn).elim
  | ref r =>
    have h2 := needs_le hG'.closed hn
    have h3 : r < s'.nodes.length := den_some_lt hd
    rw [hr, List.mem_range'_1]
    show (runOps fss before (ginit cfg)).nodes.length ≤ j ∧ j < (runOps fss before (ginit cfg)).nodes.length +
      (s'.nodes.length - (runOps fss before (ginit cfg)).nodes.length)
    have hle' : (runOps fss before (ginit cfg)).nodes.length ≤ s'.nodes.length := hle
    omega

/-- `evaluate()` of any object, at any time: returns the value the object stands for in the global table, keeps the invariant,
    creates nothing, leaves the graph and all caches alone and only appends to the log -/
theorem C18_multi_evaluate (fss : List (List Func)) (g : GSt) (hG : GSess fss g) (a : LArg) (v : Val) (g' : GSt)
    (h : geval a g = .ok (v, g')) :
    GSess fss g' ∧ den g.nodes a = some v ∧ g'.nodes = g.nodes ∧ g'.tg = g.tg ∧ g'.pipes = g.pipes ∧
      ∃ new, g'.ev.log = g.ev.log ++ new := geval_gsess hG h

/-- **Exactly the needed nodes, across pipelines.** `evaluate()` invokes exactly the not-yet-invoked nodes the object depends on
    in the global table — none of another pipeline's objects unless it is an argument — and afterwards all of them are evaluated. -/
theorem C18_multi_exact (fss : List (List Func)) (g : GSt) (hG : GSess fss g) (a : LArg) (v : Val) (g' : GSt)
    (h : geval a g = .ok (v, g')) :
    (∀ i, i ∈ g'.ev.log ↔ (i ∈ g.ev.log ∨ Needs g.nodes a i)) ∧ (∀ i, Needs g.nodes a i → (dlookup g'.ev.done i).isSome) := by
  obtain ⟨e, rfl, hev⟩ := geval_ok h
  exact C18_exact [] (globView g) hG.glob a v _ hev

/-- **At most once, over the whole multi-pipeline session.** In every reachable state the log of invocations has no duplicates:
    no node's function is invoked twice, however many pipelines, blocks, requests and `evaluate()`s share it. -/
theorem C18_multi_once (fss : List (List Func)) (hwf : AllWF fss) (cfg : List (Bool × List (List String))) (ops : List Op) :
    (runOps fss ops (ginit cfg)).ev.log.Nodup := (C18_multi_session fss hwf cfg ops).1.log.1

/-- `TaskGraph.cache_for`: what one pipeline stores in the block's caches is invisible to every other pipeline, and the first
    caller's cache is the one whose size the block reports -/
theorem C18_multi_cache_for (c : List (Nat × List (Key × LArg))) (i j : Nat) (x : List (Key × LArg)) :
    cacheFor (setCache c i x) i = x ∧ (j ≠ i → cacheFor (setCache c i x) j = cacheFor c j) :=
  ⟨cacheFor_setCache_same i x c, fun h => cacheFor_setCache_other i j x h c⟩

/-! ### non-vacuity: the diamond of `Props/C18.lean` and its twin (same output names and root arguments, other functions) -/
def gA : Func := ⟨"ga", [("x", "x")], ["a"], [], []⟩
def gB : Func := ⟨"gb", [("a", "a"), ("y", "y")], ["b", "c"], [("y", .int 7)], []⟩
def gD : Func := ⟨"gd", [("a", "p"), ("b", "q"), ("c", "r")], ["d"], [], []⟩

def demoRank : String → Nat := fun o => if o = "a" then 0 else if o = "b" ∨ o = "c" then 1 else if o = "d" then 2 else 0

theorem C18_multi_demo_wf0 : PipeCache.WF [fD, fB, fA] demoRank := by
  refine ⟨?_, ?_, ?_, ?_⟩
  · intro f hf g hg o ho ho'
    simp only [List.mem_cons, List.not_mem_nil, or_false] at hf hg
    rcases hf with rfl | rfl | rfl <;> rcases hg with rfl | rfl | rfl <;> first | rfl | (exfalso; simp [fA, fB, fD] at ho ho'; rcases ho with rfl | rfl <;> simp at ho') | (exfalso; simp [fA, fB, fD] at ho ho'; subst ho; simp at ho')
  · intro f hf g hg p v w hv hw
    simp only [List.mem_cons, List.not_mem_nil, or_false] at hf hg
    rcases hf with rfl | rfl | rfl <;> rcases hg with rfl | rfl | rfl <;> simp [fA, fB, fD] at hv hw
    rw [hv.2, hw.2]
  · intro o f hp pq hpq hb hprod
    by_cases h1 : o = "d"
    · subst h1
      have : f = fD := by simpa [producer, fD, fB, fA] using hp.symm
      subst this
      simp [fD] at hpq
      rcases hpq with rfl | rfl | rfl <;> decide
    · by_cases h2 : o = "b" ∨ o = "c"
      · have : f = fB := by rcases h2 with rfl | rfl <;> simpa [producer, fD, fB, fA] using hp.symm
        subst this
        simp [fB] at hpq
        rcases hpq with rfl | rfl
        · rcases h2 with rfl | rfl <;> decide
        · simp [producer, fD, fB, fA] at hprod
      · by_cases h3 : o = "a"
        · subst h3
          have : f = fA := by simpa [producer, fD, fB, fA] using hp.symm
          subst this
          simp [fA] at hpq
          subst hpq
          simp [producer, fD, fB, fA] at hprod
        · exfalso
          simp only [not_or] at h2
          simp [producer, fD, fB, fA, h1, h2.1, h2.2, h3] at hp
  · intro o; simp only [demoRank, fuelFor, List.length_cons, List.length_nil]; split <;> (try split) <;> (try split) <;> omega

theorem C18_multi_demo_wf1 : PipeCache.WF [gD, gB, gA] demoRank := by
  refine ⟨?_, ?_, ?_, ?_⟩
  · intro f hf g hg o ho ho'
    simp only [List.mem_cons, List.not_mem_nil, or_false] at hf hg
    rcases hf with rfl | rfl | rfl <;> rcases hg with rfl | rfl | rfl <;> first | rfl | (exfalso; simp [gA, gB, gD] at ho ho'; rcases ho with rfl | rfl <;> simp at ho') | (exfalso; simp [gA, gB, gD] at ho ho'; subst ho; simp at ho')
  · intro f hf g hg p v w hv hw
    simp only [List.mem_cons, List.not_mem_nil, or_false] at hf hg
    rcases hf with rfl | rfl | rfl <;> rcases hg with rfl | rfl | rfl <;> simp [gA, gB, gD] at hv hw
    rw [hv.2, hw.2]
  · intro o f hp pq hpq hb hprod
    by_cases h1 : o = "d"
    · subst h1
      have : f = gD := by simpa [producer, gD, gB, gA] using hp.symm
      subst this
      simp [gD] at hpq
      rcases hpq with rfl | rfl | rfl <;> decide
    · by_cases h2 : o = "b" ∨ o = "c"
      · have : f = gB := by rcases h2 with rfl | rfl <;> simpa [producer, gD, gB, gA] using hp.symm
        subst this
        simp [gB] at hpq
        rcases hpq with rfl | rfl
        · rcases h2 with rfl | rfl <;> decide
        · simp [producer, gD, gB, gA] at hprod
      · by_cases h3 : o = "a"
        · subst h3
          have : f = gA := by simpa [producer, gD, gB, gA] using hp.symm
          subst this
          simp [gA] at hpq
          subst hpq
          simp [producer, gD, gB, gA] at hprod
        · exfalso
          simp only [not_or] at h2
          simp [producer, gD, gB, gA, h1, h2.1, h2.2, h3] at hp
  · intro o; simp only [demoRank, fuelFor, List.length_cons, List.length_nil]; split <;> (try split) <;> (try split) <;> omega

def demoFss : List (List Func) := [[fD, fB, fA], [gD, gB, gA]]

/-- the hypothesis of the theorems holds for the demo process -/
theorem C18_multi_demo_allwf : AllWF demoFss := by
  intro i fs h
  match i, h with
  | 0, h => simp [demoFss] at h; subst h; exact ⟨_, C18_multi_demo_wf0⟩
  | 1, h => simp [demoFss] at h; subst h; exact ⟨_, C18_multi_demo_wf1⟩
  | n+2, h => simp [demoFss] at h

def kx (n : Int) : List (String × Val) := [("x", .int n)]

/-- what a finished block reports: nodes, edges, `len(tg.cache.cache)`, owners with the sizes of their caches -/
structure MBlock where
  nodes : List Nat
  edges : List (Nat × Nat)
  cache : Nat
  owners : List (Nat × Nat)
  deriving DecidableEq, Repr

/-- a session: the ids the calls return, the names invoked by evaluating all returned objects in order afterwards, the blocks -/
structure MObs where
  rets : List (Option Nat)
  names : List String
  blocks : List MBlock
  deriving DecidableEq, Repr

def mdemo (ops : List Op) : MObs :=
  let step := fun (acc : GSt × List LArg × List MBlock) (op : Op) =>
    let (g, hs, bl) := acc
    match op with
    | .call i kw req => match gcall demoFss i kw req g with
      | .ok (a, g') => (g', hs ++ [a], bl)
      | .error _ => (g, hs, bl)
    | .exit => (gstep demoFss g op, hs,
        match g.tg with | some t => bl ++ [⟨t.gnodes, t.edges, firstCacheLen t, t.caches.map fun (i, c) => (i, c.length)⟩] | none => bl)
    | _ => (gstep demoFss g op, hs, bl)
  let (g, hs, bl) := ops.foldl step (ginit [(false, []), (false, [])], [], [])
  let g2 := hs.foldl (fun g a => gstep demoFss g (.eval a)) g
  ⟨hs.map (fun a => match a with | .ref i => some i | .val _ => none), callNames g2.nodes g2.ev.log, bl⟩

-- the twins in one block, same keyword values: nothing is shared between the pipelines (each has its own cache in the block),
-- the second request of pipeline 0 shares pipeline 0's nodes; `TaskGraph.cache` is pipeline 0's
example : mdemo [.enter, .call 0 (kx 1) (.name "a"), .call 1 (kx 1) (.name "a"), .call 0 (kx 1) (.name "a"), .exit] =
    ⟨[some 0, some 1, some 0], ["fa", "ga"], [⟨[0, 1], [], 1, [(0, 1), (1, 1)]⟩]⟩ := by decide
-- the second pipeline is the first caller: it gets `TaskGraph.cache`
example : mdemo [.enter, .call 1 (kx 1) (.name "a"), .call 0 (kx 1) (.name "a"), .call 0 (kx 2) (.name "a"), .exit] =
    ⟨[some 0, some 1, some 2], ["ga", "fa", "fa"], [⟨[0, 1, 2], [], 1, [(1, 1), (0, 2)]⟩]⟩ := by decide
-- edges of both pipelines in one graph; a second block starts afresh (nothing shared with the first block)
example : mdemo [.enter, .call 0 (kx 1) (.name "d"), .call 1 (kx 1) (.name "b"), .exit, .enter, .call 0 (kx 1) (.name "a"), .exit] =
    ⟨[some 4, some 7, some 9], ["fa", "fb", "fd", "ga", "gb", "fa"],
     [⟨[0, 1, 2, 3, 4, 5, 6, 7, 8], [(0, 1), (1, 2), (1, 3), (0, 4), (2, 4), (3, 4), (5, 6), (6, 7), (6, 8)], 2, [(0, 2), (1, 2)]⟩,
      ⟨[9], [], 1, [(0, 1)]⟩]⟩ := by decide
-- evaluations interleaved with calls of the other pipeline inside a block: at most once per node
example : (runOps demoFss [.enter, .call 0 (kx 1) (.name "d"), .eval (.ref 4), .call 1 (kx 1) (.name "d"), .eval (.ref 9), .eval (.ref 4),
                            .call 0 (kx 1) (.name "d"), .eval (.ref 4), .exit, .eval (.ref 9)] (ginit [(false, []), (false, [])])).ev.log =
    [0, 1, 2, 3, 4, 5, 6, 7, 8, 9] := by decide
-- the theorems instantiated on the demo process (the hypothesis `AllWF` holds there)
example (ops : List Op) : GSess demoFss (runOps demoFss ops (ginit [(false, []), (false, [])])) :=
  (C18_multi_session demoFss C18_multi_demo_allwf _ ops).1
example (ops : List Op) : (runOps demoFss ops (ginit [(false, []), (false, [])])).ev.log.Nodup :=
  C18_multi_once demoFss C18_multi_demo_allwf _ ops
-- `C18_multi_gnodes`: a block entered after 5 objects exist records 5, 6, … (calls of both pipelines and an evaluation inside)
example : (match (runOps demoFss [.call 1 (kx 2) (.name "d"), .enter, .call 0 (kx 1) (.name "a"), .eval (.ref 5), .call 1 (kx 1) (.name "b")]
    (ginit [(false, []), (false, [])])).tg with | some t => t.gnodes | none => []) = [5, 6, 7, 8, 9] := by decide
-- `C18_multi_call` / `C18_multi_call_whole`: calls on the second pipeline inside a block the first one has used succeed
example : (match gcall demoFss 1 (kx 1) (.name "d") (runOps demoFss [.enter, .call 0 (kx 1) (.name "d")] (ginit [(false, []), (false, [])])) with
    | .ok (.ref i, g') => some (i, g'.nodes.length) | _ => none) = some (9, 10) := by decide
example : (match gcall demoFss 1 (kx 1) (.whole ["b", "c"]) (runOps demoFss [.enter, .call 0 (kx 1) (.name "d")] (ginit [(false, []), (false, [])])) with
    | .ok (.ref i, g') => some (i, g'.nodes.length) | _ => none) = some (6, 7) := by decide
-- `C18_multi_evaluate` / `C18_multi_exact`: an `evaluate()` that succeeds and invokes exactly the object's three call nodes and two picks
example : (match geval (.ref 4) (runOps demoFss [.call 0 (kx 1) (.name "d"), .call 1 (kx 1) (.name "d")] (ginit [(false, []), (false, [])])) with
    | .ok (_, g') => some g'.ev.log | .error _ => none) = some [0, 1, 2, 3, 4] := by decide
-- `C18_multi_closure`: the needs of the object pipeline 1 returns inside a block (entered at counter 5) are recorded nodes
example : (match gcall demoFss 1 (kx 1) (.name "d") (runOps demoFss [.call 0 (kx 1) (.name "d"), .enter, .call 0 (kx 1) (.name "d")]
      (ginit [(false, []), (false, [])])) with
    | .ok (.ref i, g') => some (i, match g'.tg with | some t => t.gnodes | none => []) | _ => none) =
    some (14, [5, 6, 7, 8, 9, 10, 11, 12, 13, 14]) := by decide
-- a call on a pipeline that does not exist is refused
example : (match gcall demoFss 2 (kx 1) (.name "a") (ginit [(false, []), (false, [])]) with | .ok _ => true | .error _ => false) = false := by
  decide

end PF.C18
