import PfModel.Lemmas.HashableSub
/-!
C15, round 9 — instances of user subclasses (namedtuples, `class SubList(list)`, …): clause "unequal keys for values that
differ in container type".  Model: `Model/HashableSub.lean` (`wkey` = `to_hashable` over values whose container nodes carry
their class; `WV.base` forgets the subclass marks — what `==` / `hash` inherited from the builtin base see).

What is proved for ALL wide values (any nesting): `wkey` extends `key` (`C15_sub_conservative`); the root-level class
clause (`C15_sub_root_class`: two containers with one key have the same class, the only exception being two values that are both
returned as they are, and then they are equal as Python values); the exception characterised (`C15_sub_hashable_key_eq_iff`: the
known finding KF-C15-hashable-subclass-as-is as an iff).  Injectivity for marks at any depth is `C15_sub_injective`
(Props/C15SubInj.lean).  The iff "equal key iff same value" (both directions) is proved for subclass instances at the root over
core children (`C15_sub_root_key_eq_iff_partial`); the direction "same value, same key" for marks strictly below the root rests on
the witnesses and the correspondence.
-/
namespace PF.C15
open PF.Hashable

def wone : WV := .atom (.num 0 2)
def wtwo : WV := .atom (.num 0 4)
/-- `[1]`, `SubList([1])` (class 7), `(1, 2)`, `P(1, 2)` (namedtuple class 8), `P([1], 2)`, `([1], 2)` -/
def wl1 : WV := .node .list none [wone]
def wsl1 : WV := .node .list (some 7) [wone]
def wt12 : WV := .node .tuple none [wone, wtwo]
def wp12 : WV := .node .tuple (some 8) [wone, wtwo]
def wpl : WV := .node .tuple (some 8) [wl1, wtwo]
def wtl : WV := .node .tuple none [wl1, wtwo]

/-- Without subclass instances the wide model IS the core model: every theorem about `key` speaks about `wkey` there. -/
theorem C15_sub_conservative (esc : Bool) (w : WV) (hp : w.plain = true) : wkey esc w = key esc w.base :=
  wkey_plain esc w hp

example : wtl.plain = true ∧ wkey true wtl = key true wtl.base ∧ ∃ r, wkey true wtl = .ok r := ⟨by decide, by decide, _, rfl⟩

/-- A hashable value — also an instance of a tuple / frozenset subclass, a namedtuple of hashable fields — that is not headed by
    the marker is returned as it is; as a key it is its base value. -/
theorem C15_sub_hashable_key_is_base (w : WV) (h : w.asIs = true) : wkey true w = .ok w.base := by
  cases w with
  | atom a => simp [wkey, WV.base]
  | node k s xs =>
    simp only [WV.asIs, WV.base] at h
    simp [wkey, WV.base, h]

/-- KF-C15-hashable-subclass-as-is, exactly: two values that are returned as they are have equal keys iff they are the same
    value once the subclass marks are forgotten.  (`P(1, 2)` and `(1, 2)` share a key, at any depth.) -/
theorem C15_sub_hashable_key_eq_iff (a b : WV) (ha : a.asIs = true) (hb : b.asIs = true) :
    wkey true a = wkey true b ↔ a.base = b.base := by
  rw [C15_sub_hashable_key_is_base a ha, C15_sub_hashable_key_is_base b hb]
  constructor
  · intro h; exact Except.ok.inj h
  · intro h; rw [h]

example : wp12.asIs = true ∧ wt12.asIs = true ∧ wp12.base = wt12.base ∧ wp12.rootCls ≠ wt12.rootCls := by decide

/-- The class clause at the root, for all values (subclass instances anywhere inside): two containers with the same key are
    either both returned as they are — then they are `==` as Python values (same base value) — or both tagged, and then
    `type(a) is type(b)`: a subclass instance never shares a key with an instance of its base or of another subclass. -/
theorem C15_sub_root_class (k k' : Kind) (s s' : Option Nat) (xs ys : List WV) (r : PV)
    (ha : wkey true (.node k s xs) = .ok r) (hb : wkey true (.node k' s' ys) = .ok r) :
    ((WV.node k s xs).asIs = true ∧ (WV.node k' s' ys).asIs = true ∧ (WV.node k s xs).base = (WV.node k' s' ys).base) ∨
    ((WV.node k s xs).asIs = false ∧ (WV.node k' s' ys).asIs = false ∧ clsOf k s = clsOf k' s') := by
  simp only [WV.asIs, WV.base]
  rcases wkey_node true k s xs r ha with ⟨h1, e1⟩ | ⟨h1, _, srt, _, _, e1⟩ <;>
    rcases wkey_node true k' s' ys r hb with ⟨h2, e2⟩ | ⟨h2, _, srt', _, _, e2⟩ <;>
    simp only [Bool.true_and] at h1 h2
  · left; exact ⟨h1, h2, e1.symm.trans e2⟩
  · exfalso
    have hm : markerHeaded r = true := by rw [e2]; exact markerHeaded_tagged ..
    rw [e1] at hm
    simp [hm] at h1
  · exfalso
    have hm : markerHeaded r = true := by rw [e1]; exact markerHeaded_tagged ..
    rw [e2] at hm
    simp [hm] at h2
  · right; exact ⟨h1, h2, (tagged_inj (e1.symm.trans e2)).1⟩

example : ∃ r, wkey true wsl1 = .ok r ∧ wsl1.asIs = false := ⟨_, rfl, by decide⟩

/-- Root-level subclass instances over core children, unhashable (the case the dispatch tags): equal keys iff the same class
    (incl. the subclass) and the same value.  `subBase`: every user class has one builtin base (Python: instance layouts
    conflict otherwise).  PARTIAL: subclass marks strictly below the root are not covered by the iff; for them the direction
    "equal keys, related values" is `C15_sub_injective`, the direction "same value, same key" is missing (`key_equiv` would have
    to be redone over `WV`). -/
theorem C15_sub_root_key_eq_iff_partial (k k' : Kind) (s s' : Option Nat) (xs ys : List WV)
    (hpx : WV.plainL xs = true) (hpy : WV.plainL ys = true)
    (hk : k.mode ≠ .leaf) (hk' : k'.mode ≠ .leaf)
    (subBase : Nat → Cls) (hb : ∀ n, s = some n → k.cls = subBase n) (hb' : ∀ n, s' = some n → k'.cls = subBase n)
    (hux : hashable (.node k (WV.baseL xs)) = false) (huy : hashable (.node k' (WV.baseL ys)) = false)
    (hwf : wf (.node k (WV.baseL xs)) = true) (r : PV) (ha : wkey true (.node k s xs) = .ok r) :
    wkey true (.node k' s' ys) = .ok r ↔ (s = s' ∧ Equiv (.node k (WV.baseL xs)) (.node k' (WV.baseL ys))) := by
  obtain ⟨P, hP, hr⟩ := (wkey_root_unhashable hpx hux r).1 ha
  constructor
  · intro hb2
    obtain ⟨P', hP', hr'⟩ := (wkey_root_unhashable hpy huy r).1 hb2
    have ht := tagged_inj (hr.symm.trans hr')
    obtain ⟨hs, hc⟩ := clsOf_eq hk hk' subBase hb hb' ht.1
    refine ⟨hs, key_injective _ _ (tagged k.cls P) hP ?_⟩
    rw [hP', ← hc, ← ht.2]
  · rintro ⟨hs, he⟩
    subst hs
    have hkk : k = k' := by cases he; rfl
    subst hkk
    have := key_equiv _ _ he hwf _ hP
    exact (wkey_root_unhashable hpy huy r).2 ⟨P, this, hr⟩

/-- non-vacuity: `SubList([1])` has a key, `SubList([1])` again has it, `[1]` and an instance of another subclass do not -/
example : ∃ r, wkey true wsl1 = .ok r ∧ wkey true (.node .list (some 7) [wone]) = .ok r ∧
    wkey true wl1 ≠ .ok r ∧ wkey true (.node .list (some 9) [wone]) ≠ .ok r := ⟨_, rfl, rfl, by decide, by decide⟩

/-- KF-C15-hashable-subclass-as-is: the namedtuple `P(1, 2)` and the tuple `(1, 2)` get the same key, also inside a list
    (`[P(1, 2)]` / `[(1, 2)]`) and as a dict value, although they differ in container type. -/
theorem C15_sub_namedtuple_collides :
    wkey true wp12 = wkey true wt12 ∧ wp12.rootCls ≠ wt12.rootCls ∧
    wkey true (.node .list none [wp12]) = wkey true (.node .list none [wt12]) ∧
    wkey true (.node .dict none [.node .tuple none [wone, wp12]]) = wkey true (.node .dict none [.node .tuple none [wone, wt12]]) := by
  decide

/-- Unhashable subclass instances are told apart from their base and from each other, also below the root:
    `SubList([1])` / `[1]`, `P([1], 2)` / `([1], 2)`, `[SubList([1])]` / `[[1]]`, `{1: SubList([1])}` / `{1: [1]}`,
    two subclasses of `list`. -/
theorem C15_sub_unhashable_distinguished :
    wkey true wsl1 ≠ wkey true wl1 ∧ wkey true wpl ≠ wkey true wtl ∧
    wkey true (.node .list none [wsl1]) ≠ wkey true (.node .list none [wl1]) ∧
    wkey true (.node .dict none [.node .tuple none [wone, wsl1]]) ≠ wkey true (.node .dict none [.node .tuple none [wone, wl1]]) ∧
    wkey true wsl1 ≠ wkey true (.node .list (some 9) [wone]) ∧
    wkey true wsl1 = .ok (tagged (.other 7) (tup [natAtom 1])) := by
  decide

/-- The seeded change C15-s4-A (tag = the builtin base): `SubList([1])` and `[1]` collide. -/
theorem C15_sub_base_tag_collides :
    wkeyBaseTagged wsl1 = wkeyBaseTagged wl1 ∧ wkey true wsl1 ≠ wkey true wl1 := by decide

end PF.C15
