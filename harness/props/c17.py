"""C17 — Sweeps enumerate exactly the documented combinations.

Correspondence: `pipefunc.sweep` (`Sweep.list/__iter__/__len__/product/__add__/filtered_sweep`, `MultiSweep`,
`count_sweep`) against `PF.Sweep` (lean/PfModel/Model/Sweep.lean) on generated sweeps, plus the clauses of the property
evaluated directly on the implementation's own answers with a small independent reference enumeration (`ref_list`).
Derivers and exclude predicates come from a fixed menu that exists under the same names in lean/Driver/C17.lean.
"""
from __future__ import annotations

import collections
import copy
import itertools
import json
import math

import pfimport  # noqa: F401
from pfimport import exc_enum
from pipefunc import Pipeline, PipeFunc
from pipefunc.sweep import MultiSweep, Sweep, count_sweep, generate_sweep, set_cache_for_sweep

import framework

PID = "C17"
PROPS = ["PfModel.Props.C17", "PfModel.Props.C17Ext", "PfModel.Props.C17Count", "PfModel.Props.C17Order",
         "PfModel.Props.C17Roots"]
DRIVER = "C17"
RULE = ("sweeps over <= 4 dimensions (names a..h) with value lists of length 0..3 drawn with repeats from small ints and strings; dims is "
        "None or an ordered partition of the names into groups (names as str or tuples; zipped groups made equally long 85% of "
        "the time); optional constants / derivers / exclude from a named menu (local to the sweep, or reading the whole "
        "dictionary); operations list+iter+len, + / MultiSweep trees, product of 2-3 sweeps, filtered_sweep, count_sweep on a "
        "generated pipeline; a separate malformed stream (unknown / repeated / missing names in dims, empty groups, overlapping "
        "operands, repeated constant names); non-trivial = the operation sees at least one dimension with >= 2 values or a "
        "zipped group; distinct by the case's JSON")
ASSUMPTIONS = ["derivers and exclude predicates are total functions of the combination taken from a fixed menu (the theorems hold for arbitrary ones)",
               "values are ints / strings / None / tagged tuples, and (filtered_sweep stream only) two-element Python lists as the unhashable values",
               "dictionaries are compared as mappings (key order inside one combination is not observed)",
               "count_sweep: func_dependencies / root_args come from the pipeline model of C02 (PF.Pipe.funcDeps / rootArgs) on the model side "
               "and are compared with the implementation's and with the reachability specification PF.Sweep.depsSpec (Lean, C17_deps_spec); generated "
               "pipelines have single-output functions without defaults or bound values, producers before consumers",
               "count_sweep(use_pandas=True) is compared with the Lean model countPandas (KeyError for a sweep without combinations, None rows dropped, "
               "scalar keys for a single root argument) on every count case; ints that pandas turned into floats are read back as ints",
               "set_cache_for_sweep is observed through the `cache` attribute of every PipeFunc of a fresh pipeline"]

NAMES = list("abcdefgh")


# ------------------------------------------------------------------------------------------------ values and the menu
def to_py(v):
    if isinstance(v, dict):
        if v["t"] == "list":                                    # the unhashable value: a Python list
            return [to_py(v["a"]), to_py(v["b"])]
        return (v["t"], to_py(v["a"]), to_py(v["b"]))
    return v


def hashable(v):
    try:
        hash(v)
    except TypeError:
        return False
    return True


def to_js(v):
    if isinstance(v, tuple) and len(v) == 3 and isinstance(v[0], str):
        return {"t": v[0], "a": to_js(v[1]), "b": to_js(v[2])}
    if v is None or (isinstance(v, (int, str)) and not isinstance(v, bool)):
        return v
    if isinstance(v, list) and len(v) == 2:
        return {"t": "list", "a": to_js(v[0]), "b": to_js(v[1])}
    return {"t": "unrepresentable", "a": repr(v), "b": None}


def is_int(x):
    return isinstance(x, int) and not isinstance(x, bool)


def mk_deriver(spec):
    f, a = spec["f"], spec["a"]
    if f == "add":
        k1, k2 = a
        return lambda d: d.get(k1) + d.get(k2) if is_int(d.get(k1)) and is_int(d.get(k2)) else ("add", d.get(k1), d.get(k2))
    if f == "mul10":
        (k,) = a
        return lambda d: 10 * d.get(k) if is_int(d.get(k)) else ("mul10", d.get(k), None)
    if f == "pair":
        k1, k2 = a
        return lambda d: ("pair", d.get(k1), d.get(k2))
    if f == "const":
        v = to_py(a[0])
        return lambda d: v
    if f == "size":
        return lambda d: len(d)
    raise AssertionError(f)


def mk_exclude(spec):
    f, a = spec["f"], spec["a"]
    if f == "eq":
        k1, k2 = a
        return lambda d: same(d.get(k1), d.get(k2))
    if f == "gt":
        k, n = a
        return lambda d: is_int(d.get(k)) and d.get(k) > n
    if f == "is":
        k, v = a[0], to_py(a[1])
        return lambda d: same(d.get(k), v)
    if f == "has":
        (k,) = a
        return lambda d: k in d
    if f == "sizege":
        (n,) = a
        return lambda d: len(d) >= n
    if f == "never":
        return lambda d: False
    if f == "always":
        return lambda d: True
    raise AssertionError(f)


def same(x, y):
    """structural equality of menu values (ints, strings, None, tagged tuples)"""
    return type(x) is type(y) and x == y


def reads(spec):
    """names a menu function reads; None = the whole dictionary"""
    f, a = spec["f"], spec["a"]
    if f in ("size", "sizege"):
        return None
    if f in ("const", "never", "always"):
        return []
    if f in ("gt", "is", "has", "mul10"):
        return [a[0]]
    return list(a)


# ------------------------------------------------------------------------------------------------ building sweeps
def mk_dims(dims):
    return None if dims is None else [tuple(g) if isinstance(g, list) else g for g in dims]


def mk_sweep(j) -> Sweep:
    return Sweep(
        {k: [to_py(v) for v in vs] for k, vs in j["items"]},
        dims=mk_dims(j.get("dims")),
        exclude=mk_exclude(j["exclude"]) if j.get("exclude") else None,
        constants={k: to_py(v) for k, v in j["constants"]} if j.get("constants") is not None else None,
        derivers={k: mk_deriver(d) for k, d in j["derivers"]} if j.get("derivers") is not None else None,
    )


def mk_tree(t):
    if "m" in t:
        return MultiSweep(*[mk_tree(x) for x in t["m"]])
    return mk_sweep(t["s"])


def canon_combo(d):
    return sorted([k, to_js(v)] for k, v in d.items())


def canon_model_combo(c):
    return sorted([k, v] for k, v in c)


def jkey(x):
    return json.dumps(x, sort_keys=True)


def attempt(fn):
    try:
        return {"ok": fn()}
    except Exception as e:  # noqa: BLE001
        return {"err": exc_enum(e)}


# ------------------------------------------------------------------------------------------------ reference semantics
def groups_of(j):
    items = dict(j["items"])
    dims = j.get("dims")
    if dims is None:
        return [(k,) for k in items]
    if all(isinstance(g, str) for g in dims) and set(dims) == set(items):
        return [(k,) for k in items]          # dims is just the set of names: item order (sweep.py:120)
    return [tuple(g) if isinstance(g, list) else (g,) for g in dims]


def well_formed(j):
    items = dict(j["items"])
    if len(items) != len(j["items"]):
        return False
    dims = j.get("dims")
    if dims is None:
        return True
    gs = [tuple(g) if isinstance(g, list) else (g,) for g in dims]
    flat = [k for g in gs for k in g]
    if len(set(flat)) != len(flat) or any(k not in items for k in flat) or any(len(g) == 0 for g in gs):
        return False
    return all(len({len(items[k]) for k in g}) == 1 for g in gs)


def partition_of_all(j):
    dims = j.get("dims")
    if dims is None:
        return True
    return sorted(k for g in dims for k in (g if isinstance(g, list) else [g])) == sorted(k for k, _ in j["items"])


def in_item_order(j):
    """dims omitted or lists its groups in item order"""
    dims = j.get("dims")
    if dims is None:
        return True
    return [k for g in dims for k in (g if isinstance(g, list) else [g])] == [k for k, _ in j["items"]]


def nominal(j):
    """the enumerated groups are the groups as written (false only when dims is a permuted list of plain names)"""
    dims = j.get("dims")
    if dims is None:
        return True
    return groups_of(j) == [tuple(g) if isinstance(g, list) else (g,) for g in dims]


def ref_list(j):
    """The documented combinations of a well-formed sweep, as Python dicts (independent of the Lean model)."""
    items = {k: [to_py(v) for v in vs] for k, vs in j["items"]}
    if not items:
        return []
    parts = []
    for g in groups_of(j):
        n = len(items[g[0]])
        parts.append([{k: items[k][i] for k in g} for i in range(n)])
    consts = [(k, to_py(v)) for k, v in (j.get("constants") or [])]
    ders = [(k, mk_deriver(d)) for k, d in (j.get("derivers") or [])]
    exc = mk_exclude(j["exclude"]) if j.get("exclude") else None
    out = []
    for rows in itertools.product(*parts):
        d = {}
        for r in rows:
            d.update(r)
        for k, v in consts:
            if k not in d:
                d[k] = v
        for k, f in ders:
            d[k] = f(d)
        if exc is None or not exc(d):
            out.append(d)
    return out


def produced_keys(j):
    return [k for k, _ in j["items"]] + [k for k, _ in (j.get("constants") or [])] + [k for k, _ in (j.get("derivers") or [])]


def local(j):
    """derivers and exclude read only names this sweep produces"""
    own = set(produced_keys(j))
    specs = [d for _, d in (j.get("derivers") or [])] + ([j["exclude"]] if j.get("exclude") else [])
    for s in specs:
        r = reads(s)
        if r is None or any(k not in own for k in r):
            return False
    return True


def eq_dicts(a, b):
    """same list of mappings (values compared structurally, so 1 and True / '1' never coincide)"""
    return len(a) == len(b) and all(canon_combo(x) == canon_combo(y) for x, y in zip(a, b))


def eq_multiset(a, b):
    return sorted(map(repr, map(canon_combo, a))) == sorted(map(repr, map(canon_combo, b)))


# ------------------------------------------------------------------------------------------------ generators
VALUE_POOLS = [[0, 1, 2], [0, 1], [1, 2, 3, 5], ["x", "y", 1], [0, 1, 2, "x"]]


def gen_values(rng, n, pool):
    return [rng.choice(pool) for _ in range(n)]


def gen_partition(rng, keys):
    ks = list(keys)
    rng.shuffle(ks) if rng.random() < 0.4 else None
    groups, i = [], 0
    while i < len(ks):
        n = 1 if rng.random() < 0.45 else rng.randint(1, len(ks) - i)
        groups.append(ks[i:i + n]); i += n
    if rng.random() < 0.3:
        rng.shuffle(groups)
    return groups


def gen_sweep(rng, keys, *, foreign=(), rich=0.45, empty_ok=True):
    """A mostly well-formed sweep over `keys`; `foreign` are names of other operands menu functions may (rarely) read."""
    pool = rng.choice(VALUE_POOLS)
    lens = {k: rng.choice([0, 1, 1, 2, 2, 2, 2, 3, 3, 3, 3, 2] if empty_ok else [1, 2, 2, 3, 3]) for k in keys}
    dims = None
    mode = rng.random()
    if keys and mode < 0.6:
        groups = gen_partition(rng, keys)
        dims = []
        for g in groups:
            if len(g) == 1 and rng.random() < 0.7:
                dims.append(g[0])
            else:
                dims.append(list(g))
                if rng.random() < 0.85:
                    for k in g:
                        lens[k] = lens[g[0]]
    items = [[k, gen_values(rng, lens[k], pool)] for k in keys]
    j = {"items": items, "dims": dims, "exclude": None, "constants": None, "derivers": None}
    if not keys:
        if rng.random() < 0.3:
            j["constants"] = [["K", 7]]
        return j
    own = list(keys)
    tag = "".join(sorted(keys))
    if rng.random() < rich:
        cs = [["C" + tag, rng.choice([7, "c"])]]
        if rng.random() < 0.25:
            cs.append([rng.choice(own), 9])                     # shadowed by the dimension (setdefault)
        if rng.random() < 0.2:
            cs.append(["K" + tag, 0])
        j["constants"] = cs if rng.random() < 0.9 else []
        own += [k for k, _ in cs if k not in own]
    if rng.random() < rich:
        ds = []
        for i in range(rng.randint(1, 2)):
            name = "D" + tag + str(i) if rng.random() < 0.85 else rng.choice(own)   # may overwrite a dimension
            src = own + ([x for x in foreign] if rng.random() < 0.1 else [])
            f = rng.choice(["add", "mul10", "pair", "const", "size"] if rng.random() < 0.15 else ["add", "mul10", "pair", "const"])
            if f in ("add", "pair"):
                spec = {"f": f, "a": [rng.choice(src), rng.choice(src)]}
            elif f == "mul10":
                spec = {"f": f, "a": [rng.choice(src)]}
            elif f == "const":
                spec = {"f": f, "a": [rng.choice([0, "k", None])]}
            else:
                spec = {"f": f, "a": []}
            if name not in [k for k, _ in ds]:
                ds.append([name, spec]); own.append(name) if name not in own else None
        j["derivers"] = ds if rng.random() < 0.93 else []
    if rng.random() < rich:
        src = own + ([x for x in foreign] if rng.random() < 0.1 else [])
        f = rng.choice(["eq", "gt", "is", "has", "sizege", "never", "always"] if rng.random() < 0.2 else ["eq", "gt", "is", "gt", "is"])
        if f == "eq":
            spec = {"f": f, "a": [rng.choice(src), rng.choice(src)]}
        elif f == "gt":
            spec = {"f": f, "a": [rng.choice(src), rng.choice([0, 1, 2, 10])]}
        elif f == "is":
            spec = {"f": f, "a": [rng.choice(src), rng.choice(pool)]}
        elif f == "has":
            spec = {"f": f, "a": [rng.choice(src + ["zz"])]}
        elif f == "sizege":
            spec = {"f": f, "a": [rng.randint(1, 5)]}
        else:
            spec = {"f": f, "a": []}
        j["exclude"] = spec
    return j


def gen_malformed(rng, keys):
    j = gen_sweep(rng, keys, rich=0.25)
    ks = [k for k, _ in j["items"]]
    kind = rng.choice(["unknown", "repeat", "missing", "emptygroup", "unequal", "emptydims", "permuted-names", "repeat-names"])
    if kind == "unknown":
        j["dims"] = (j["dims"] or list(ks)) + [rng.choice(["zz", ["zz"], [ks[0], "zz"] if ks else ["zz"]])]
    elif kind == "repeat" and ks:
        j["dims"] = (j["dims"] or list(ks)) + [rng.choice([ks[0], [ks[0]], ks[:2]])]
    elif kind == "missing" and len(ks) >= 2:
        j["dims"] = [g for g in (j["dims"] or list(ks))][:-1]
    elif kind == "emptygroup":
        j["dims"] = (j["dims"] or list(ks)) + [[]]
    elif kind == "unequal" and len(ks) >= 2:
        j["dims"] = [list(ks)]
        j["items"][0][1] = j["items"][0][1] + [0]
    elif kind == "emptydims":
        j["dims"] = []
    elif kind == "permuted-names":
        j["dims"] = list(reversed(ks))
    elif kind == "repeat-names" and ks:
        j["dims"] = list(ks) + [ks[0]]
    return j, kind


def pick_keys(rng, pool, lo, hi):
    n = rng.randint(lo, min(hi, len(pool)))
    return rng.sample(pool, n) if rng.random() < 0.3 else sorted(rng.sample(pool, n))


def gen_tree(rng, depth=0):
    if depth >= 2 or rng.random() < 0.6:
        return {"s": gen_sweep(rng, pick_keys(rng, NAMES[:4], 0, 3))}
    return {"m": [gen_tree(rng, depth + 1) for _ in range(rng.randint(0, 3))]}


def gen_pipeline(rng, roots):
    """functions f0..fn over the sweep's names and earlier outputs; returns ([(output, [params])], requested output)"""
    funcs, avail = [], list(roots)
    for i in range(rng.randint(2, 4)):
        params = rng.sample(avail, rng.randint(1, min(3, len(avail))))
        if i > 0 and rng.random() < 0.7 and f"o{i-1}" not in params:
            params[0] = f"o{i-1}"
        params = list(dict.fromkeys(params))
        if i == 0 and rng.random() < 0.04:
            params = []                                         # a function without parameters: no root arguments at all
        funcs.append([f"o{i}", params]); avail.append(f"o{i}")
    return funcs, funcs[-1][0] if rng.random() < 0.8 else rng.choice(funcs)[0]


def make_case(rng):
    kind = rng.choices(["list", "multi", "add", "product", "filtered", "count", "malformed"], [30, 6, 10, 26, 16, 7, 9])[0]
    if kind == "list":
        return {"m": "list", "a": gen_sweep(rng, pick_keys(rng, NAMES[:5], 0, 4))}
    if kind == "malformed":
        j, why = gen_malformed(rng, pick_keys(rng, NAMES[:4], 0, 3))
        sub = rng.random()
        if sub < 0.6:
            return {"m": "list", "a": j, "malformed": why}
        if sub < 0.8:
            ks = [k for k, _ in j["items"]]
            return {"m": "filtered", "a": {"s": j, "keys": rng.sample(ks + ["zz"], rng.randint(0, len(ks)))}, "malformed": why}
        other = gen_sweep(rng, pick_keys(rng, NAMES[2:6], 0, 2))        # may overlap
        return {"m": "product", "a": {"s": j, "others": [other]}, "malformed": why}
    if kind == "multi":
        return {"m": "multi", "a": gen_tree(rng)}
    if kind == "add":
        return {"m": "add", "a": {"x": gen_tree(rng, 1), "y": gen_tree(rng, 1)}}
    if kind == "product":
        n = rng.choice([2, 2, 3])
        pool = NAMES[:]
        rng.shuffle(pool) if rng.random() < 0.3 else None
        sweeps, used = [], 0
        sizes = [rng.randint(0 if rng.random() < 0.12 else 1, 2 if n == 3 else 3) for _ in range(n)]
        all_keys = [pool[sum(sizes[:i]):sum(sizes[:i + 1])] for i in range(n)]
        for i in range(n):
            foreign = [k for jx, ks in enumerate(all_keys) if jx != i for k in ks]
            sweeps.append(gen_sweep(rng, all_keys[i], foreign=foreign, rich=0.4, empty_ok=rng.random() < 0.3))
        if rng.random() < 0.04 and sweeps[1]["constants"]:
            sweeps[0]["constants"] = (sweeps[0]["constants"] or []) + [sweeps[1]["constants"][0]]    # repeated constant name
        return {"m": "product", "a": {"s": sweeps[0], "others": sweeps[1:]}}
    if kind == "filtered":
        j = gen_sweep(rng, pick_keys(rng, NAMES[:5], 1, 4), rich=0.3)
        if rng.random() < 0.75:
            j["constants"] = None; j["exclude"] = None
        avail = list(dict.fromkeys(produced_keys(j)))
        ks = rng.sample(avail, rng.randint(1, len(avail)))
        if rng.random() < 0.08:
            ks = rng.choice([[], [], ks + ["zz"], ks + ks[:1], ["zz"]])
        case = {"m": "filtered", "a": {"s": j, "keys": ks}}
        if rng.random() < 0.14 and j["items"]:
            # unhashable values (Python lists) in one or two dimensions, with repeats; without derivers only once DF-C17-03 is repaired
            lists = [{"t": "list", "a": x, "b": y} for x, y in [(0, None), (0, None), (1, 0), ("x", None)]]
            for col in rng.sample(j["items"], min(len(j["items"]), rng.randint(1, 2))):
                col[1][:] = [rng.choice(lists) if rng.random() < 0.8 else v for v in col[1]]
            case["unhashable"] = True
        return case
    # count
    j = gen_sweep(rng, pick_keys(rng, NAMES[:4], 1, 4), rich=0.3)
    roots = list(dict.fromkeys(produced_keys(j)))
    funcs, out = gen_pipeline(rng, roots + (["zz"] if rng.random() < 0.05 else []))
    a = {"s": j, "funcs": funcs, "output": out}
    if rng.random() < 0.8:                                      # set_cache_for_sweep: min_executions and the flags before the call
        a["min"] = rng.choice([2, 2, 2, 1, 3, 3, 4, 0, -1, 6])
        a["cache"] = [[o, rng.random() < 0.5] for o, _ in funcs]
    return {"m": "count", "a": a}


# ------------------------------------------------------------------------------------------------ the implementation
def observe(s):
    """list, iteration and len of a Sweep / MultiSweep object, and the clauses that relate them"""
    bad = []
    lst = attempt(lambda: s.list())
    it = attempt(lambda: [c for c in s])
    gen = attempt(lambda: list(s.generate()))
    ln = attempt(lambda: len(s))
    if "ok" in lst:
        if not ("ok" in it and eq_dicts(it["ok"], lst["ok"])) or not ("ok" in gen and eq_dicts(gen["ok"], lst["ok"])):
            bad.append("iteration / generate() does not yield the combinations of list()")
        if ln != {"ok": len(lst["ok"])}:
            bad.append(f"len(sweep) = {ln.get('ok', ln.get('err'))} but len(sweep.list()) = {len(lst['ok'])}")
    o = {"list": {"ok": [canon_combo(c) for c in lst["ok"]]} if "ok" in lst else lst, "len": ln}
    return o, (lst.get("ok")), bad


def make_pipeline(funcs):
    fs = []
    for out, params in funcs:
        ns = {}
        exec(f"def fn({', '.join(params)}):\n    return ({', '.join(params)}{',' if params else ''})\n", ns)  # noqa: S102
        fs.append(PipeFunc(ns["fn"], output_name=out))
    return Pipeline(fs)


def _op_lists(objs):
    return [attempt(lambda x=x: x.list()) for x in objs]


def operands_kept(what, objs, before):
    """A combinator enumerates; it must not change what its OPERANDS enumerate (`a.product(b)` merged b's items into `a.items` in place in
    seeded change C17-s4-A: the product is right, `a.list()` afterwards is not).  Compared: every operand's list() before and after."""
    out = []
    for i, (b, n) in enumerate(zip(before, _op_lists(objs))):
        if ("ok" in b) != ("ok" in n) or ("ok" in b and not eq_dicts(b["ok"], n["ok"])):
            STATS["operand-changed"] += 1
            out.append(f"list() of operand {i} yields other combinations after {what} than before "
                       f"({len(b['ok']) if 'ok' in b else b.get('err')} vs {len(n['ok']) if 'ok' in n else n.get('err')}): the combinator changed its operand")
    return out


def run_impl(case):
    """(observation comparable with the model, failed property clauses, model request)"""
    m, a = case["m"], case["a"]
    bad = []
    if m == "list":
        s = mk_sweep(a)
        o, lst, bad = observe(s)
        if lst is not None:
            g = attempt(lambda: generate_sweep(s.items, s.dims, s.exclude, s.constants, s.derivers))
            if not ("ok" in g and eq_dicts(g["ok"], lst)):
                bad.append("generate_sweep(...) differs from Sweep(...).list()")
        if well_formed(a):
            want = ref_list(a)
            if lst is None:
                bad.append(f"list() of a well-formed sweep raised {o['list']['err']}")
            elif not eq_dicts(lst, want):
                what = "the same combinations in another order" if eq_multiset(lst, want) else "other combinations"
                bad.append(f"list() yields {what} than the product of the zipped groups with constants, derivers, exclude "
                           f"({len(lst)} vs {len(want)})")
        return o, bad, {"m": "list", "a": sweep_req(a)}
    if m == "multi":
        o, lst, bad = observe(mk_tree(a))
        subs = [attempt(lambda x=x: mk_tree(x).list()) for x in (a["m"] if "m" in a else [a])]
        if all("ok" in x for x in subs) and not (lst is not None and eq_dicts(lst, [c for x in subs for c in x["ok"]])):
            bad.append("MultiSweep does not yield the concatenation of its members")
        return o, bad, {"m": "multi", "a": tree_req(a)}
    if m == "add":
        lx, ly = attempt(lambda: mk_tree(a["x"]).list()), attempt(lambda: mk_tree(a["y"]).list())
        x, y = mk_tree(a["x"]), mk_tree(a["y"])
        before = _op_lists([x, y])
        o, lst, bad = observe(x + y)
        # `MultiSweep.__add__` is `combine`: documented to add the sweep to THIS MultiSweep (in place, returns self) - only a plain Sweep on the
        # left and the right operand are required to enumerate what they enumerated before
        from pipefunc.sweep import MultiSweep as _MS
        keep = [(q, b) for q, b in zip([x, y], before) if not (q is x and isinstance(x, _MS))]
        bad += operands_kept("x + y", [q for q, _ in keep], [b for _, b in keep])
        if "ok" in lx and "ok" in ly and not (lst is not None and eq_dicts(lst, lx["ok"] + ly["ok"])):
            bad.append("x + y does not yield the concatenation of x and y")
        return o, bad, {"m": "add", "a": {"x": tree_req(a["x"]), "y": tree_req(a["y"])}}
    if m == "product":
        ops = [a["s"], *a["others"]]
        sw = [mk_sweep(x) for x in ops]
        before = _op_lists(sw)
        p = attempt(lambda: sw[0].product(*sw[1:]))
        req = {"m": "product", "a": {"s": sweep_req(a["s"]), "others": [sweep_req(x) for x in a["others"]]}}
        if "err" in p:
            if product_clause_applies(ops):
                bad.append(f"product of sweeps with disjoint keys raised {p['err']}")
            bad += product_direct(ops)
            bad += operands_kept("product", sw, before)
            return p, bad, req
        o, lst, bad = observe(p["ok"])
        bad += product_direct(ops)
        bad += operands_kept("product", sw, before)
        if product_clause_applies(ops):
            want = product_ref(ops)
            ordered = all(nominal(x) for x in ops)
            if lst is None:
                bad.append(f"list() of a product of well-formed sweeps raised {o['list']['err']}")
            elif not (eq_dicts(lst, want) if ordered else eq_multiset(lst, want)):
                bad.append(f"product of {len(ops)} sweeps with disjoint keys is not the Cartesian product of their combination lists "
                           f"({len(lst)} vs {len(want)} combinations)")
        return {"ok": o}, bad, req
    if m == "filtered":
        s = mk_sweep(a["s"])
        ks = list(a["keys"])
        before = _op_lists([s])
        f = attempt(lambda: s.filtered_sweep(ks))
        kept = operands_kept("filtered_sweep", [s], before)
        req = {"m": "filtered", "a": {"s": sweep_req(a["s"]), "keys": ks}}
        applies = filtered_clause_applies(a["s"], ks)
        if applies and a["s"].get("derivers") is not None and any(not hashable(c[k]) for c in ref_list(a["s"]) for k in ks):
            # documented refusal (`sweep.py:168-172`): TypeError for unhashable projected values with derivers; compared with `filteredH`
            applies = False
            STATS["filtered:unhashable:derivers-refusal"] += 1
        if not ks:
            STATS["filtered:nokeys"] += 1
        if case.get("unhashable"):
            STATS["filtered:unhashable"] += 1
        if "err" in f:
            if applies:
                bad.append(f"filtered_sweep raised {f['err']}")
            return f, bad + kept, req
        o, lst, bad = observe(f["ok"])
        bad += kept
        if applies:
            want = []
            for c in ref_list(a["s"]):
                pr = {k: c[k] for k in ks}
                if not any(canon_combo(pr) == canon_combo(w) for w in want):
                    want.append(pr)
            if lst is None:
                bad.append(f"list() of the filtered sweep raised {o['list']['err']}")
            elif not eq_multiset(lst, want):
                bad.append(f"filtered_sweep(keys) does not yield the distinct projections onto keys ({len(lst)} vs {len(want)})")
            elif filtered_ordered(a["s"]) and not eq_dicts(lst, want):
                bad.append(ORDER_ONLY + "filtered_sweep(keys) yields the distinct projections onto keys in another order than their first "
                           "occurrence (the property fixes no order here; C17_filtered_derivers / C17_filtered_plain do)")
        return {"ok": o}, bad, req
    if m == "count":
        s = mk_sweep(a["s"])
        pipe = make_pipeline(a["funcs"])
        out = a["output"]
        deps = attempt(lambda: [[o, list(pipe.root_args(o))] for o in pipe.func_dependencies(out)])
        if "err" in deps:
            return deps, ["func_dependencies / root_args raised " + deps["err"]], None
        depl = deps["ok"]
        obs = {"deps": sorted([o, list(r)] for o, r in depl)}
        req = {"m": "count_pipe", "a": {"s": sweep_req(a["s"]), "funcs": a["funcs"], "output": out}}
        if "min" in a:
            req["a"]["min"], req["a"]["cache"] = a["min"], a["cache"]
        lst = attempt(lambda: s.list())
        cnt = attempt(lambda: count_sweep(out, s, pipe))
        cnt_l = attempt(lambda: count_sweep(out, s.list(), pipe))
        if cnt_l != cnt and not ("err" in cnt and "err" in cnt_l):
            bad.append("count_sweep(Sweep) differs from count_sweep(sweep.list())")
        have_all = "ok" in lst and all(k in c for c in lst["ok"] for _, r in depl for k in r)
        want = {}
        if "err" in cnt:
            if have_all:
                bad.append(f"count_sweep raised {cnt['err']}")
            obs["err"] = cnt["err"]
        else:
            for o, r in depl:
                w = {}
                for c in lst["ok"]:
                    key = tuple(c[k] for k in r)
                    w[key] = w.get(key, 0) + 1
                want[o] = w
                got = cnt["ok"].get(o)
                if got is None or sorted(map(repr, got.items())) != sorted(map(repr, w.items())):
                    bad.append(f"count_sweep[{o}] does not count the combinations sharing each root-argument tuple {tuple(r)}")
                elif sum(got.values()) != len(lst["ok"]):
                    bad.append(f"the counts of count_sweep[{o}] do not sum to len(sweep)")
            if sorted(cnt["ok"]) != sorted(o for o, _ in depl):
                bad.append("count_sweep reports other dependencies than func_dependencies")
            obs["ok"] = sorted([o, sorted(([[to_js(x) for x in key], n] for key, n in d.items()), key=jkey)] for o, d in cnt["ok"].items())
        # ---- the pandas path, every case whose root-argument columns pandas can order (`column_orderable`; other columns are
        #      outside the modelled domain)
        cols = sorted({k for _, r in depl for k in r})
        orderable = all(column_orderable([c.get(k) for c in lst.get("ok", []) if c.get(k) is not None]) for k in cols)
        if not orderable:
            case["pandas"] = "skip"
            STATS["count:pandas:skipped-unorderable-column"] += 1
        else:
            STATS["count:pandas"] += 1
            pdr = attempt(lambda: count_sweep(out, s, pipe, use_pandas=True))
            if "err" in pdr:
                obs["pandas"] = pdr
                STATS["count:pandas:err:" + pdr["err"]] += 1
            else:
                roots = dict((o, r) for o, r in depl)
                tables = []
                for o, d in pdr["ok"].items():
                    one = len(roots.get(o, ())) == 1
                    tables.append([o, {"scalar": one, "table": sorted(([[to_js(to_js_num(x)) for x in ((k,) if one else k)], int(n)] for k, n in d.items()), key=jkey)}])
                obs["pandas"] = {"ok": sorted(tables, key=jkey)}
                if "ok" in cnt:
                    for o, w in want.items():
                        g = pdr["ok"].get(o)
                        one = len(roots[o]) == 1
                        canon = None if g is None else sorted(jkey([[to_js(to_js_num(x)) for x in ((k,) if one else k)], int(n)]) for k, n in g.items())
                        if canon != sorted(jkey([[to_js(x) for x in k], n]) for k, n in w.items()):
                            if any(x is None for k in w for x in k):
                                case["pandas"] = "none-in-root-args"        # the shape of DF-C17-02 (known finding); its matcher decides
                                STATS["count:pandas:none-in-root-args"] += 1
                            bad.append(f"count_sweep(use_pandas=True)[{o}] does not count the combinations sharing each root-argument tuple (differs from the default path)")
                            break
                    else:
                        STATS["count:pandas:agrees"] += 1
        # ---- set_cache_for_sweep
        if "min" in a:
            STATS["count:setcache"] += 1
            pipe2 = make_pipeline(a["funcs"])
            before = dict((o, b) for o, b in a["cache"])
            for f in pipe2.functions:
                f.cache = before[f.output_name]
            arg = lst["ok"] if "ok" in lst else s
            sc = attempt(lambda: set_cache_for_sweep(out, pipe2, arg, a["min"]))
            flags = {f.output_name: bool(f.cache) for f in pipe2.functions}
            if "err" in sc:
                obs["setcache"] = {"err": sc["err"]}
                STATS["count:setcache:err:" + sc["err"]] += 1
                if "ok" in cnt and lst["ok"]:
                    bad.append(f"set_cache_for_sweep raised {sc['err']} on a sweep with combinations")
            else:
                obs["setcache"] = {"ok": sorted([o, b] for o, b in flags.items())}
                if "ok" in cnt:
                    exp = dict(before)
                    exp[out] = False
                    for o, w in want.items():
                        exp[o] = max(w.values()) >= a["min"]
                    STATS["count:setcache:cached=" + str(sum(1 for o in want if exp[o]))] += 1
                    if flags != exp:
                        bad.append("set_cache_for_sweep: cache is not enabled for exactly the dependencies with a root-argument tuple shared by "
                                   f">= min_executions={a['min']} combinations (output off, other functions untouched)")
        return obs, bad, req
    raise AssertionError(m)


def column_orderable(vals):
    """pandas' groupby sorts the distinct values of every grouped column: ints and strings (also mixed) are fine; tuples only if
    they are mutually comparable and the column holds nothing else (else `TypeError` from the sort, or pandas-internal fallbacks
    that are not modelled)"""
    tuples = [v for v in vals if isinstance(v, tuple)]
    if not tuples:
        return True
    if len(tuples) != len(vals):
        return False
    try:
        sorted(tuples)
    except TypeError:
        return False
    return True


def to_js_num(x):
    if isinstance(x, float) and x.is_integer():
        return int(x)
    try:
        import numpy as np
        if isinstance(x, np.integer):
            return int(x)
        if isinstance(x, np.floating) and float(x).is_integer():
            return int(x)
    except Exception:  # noqa: BLE001
        pass
    return x


@framework.finding_matcher("c17_count_pandas_none")
def _df_pandas_none(case, params, impl, model):
    """count_sweep(use_pandas=True) on a sweep whose root-argument columns contain None: pandas' groupby drops those rows
    (dropna=True) and turns the remaining ints into floats.  Matches only the forced corpus case shape, only if the default
    path agrees with the model and only if the pandas counts are exactly the default counts without the tuples that contain None."""
    if case.get("m") != "count" or case.get("pandas") not in ("force", "none-in-root-args") or impl != model:
        return False
    try:
        s = mk_sweep(case["a"]["s"])
        pipe = make_pipeline(case["a"]["funcs"])
        default = count_sweep(case["a"]["output"], s, pipe)
        got = count_sweep(case["a"]["output"], s, pipe, use_pandas=True)
    except Exception:  # noqa: BLE001
        return False
    if not any(None in k for d in default.values() for k in d):
        return False
    for o, d in default.items():
        want = {k: n for k, n in d.items() if None not in k}
        one = len(pipe.root_args(o)) == 1                       # a single grouped column: scalar keys (which may themselves be tuples)
        g = {tuple(to_js_num(x) for x in ((k,) if one else k)): int(n) for k, n in got.get(o, {}).items()}
        if g != want:
            return False
    return True


def product_clause_applies(ops):
    if not all(well_formed(x) and partition_of_all(x) and local(x) for x in ops):
        return False
    ks = [k for x in ops for k in set(produced_keys(x))]
    return len(ks) == len(set(ks))


def df07_shape(ops):
    """the receiver has dims=None while another operand has dims (known finding DF-07; excluded by `ProductHyps.df07`)"""
    return ops[0].get("dims") is None and any(o.get("dims") is not None for o in ops[1:])


def strip_fns(j):
    return {"items": j["items"], "dims": j.get("dims"), "exclude": None, "constants": None, "derivers": None}


def fns_disjoint_local(ops):
    ks = [k for x in ops for k in set(produced_keys(x))]
    return len(ks) == len(set(ks)) and all(local(x) for x in ops)


STATS = collections.Counter()


def product_direct(ops):
    """The product clause evaluated on the implementation alone, for every product of well-formed operands with pairwise
    disjoint dimension names outside the DF-07 shape: `list()` of the product against the merged `itertools.product` of the
    operands' OWN `list()`s, and `len()` of the product against the product of the operands' OWN `len()`s — once with
    constants / derivers / exclude removed from every operand (always applicable) and once as given (when the functions are
    local and the produced names disjoint)."""
    bad = []
    if df07_shape(ops) or not all(well_formed(x) for x in ops):
        return bad
    names = [k for x in ops for k, _ in x["items"]]
    if len(set(names)) != len(names):
        return bad
    ordered = all(nominal(x) for x in ops)
    variants = [("with constants / derivers / exclude removed", [strip_fns(x) for x in ops])]
    if fns_disjoint_local(ops) and any(x.get("exclude") or x.get("constants") is not None or x.get("derivers") is not None for x in ops):
        variants.append(("as given", ops))
    for label, vops in variants:
        sws = [mk_sweep(x) for x in vops]
        lists = [attempt(lambda s=s: s.list()) for s in sws]
        lens = [attempt(lambda s=s: len(s)) for s in sws]
        if any("err" in x for x in lists) or any("err" in x for x in lens):
            continue                                            # an operand that raises on its own: the list clause reports it
        STATS["product-direct:" + label.split()[0]] += 1
        want = []
        for combo in itertools.product(*[x["ok"] for x in lists]):
            d = {}
            for c in combo:
                d.update(c)
            want.append(d)
        p = attempt(lambda: sws[0].product(*sws[1:]))
        if "err" in p:
            bad.append(f"product of {len(vops)} sweeps with disjoint keys ({label}) raised {p['err']}")
            continue
        got = attempt(lambda: p["ok"].list())
        ln = attempt(lambda: len(p["ok"]))
        if "err" in got:
            bad.append(f"list() of the product of {len(vops)} sweeps with disjoint keys ({label}) raised {got['err']}")
        elif not (eq_dicts(got["ok"], want) if ordered else eq_multiset(got["ok"], want)):
            bad.append(f"product of {len(vops)} sweeps with disjoint keys ({label}) is not the Cartesian product of the operands' own "
                       f"list()s ({len(got['ok'])} vs {len(want)} combinations)")
        elif ln != {"ok": math.prod(x["ok"] for x in lens)} and not any(x.get("exclude") for x in vops):
            bad.append(f"len(product) = {ln.get('ok', ln.get('err'))} but the operands' lens multiply to {math.prod(x['ok'] for x in lens)} ({label})")
    return bad


def product_ref(ops):
    lists = [ref_list(x) for x in ops]
    out = []
    for combo in itertools.product(*lists):
        d = {}
        for c in combo:
            d.update(c)
        out.append(d)
    return out


def filtered_clause_applies(j, ks):
    if not (well_formed(j) and partition_of_all(j)) or j.get("constants") or j.get("exclude"):
        return False
    avail = set(produced_keys(j))
    specs = [d for _, d in (j.get("derivers") or [])]
    return bool(ks) and len(set(ks)) == len(ks) and all(k in avail for k in ks) and all(reads(s) is not None for s in specs)


ORDER_ONLY = "order only: "      # a deviation the property statement does not forbid: reported as a correspondence item


def filtered_ordered(j):
    """the filtered sweep lists the projections in first-occurrence order: always in the derivers branch
    (`C17_filtered_derivers`); in the other branch when the sweep enumerates in item order (dims omitted or in item order) —
    a `dims` whose 1-tuples are permuted is rebuilt as plain names and then enumerated in item order (`sweep.py:120`)"""
    return j.get("derivers") is not None or in_item_order(j)


def sweep_req(j):
    return {k: j.get(k) for k in ("items", "dims", "exclude", "constants", "derivers")}


def tree_req(t):
    return {"m": [tree_req(x) for x in t["m"]]} if "m" in t else {"s": sweep_req(t["s"])}


# ------------------------------------------------------------------------------------------------ model side
def canon_model_obs(r):
    o = {"len": r["len"]}
    o["list"] = {"ok": [canon_model_combo(c) for c in r["list"]["ok"]]} if "ok" in r["list"] else r["list"]
    return o


def canon_model(case, r):
    m = case["m"]
    if m in ("list", "multi", "add"):
        return canon_model_obs(r)
    if m in ("product", "filtered"):
        return {"ok": canon_model_obs(r["ok"])} if "ok" in r else {"err": r["err"]}
    if m == "count":
        if "err" in r:                                           # the output is unknown
            return r
        o = {"deps": sorted([x, list(a)] for x, a in r["deps"]) if r.get("deps") is not None else None}
        if "err" in r["counts"]:                                 # list() of the sweep raised, or a combination lacks a root argument
            o["err"] = r["counts"]["err"]
        else:
            o["ok"] = sorted([x, sorted(([key, n] for key, n in d), key=jkey)] for x, d in dict((x, d) for x, d in r["counts"]["ok"]).items())
        pd = r.get("pandas")
        if case.get("pandas") == "skip":
            pass
        elif pd is None:
            o["pandas"] = {"err": r["counts"]["err"]}            # `sweep.list()` raised before anything else
        elif "err" in pd:
            o["pandas"] = pd
        else:
            o["pandas"] = {"ok": sorted(([x, {"scalar": t["scalar"], "table": sorted(([key, n] for key, n in t["table"]), key=jkey)}] for x, t in pd["ok"]), key=jkey)}
        if "min" in case["a"]:
            sc = r.get("setcache")
            if sc is None:
                o["setcache"] = {"err": r["counts"]["err"]}
            elif "err" in sc:
                o["setcache"] = sc
            else:
                o["setcache"] = {"ok": sorted([x, b] for x, b in sc["ok"])}
        return o
    raise AssertionError(m)


def nontrivial(case):
    def sweeps(x):
        if isinstance(x, dict):
            if "items" in x:
                yield x
            else:
                for v in x.values():
                    yield from sweeps(v)
        elif isinstance(x, list):
            for v in x:
                yield from sweeps(v)
    return any(any(len(vs) >= 2 for _, vs in s["items"]) or any(isinstance(g, list) and len(g) >= 2 for g in (s.get("dims") or []))
               for s in sweeps(case["a"]))


# ------------------------------------------------------------------------------------------------ known finding DF-07
@framework.finding_matcher("c17_product_left_dims_none")
def _df07(case, params, impl, model):
    """product whose receiver has dims=None while another operand has dims: the result has dims=None, so the other
    operand's zipped groups are multiplied out.  Matches only if the implementation's list is exactly the product computed
    with every operand's dims dropped (so an unrelated product defect on such operands is still reported)."""
    if case.get("m") != "product":
        return False
    a = case["a"]
    if a["s"].get("dims") is not None or all(o.get("dims") is None for o in a["others"]):
        return False
    ops = [dict(x, dims=None) for x in [a["s"], *a["others"]]]
    try:
        want = [canon_combo(c) for c in product_ref(ops)]
    except Exception:  # noqa: BLE001
        return False
    got = impl.get("ok", {}).get("list", {}).get("ok") if isinstance(impl, dict) else None
    return got == want


CORPUS = [
    {"m": "list", "a": {"items": [], "dims": None}},                                                               # DF-06
    {"m": "multi", "a": {"m": [{"s": {"items": []}}, {"s": {"items": [["a", [1, 2]]]}}]}},                          # DF-06 via MultiSweep.__len__
    {"m": "product", "a": {"s": {"items": [["a", [1, 2]]], "dims": None},                                           # DF-07 (known finding)
                           "others": [{"items": [["b", [1, 2]], ["c", [3, 4]]], "dims": [["b", "c"]]}]}},
    {"m": "product", "a": {"s": {"items": [["a", [1, 2]]]},                                                         # DF-08
                           "others": [{"items": [["b", [1, 2]]], "exclude": {"f": "is", "a": ["b", 1]}, "constants": [["k", 7]],
                                       "derivers": [["t", {"f": "mul10", "a": ["b"]}]]},
                                      {"items": [["c", [5, 6]]]}]}},
    {"m": "filtered", "a": {"s": {"items": [["a", [1, 1]], ["b", [3, 4]]]}, "keys": ["a"]}},                         # DF-09
    {"m": "filtered", "a": {"s": {"items": [["a", [1, 1, 2]], ["b", [3, 3, 4]], ["c", [0, 1, 2]]], "dims": [["a", "b", "c"]]}, "keys": ["a", "b"]}},
    {"m": "product", "a": {"s": {"items": [["a", [1, 2]]]}, "others": [{"items": []}]}},                            # DF-26
    {"m": "product", "a": {"s": {"items": []}, "others": [{"items": [["g", [0, 2]]], "dims": ["g"]}]}},
    {"m": "filtered", "a": {"s": {"items": [["a", []], ["b", [0, 0, 1]]]}, "keys": ["b"]}},                          # DF-C17-01
    {"m": "filtered", "a": {"s": {"items": [["a", [0]], ["d", [0, 2]], ["c", []]]}, "keys": ["d"]}},
    {"m": "list", "a": {"items": [["a", [1, 2]], ["b", [3, 4]], ["c", [5, 6]]], "dims": [["a", "b"], ["c"]]}},
    {"m": "list", "a": {"items": [["a", [1, 2]], ["b", [3, 4]]], "dims": ["b", "a"]}},                               # names only: item order
    {"m": "list", "a": {"items": [["a", [1, 2]], ["b", [3, 4]]], "dims": [["b"], ["a"]]}},                           # tuples: dims order
    {"m": "count", "a": {"s": {"items": [["a", [1, 2]], ["b", [3, 4]], ["x", [5, 6]]]},
                         "funcs": [["c", ["a", "b"]], ["d", ["b", "c", "x"]], ["e", ["c", "d", "x"]]], "output": "e"}},
    # round 3: set_cache_for_sweep (the example of Props/C17Count.lean), the empty sweep (ValueError from max()), a function without parameters
    {"m": "count", "a": {"s": {"items": [["a", [1, 1, 2]], ["b", [3, 4, 3]]], "dims": [["a", "b"]]},
                         "funcs": [["c", ["a"]], ["d", ["c", "b"]], ["e", ["d", "c"]]], "output": "e", "min": 2,
                         "cache": [["c", False], ["d", True], ["e", True]]}},
    {"m": "count", "a": {"s": {"items": [["a", []], ["b", [3]]]}, "funcs": [["c", ["a"]], ["d", ["c", "b"]]], "output": "d", "min": 2,
                         "cache": [["c", True], ["d", True]]}},
    {"m": "count", "a": {"s": {"items": [["a", [1, 2]]]}, "funcs": [["z", []], ["y", ["z", "a"]], ["w", ["y"]]], "output": "w", "min": 2,
                         "cache": [["z", False], ["y", False], ["w", True]]}},
    # filtered_sweep([]) in both branches (C17_filtered_nokeys); unhashable values with derivers (TypeError, C17_filtered_hashable)
    {"m": "filtered", "a": {"s": {"items": [["a", [1, 2]]], "derivers": [["d", {"f": "mul10", "a": ["a"]}]]}, "keys": []}},
    {"m": "filtered", "a": {"s": {"items": [["a", [1, 2]]]}, "keys": []}},
    {"m": "filtered", "unhashable": True, "a": {"s": {"items": [["a", [{"t": "list", "a": 1, "b": None}, {"t": "list", "a": 1, "b": None}]], ["b", [3, 4]]],
                                                      "derivers": [["d", {"f": "const", "a": [1]}]]}, "keys": ["a"]}},
    {"m": "filtered", "unhashable": True, "a": {"s": {"items": [["a", [{"t": "list", "a": 1, "b": None}, {"t": "list", "a": 1, "b": None}]], ["b", [3, 4]]],
                                                      "derivers": [["d", {"f": "const", "a": [1]}]]}, "keys": ["b", "d"]}},
]

# DF-C17-03 (repaired): unhashable values in the branch without derivers kept duplicate projections.  Run once the repair is registered.
UNHASHABLE_PLAIN_CASES = [
    {"m": "filtered", "unhashable": True, "a": {"s": {"items": [["a", [{"t": "list", "a": 1, "b": None}, {"t": "list", "a": 1, "b": None}]], ["b", [3, 4]]]},
                                                "keys": ["a"]}},
    {"m": "filtered", "unhashable": True, "a": {"s": {"items": [["a", [{"t": "list", "a": 1, "b": None}, {"t": "list", "a": 1, "b": None}, 0]], ["b", [3, 3, 4]]],
                                                      "dims": [["a", "b"]]}, "keys": ["a", "b"]}},
]


def _lists(x):
    return [sorted(c.items()) for c in x]


# `decide` witnesses of the Props modules replayed on the implementation: (theorem, what the real code must return = the literal of the theorem)
WITNESSES = [
    ("C17_product_order_witness",
     lambda: _lists(Sweep({"a": [1, 2], "b": [3, 4]}, dims=["b", "a"]).product(Sweep({"c": [5], "d": [6]}, dims=[("c", "d")])).list()),
     [sorted(dict(b=b, a=a_, c=5, d=6).items()) for b in (3, 4) for a_ in (1, 2)]),
    ("C17_product_order_witness (the receiver alone, item order)",
     lambda: _lists(Sweep({"a": [1, 2], "b": [3, 4]}, dims=["b", "a"]).list()),
     [sorted(dict(a=a_, b=b).items()) for a_ in (1, 2) for b in (3, 4)]),
    ("C17_filtered_order_witness",
     lambda: (_lists(Sweep({"a": [1, 2], "b": [3, 4]}, dims=[("b",), ("a",)]).list()),
              _lists(Sweep({"a": [1, 2], "b": [3, 4]}, dims=[("b",), ("a",)]).filtered_sweep(["a", "b"]).list())),
     ([sorted(dict(a=a_, b=b).items()) for b in (3, 4) for a_ in (1, 2)], [sorted(dict(a=a_, b=b).items()) for a_ in (1, 2) for b in (3, 4)])),
    ("C17_len_unequal_witness",
     lambda: (attempt(lambda: Sweep({"a": [1, 2], "b": [3]}, dims=[("a", "b")]).list()), len(Sweep({"a": [1, 2], "b": [3]}, dims=[("a", "b")]))),
     ({"err": "ValueError"}, 2)),
    ("C17_filtered_nokeys_witness",
     lambda: (len(Sweep({"a": [1, 2]}, derivers={"d": lambda c: c["a"]}).list()), Sweep({"a": [1, 2]}, derivers={"d": lambda c: c["a"]}).filtered_sweep([]).list()),
     (2, [])),
    ("C17_count_pandas_none_witness",
     lambda: (count_sweep("c", [{"a": 1}, {"a": None}, {"a": 1}], make_pipeline([["b", ["a"]], ["c", ["b"]]])),
              {to_js_num(k): int(n) for k, n in count_sweep("c", [{"a": 1}, {"a": None}, {"a": 1}], make_pipeline([["b", ["a"]], ["c", ["b"]]]), use_pandas=True)["b"].items()}),
     ({"b": {(1,): 2, (None,): 1}}, {1: 2})),
]


def check_witnesses(ctx):
    for name, fn, want in WITNESSES:
        got = attempt(fn)
        ctx.count("witness-replayed")
        if got != {"ok": want}:
            ctx.violation({"m": "witness", "a": name}, f"the implementation no longer shows the behaviour of the witness theorem {name}",
                          found_input=False, item=f"theorem:{name.split()[0]}", impl=repr(got), model=repr(want))



REPAIRED = {"DF-C17-03": False}      # set in run(): the repair is registered in known_findings.json


def check_cases(ctx, cases):
    reqs, impls = [], []
    for case in cases:
        if case.get("unhashable") and case["a"]["s"].get("derivers") is None and not REPAIRED["DF-C17-03"]:
            ctx.skip("unhashable values without derivers: DF-C17-03 not registered as repaired")
            continue
        try:
            o, bad, req = run_impl(case)
        except Exception as e:  # noqa: BLE001
            o, bad, req = {"err": exc_enum(e)}, [f"unexpected {type(e).__name__}: {e}"], None
        if req is None:
            ctx.record(case, nontrivial(case))
            ctx.violation(case, bad[0], impl=o)
            continue
        reqs.append(req)
        impls.append((case, o, bad))
    outs = ctx.lean(reqs)
    for k, v in STATS.items():
        ctx.count(k, v)
    STATS.clear()
    for (case, o, bad), resp in zip(impls, outs):
        r = resp.get("r")
        model = canon_model(case, r)
        ctx.count(f"op:{case['m']}" + (":malformed" if "malformed" in case else ""))
        if "malformed" in case:
            ctx.count(f"malformed:{case['malformed']}")
        for obs in ([r] if case["m"] == "list" else [r.get("ok")] if isinstance(r.get("ok"), dict) and "branch" in r.get("ok", {}) else []):
            ctx.count(f"branch:{case['m']}:{obs['branch']}")
            if obs["wf"]:
                spec = [canon_model_combo(c) for c in obs["spec"]]
                if obs["list"] != {"ok": obs["spec"]}:
                    ctx.violation(case, "model: generate differs from specList on a well-formed sweep", found_input=False,
                                  item="theorem:C17_list", model=model)
                del spec
        if case["m"] == "count" and "err" not in r:
            # the reachability specification (Lean `depsSpec`, `C17_deps_spec`) against the model of func_dependencies / root_args
            # (`countDeps`, `C17_count_deps_reach`) and against the implementation's answers, as dictionaries
            spec = None if r.get("spec") is None else sorted([x, sorted(a)] for x, a in r["spec"])
            mdeps = None if r.get("deps") is None else sorted([x, sorted(a)] for x, a in r["deps"])
            ctx.count("theorem:C17_deps_spec:covered" if r.get("ordered") else "theorem:C17_deps_spec:not-ordered")
            if spec != mdeps:
                ctx.violation(case, "model: countDeps (funcDeps / rootArgs) differs from the reachability specification depsSpec",
                              found_input=False, item="theorem:C17_deps_spec", model=model)
            if spec != sorted([x, sorted(a)] for x, a in o["deps"]):
                bad.insert(0, "func_dependencies / root_args differ from reachability in the generated pipeline (strict ancestors, root names below each)")
            if r.get("sums") is not None:
                ctx.count("theorem:C17_count_sum:covered")
                if any(n != r["n"] for _, n in r["sums"]):
                    ctx.violation(case, "model: a count table does not sum to the number of combinations", found_input=False,
                                  item="theorem:C17_count_sum", model=model)
            if "min" in case["a"] and isinstance(r.get("setcache"), dict):
                ctx.count("theorem:C17_set_cache:covered" if "ok" in r["setcache"] else "theorem:C17_set_cache_error:covered")
            if isinstance(r.get("pandas"), dict) and "ok" in r["pandas"]:
                ctx.count("theorem:C17_count_pandas:covered")
        if case["m"] == "filtered" and not case["a"]["keys"]:
            ctx.count("theorem:C17_filtered_nokeys:covered")
            if "ok" in r and (r["ok"]["list"] != {"ok": []} or r["ok"]["len"] != {"ok": 0}):
                ctx.violation(case, "model: filtered_sweep([]) yields combinations", found_input=False, item="theorem:C17_filtered_nokeys", model=model)
        if case["m"] == "filtered" and r.get("err") == "TypeError":
            ctx.count("theorem:C17_filtered_hashable:TypeError")
        if case["m"] == "product" and r.get("hyps"):
            ops = [case["a"]["s"], *case["a"]["others"]]
            names = [k for x in ops for k, _ in x["items"]]
            cnames = [k for x in ops for k, _ in (x.get("constants") or [])]
            dnames = [k for x in ops for k, _ in (x.get("derivers") or [])]
            if len(set(names)) == len(names) and len(set(cnames)) == len(cnames) and len(set(dnames)) == len(dnames):
                ctx.count("theorem:C17_product_enum:covered")
                if "ok" not in r or r["raw"] != r["prodraw"]:
                    ctx.violation(case, "model: rawList of the product differs from prodAll of the operands' rawLists under ProductHyps",
                                  found_input=False, item="theorem:C17_product_enum", model=model)
                if fns_disjoint_local(ops):
                    ctx.count("theorem:C17_product:covered")
                    if all(in_item_order(x) for x in ops):
                        ctx.count("theorem:C17_product_rowmajor:covered")
                    got = r.get("ok", {}).get("list", {}).get("ok")
                    if got is None or [canon_model_combo(c) for c in got] != [canon_model_combo(c) for c in r["prodspec"]] \
                            or r["ok"]["len"] != {"ok": len(r["prodspec"])}:
                        ctx.violation(case, "model: list of the product differs from prodAll of the operands' specLists under ProductHyps",
                                      found_input=False, item="theorem:C17_product", model=model)
        if case["m"] == "filtered" and r.get("proj") is not None and case["a"]["s"].get("derivers") is not None and "ok" in r:
            ctx.count("theorem:C17_filtered_derivers:covered")
            if r["ok"]["list"] != {"ok": r["proj"]} or r["ok"]["len"] != {"ok": len(r["proj"])}:
                ctx.violation(case, "model: list of the filtered sweep differs from the distinct projections (derivers branch)",
                              found_input=False, item="theorem:C17_filtered_derivers", model=model)
        if case["m"] == "filtered" and r.get("plain") is not None:
            ctx.count("theorem:C17_filtered_plain:covered")
            if in_item_order(case["a"]["s"]):
                ctx.count("theorem:C17_filtered_plain_rowmajor:covered")
            if "ok" not in r or r["ok"]["list"] != {"ok": r["plain"]} or r["ok"]["len"] != {"ok": len(r["plain"])}:
                ctx.violation(case, "model: list of the filtered sweep differs from the distinct restrictions (branch without derivers)",
                              found_input=False, item="theorem:C17_filtered_plain", model=model)
        res = o.get("ok", o) if case["m"] in ("product", "filtered") and isinstance(o, dict) else o
        if isinstance(res, dict) and "list" in res:
            ctx.count("result:" + ("err:" + res["list"]["err"] if "err" in res["list"] else "ok" if res["list"]["ok"] else "ok-empty"))
        elif isinstance(o, dict) and "err" in o:
            ctx.count(f"result:err:{o['err']}")
        ctx.record(case, nontrivial(case))
        if bad and bad[0].startswith(ORDER_ONLY):
            ctx.violation(case, bad[0], found_input=False, item="correspondence:filtered:order", impl=o, model=model)
        elif bad:
            ctx.violation(case, bad[0], impl=o, model=model)
        elif o != model:
            ctx.violation(case, f"implementation and model disagree on {case['m']} (the property's clauses hold on this input)",
                          found_input=False, item=f"correspondence:{case['m']}", impl=o, model=model)


# ------------------------------------------------------------------------------------------------ exhaustive part (thorough)
def ordered_partitions(keys):
    """all dims values for `keys`: None plus every ordered partition, singletons both as name and as 1-tuple (first variant only
    for partitions with >= 3 singletons to bound the count)"""
    yield None
    ks = list(keys)

    def parts(rest):
        if not rest:
            yield []
            return
        first = rest[0]
        for p in parts(rest[1:]):
            yield [[first]] + p
            for i in range(len(p)):
                yield p[:i] + [[first] + p[i]] + p[i + 1:]

    for p in parts(ks):
        for perm in itertools.permutations(p):
            yield [g[0] if len(g) == 1 else list(g) for g in perm]
            if any(len(g) == 1 for g in perm):
                yield [list(g) for g in perm]


def exhaustive_cases(max_keys):
    lists = [list(t) for n in range(4) for t in itertools.product([0, 1], repeat=n)]
    for nk in range(max_keys + 1):
        keys = NAMES[:nk]
        for vals in itertools.product(lists, repeat=nk):
            items = [[k, v] for k, v in zip(keys, vals)]
            for dims in ordered_partitions(keys):
                yield {"m": "list", "a": {"items": items, "dims": dims, "exclude": None, "constants": None, "derivers": None}}


PANDAS_NONE_CASE = {"m": "count", "pandas": "force",                                                              # DF-C17-02 (known finding)
                    "a": {"s": {"items": [["a", [1, None, 1]], ["b", [3, 4]]]},
                          "funcs": [["c", ["a"]], ["d", ["a", "b"]], ["e", ["c", "d"]]], "output": "e"}}


def exhaustive_products():
    lists = [[0], [0, 1], [1, 1]]

    def operands(keys):
        for nk in (1, 2):
            ks = keys[:nk]
            for vals in itertools.product(lists, repeat=nk):
                for dims in ordered_partitions(ks):
                    yield {"items": [[k, v] for k, v in zip(ks, vals)], "dims": dims, "exclude": None, "constants": None, "derivers": None}

    right = list(operands(["c", "d"]))
    for left in operands(["a", "b"]):
        for r in right:
            yield {"m": "product", "a": {"s": left, "others": [r]}}


def run(ctx):
    REPAIRED["DF-C17-03"] = any(f.get("id") == "DF-C17-03" for f in framework.load_findings(PID))
    check_cases(ctx, [copy.deepcopy(c) for c in CORPUS])
    check_witnesses(ctx)
    if REPAIRED["DF-C17-03"]:
        check_cases(ctx, [copy.deepcopy(c) for c in UNHASHABLE_PLAIN_CASES])
    if any(f.get("id") == "DF-C17-02" for f in ctx.findings):       # only once the finding is registered (else it would be a VIOLATION)
        check_cases(ctx, [copy.deepcopy(PANDAS_NONE_CASE)])
    if ctx.tier == "thorough":
        ex = list(exhaustive_cases(3))
        ctx.count("exhaustive:list<=3keys", len(ex))
        for i in range(0, len(ex), 20000):
            check_cases(ctx, ex[i:i + 20000])
        # filtered_sweep over every sweep with <= 2 dimensions and every non-empty key subset
        fl = []
        for c in exhaustive_cases(2):
            ks = [k for k, _ in c["a"]["items"]]
            for n in range(1, len(ks) + 1):
                for sub in itertools.combinations(ks, n):
                    fl.append({"m": "filtered", "a": {"s": c["a"], "keys": list(sub)}})
        ctx.count("exhaustive:filtered<=2keys", len(fl))
        check_cases(ctx, fl)
        # product of every pair of sweeps with <= 2 dimensions each (lists [0], [0, 1], [1, 1]; every dims value): all the
        # branches of `ProductHyps` (receiver with / without dims, nominal or not, full branch or not) and the DF-07 shape
        pr = list(exhaustive_products())
        ctx.count("exhaustive:product<=2x2keys", len(pr))
        check_cases(ctx, pr)
    n = ctx.n(8000, 120000)
    for i in range(0, n, 20000):
        check_cases(ctx, [make_case(ctx.rng) for _ in range(min(20000, n - i))])


def replay(ctx, case):
    if case.get("m") == "witness":
        for name, fn, want in WITNESSES:
            if name == case["a"]:
                print("implementation:", attempt(fn), "| witness theorem:", want)
        return
    o, bad, req = run_impl(case)
    print("implementation:", o, "| failed clauses:", bad)
    if req is not None:
        print("model:", canon_model(case, ctx.lean([req])[0].get("r")))
