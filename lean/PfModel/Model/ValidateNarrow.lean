/-
Model of the start of `Pipeline.map` when the pipeline is NARROWED first (C12, round 4): `prepare_run`
(`pipefunc/map/_prepare.py:48-62`) with `output_names=` and / or `auto_subpipeline=True` replaces the pipeline by
`pipeline.subpipeline(set(inputs), output_names)` right after the executor/parallel test, and everything after that
(`_validate_executor_names`, `_validate_complete_inputs`, `validate_consistent_axes`, `_validate_fixed_indices`,
`RunInfo.create`, the run) sees the narrowed pipeline only.  In particular the SURPLUS-input test of
`_validate_complete_inputs` is made against the root arguments of the narrowed pipeline — `subpipeline` itself tests MISSING
root arguments only (a provided name merely cuts edges in `_find_nodes_between`).

`narrow` reuses C11's model of `Pipeline.subpipeline` (`PF.Sub.prepare`, `Model/SubPipe.lean`, as used by C06's
`PF.Pieces.runPartSub`) and adds what C12 needs on top: the `KeyError` for an `output_names` entry that is no node, root-argument
names among `output_names` (a `str` node: selects no function), and the `Pipeline._validate` that every `Pipeline.drop` runs on
the intermediate pipeline (`_base.py:267-298`).  `startMapN` is `prepare_run` with the narrowing at its place in the code's
order, followed by `startMap` (`Model/Validate.lean`) on the narrowed pipeline.  Core Lean only.
-/
import PfModel.Model.Validate
import PfModel.Model.SubPipe
namespace PF.Validate
open PF PF.Map

/-- the exception `Pipeline.subpipeline` raises, as a C12 refusal (`KeyError` from `node_mapping[n]`, `ValueError` for
    "Cannot construct a partial pipeline … (missing: …)") -/
def narrowErr : Sub.SErr → VErr
  | .noArgs => ⟨.value, "subpipeline-no-arguments"⟩
  | .unknown _ => ⟨.key, "subpipeline-unknown-name"⟩
  | .missing _ => ⟨.value, "subpipeline-missing-inputs"⟩
  | .fuel => ⟨.other, "subpipeline-fuel"⟩

/-- the entries of `output_names` that select a function: `node_mapping[n]` of a root-argument name is the `str` node itself,
    which `_find_nodes_between` keeps without any predecessor — it selects no function (`_base.py:1894-1899`) -/
def selOutputs (fs : List MFunc) (ns : List String) : List String := ns.filter fun n => (allOutputs fs).contains n

/-- `Pipeline.drop(f=f)` for every function that is not kept, in listing order (`for f in drop: pipeline.drop(f=f)`,
    `_base.py:1897-1899`): every drop ends with `Pipeline._validate` on the pipeline as it is then (`pre` are the functions
    already decided to stay, `rest` the undecided ones).  Dropping a producer turns its outputs into root arguments of the
    remaining consumers, so their defaults start to count (`validate_consistent_defaults`). -/
def dropChecks (sub : List MFunc) : List MFunc → List MFunc → V Unit
  | _, [] => .ok ()
  | pre, f :: rest =>
    if sub.any (fun g => g.name == f.name) then dropChecks sub (pre ++ [f]) rest
    else match pipelineValidate (pre ++ rest) with
      | .error e => .error e
      | .ok _ => dropChecks sub pre rest

/-- `pipeline.subpipeline(set(inputs), output_names)` as `prepare_run` calls it (only with `output_names` or
    `auto_subpipeline`): the `KeyError` for an unknown output name, C11's `PF.Sub.prepare` (output nodes, `_find_nodes_between`
    cut at the provided names, the MISSING-root-argument test), and the validations of the drops -/
def narrow (fs : List MFunc) (r : Req) (auto : Bool) : V (List MFunc) :=
  if !(auto || r.outputNames.isSome) then .ok fs else
  match checkOutputNames fs r with
  | .error e => .error e
  | .ok _ =>
    match Sub.prepare fs r.inputs (r.outputNames.map (selOutputs fs)) auto with
    | .error e => .error (narrowErr e)
    | .ok sub =>
      match dropChecks sub [] fs with
      | .error e => .error e
      | .ok _ => .ok sub

/-- the request as the code after the narrowing sees it: `output_names` has been consumed by `subpipeline` -/
def Req.narrowed (r : Req) : Req := { r with outputNames := none }

/-- **the start of `Pipeline.map(inputs, output_names=…, auto_subpipeline=auto)`**: the executor/parallel test, the narrowing,
    then everything `startMap` models on the narrowed pipeline -/
def startMapN (fs : List MFunc) (r : Req) (auto : Bool) : List Effect × V Unit :=
  match checkExecutor r with
  | .error e => ([], .error e)
  | .ok _ =>
    match narrow fs r auto with
    | .error e => ([], .error e)
    | .ok sub => startMap sub r.narrowed

/-! ### the tie to the source: the checks every request meets are calls the source makes on every path -/

/-- the validations that `startSteps` lists for EVERY request (`headChecks` / `tailChecks`; the folder comparison and the
    narrowing are conditional in model and code alike), by the name of the call in `prepare_run` / `RunInfo.create` -/
def unconditionalValidations : List String :=
  ["_validate_executor_names", "_validate_complete_inputs", "validate_consistent_axes", "_validate_fixed_indices",
   "_validate_storage_names", "_check_inputs", "map_shapes"]

/-- `uncond` = the calls the source makes on every path through `prepare_run` (top-level statements, `RunInfo.create` inlined;
    extracted by `harness/c12_extract.py`): every validation of `unconditionalValidations` is among them, in the model's order,
    and both writes come after them -/
def alwaysValidated (uncond : List String) : Bool :=
  unconditionalValidations.all uncond.contains &&
  isSubseq (unconditionalValidations ++ ["run_info._dump_all", "run_info.init_store"]) uncond

end PF.Validate
