"""C10 (seeded change C10-s5-A) — generated call pipelines in which `simplified_pipeline` forms SEVERAL combined groups that feed each other, with
output names whose alphabetical order is independent of the topological order.

Why: `pipegen.gen_dag` names the outputs of its i-th function `o{i}` (topological order = alphabetical order) and draws at most five
functions.  `simplified_pipeline` sorts its groups by the output name of their head (`_sort`), builds one NestedPipeFunc per group in
THAT order and lets `_output_name` decide per group which intermediate outputs the nest exports.  With topological names the sorted order
of the groups is (nearly always) a topological order of the groups, and with <= 5 functions two groups of >= 2 functions where one consumes
a NON-head output of the other hardly ever exist, so anything that depends on the position of a group in the sorted list, or on what
another group consumes, was never exercised.

`gen_desc(rng)`: 2-4 "root classes" (2, 2, 2, 3, 3, 4) in topological order.  Class g consists of 1-3 functions that all have the same root arguments: its entry
function takes a fresh root `r{g}` (85 %; without it the class merges into what it consumes) and 1-2 outputs (head or NON-head, any tuple
component) of 1-2 earlier classes; every later function of the class takes 1-2 outputs of earlier functions of ITS class (chains, fans:
a class with two tops gives two groups sharing a member - refused as a duplicate output by implementation and model alike) and, 40 %, another
output of a class the entry already depends on.  The last class consumes every class nobody consumed yet (so that one call of
`simplified_pipeline` on its leaf sees every class).  Then `relabel_outputs` renames the outputs `o{i}` -> `o{perm(i)}` with a random
permutation (75 %; `shuffled`), the reversed order (10 %) or not at all (15 %, the control).

`relabel_outputs` is also applied to the `pipegen` DAGs of the other C10 streams (c10.gen_env, 30 %).
"""
from __future__ import annotations

import pipegen


def relabel_outputs(desc, rng, mode="shuffled"):
    """Rename the outputs `o{i}[a|b]` of a pipegen-format description (in place) so that their alphabetical order is no longer the order
    of the functions: `o{i}` -> `o{perm[i]}`.  Parameters, defaults and bound values follow; a parameter whose own (wrapped-function)
    name was the pipeline-level name keeps that (no rename appears or disappears).  Returns the mode actually applied."""
    funcs = desc["funcs"]
    n = len(funcs)
    if n < 2 or mode == "topological":
        return "topological"
    perm = list(range(n))
    if mode == "reversed":
        perm.reverse()
    else:
        for _ in range(4):
            rng.shuffle(perm)
            if perm != list(range(n)):
                break
    ren = {}
    for i, f in enumerate(funcs):
        for o in f["outputs"]:
            if not o.startswith(f"o{i}"):
                return "topological"         # not a description in pipegen's naming scheme: left alone
            ren[o] = f"o{perm[i]}" + o[len(f"o{i}"):]
    if len(set(ren.values())) < len(ren):
        return "topological"
    for f in funcs:
        f["outputs"] = [ren[o] for o in f["outputs"]]
        for pr in f["params"]:
            if pr[0] in ren:
                if pr[1] == pr[0]:
                    pr[1] = ren[pr[0]]
                pr[0] = ren[pr[0]]
        for x in f.get("defaults", []) + f.get("bound", []):
            if x[0] in ren:
                x[0] = ren[x[0]]
    return "reversed" if mode == "reversed" else "shuffled"


def gen_desc(rng):
    m = rng.choice([2, 2, 2, 3, 3, 4])
    funcs, classes = [], []        # a class: {"funcs": [indices], "closure": {class ids it depends on}}
    consumed = set()
    for g in range(m):
        size = rng.choice([1, 2, 2, 2, 3])
        earlier = list(range(g))
        take = []
        if earlier:
            take = rng.sample(earlier, min(len(earlier), rng.choice([1, 1, 2]))) if rng.random() < 0.92 else []
            if g == m - 1:
                take = sorted(set(take) | (set(earlier) - consumed))
        closure = set()
        for j in take:
            closure |= {j} | classes[j]["closure"]
        consumed |= set(take)
        cls = {"funcs": [], "closure": closure}
        for i in range(size):
            idx = len(funcs)
            params = []
            if i == 0:
                if not take or rng.random() < 0.85:
                    params.append(f"r{g}")
                for j in take:
                    pool = [o for k in classes[j]["funcs"] for o in funcs[k]["outputs"]]
                    for o in rng.sample(pool, min(len(pool), rng.choice([1, 1, 2]))):
                        params.append(o)
            else:
                pool = [o for k in cls["funcs"] for o in funcs[k]["outputs"]]
                last = funcs[cls["funcs"][-1]]["outputs"]
                params.append(rng.choice(last) if rng.random() < 0.7 else rng.choice(pool))     # mostly a chain: one top per class
                if rng.random() < 0.35:
                    o = rng.choice(pool)
                    if o not in params:
                        params.append(o)
                if closure and rng.random() < 0.4:
                    j = rng.choice(sorted(closure))
                    o = rng.choice([o for k in classes[j]["funcs"] for o in funcs[k]["outputs"]])
                    if o not in params:
                        params.append(o)
                if rng.random() < 0.2:
                    params.append(f"r{g}" if rng.random() < 0.6 or not closure else f"r{rng.choice(sorted(closure))}")
            params = list(dict.fromkeys(params))
            rng.shuffle(params)
            outs = [f"o{idx}"] if rng.random() >= 0.25 else [f"o{idx}a", f"o{idx}b"]
            defaults, bound = [], []
            for p in params:
                if p.startswith("r") and rng.random() < 0.2:
                    defaults.append([p, pipegen.sval(f"dflt:{p}")])
            dn = {d[0] for d in defaults}
            pp = [[p, (f"a{j}" if rng.random() < 0.2 else p)] for j, p in enumerate(params)]
            pp = [q for q in pp if q[0] not in dn] + [q for q in pp if q[0] in dn]
            funcs.append({"name": f"f{idx}", "params": pp, "outputs": outs, "defaults": defaults, "bound": bound})
            cls["funcs"].append(idx)
        classes.append(cls)
    # one default per root name (two functions may take the same root: equal defaults are consistent)
    desc = {"funcs": funcs}
    r = rng.random()
    mode = relabel_outputs(desc, rng, "shuffled" if r < 0.75 else "reversed" if r < 0.85 else "topological")
    leaf = funcs[classes[-1]["funcs"][-1]]["outputs"][0]
    return desc, {"classes": m, "names": mode, "leaf": leaf, "sizes": [len(c["funcs"]) for c in classes]}


def result_categories(p, NestedPipeFunc, at_least_tuple):
    """What the simplified pipeline `p` looks like (counters): how many nests, whether a nest exports a NON-head output that another
    nest consumes, and whether the producing nest's head sorts before or after the consuming nest's head."""
    nests = [f for f in p.functions if isinstance(f, NestedPipeFunc)]
    cats = [f"simpgen:result:{min(len(nests), 3)}{'+' if len(nests) >= 3 else ''}-nests:{len(p.functions) - len(nests)}-plain"]
    heads = {}
    for a in nests:
        try:
            heads[id(a)] = at_least_tuple(a.pipeline.functions[0].output_name)      # `base = to_combine[0]`
            leaf = at_least_tuple(a.pipeline.unique_leaf_node.output_name)
            if leaf != heads[id(a)]:
                heads[id(a)] = leaf
        except Exception:  # noqa: BLE001
            heads[id(a)] = at_least_tuple(a.output_name)[:1]
    for a in nests:
        extra = set(at_least_tuple(a.output_name)) - set(heads[id(a)])
        for b in p.functions:
            if b is a or not (extra & set(b.parameters)):
                continue
            if isinstance(b, NestedPipeFunc):
                cats.append("simpgen:non-head-output-consumed-by-another-nest:producer-head-sorts-"
                            + ("after" if heads[id(a)] > heads[id(b)] else "before") + "-consumer-head")
            else:
                cats.append("simpgen:non-head-output-consumed-by-a-plain-function")
    return cats
