"""C16 (round 9): `Pipeline.add` validates after every function (incremental construction).

`Pipeline.__init__` calls `self.add(f)` for every function in list order; every `add` runs `_validate()`, which regenerates the
auto-generated MapSpecs and then (if `validate_type_annotations`) checks ALL functions added so far.  Construction therefore raises
`TypeError` at the FIRST prefix whose check fails, and the MapSpecs an already-added function has can differ between prefixes.

A case is a description-level pipeline (`c16_desc`: real callables built from generated source) plus an ORDER in which the functions
are handed to pipefunc.  Observed on the real code:
  * validation off: `p = Pipeline([], validate_type_annotations=False)`, then one `p.add(f)` per function; after every add the
    description of all functions added so far (names, hints, the MapSpecs they have at that moment) is one *stage*;
  * validation on: `Pipeline(functions_in_order)` (the constructor; the index of the outer `add` that raised is recorded through a
    wrapper around `Pipeline.add`) and the explicit loop `p = Pipeline([]); p.add(f) ...`.
The Lean side (`typing.inc`, `Model/TypingInc.lean`) gets the stages and answers the outcome, the first rejected stage and the verdict
per stage.  The clauses of the statement are evaluated on the implementation's own answers against the independent reference of
`c16_desc` (`ref_edges`, `ref_edge_ok`) applied to the stage at which construction stopped.
"""
from __future__ import annotations

import contextlib
import copy
import io
import warnings

import pfimport  # noqa: F401
from pfimport import exc_enum
import pipefunc._pipeline._base as _base
from pipefunc import Pipeline

import c16_desc as D

B = None            # the base module harness/props/c16.py (set by it after import)


# ------------------------------------------------------------------------------------------------ generator
def _slot(t):
    return None if t is None else {"t": t, "style": None, "quoted": False}


def from_template(rng, extra=None):
    """a wiring template of the base module (`TEMPLATES`, `gen_pipe`) as a description-level case.  `auto` MapSpecs of the template
    are NOT given to pipefunc: they are what `_autogen_mapspec_axes` is expected to produce."""
    if extra is not None:
        name, tpl = extra
        n = len(tpl)
        pipe = {"funcs": [{"out": f"y{i}", "params": [[p, None] for p in tpl[i][0]], "ret": B.gen_ty(rng, rng.choice([0, 1, 1])),
                           "mapspec": copy.deepcopy(tpl[i][1]), "auto": copy.deepcopy(tpl[i][2])} for i in range(n)]}
        red = {}
        for i, j, p in B.edges_of(pipe):
            fs = pipe["funcs"]
            red[(j, p)] = (i, B.ref_reduced({"param": p, "prod": fs[i]["mapspec"], "cons": fs[j]["mapspec"]}))
        for j, f in enumerate(pipe["funcs"]):
            for pr in f["params"]:
                if (j, pr[0]) in red:
                    i, r = red[(j, pr[0])]
                    pr[1] = B.related_inp(rng, pipe["funcs"][i]["ret"], r)
                else:
                    pr[1] = B.gen_ty(rng, 1)
        pipe["template"] = name
    else:
        pipe = B.gen_pipe(rng)
    funcs = []
    for i, f in enumerate(pipe["funcs"]):
        funcs.append({"idx": i, "name": f"f{i}", "flavour": "func",
                      "oparams": [{"name": p, "ann": _slot(D.tv_safe(t)), "wire": None, "default": False} for p, t in f["params"]],
                      "ret": _slot(D.tv_safe(f["ret"])), "outs": [f["out"]], "out_tuple": False, "renames": [], "bound": [], "scope": None,
                      "mapspec": B.ms_str(f["mapspec"]) if f["mapspec"] else None, "future": False})
    case = {"kind": "inc", "src": "tpl:" + pipe["template"], "validate": True, "future": False, "funcs": funcs}
    D.fix_corpus([case])
    return case


def extra_templates():
    """wirings in which a function in the MIDDLE or at the START gets an auto-generated MapSpec, so that the MapSpec an
    already-added function has depends on which other functions are known"""
    E = lambda i, o, a="i": B.ms([[i, [a]]], [[o, [a]]])  # noqa: E731
    G = lambda o, a: B.ms([], [[o, [a]]], True)  # noqa: E731
    return {
        "gen-middle": [(["x"], E("x", "y0"), None), (["y0"], None, G("y1", "j")), (["y1"], E("y1", "y2", "j"), None)],
        "gen-middle-direct": [(["x"], None, None), (["y0"], None, G("y1", "j")), (["y1"], E("y1", "y2", "j"), None)],
        "gen-start": [(["x"], None, G("y0", "i")), (["y0"], E("y0", "y1"), None), (["y1"], E("y1", "y2"), None)],
        "gen-start-reduce": [(["x"], None, G("y0", "i")), (["y0"], E("y0", "y1"), None), (["y0", "y1"], None, None)],
        "gen-two": [(["x"], None, G("y0", "i")), (["y0", "w"], None, G("y1", "k")), (["y0", "y1"], B.ms([["y0", ["i"]], ["y1", ["k"]]], [["y2", ["i", "k"]]]), None)],
    }


def drop_mapspec(rng, case):
    """description-level case: drop the user MapSpec of one function that is not the last one with a MapSpec, so that pipefunc has to
    generate it from the consumers (when they are known)"""
    with_ms = [f for f in case["funcs"] if f.get("mapspec")]
    if len(with_ms) >= 2:
        f = rng.choice(with_ms[:-1])
        f["mapspec"] = None
        case["dropped"] = f["idx"]


def gen_inc(rng):
    if not EXTRA:
        EXTRA.update(extra_templates())
    r = rng.random()
    if r < 0.30:
        case = from_template(rng)
    elif r < 0.50:
        name = rng.choice(sorted(EXTRA))
        case = from_template(rng, (name, EXTRA[name]))
    else:
        case = D.gen_desc(rng)
        case["kind"] = "inc"
        case["src"] = "desc"
        if rng.random() < 0.4:
            drop_mapspec(rng, case)
            if "dropped" in case:
                case["src"] = "desc-dropped-mapspec"
    n = len(case["funcs"])
    order = list(range(n))
    if rng.random() < 0.55:
        rng.shuffle(order)
    case["order"] = order
    case["validate"] = rng.random() < 0.88
    return case


EXTRA: dict = {}


# ------------------------------------------------------------------------------------------------ running the implementation
def _is_type_error(e):
    return type(e) is TypeError and "Inconsistent type annotations" in str(e)


@contextlib.contextmanager
def quiet():
    with warnings.catch_warnings(), contextlib.redirect_stdout(io.StringIO()):
        warnings.simplefilter("ignore")
        yield


def snapshot(p, funcs_so_far):
    by = {f.output_name: f for f in p.functions}
    real = [by[D.out_name_final(f)] for f in funcs_so_far]
    seen = [B.seen_mapspec(pf) for pf in real]
    shape = [{"outs": list(D._tuple(pf.output_name)), "params": sorted(pf.parameters), "bound": sorted(pf._bound)} for pf in real]
    return seen, shape


def observe(case):
    """-> dict: stages (descriptions after each add, validation off), off = None | (k, enum), loop / ctor = ("ok", None) | (what, k)"""
    obs = {"stages": [], "seen": [], "off": None, "loop": None, "ctor": None, "build": None, "shape_ok": True}
    order = case["order"]
    funcs = case["funcs"]
    try:
        with quiet():
            pfs, _ = D.make_pipefuncs(case)
    except Exception as e:  # noqa: BLE001
        obs["build"] = exc_enum(e)
        return obs
    # validation off: the stages
    with quiet():
        p = Pipeline([], validate_type_annotations=False)
        for k, i in enumerate(order):
            try:
                p.add(pfs[i])
            except Exception as e:  # noqa: BLE001
                obs["off"] = (k, "TypeError" if _is_type_error(e) else "EXC:" + exc_enum(e))
                break
            sofar = [funcs[j] for j in order[:k + 1]]
            seen, shape = snapshot(p, sofar)
            desc = D.describe({"funcs": sofar}, seen)
            if [{"outs": d["outs"], "params": sorted(d["params"]), "bound": sorted(d["bound"])} for d in desc] != shape:
                obs["shape_ok"] = False
            obs["stages"].append(desc)
            obs["seen"].append(seen)
    if not case["validate"]:
        return obs
    # validation on, the explicit loop
    with quiet():
        pfs2, _ = D.make_pipefuncs(case)
        obs["loop"] = ("ok", None)
        try:
            p = Pipeline([], validate_type_annotations=True)
        except Exception as e:  # noqa: BLE001
            obs["loop"] = ("EXC:" + exc_enum(e), -1)
        else:
            for k, i in enumerate(order):
                try:
                    p.add(pfs2[i])
                except Exception as e:  # noqa: BLE001
                    obs["loop"] = ("TypeError" if _is_type_error(e) else "EXC:" + exc_enum(e), k)
                    break
    # validation on, the constructor; which outer `add` raised
    depth, cur = [0], [0]
    orig_add = _base.Pipeline.add

    def add(self, f, *a, **kw):
        if depth[0] == 0:
            cur[0] += 1
        depth[0] += 1
        try:
            return orig_add(self, f, *a, **kw)
        finally:
            depth[0] -= 1
    with quiet():
        pfs3, _ = D.make_pipefuncs(case)
        cur[0] = 0
        try:
            _base.Pipeline.add = add
            Pipeline([pfs3[i] for i in order], validate_type_annotations=True)
            obs["ctor"] = ("ok", None)
        except Exception as e:  # noqa: BLE001
            obs["ctor"] = ("TypeError" if _is_type_error(e) else "EXC:" + exc_enum(e), cur[0] - 1)
        finally:
            _base.Pipeline.add = orig_add
    return obs


# ------------------------------------------------------------------------------------------------ the check
def stage_reference(case, obs, k):
    """the statement on stage `k`: (every demanded edge is compatible, an explicitly annotated edge with user-written MapSpecs is incompatible)"""
    sofar = [case["funcs"][j] for j in case["order"][:k + 1]]
    sub = {"funcs": sofar}
    # `ref_edges` indexes `funcs` by position: give it the stage's own list
    edges = D.ref_edges(sub, obs["seen"][k])
    demanded = [e for e in edges if e["demand"]]
    return all(B.ref_edge_ok(e) for e in demanded), any(not B.ref_exempt(e) and not B.ref_edge_ok(e) for e in demanded), demanded


def check_inc(ctx, cases):
    todo, reqs = [], []
    for case in cases:
        try:
            obs = observe(case)
        except B.Unsupported as e:
            ctx.skip(f"inc-unsupported:{e}")
            continue
        if obs["build"] is not None:
            ctx.skip("inc-build-exc:" + obs["build"][:30])
            continue
        if not obs["shape_ok"]:
            ctx.skip("inc-shape-differs")
            ctx.violation(case, "pipefunc's names differ from the description of a stage", found_input=False, item="harness:inc-shape")
            continue
        todo.append((case, obs))
        reqs.append({"m": "typing.inc", "a": {"validate": case["validate"], "stages": obs["stages"]}})
    outs = ctx.lean(reqs) if reqs else []
    for (case, obs), resp in zip(todo, outs):
        model = resp["r"]
        n = len(case["order"])
        stages = obs["stages"]
        fb = model["firstBad"]
        ctx.count(f"inc:src:{case['src'].split(':')[0]}")
        if case["src"].startswith("tpl:"):
            ctx.count(f"inc:template:{case['src'][4:]}")
        ctx.count(f"inc:stages={len(stages)}")
        ctx.count("inc:order:" + ("list" if case["order"] == sorted(case["order"]) else "shuffled"))
        ctx.count(f"inc:validate={case['validate']}")
        # do the MapSpecs of an already-added function differ between stages?
        differ = any(obs["seen"][k][j] != obs["seen"][k + 1][j] for k in range(len(stages) - 1) for j in range(k + 1))
        ctx.count("inc:stage-mapspecs:" + ("differ-between-stages" if differ else "stable"))
        gen_edges = sum(1 for vs in model["perStageVisited"] for c in vs if c["generated"])
        ctx.count("inc:generated-mapspec-edges:" + ("none" if gen_edges == 0 else "some"))
        ctx.extra["inc:generated-mapspec-edge-visits"] = ctx.extra.get("inc:generated-mapspec-edge-visits", 0) + gen_edges
        per = model["perStage"]
        if fb is not None and per[-1] == "ok":
            ctx.count("inc:rejected-stage-but-final-stage-alone-accepted")
        pos = "none" if fb is None else "only" if len(stages) == 1 else "first" if fb == 0 else "last" if fb == len(stages) - 1 else "middle"
        ctx.count(f"inc:model-firstBad:{pos}" + ("" if fb is None else f":k={fb}"))
        nontriv = any(c["resolved"] and not c["generated"] and not c["internal"] and B.nontrivial_pair(c["out"], c["inp"])
                      for vs in model["perStageVisited"] for c in vs)
        ctx.record(case, nontriv)
        off = obs["off"]
        # ---- clause 3: nothing is rejected when validate_type_annotations=False
        if off is not None and off[1] == "TypeError":
            ctx.violation(case, f"validate_type_annotations=False but add #{off[0]} raised the TypeError of the type check", impl=off, model="ok", key="inc-off")
            continue
        if off is not None:
            ctx.count("inc:structural-exception:" + off[1][:40])      # not about annotations: same exception expected with validation on
        if not case["validate"]:
            if model["outcome"] != "ok":
                ctx.violation(case, "model rejects with validation off", found_input=False, item="correspondence:typing.inc", model=model["outcome"])
            continue
        # expected from the model: TypeError at firstBad if that comes before the structural exception, else the structural exception
        if fb is not None:
            want = ("TypeError", fb)
        elif off is not None:
            want = (off[1], off[0])
        else:
            want = ("ok", None)
        for how in ("ctor", "loop"):
            got = obs[how]
            ctx.count(f"inc:{how}:{got[0][:9]}")
            if got == want:
                continue
            # a disagreement: does a clause of the statement fail on the implementation's own answer?
            if got[0] == "TypeError" and 0 <= got[1] < len(stages):
                all_ok, _, _ = stage_reference(case, obs, got[1])
                if all_ok:
                    ctx.violation(case, f"every edge of the functions added so far is compatible but add #{got[1]} ({how}) is rejected with TypeError",
                                  impl=got, model=want, key=f"inc:ok:TypeError:{how}")
                    break
            if got[0] == "ok" or (got[0] == "TypeError" and want[0] == "TypeError" and got[1] > want[1]):
                # the implementation went past a stage the model rejects: is an explicitly annotated, user-mapped edge of the FINAL
                # pipeline incompatible (the statement speaks about the pipeline that is constructed)?
                if got[0] == "ok" and len(stages) == n:
                    _, must_reject, _ = stage_reference(case, obs, n - 1)
                    if must_reject:
                        ctx.violation(case, f"an edge between explicitly annotated functions with user-written MapSpecs is incompatible but construction ({how}) gave ok",
                                      impl=got, model=want, key=f"inc:TypeError:ok:{how}")
                        break
            if got[0].startswith("EXC") and not (off is not None and got == (off[1], off[0])):
                ctx.violation(case, f"constructing the pipeline ({how}) raised {got[0]} at add #{got[1]} (neither success nor the TypeError of the type check)",
                              impl=got, model=want, key=f"inc-crash:{got[0][:24]}")
                break
            ctx.violation(case, f"{how}: implementation stops at {got} but the model's first rejected stage gives {want} (the statement's clauses hold on the implementation's answer)",
                          found_input=False, item="correspondence:typing.inc", impl=got, model=want)
            break
        else:
            # model against the independent reference, per stage (exactness of the stage verdicts)
            for k in range(len(stages)):
                all_ok, _, _ = stage_reference(case, obs, k)
                if (per[k] == "ok") != all_ok:
                    ctx.violation(case, f"model and Python reference disagree on stage {k}", found_input=False, item="correspondence:inc-ref",
                                  impl=obs["ctor"], model=per)
                    break


# ------------------------------------------------------------------------------------------------ corpus
def corpus():
    f = D._f
    E = "x[i] -> y0[i]"

    def case(order, *fs, validate=True):
        c = {"kind": "inc", "src": "corpus", "validate": validate, "future": False, "funcs": list(fs), "order": list(order)}
        return D.fix_corpus([c])[0]

    def chain(t_out, t_in):
        return (f(0, "func", [("x", "int")], t_out, ["y0"], mapspec=E), f(1, "func", [("y0", t_in)], "int", ["y1"]),
                f(2, "func", [("y1", "int")], "int", ["y2"], mapspec="y1[j] -> y2[j]"))
    out = []
    # C16_inc_regenerated_witness: rejected at the second add in list order, accepted in the order [f2, f0, f1] (and every other order
    # in which f2 is known before the edge y0 exists)
    for order in ([0, 1, 2], [2, 0, 1], [0, 2, 1], [1, 0, 2], [1, 2, 0], [2, 1, 0]):
        out.append(case(order, *chain("int", "str")))
    out.append(case([0, 1, 2], *chain("int", "str"), validate=False))
    out.append(case([0, 1, 2], *chain("int", {"arr": "int"})))            # compatible at every stage
    out.append(case([0, 1, 2], *chain("int", "int")))                      # forgets the Array wrapping: rejected at add #1 only
    # the bad edge appears with the last / first / middle add
    out.append(case([0, 1, 2], f(0, "func", [("x", "int")], "int", ["y0"]), f(1, "func", [("y0", "int")], "int", ["y1"]), f(2, "func", [("y1", "str")], "int", ["y2"])))
    out.append(case([2, 1, 0], f(0, "func", [("x", "int")], "int", ["y0"]), f(1, "func", [("y0", "int")], "int", ["y1"]), f(2, "func", [("y1", "str")], "int", ["y2"])))
    out.append(case([1, 2, 0], f(0, "func", [("x", "int")], "int", ["y0"]), f(1, "func", [("y0", "str")], "int", ["y1"]), f(2, "func", [("y1", "str")], "int", ["y2"])))
    out.append(case([0, 2, 1], f(0, "func", [("x", "int")], "int", ["y0"]), f(1, "func", [("y0", "str")], "int", ["y1"]), f(2, "func", [("y0", "int")], "int", ["y2"])))
    # generated producer MapSpec exempts the edge once the consumer is known
    out.append(case([0, 1], f(0, "func", [("x", "int")], "int", ["y0"]), f(1, "func", [("y0", "str")], "int", ["y1"], mapspec="y0[i] -> y1[i]")))
    out.append(case([1, 0], f(0, "func", [("x", "int")], "int", ["y0"]), f(1, "func", [("y0", "str")], "int", ["y1"], mapspec="y0[i] -> y1[i]")))
    return out


def replay(ctx, case):
    obs = observe(case)
    try:
        print(D.make_pipefuncs(case)[1])
    except Exception as e:  # noqa: BLE001
        print("source could not be executed:", e)
    for f in case["funcs"]:
        print(f"  {f['name']}: flavour={f['flavour']} output_name={D.out_name_final(f)} renames={f.get('renames')} scope={f.get('scope')} bound={f.get('bound')} mapspec={f.get('mapspec')}")
    print("order of the adds:", [case["funcs"][i]["name"] for i in case["order"]], "| validate =", case["validate"])
    print("implementation: validation off ->", obs["off"] or "ok", "| Pipeline(list) ->", obs["ctor"], "| add loop ->", obs["loop"])
    for k, seen in enumerate(obs["seen"]):
        print(f"  MapSpecs after add #{k}:", [B.ms_str(m) + (" (generated)" if m["generated"] else "") if m else None for m in seen])
    if obs["stages"]:
        r = ctx.lean([{"m": "typing.inc", "a": {"validate": case["validate"], "stages": obs["stages"]}}])[0].get("r")
        print("model: outcome", r["outcome"], "| firstBad", r["firstBad"], "| per stage", r["perStage"])
        for k, vs in enumerate(r["perStageVisited"]):
            print(f"  stage {k} compares:", [(c["prod"], c["cons"], c["param"], c["cmp_out"], c["inp"], "generated" if c["generated"] else "internal" if c["internal"] else "", c["ok"]) for c in vs])
        for k in range(len(obs["stages"])):
            all_ok, must, dem = stage_reference(case, obs, k)
            print(f"  reference stage {k}: all demanded edges compatible = {all_ok}; user-mapped incompatible edge = {must}; demanded = {[(e['i'], e['j'], e['param']) for e in dem]}")
