import PfModel.Core.Index
namespace PF

/-- `select_by_mask` (`_base.py:27-42`). The last clause is Python's IndexError; excluded by `Fits`. -/
def selectByMask {α} : List Bool → List α → List α → List α
  | [], _, _ => []
  | true :: m, a :: as, bs => a :: selectByMask m as bs
  | false :: m, as, b :: bs => b :: selectByMask m as bs
  | _ :: _, _, _ => []

/-- `external_shape_from_mask` / the `if m` comprehension. -/
def extOf {α} : List Bool → List α → List α
  | true :: m, x :: xs => x :: extOf m xs
  | false :: m, _ :: xs => extOf m xs
  | _, _ => []

def intOf {α} : List Bool → List α → List α
  | true :: m, _ :: xs => intOf m xs
  | false :: m, x :: xs => x :: intOf m xs
  | _, _ => []

def nTrue : List Bool → Nat
  | [] => 0
  | true :: m => nTrue m + 1
  | false :: m => nTrue m
def nFalse : List Bool → Nat
  | [] => 0
  | true :: m => nFalse m
  | false :: m => nFalse m + 1

theorem ext_select {α} : ∀ (m : List Bool) (e i : List α), e.length = nTrue m → i.length = nFalse m →
    extOf m (selectByMask m e i) = e
  | [], e, i, he, _ => by cases e <;> simp_all [nTrue, selectByMask, extOf]
  | true :: m, [], i, he, _ => by simp [nTrue] at he
  | true :: m, a :: as, i, he, hi => by
      simp only [selectByMask, extOf]; congr 1
      exact ext_select m as i (by simpa [nTrue] using he) (by simpa [nFalse] using hi)
  | false :: m, e, [], _, hi => by simp [nFalse] at hi
  | false :: m, e, b :: bs, he, hi => by
      cases e with
      | nil => simp only [selectByMask, extOf]; exact ext_select m [] bs (by simpa [nTrue] using he) (by simpa [nFalse] using hi)
      | cons a as => simp only [selectByMask, extOf]; exact ext_select m (a :: as) bs (by simpa [nTrue] using he) (by simpa [nFalse] using hi)

theorem int_select {α} : ∀ (m : List Bool) (e i : List α), e.length = nTrue m → i.length = nFalse m →
    intOf m (selectByMask m e i) = i
  | [], e, i, _, hi => by cases i <;> simp_all [nFalse, selectByMask, intOf]
  | true :: m, [], i, he, _ => by simp [nTrue] at he
  | true :: m, a :: as, i, he, hi => by
      simp only [selectByMask, intOf]
      exact int_select m as i (by simpa [nTrue] using he) (by simpa [nFalse] using hi)
  | false :: m, e, [], _, hi => by simp [nFalse] at hi
  | false :: m, e, b :: bs, he, hi => by
      cases e with
      | nil => simp only [selectByMask, intOf]; congr 1; exact int_select m [] bs (by simpa [nTrue] using he) (by simpa [nFalse] using hi)
      | cons a as => simp only [selectByMask, intOf]; congr 1; exact int_select m (a :: as) bs (by simpa [nTrue] using he) (by simpa [nFalse] using hi)

theorem select_ext_int {α} : ∀ (m : List Bool) (f : List α), f.length = m.length →
    selectByMask m (extOf m f) (intOf m f) = f
  | [], [], _ => by simp [selectByMask]
  | [], _ :: _, h => by simp at h
  | _ :: _, [], h => by simp at h
  | true :: m, x :: xs, h => by
      simp only [extOf, intOf, selectByMask]; congr 1; exact select_ext_int m xs (by simpa using h)
  | false :: m, x :: xs, h => by
      simp only [extOf, intOf]
      cases hE : extOf m xs with
      | nil => simp only [selectByMask]; congr 1; rw [← hE]; exact select_ext_int m xs (by simpa using h)
      | cons a as => simp only [selectByMask]; congr 1; rw [← hE]; exact select_ext_int m xs (by simpa using h)

theorem length_extOf {α} : ∀ (m : List Bool) (f : List α), f.length = m.length → (extOf m f).length = nTrue m
  | [], [], _ => by simp [extOf, nTrue]
  | [], _ :: _, h => by simp at h
  | _ :: _, [], h => by simp at h
  | true :: m, x :: xs, h => by simp [extOf, nTrue, length_extOf m xs (by simpa using h)]
  | false :: m, x :: xs, h => by simp [extOf, nTrue, length_extOf m xs (by simpa using h)]

theorem length_intOf {α} : ∀ (m : List Bool) (f : List α), f.length = m.length → (intOf m f).length = nFalse m
  | [], [], _ => by simp [intOf, nFalse]
  | [], _ :: _, h => by simp at h
  | _ :: _, [], h => by simp at h
  | true :: m, x :: xs, h => by simp [intOf, nFalse, length_intOf m xs (by simpa using h)]
  | false :: m, x :: xs, h => by simp [intOf, nFalse, length_intOf m xs (by simpa using h)]

/-- in-range full keys split into in-range external and internal keys -/
theorem inRange_ext : ∀ (m : List Bool) (fs f : List Nat), InRange fs f → fs.length = m.length →
    InRange (extOf m fs) (extOf m f)
  | [], [], [], _, _ => by simp [extOf, InRange]
  | [], _ :: _, _, _, h => by simp at h
  | _ :: _, [], _, _, h => by simp at h
  | _ :: _, _ :: _, [], hr, _ => by simp [InRange] at hr
  | true :: m, d :: ds, k :: ks, hr, h => by
      simp only [extOf, InRange]; exact ⟨hr.1, inRange_ext m ds ks hr.2 (by simpa using h)⟩
  | false :: m, d :: ds, k :: ks, hr, h => by
      simp only [extOf]; exact inRange_ext m ds ks hr.2 (by simpa using h)

theorem inRange_int : ∀ (m : List Bool) (fs f : List Nat), InRange fs f → fs.length = m.length →
    InRange (intOf m fs) (intOf m f)
  | [], [], [], _, _ => by simp [intOf, InRange]
  | [], _ :: _, _, _, h => by simp at h
  | _ :: _, [], _, _, h => by simp at h
  | _ :: _, _ :: _, [], hr, _ => by simp [InRange] at hr
  | true :: m, d :: ds, k :: ks, hr, h => by
      simp only [intOf]; exact inRange_int m ds ks hr.2 (by simpa using h)
  | false :: m, d :: ds, k :: ks, hr, h => by
      simp only [intOf, InRange]; exact ⟨hr.1, inRange_int m ds ks hr.2 (by simpa using h)⟩

theorem inRange_length : ∀ (s k : List Nat), InRange s k → s.length = k.length
  | [], [], _ => rfl
  | d :: ds, k :: ks, h => by simp [inRange_length ds ks h.2]
  | [], _ :: _, h => by simp [InRange] at h
  | _ :: _, [], h => by simp [InRange] at h

end PF
