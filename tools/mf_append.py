#!/usr/bin/env python3
"""tools/mf_append.py CXX 'text to append to level_claimed.text' ['note to append'] ['new technique'] ; then regenerates MANIFEST.json"""
import json, subprocess, sys, pathlib
V = pathlib.Path(__file__).resolve().parent.parent
p = V / "tools" / "manifest_entries.json"
d = json.loads(p.read_text())
pid = sys.argv[1]
if pid not in d:
    sys.exit(f"{pid} is not in manifest_entries.json (C01/C02/C20 live in tools/manifest.py)")
d[pid]["text"] = d[pid]["text"].rstrip() + " " + sys.argv[2].strip()
if len(sys.argv) > 3 and sys.argv[3].strip():
    d[pid]["note"] = d[pid]["note"].rstrip() + " " + sys.argv[3].strip()
if len(sys.argv) > 4 and sys.argv[4].strip():
    d[pid]["technique"] = sys.argv[4].strip()
p.write_text(json.dumps(d, indent=1))
subprocess.run([sys.executable, str(V / "tools" / "manifest.py")], check=True)
