import PfModel.Lemmas.MapOrder
/-!
`add_mapspec_axis` on a pipeline without prior MapSpecs, at the level of `PF.Map` (part 1): a pipeline `gs` whose functions
have no MapSpec, and the same pipeline with MapSpecs `τ` attached (`withSpec τ`).  What does not depend on the MapSpec
(producers, defaults, root arguments, generations, input validation) is the same for both.
-/
namespace PF.Rw.Ax
open PF PF.Map PF.C01

theorem flatMap_congr' {α β} (l : List α) (f g : α → List β) (h : ∀ a ∈ l, f a = g a) : l.flatMap f = l.flatMap g := by
  induction l with
  | nil => rfl
  | cons a as ih =>
    simp only [List.flatMap_cons]
    rw [h a List.mem_cons_self, ih (fun x hx => h x (List.mem_cons_of_mem _ hx))]

theorem filterMap_congr' {α β} (l : List α) (f g : α → Option β) (h : ∀ a ∈ l, f a = g a) : l.filterMap f = l.filterMap g := by
  induction l with
  | nil => rfl
  | cons a as ih =>
    simp only [List.filterMap_cons]
    rw [h a List.mem_cons_self, ih (fun x hx => h x (List.mem_cons_of_mem _ hx))]

/-- the function with the MapSpec `τ` chooses for its outputs -/
def withSpec (τ : List String → Option MSpec) (g : MFunc) : MFunc := { g with mapspec := τ g.outputs }

/-- the non-bound parameters -/
def mfree (g : MFunc) : List String := g.params.filterMap fun q => if (alookup g.bound q.1).isSome then none else some q.1

theorem mem_mfree (g : MFunc) (q : String) : q ∈ mfree g ↔ ∃ orig, (q, orig) ∈ g.params ∧ alookup g.bound q = none := by
  unfold mfree
  rw [List.mem_filterMap]
  constructor
  · rintro ⟨⟨a, b⟩, hm, h⟩
    cases hb : alookup g.bound a with
    | none => simp [hb] at h; subst h; exact ⟨b, hm, hb⟩
    | some v => simp [hb] at h
  · rintro ⟨orig, hm, hb⟩
    exact ⟨(q, orig), hm, by simp [hb]⟩

variable (τ : List String → Option MSpec)

theorem producer_withSpec (gs : List MFunc) (x : String) :
    producer (gs.map (withSpec τ)) x = (producer gs x).map (withSpec τ) := by
  induction gs with
  | nil => rfl
  | cons a as ih =>
    simp only [producer, List.map_cons, List.find?_cons] at ih ⊢
    by_cases h : x ∈ a.outputs
    · simp [withSpec, h]
    · simp only [withSpec, h, decide_false] at ih ⊢; exact ih

theorem producer_withSpec_isSome (gs : List MFunc) (x : String) :
    (producer (gs.map (withSpec τ)) x).isSome = (producer gs x).isSome := by
  rw [producer_withSpec]; cases producer gs x <;> rfl

theorem pdefaults_withSpec (gs : List MFunc) : pdefaults (gs.map (withSpec τ)) = pdefaults gs := by
  unfold pdefaults
  rw [List.flatMap_map]
  apply flatMap_congr'
  intro f _
  apply List.filter_congr
  intro kv _
  simp only [withSpec]
  have := producer_withSpec_isSome τ gs kv.1
  cases h1 : producer (gs.map (withSpec τ)) kv.1 <;> cases h2 : producer gs kv.1 <;> simp_all

theorem pdefault_withSpec (gs : List MFunc) (x : String) : pdefault (gs.map (withSpec τ)) x = pdefault gs x := by
  unfold pdefault; rw [pdefaults_withSpec]

theorem upstream_withSpec (gs : List MFunc) (g : MFunc) :
    upstream (gs.map (withSpec τ)) (withSpec τ g) = upstream gs g := by
  unfold upstream
  simp only [withSpec]
  apply filterMap_congr'
  intro q _
  have := producer_withSpec τ gs q.1
  rw [this]
  cases producer gs q.1 <;> rfl

theorem rootArgs_withSpec (gs : List MFunc) : rootArgs (gs.map (withSpec τ)) = rootArgs gs := by
  unfold rootArgs
  rw [List.flatMap_map]
  congr 1
  apply flatMap_congr'
  intro f _
  apply filterMap_congr'
  intro q _
  have := producer_withSpec_isSome τ gs q.1
  simp only [withSpec] at this ⊢
  rw [this]
  rfl

theorem layers_withSpec (gs : List MFunc) : ∀ (fuel : Nat) (done : List String) (rest : List MFunc),
    layers (gs.map (withSpec τ)) fuel done (rest.map (withSpec τ)) = (layers gs fuel done rest).map (List.map (withSpec τ)) := by
  intro fuel
  induction fuel with
  | zero => intro done rest; rfl
  | succ fuel ih =>
    intro done rest
    unfold layers
    have hfil : (rest.map (withSpec τ)).filter (fun f => (upstream (gs.map (withSpec τ)) f).all fun g => done.contains g) =
        (rest.filter fun f => (upstream gs f).all fun g => done.contains g).map (withSpec τ) := by
      rw [List.filter_map]
      congr 1
      apply List.filter_congr
      intro f _
      simp only [Function.comp, upstream_withSpec]
    by_cases h1 : rest.isEmpty = true
    · have : (rest.map (withSpec τ)).isEmpty = true := by simpa using h1
      simp [h1, this]
    · have : ¬ (rest.map (withSpec τ)).isEmpty = true := by simpa using h1
      simp only [h1, this, Bool.false_eq_true, ↓reduceIte]
      rw [hfil]
      generalize (rest.filter fun f => (upstream gs f).all fun g => done.contains g) = ready
      by_cases h2 : ready.isEmpty = true
      · have : (ready.map (withSpec τ)).isEmpty = true := by simpa using h2
        simp [h2, this]
      · have : ¬ (ready.map (withSpec τ)).isEmpty = true := by simpa using h2
        simp only [h2, this, Bool.false_eq_true, ↓reduceIte, List.map_cons]
        have hn : (ready.map (withSpec τ)).map (·.name) = ready.map (·.name) := by
          rw [List.map_map]; rfl
        have hrest : (rest.map (withSpec τ)).filter (fun f => !((ready.map (withSpec τ)).any (·.name = f.name))) =
            (rest.filter fun f => !(ready.any (·.name = f.name))).map (withSpec τ) := by
          rw [List.filter_map]
          congr 1
          apply List.filter_congr
          intro f _
          simp only [Function.comp, List.any_map]
          rfl
        rw [hn, hrest, ih]

theorem generations_withSpec (gs : List MFunc) :
    generations (gs.map (withSpec τ)) = (generations gs).map (List.map (withSpec τ)) := by
  unfold generations
  rw [List.length_map]
  exact layers_withSpec τ gs _ [] gs

theorem constructInternal_withSpec (gs : List MFunc) (ui : List (String × List Nat)) :
    constructInternal (gs.map (withSpec τ)) ui = constructInternal gs ui := by
  unfold constructInternal
  rw [List.flatMap_map]
  rfl

theorem validateInputs_keys (gs : List MFunc) (i1 i2 : List (String × Val)) (h : akeys i1 = akeys i2) :
    validateInputs gs i1 = validateInputs gs i2 := by
  unfold validateInputs
  rw [h]

theorem validateInputs_withSpec (gs : List MFunc) (inputs : List (String × Val)) :
    validateInputs (gs.map (withSpec τ)) inputs = validateInputs gs inputs := by
  unfold validateInputs
  rw [rootArgs_withSpec, pdefaults_withSpec]

/-- what a successful input validation says: every root argument is given or has a default, every given name is a root argument -/
theorem validateInputs_ok (gs : List MFunc) (inputs : List (String × Val)) (h : validateInputs gs inputs = .ok ()) :
    (∀ r ∈ rootArgs gs, r ∈ akeys inputs ++ akeys (pdefaults gs)) ∧ (∀ k ∈ akeys inputs ++ akeys (pdefaults gs), k ∈ rootArgs gs) := by
  unfold validateInputs at h
  simp only [bind, Except.bind] at h
  split at h
  · next h1 =>
    split at h
    · next h2 =>
      constructor
      · intro r hr
        have := List.filter_eq_nil_iff.mp h1 r hr
        simp only [Bool.not_eq_true', Bool.not_eq_false, List.contains_eq_mem, decide_eq_true_eq, Bool.not_eq_eq_eq_not, Bool.not_true, decide_eq_false_iff_not, Decidable.not_not] at this
        exact this
      · intro k hk
        have := List.filter_eq_nil_iff.mp h2 k hk
        simpa using this
    · simp [throw, throwThe, MonadExceptOf.throw] at h
  · simp [throw, throwThe, MonadExceptOf.throw] at h

end PF.Rw.Ax
