/-
Model of selecting outputs / supplying intermediates: `Pipeline.subpipeline` and `_find_nodes_between`
(`pipefunc/_pipeline/_base.py`, as REPAIRED by the DF-17 fix commit: the requested output nodes and their ancestors, an
edge not being followed when every value taken over it is provided; root-argument check modulo defaults), `prepare_run`'s
use of it (`pipefunc/map/_prepare.py:52-54`) followed by `_validate_complete_inputs` (`:101-117`, which is
`PF.Map.validateInputs`).  The pinned-code variant (descendants-of-inputs ∩ ancestors-of-outputs, root check ignoring
defaults) is in namespace `Legacy`.  Core Lean only; built on `PF.Pipe` and `PF.Map`.
-/
import PfModel.Model.Pipeline
import PfModel.Model.MapRun
namespace PF.Sub
open PF

/-- what the pipeline graph knows of a function: output names, the parameters that are graph edges (not bound), and
    which of those have a default -/
structure Node where
  outputs : List String
  deps : List String
  dflt : List String
  deriving Repr, Inhabited

/-- the graph view of a call-pipeline function (`Pipeline.graph`, `_base.py:383-420`: a bound parameter is a `_Bound`
    node, never an edge from a producer or a root argument) -/
def funcNode (f : Pipe.Func) : Node :=
  { outputs := f.outputs,
    deps := f.params.filterMap fun pq => if (alookup f.bound pq.1).isSome then none else some pq.1,
    dflt := f.defaults.filterMap fun kv => if (alookup f.bound kv.1).isSome then none else some kv.1 }

/-- the graph view of a map-pipeline function -/
def mfuncNode (f : Map.MFunc) : Node :=
  { outputs := f.outputs,
    deps := f.params.filterMap fun pq => if (alookup f.bound pq.1).isSome then none else some pq.1,
    dflt := f.defaults.filterMap fun kv => if (alookup f.bound kv.1).isSome then none else some kv.1 }

/-! ### graph reachability by a worklist (the shape of `_find_nodes_between`) -/

/-- the worklist loop: pop a node; skip it if already kept; else keep it and push its predecessors.
    The fuel bounds the number of pops (the real loop terminates because every node is kept at most once). -/
def dfs (pre : Nat → List Nat) : Nat → List Nat → List Nat → List Nat
  | 0, _, keep => keep
  | _+1, [], keep => keep
  | fuel+1, i :: stack, keep =>
    if keep.contains i then dfs pre fuel stack keep else dfs pre fuel (pre i ++ stack) (keep ++ [i])

/-- `keep` contains its own predecessors -/
def closed (pre : Nat → List Nat) (keep : List Nat) : Bool := keep.all fun i => (pre i).all fun j => keep.contains j

/-- the set reached from `init`; `none` only if the fuel did not suffice (the result is checked, not trusted) -/
def reachSet (pre : Nat → List Nat) (init : List Nat) (fuel : Nat) : Option (List Nat) :=
  let K := dfs pre fuel init []
  if init.all (fun i => K.contains i) && closed pre K then some K else none

/-- reachability, as the least set: the specification of `reachSet` -/
inductive Reach (pre : Nat → List Nat) (init : List Nat) : Nat → Prop
  | base (i : Nat) : i ∈ init → Reach pre init i
  | step (i j : Nat) : Reach pre init i → j ∈ pre i → Reach pre init j

inductive SErr
  | noArgs                         -- "At least one of `inputs` or `output_names` should be provided."
  | unknown (n : String)           -- `node_mapping[n]` KeyError
  | missing (roots : List String)  -- "Cannot construct a partial pipeline … (missing: …)"
  | fuel
  deriving Repr, DecidableEq

section generic
variable {α : Type} (nd : α → Node)

/-- position of the function that produces `o` (`output_to_func` / `node_mapping` for an output name) -/
def prodIdx (fs : List α) (o : String) : Option Nat := fs.findIdx? fun f => decide (o ∈ (nd f).outputs)

/-- `inputs` as a cut: is this name provided? (`inputs=None` provides nothing) -/
def cutOf (I : Option (List String)) (p : String) : Bool :=
  match I with
  | none => false
  | some l => l.contains p

/-- predecessor functions of function `i` over edges that are not cut: the producers of its non-bound parameters that
    are not provided.  (Repaired `_find_nodes_between`: an edge `pred → node` is skipped iff every name on it is provided,
    i.e. followed iff some name on it is not.) -/
def predsIdx (fs : List α) (cut : String → Bool) (i : Nat) : List Nat :=
  match fs[i]? with
  | none => []
  | some f => (nd f).deps.filterMap fun p => if cut p then none else prodIdx nd fs p

/-- successor functions of function `i`: the consumers of any of its outputs (`graph.successors`) -/
def succsIdx (fs : List α) (i : Nat) : List Nat :=
  (List.range fs.length).filter fun j =>
    match fs[j]? with
    | none => false
    | some g => (nd g).deps.any fun p => prodIdx nd fs p == some i

/-- the functions that take the root argument `r` -/
def rootConsumers (fs : List α) (r : String) : List Nat :=
  (List.range fs.length).filter fun j =>
    match fs[j]? with
    | none => false
    | some g => (nd g).deps.contains r && (prodIdx nd fs r).isNone

/-- enough pops for any worklist run over `n` functions with at most `d` predecessors each, started from `k` nodes -/
def fuelFor (fs : List α) (k : Nat) : Nat :=
  k + fs.length * ((fs.map fun f => (nd f).deps.length).foldl max 0 + fs.length + 2) + 1

/-- the functions of `fs` at the kept positions, in their original order (`Pipeline.drop` of all the others) -/
def keepFrom (K : List Nat) : Nat → List α → List α
  | _, [] => []
  | i, f :: r => if K.contains i then f :: keepFrom K (i+1) r else keepFrom K (i+1) r

/-- `topological_generations.root_args` of a function list: non-bound parameters that nothing in the list produces -/
def roots (fs : List α) : List String :=
  fs.flatMap fun f => (nd f).deps.filter fun p => (prodIdx nd fs p).isNone

/-- the keys of `Pipeline.defaults`: defaulted non-bound parameters that nothing in the list produces -/
def dnames (fs : List α) : List String :=
  fs.flatMap fun f => (nd f).dflt.filter fun p => (prodIdx nd fs p).isNone

/-- `nx.descendants(graph, node_mapping[n])` restricted to functions, for one provided name -/
def downstreamOf (fs : List α) (n : String) : Except SErr (List Nat) :=
  match prodIdx nd fs n with
  | some i =>
    match reachSet (succsIdx nd fs) (succsIdx nd fs i) (fuelFor nd fs fs.length) with
    | some K => .ok K
    | none => .error .fuel
  | none =>
    if (rootConsumers nd fs n).isEmpty then .error (.unknown n) else
    match reachSet (succsIdx nd fs) (rootConsumers nd fs n) (fuelFor nd fs fs.length) with
    | some K => .ok K
    | none => .error .fuel

/-- the requested output nodes (`subpipeline`): the producers of `output_names`, or — without `output_names` — every
    function downstream of a provided name -/
def outNodes (fs : List α) (I S : Option (List String)) : Except SErr (List Nat) :=
  match S with
  | some s => s.mapM fun o => match prodIdx nd fs o with | some i => .ok i | none => .error (.unknown o)
  | none => do
    let ks ← (I.getD []).mapM (downstreamOf nd fs)
    pure ks.flatten.eraseDups

/-- root arguments of the partial pipeline that are neither provided nor defaulted in it -/
def missingRoots (sub : List α) (inp : List String) : List String :=
  (roots nd sub).filter fun r => !(inp.contains r) && !((dnames nd sub).contains r)

/-- the root-argument check at the end of `subpipeline` (repaired: modulo the partial pipeline's defaults; the message
    names the missing root arguments); skipped when `inputs` is `None` -/
def checkRoots (sub : List α) (I : Option (List String)) : Except SErr (List α) :=
  match I with
  | none => .ok sub
  | some inp =>
    if (missingRoots nd sub inp).isEmpty then .ok sub else .error (.missing (missingRoots nd sub inp).eraseDups)

/-- **`Pipeline.subpipeline(inputs, output_names)`, repaired.** -/
def subpipeline (fs : List α) (I S : Option (List String)) : Except SErr (List α) :=
  if I.isNone && S.isNone then .error .noArgs else
  match outNodes nd fs I S with
  | .error e => .error e
  | .ok out =>
    match reachSet (predsIdx nd fs (cutOf I)) out (fuelFor nd fs out.length) with
    | none => .error .fuel
    | some K => checkRoots nd (keepFrom K 0 fs) I

/-- **needed**: the least set of functions containing the producers of `S` and of every non-bound, non-provided
    parameter of a needed function (positions in `fs`).  `out` are the positions of the producers of `S`. -/
def Needed (fs : List α) (I : Option (List String)) (out : List Nat) (i : Nat) : Prop :=
  Reach (predsIdx nd fs (cutOf I)) out i

/-! ### the pinned code (before the DF-17 repair) -/
namespace Legacy

/-- `leaf_nodes`: functions nothing consumes -/
def leaves (fs : List α) : List Nat := (List.range fs.length).filter fun i => (succsIdx nd fs i).isEmpty

/-- descendants of one input node, as function positions -/
def descendants (fs : List α) (n : String) : Except SErr (List Nat) := downstreamOf nd fs n

/-- pinned `subpipeline`: `descendants(inputs) ∩ (ancestors(outputs) ∪ outputs)`, then `root_args ⊆ inputs` -/
def subpipeline (fs : List α) (I S : Option (List String)) : Except SErr (List α) :=
  if I.isNone && S.isNone then .error .noArgs else
  let inNames := match I with | some l => l | none => (roots nd fs).eraseDups
  match inNames.mapM (descendants nd fs) with
  | .error e => .error e
  | .ok ds =>
    let fromIn := ds.flatten
    let outR : Except SErr (List Nat) := match S with
      | some s => s.mapM fun o => match prodIdx nd fs o with | some i => .ok i | none => .error (.unknown o)
      | none => .ok (leaves nd fs)
    match outR with
    | .error e => .error e
    | .ok out =>
      match reachSet (predsIdx nd fs (fun _ => false)) out (fuelFor nd fs out.length) with
      | none => .error .fuel
      | some anc =>
        let sub := keepFrom (anc.filter fun i => fromIn.contains i) 0 fs
        match I with
        | none => .ok sub
        | some inp =>
          if (roots nd sub).all (fun r => inp.contains r) then .ok sub else .error (.missing (roots nd sub).eraseDups)

end Legacy
end generic

/-! ### the entry points that use it -/

inductive PErr
  | sub (e : SErr)
  | map (e : Map.Err)
  deriving Repr

/-- `prepare_run` (`_prepare.py:52-54`): with `output_names` or `auto_subpipeline` the pipeline is replaced by
    `subpipeline(set(inputs), output_names)` -/
def prepare (fs : List Map.MFunc) (inputs : List (String × Val)) (S : Option (List String)) (auto : Bool) :
    Except SErr (List Map.MFunc) :=
  if auto || S.isSome then subpipeline mfuncNode fs (some (akeys inputs)) S else .ok fs

/-- `Pipeline.map(inputs, output_names=S, auto_subpipeline=auto)`: `prepare`, then the ordinary run of the partial
    pipeline (which starts with `_validate_complete_inputs`); `arr` as in `PF.Map.runMapWith` -/
def mapWith (arr : Map.MFunc → List Nat → List Bool → (Nat → List (String × Val)) → String → Val)
    (fs : List Map.MFunc) (inputs : List (String × Val)) (internal : List (String × List Nat))
    (S : Option (List String)) (auto : Bool) : Except PErr (List Map.MFunc × Map.MapResult) :=
  match prepare fs inputs S auto with
  | .error e => .error (.sub e)
  | .ok sub =>
    match Map.runMapWith arr sub inputs internal with
    | .error e => .error (.map e)
    | .ok r => .ok (sub, r)

/-- the model of the code, and its specification (every result array given by its denotation) -/
def mapSub := mapWith Map.opArray
def mapSubSpec := mapWith Map.denoteArray

/-- calling the partial pipeline: `pipeline.subpipeline(set(kw), S)(o, **kw)` -/
def callSub (fs : List Pipe.Func) (kw : List (String × Val)) (S : List String) (o : String) :
    Except SErr (Except Pipe.Err Pipe.Outcome) :=
  match subpipeline funcNode fs (some (akeys kw)) (some S) with
  | .error e => .error e
  | .ok sub => .ok (Pipe.runTop sub kw (.name o))

end PF.Sub
