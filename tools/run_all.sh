#!/bin/sh
# tools/run_all.sh [seed] [tier] : run every claimed check once on /repo and print one line per check (what `vp check` does).
cd "$(dirname "$0")/.." || exit 2
seed=${1:-1}; tier=${2:-quick}
for pid in $(/venv/bin/python -c "import json; print(' '.join(c['property_id'] for c in json.load(open('MANIFEST.json'))['checks']))"); do
  s=$(date +%s)
  VERIF_SEED=$seed ./check "$pid" --tier "$tier" > /tmp/runall-$pid.log 2>&1; rc=$?
  e=$(( $(date +%s) - s ))
  echo "$pid exit=$rc ${e}s $(grep -c '^VIOLATION' /tmp/runall-$pid.log) violation-lines $(grep -c '^KNOWN-FINDING' /tmp/runall-$pid.log) known | $(tail -1 /tmp/runall-$pid.log | cut -c1-150)"
done
