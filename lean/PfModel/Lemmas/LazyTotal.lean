import PfModel.Lemmas.LazySession
/-! Helper lemmas for `Props/C18Calls.lean`: `evaluate()` of an object that stands for a value never fails (the recursion depth
`nodes.length + 1` suffices because arguments are older nodes, and a pick node over a value that is a tuple finds its name). -/
namespace PF.Lazy
open PF PF.Pipe

def ETotal (nodes : List Lazy.Node) (n : Nat) : Prop :=
  ∀ id s v, DoneSound nodes s → id < n → den nodes (.ref id) = some v →
    ∃ s', eval nodes n id s = .ok (v, s') ∧ DoneSound nodes s'

theorem evalArg_total {nodes : List Lazy.Node} {n : Nat} (ih : ETotal nodes n) (a : LArg) (s : ESt) (v : Val)
    (hs : DoneSound nodes s) (hlt : ∀ j, a = .ref j → j < n) (hd : denArg (denAll nodes) a = some v) :
    ∃ s', evalArg (eval nodes n) a s = .ok (v, s') ∧ DoneSound nodes s' := by
  cases a with
  | val w => simp [denArg] at hd; subst hd; exact ⟨s, rfl, hs⟩
  | ref j => exact ih j s v hs (hlt j rfl) hd

theorem evalArgs_total {nodes : List Lazy.Node} {n : Nat} (ih : ETotal nodes n) : ∀ (args : List (String × LArg)) (s : ESt) vals,
    DoneSound nodes s → (∀ j ∈ argRefs args, j < n) → denArgs (denAll nodes) args = some vals →
    ∃ s', evalArgs (eval nodes n) args s = .ok (vals, s') ∧ DoneSound nodes s' := by
  intro args
  induction args with
  | nil => intro s vals hs _ hd; simp [denArgs] at hd; subst hd; exact ⟨s, rfl, hs⟩
  | cons e rest ihr =>
    obtain ⟨k, a⟩ := e
    intro s vals hs hlt hd
    simp only [denArgs] at hd
    split at hd
    · next v ws hv hws =>
      injection hd with hd; subst hd
      obtain ⟨s1, h1, hs1⟩ := evalArg_total ih a s v hs (fun j e => hlt j (by subst e; simp [argRefs])) hv
      obtain ⟨s2, h2, hs2⟩ := ihr s1 ws hs1 (fun j hj => hlt j (by cases a <;> simp [argRefs, hj])) hws
      exact ⟨s2, by simp only [evalArgs, h1, h2], hs2⟩
    · cases hd

theorem eval_total {nodes : List Lazy.Node} (hc : Closed nodes) : ∀ n, ETotal nodes n := by
  intro n
  induction n with
  | zero => intro id s v _ h; omega
  | succ n ih =>
    intro id s v hs hlt hd
    rw [eval_succ]
    cases hdl : dlookup s.done id with
    | some w =>
      have := hs id w hdl
      rw [hd] at this; injection this with e; subst e
      exact ⟨s, rfl, hs⟩
    | none =>
      simp only []
      have hidlt := den_some_lt hd
      have hget : nodes[id]? = some nodes[id] := List.getElem?_eq_getElem hidlt
      have hun := den_unfold hc hget
      rw [hd] at hun
      have hrefs : ∀ j ∈ (nodes[id]).refs, j < n := fun j hj => by have := hc id _ hget j hj; omega
      rw [hget]
      cases hnd : nodes[id] with
      | call f args =>
        rw [hnd] at hun hrefs
        simp only [nodeVal] at hun
        cases hda : denArgs (denAll nodes) args with
        | none => rw [hda] at hun; cases hun
        | some vals =>
          rw [hda] at hun; simp at hun
          obtain ⟨s1, h1, hs1⟩ := evalArgs_total ih args s vals hs hrefs hda
          simp only [h1]
          subst hun
          refine ⟨_, rfl, doneSound_cons hs1 ?_⟩
          rw [den_unfold hc (hget.trans (by rw [hnd]))]; simp [nodeVal, hda]
      | pick f src name =>
        rw [hnd] at hun hrefs
        simp only [nodeVal] at hun
        cases hda : denArg (denAll nodes) src with
        | none => rw [hda] at hun; cases hun
        | some w =>
          rw [hda] at hun; simp at hun
          obtain ⟨s1, h1, hs1⟩ := evalArg_total ih src s w hs (fun j e => hrefs j (by subst e; simp [Node.refs])) hda
          simp only [h1, ← hun]
          refine ⟨_, rfl, doneSound_cons hs1 ?_⟩
          rw [den_unfold hc (hget.trans (by rw [hnd]))]; simp [nodeVal, hda, ← hun]

/-- `evaluate()` of an object that stands for a value returns that value -/
theorem evaluate_total {fs : List Func} {s : LSt} (hs : Sess fs s) {a : LArg} {v : Val} (hd : den s.nodes a = some v) :
    ∃ s', evaluate a s = .ok (v, s') := by
  obtain ⟨e, he, _⟩ := evalArg_total (eval_total hs.closed (s.nodes.length + 1)) a s.ev v hs.done
    (fun j e => by subst e; have := den_some_lt hd; omega) hd
  exact ⟨{ s with ev := e }, by simp only [evaluate, he]⟩

end PF.Lazy
