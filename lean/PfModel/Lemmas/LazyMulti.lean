import PfModel.Props.C18
import PfModel.Model.LazyMulti
/-! Helper lemmas for `Props/C18Multi.lean`: the invariant of a whole process with several lazy pipelines (`GSess`) and its
    preservation by every operation.  The single-pipeline results (`lrunTop_name`, `lrunTop_whole`, `sess_after`, `C18_evaluate`,
    `C18_session_dag`) are applied to the projections `proj g i`. -/
namespace PF.Lazy
open PF PF.Pipe

theorem cacheFor_setCache_same (i : Nat) (x : List (Key × LArg)) : ∀ c, cacheFor (setCache c i x) i = x := by
  intro c
  induction c with
  | nil => simp [setCache, cacheFor]
  | cons e r ih =>
    obtain ⟨j, d⟩ := e
    simp only [setCache]
    split
    · next h => simp [cacheFor, h]
    · next h => simp [cacheFor, h, ih]

theorem cacheFor_setCache_other (i j : Nat) (x : List (Key × LArg)) (hne : j ≠ i) : ∀ c, cacheFor (setCache c i x) j = cacheFor c j := by
  intro c
  induction c with
  | nil => simp [setCache, cacheFor, Ne.symm hne]
  | cons e r ih =>
    obtain ⟨k, d⟩ := e
    simp only [setCache]
    split
    · next h => subst h; simp [cacheFor, Ne.symm hne]
    · next h => simp only [cacheFor, ih]

/-- the process-wide view: the table, the slots, no cache at all -/
def globView (g : GSt) : LSt :=
  { memo := [], used := [], usedNone := false, nodes := g.nodes, tg := none, ev := g.ev, own := none, cfn := [] }

/-- the invariant of a whole process: the global clauses speak about the one table / graph / slots / log, the cache clause about
    every pipeline's caches (the one it uses in the current block, and its own) -/
structure GSess (fss : List (List Func)) (g : GSt) : Prop where
  closed : Closed g.nodes
  graph : ∀ t, g.tg = some t →
    (∀ n ∈ t.gnodes, n < g.nodes.length) ∧
    (∀ a n, (a, n) ∈ t.edges ↔ (n ∈ t.gnodes ∧ ∃ nd, g.nodes[n]? = some nd ∧ a ∈ nd.refs))
  done : DoneSound g.nodes g.ev
  log : LogInv g.ev
  xclosed : DoneClosed g.nodes g.ev
  logged : DoneLogged g.ev
  caches : ∀ i fs, fss[i]? = some fs → CacheSound fs (proj g i)

theorem proj_tg_isSome (g : GSt) (i : Nat) : (proj g i).tg.isSome = g.tg.isSome := by
  cases h : g.tg <;> simp [proj, h]

/-- every pipeline's view satisfies the single-pipeline session invariant -/
theorem GSess.proj {fss : List (List Func)} {g : GSt} (h : GSess fss g) {i : Nat} {fs : List Func} (hi : fss[i]? = some fs) :
    Sess fs (proj g i) := by
  refine ⟨h.closed, h.caches i fs hi, ?_, h.done, h.log, h.xclosed, h.logged⟩
  intro t ht
  cases hg : g.tg with
  | none => simp [Lazy.proj, hg] at ht
  | some T =>
    simp only [Lazy.proj, hg, Option.some.injEq] at ht
    subst ht
    exact h.graph T hg

theorem GSess.glob {fss : List (List Func)} {g : GSt} (h : GSess fss g) : Sess [] (globView g) := by
  refine ⟨h.closed, ?_, ?_, h.done, h.log, h.xclosed, h.logged⟩
  · intro key a hm; simp [entries, globView] at hm
  · intro t ht; simp [globView] at ht

/-- one lazy call on one pipeline, either kind of request -/
theorem lrunTop_sess {fs : List Func} {kw : List (String × Val)} {rank : String → Nat} (wf : PipeCache.WF fs rank) {s : LSt}
    (hs : Sess fs s) {req : Req} {a : LArg} {s' : LSt} (h : lrunTop fs kw req s = .ok (a, s')) : Step s s' ∧ Sess fs s' := by
  cases req with
  | name o =>
    obtain ⟨hst, hi, _⟩ := lrunTop_name wf hs h
    exact ⟨hst, sess_after hs hst hi⟩
  | whole os =>
    obtain ⟨hst, hi, _⟩ := lrunTop_whole wf hs h
    exact ⟨hst, sess_after hs hst hi⟩

theorem gcall_ok {fss : List (List Func)} {i : Nat} {kw : List (String × Val)} {req : Req} {g : GSt} {a : LArg} {g' : GSt}
    (h : gcall fss i kw req g = .ok (a, g')) :
    ∃ fs s', fss[i]? = some fs ∧ i < g.pipes.length ∧ lrunTop fs kw req (proj g i) = .ok (a, s') ∧ g' = writeBack g i s' := by
  unfold gcall at h
  split at h
  · next fs p hf hp =>
    split at h
    · cases h
    · next a1 s1 hr =>
      injection h with h; injection h with h1 h2
      subst h1
      have hlt : i < g.pipes.length := by
        rcases Nat.lt_or_ge i g.pipes.length with hl | hl
        · exact hl
        · rw [List.getElem?_eq_none hl] at hp; cases hp
      exact ⟨fs, s1, hf, hlt, hr, h2.symm⟩
  · cases h

theorem wb_tg_same {g : GSt} {i : Nat} {s' : LSt} (h : s'.tg.isSome = g.tg.isSome) :
    (proj (writeBack g i s') i).tg = s'.tg := by
  cases hg : g.tg with
  | none =>
    rw [hg] at h
    cases hs : s'.tg with
    | none => simp [proj, writeBack, wbTG, hg, hs]
    | some t' => rw [hs] at h; simp at h
  | some t =>
    rw [hg] at h
    cases hs : s'.tg with
    | none => rw [hs] at h; simp at h
    | some t' => simp [proj, writeBack, wbTG, hg, hs, cacheFor_setCache_same]

theorem wb_own_same {g : GSt} {i : Nat} {s' : LSt} (hlt : i < g.pipes.length) : (proj (writeBack g i s') i).own = s'.own := by
  simp [proj, writeBack, getPipe, List.getElem?_set_self hlt]

theorem wb_own_other {g : GSt} {i j : Nat} {s' : LSt} (hne : j ≠ i) : (proj (writeBack g i s') j).own = (proj g j).own := by
  simp [proj, writeBack, getPipe, List.getElem?_set_ne (Ne.symm hne)]

theorem entries_wb_other {g : GSt} {i j : Nat} {s' : LSt} (hne : j ≠ i) (h : s'.tg.isSome = g.tg.isSome) :
    entries (proj (writeBack g i s') j) = entries (proj g j) := by
  unfold entries
  rw [wb_own_other hne]
  congr 1
  cases hg : g.tg with
  | none =>
    rw [hg] at h
    cases hs : s'.tg with
    | none => simp [proj, writeBack, wbTG, hg, hs]
    | some t' => rw [hs] at h; simp at h
  | some t =>
    rw [hg] at h
    cases hs : s'.tg with
    | none => rw [hs] at h; simp at h
    | some t' => simp [proj, writeBack, wbTG, hg, hs, cacheFor_setCache_other i j _ hne]

/-- writing pipeline `i`'s view back keeps the invariant of the process: the global clauses are the view's, pipeline `i`'s caches
    are the view's, every other pipeline's caches are untouched and stay sound over the appended nodes -/
theorem writeBack_gsess {fss : List (List Func)} {g : GSt} (hG : GSess fss g) {i : Nat} {fs : List Func} (hf : fss[i]? = some fs)
    (hlt : i < g.pipes.length) {s' : LSt} (hst : Step (proj g i) s') (hs' : Sess fs s') : GSess fss (writeBack g i s') := by
  have hsome : s'.tg.isSome = g.tg.isSome := by rw [hst.2.2, proj_tg_isSome]
  refine ⟨hs'.closed, ?_, hs'.done, hs'.log, hs'.xclosed, hs'.logged, ?_⟩
  · intro t ht
    cases hg : g.tg with
    | none => simp [writeBack, wbTG, hg] at ht
    | some T =>
      cases hs : s'.tg with
      | none => simp [writeBack, wbTG, hg, hs] at ht
      | some t' =>
        simp only [writeBack, wbTG, hg, hs, Option.some.injEq] at ht
        subst ht
        exact hs'.graph t' hs
  · intro j fsj hj
    by_cases hji : j = i
    · subst hji
      rw [hf] at hj; injection hj with hj; subst hj
      intro key a hmem
      have he : entries (proj (writeBack g j s') j) = entries s' := by
        unfold entries
        rw [wb_tg_same hsome, wb_own_same hlt]
      rw [he] at hmem
      exact hs'.cache key a hmem
    · obtain ⟨ext, hext⟩ := hst.1
      exact cacheSound_ext (hG.caches j fsj hj) ext hext (by rw [entries_wb_other hji hsome]; exact fun _ h => h)

theorem geval_ok {a : LArg} {g : GSt} {v : Val} {g' : GSt} (h : geval a g = .ok (v, g')) :
    ∃ e, g' = { g with ev := e } ∧ evaluate a (globView g) = .ok (v, { globView g with ev := e }) := by
  unfold geval at h
  split at h
  · cases h
  · next v1 e1 hev =>
    injection h with h; injection h with h1 h2
    subst h1
    refine ⟨e1, h2.symm, ?_⟩
    simp only [evaluate, globView]
    rw [hev]

theorem geval_gsess {fss : List (List Func)} {g : GSt} (hG : GSess fss g) {a : LArg} {v : Val} {g' : GSt}
    (h : geval a g = .ok (v, g')) :
    GSess fss g' ∧ den g.nodes a = some v ∧ g'.nodes = g.nodes ∧ g'.tg = g.tg ∧ g'.pipes = g.pipes ∧
      ∃ new, g'.ev.log = g.ev.log ++ new := by
  obtain ⟨e, rfl, hev⟩ := geval_ok h
  obtain ⟨hd, hs', _, _, hnew⟩ := PF.C18.C18_evaluate [] (globView g) hG.glob a v _ hev
  refine ⟨⟨hG.closed, hG.graph, hs'.done, hs'.log, hs'.xclosed, hs'.logged, ?_⟩, hd, rfl, rfl, rfl, hnew⟩
  intro j fs hj
  exact hG.caches j fs hj

theorem genter_gsess {fss : List (List Func)} {g : GSt} (hG : GSess fss g) : GSess fss (genter g) := by
  refine ⟨hG.closed, ?_, hG.done, hG.log, hG.xclosed, hG.logged, ?_⟩
  · intro t ht
    simp only [genter, Option.some.injEq] at ht
    subst ht
    refine ⟨?_, ?_⟩
    · intro n hn; cases hn
    · intro a n
      constructor
      · intro h; cases h
      · intro h; cases h.1
  · intro j fs hj
    exact (PF.C18.C18_session_dag fs (proj g j) (hG.proj hj)).1.cache

theorem gexit_gsess {fss : List (List Func)} {g : GSt} (hG : GSess fss g) : GSess fss (gexit g) := by
  refine ⟨hG.closed, ?_, hG.done, hG.log, hG.xclosed, hG.logged, ?_⟩
  · intro t ht
    simp [gexit] at ht
  · intro j fs hj
    exact (PF.C18.C18_session_dag fs (proj g j) (hG.proj hj)).2.cache

theorem ginit_gsess (fss : List (List Func)) (cfg : List (Bool × List (List String))) : GSess fss (ginit cfg) := by
  refine ⟨?_, ?_, ?_, ⟨List.nodup_nil, ?_⟩, ?_, ?_, ?_⟩
  · intro i nd h; simp [ginit] at h
  · intro t ht; simp [ginit] at ht
  · intro i w h; simp [ginit, dlookup] at h
  · intro i h; simp [ginit] at h
  · intro i nd h; simp [ginit, dlookup] at h
  · intro i h; simp [ginit, dlookup] at h
  · intro j fs _ key a hmem
    exfalso
    simp only [entries, proj, ginit, getPipe, List.nil_append] at hmem
    cases hp : (cfg.map fun (x : Bool × List (List String)) => (⟨if x.1 then some [] else none, x.2⟩ : PSt))[j]? with
    | none => simp [hp] at hmem
    | some p =>
      rw [List.getElem?_map] at hp
      cases hc : cfg[j]? with
      | none => simp [hc] at hp
      | some c =>
        obtain ⟨b, l⟩ := c
        simp [hc] at hp
        subst hp
        cases b <;> simp [hc] at hmem

/-- the well-formedness hypothesis, for every pipeline of the process -/
def AllWF (fss : List (List Func)) : Prop := ∀ (i : Nat) (fs : List Func), fss[i]? = some fs → ∃ rank, PipeCache.WF fs rank

theorem gstep_gsess {fss : List (List Func)} (hwf : AllWF fss) {g : GSt} (hG : GSess fss g) (op : Op) : GSess fss (gstep fss g op) := by
  cases op with
  | enter => exact genter_gsess hG
  | exit => exact gexit_gsess hG
  | call i kw req =>
    simp only [gstep]
    split
    · next a g' h =>
      obtain ⟨fs, s', hf, hlt, hr, rfl⟩ := gcall_ok h
      obtain ⟨rank, wf⟩ := hwf i fs hf
      obtain ⟨hst, hs'⟩ := lrunTop_sess wf (hG.proj hf) hr
      exact writeBack_gsess hG hf hlt hst hs'
    · exact hG
  | eval a =>
    simp only [gstep]
    split
    · next v g' h => exact (geval_gsess hG h).1
    · exact hG

theorem runOps_gsess {fss : List (List Func)} (hwf : AllWF fss) : ∀ (ops : List Op) (g : GSt), GSess fss g → GSess fss (runOps fss ops g) := by
  intro ops
  induction ops with
  | nil => intro g h; exact h
  | cons op ops ih => intro g h; exact ih _ (gstep_gsess hwf h op)

end PF.Lazy
