"""C05 stream: a `Pipeline.map(..., cleanup=True)` into an EXISTING run folder is killed inside the removal of that folder and
the map is then re-run with the same inputs and `cleanup=False`.

The removal (`pipefunc/map/_run_info.py: _cleanup_run_folder`) is not one event: it is a sequence of rename/unlink/rmdir
calls.  The stream takes that sequence from a real run under strace (`parse_cleanup`; the parser of c05_fstrace does not
resolve `unlinkat(dirfd, "name")`, which is what `shutil.rmtree` issues), and kills it
  * after every prefix of the traced order,
  * after prefixes of random re-orderings that keep "a directory is removed after its entries" (the order of `scandir`
    is file-system specific: ext4 yields hash order, here `run_info.json` first), renames stay where they are,
  * after a few directed sets (only `run_info.json` / one input file / the defaults file removed) when the traced
    sequence really removes these paths inside the run folder.
Each state is rebuilt from a snapshot of the old folder, resumed in a child forked from a pristine zygote and judged on
the implementation's own answer:
  (a) same request X on X's folder: completes, exactly the uninterrupted outputs, no user call whose outputs were all
      completely stored and are still there, folder afterwards = uninterrupted folder;
  (b) request Y (other input values, same pipeline) on X's folder: either refused (ValueError of the comparison with
      the previous run, no user call, folder untouched) or exactly Y's uninterrupted outputs.

A record: {"desc", "desc_old", "storage", "old": {"state": "complete"|"crashed", ...}, "history": [{"kind":
"cleanup-kill", "order", "after_ops", "of", "removed": ["unlink run_info.json", ...], "next"}]}.  Paths are relative to
the run folder; "<TRASH>" is the sibling the run folder was renamed to.
"""
from __future__ import annotations

import copy
import hashlib
import json
import os
import re
import shutil
import traceback

import c05_crashfs as crashfs
import c05_fstrace as fstrace
import terms

TRASH = "<TRASH>"
_FD = re.compile(r"(AT_FDCWD|\d+)<((?:\\x[0-9a-f]{2})*)>")
_CALLS = ("unlink", "unlinkat", "rmdir", "rename", "renameat", "renameat2", "mkdir", "mkdirat", "openat", "open", "creat")
REFUSALS = ("Inputs `", "Could not load previous run info", "Internal shapes do not match", "`MapSpec`s do not match",
            "Shapes do not match", "Defaults `")


def _p():
    from props import c05          # lazily: props/c05.py imports this module
    return c05


# ------------------------------------------------------------------------------------------------ cases
def _prime(j):
    """Another value of the same shape: every string leaf gets a prime."""
    if isinstance(j, dict):
        if "s" in j:
            return {"s": j["s"] + "'"}
        if "f" in j:
            return {"f": j["f"], "k": [[k, _prime(x)] for k, x in j["k"]]}
        if "arr" in j:
            return {"arr": [j["arr"][0], [_prime(x) for x in j["arr"][1]]]}
    return j


def other_request(desc):
    """(desc_old, desc) = the same pipeline with different input values, or None when pipefunc could not tell the two
    apart on an INTACT folder: `equal_dicts` gives up on object ndarrays (`np.array_equal(..., equal_nan=True)` raises)
    and then proceeds 'hoping for the best' — that is the input comparison, not the removal window examined here.
    1-D inputs are therefore passed as lists, and one input that is a list or a scalar must exist."""
    old = copy.deepcopy(desc)
    for name, v in old["inputs"]:
        if isinstance(v, dict) and "arr" in v and len(v["arr"][0]) == 1:
            old["input_kinds"][name] = "list"
    comparable = [n for n, v in old["inputs"] if not (isinstance(v, dict) and "arr" in v) or old["input_kinds"].get(n) == "list"]
    new = copy.deepcopy(old)
    new["inputs"] = [[n, _prime(v)] for n, v in new["inputs"]]
    if not comparable or not any(a != b for (n, a), (_, b) in zip(old["inputs"], new["inputs"]) if n in comparable):
        return None
    return old, new


def corpus():
    """Past failures first (DF-C05-rmtree): the same request refused; the value of another request returned."""
    p = _p()
    x2, x3 = p._design_case(2), p._design_case(3)
    tup = p._tuple_case()
    tup["input_kinds"]["x0"] = "list"
    out = [{"desc": copy.deepcopy(x2), "desc_old": copy.deepcopy(x2), "storage": "file_array", "old": {"state": "complete"}}]
    for d, storage, old in ((x2, "file_array", {"state": "complete"}), (x3, "dict", {"state": "complete"}),
                            (tup, "file_array", {"state": "raised", "function": "f0", "call_index": 1})):
        o, n = other_request(d)
        out.append({"desc": n, "desc_old": o, "storage": storage, "old": old})
    return out


def gen_cases(ctx, n):
    p = _p()
    out = []
    for k in range(n):
        d = p.gen_case(ctx.rng)
        pair = other_request(d) if ctx.rng.random() < 0.6 else None
        u = ctx.rng.random()
        old = {"state": "complete"}
        if u < 0.25:
            old = {"state": "raised", "function": ctx.rng.choice(d["funcs"])["name"], "call_index": ctx.rng.randint(0, 2)}
        elif u < 0.5:
            old = {"state": "crashed", "u": ctx.rng.random()}
        if pair is None:
            pair = (copy.deepcopy(d), copy.deepcopy(d))
        out.append({"desc": pair[1], "desc_old": pair[0], "storage": ["file_array", "dict"][k % 2], "old": old})
    return out


def _case(desc, storage):
    return {"desc": desc, "storage": storage, "mode": "seq", "picker": []}


def rec_of(case, hist):
    return {"desc": case["desc"], "desc_old": case["desc_old"], "storage": case["storage"], "mode": "seq", "picker": [],
            "old": {k: v for k, v in case["old"].items() if k != "u"}, "history": [hist] if hist else []}


# ------------------------------------------------------------------------------------------------ the removal, traced
def _unhex(s):
    return bytes(int(x, 16) for x in fstrace._HEX.findall(s)).decode(errors="replace")


def _paths(args):
    """The path arguments of one strace line (`-y`: a directory descriptor is printed as `5</abs/dir>`), resolved."""
    toks = [(m.start(), "fd", _unhex(m.group(2))) for m in _FD.finditer(args)]
    toks += [(m.start(), "s", _unhex(m.group(1))) for m in fstrace._STR.finditer(args)]
    out, cur = [], None
    for _, kind, val in sorted(toks):
        if kind == "fd":
            cur = val
            continue
        if os.path.isabs(val):
            out.append(os.path.normpath(val))
        elif cur is not None:
            out.append(os.path.normpath(os.path.join(cur, val)))
        else:
            out.append(None)
        cur = None
    return out


def parse_cleanup(trace_path, folder):
    """The operations on the run folder up to the first write access of the new run (first successful mkdir / open for
    writing inside it): [["unlink", rel], ["rmdir", rel], ["rename-folder", TRASH], ["rename", rel, rel], ["rename-out", rel]]."""
    folder = os.path.abspath(folder)
    trash = [None]

    def rel(p):
        if p is None:
            return None
        t = trash[0]
        if t and (p == t or p.startswith(t + os.sep)):
            return TRASH + p[len(t):]
        if p == folder or p.startswith(folder + os.sep):
            return os.path.relpath(p, folder)
        return None

    ops = []
    for line in fstrace._joined_lines(trace_path):
        m = fstrace._LINE.match(line)
        if not m or m.group(2) not in _CALLS or int(m.group(4)) < 0:
            continue
        call, args = m.group(2), m.group(3)
        ps = _paths(args)
        if not ps:
            continue
        if call in ("mkdir", "mkdirat"):
            r = rel(ps[-1])
            if r is not None and not r.startswith(TRASH):
                break
        elif call in ("openat", "open", "creat"):
            r = rel(ps[0])
            if r is not None and not r.startswith(TRASH) and (call == "creat" or "O_WRONLY" in args or "O_RDWR" in args):
                break
        elif call in ("unlink", "unlinkat", "rmdir"):
            r = rel(ps[-1])
            if r is not None:
                ops.append(["rmdir" if call == "rmdir" or "AT_REMOVEDIR" in args else "unlink", r])
        else:
            src, dst = rel(ps[0]), rel(ps[-1])
            if src == "." and dst is None and ps[-1] is not None:
                trash[0] = ps[-1]
                ops.append(["rename-folder", TRASH])
            elif src is not None and dst is not None:
                ops.append(["rename", src, dst])
            elif src is not None:
                ops.append(["rename-out", src])
    return ops


def op_str(op):
    return " ".join(op)


def trash_path(folder):
    return os.path.join(os.path.dirname(folder), "." + os.path.basename(folder) + ".0.0.trash")


def apply_ops(folder, ops):
    """Replay removal operations on a copy of the old folder (exactly: `rmdir` needs an empty directory)."""
    t = trash_path(folder)

    def ab(r):
        q = t + r[len(TRASH):] if r.startswith(TRASH) else os.path.normpath(os.path.join(folder, r))
        m = crashfs._TMP.match(os.path.basename(q))
        if m and not os.path.lexists(q) and os.path.isdir(os.path.dirname(q)):
            # a temporary file of a crashed old run carries the pid of that run: in a replay the pid is another one
            cands = [n for n in os.listdir(os.path.dirname(q)) if (crashfs._TMP.match(n) or [None, None])[1] == m.group(1)]
            if len(cands) == 1:
                q = os.path.join(os.path.dirname(q), cands[0])
        return q

    for op in ops:
        if op[0] == "unlink":
            os.unlink(ab(op[1]))
        elif op[0] == "rmdir":
            os.rmdir(ab(op[1]))
        elif op[0] == "rename-folder":
            os.rename(folder, t)
        elif op[0] == "rename":
            os.replace(ab(op[1]), ab(op[2]))
        elif op[0] == "rename-out":
            p = ab(op[1])
            shutil.rmtree(p) if os.path.isdir(p) and not os.path.islink(p) else os.unlink(p)
        else:
            raise ValueError(f"unknown operation {op}")


def copy_state(src, dst):
    """Copy a run folder to another path of the same length; the absolute paths recorded in run_info.json follow."""
    assert len(src) == len(dst), (src, dst)
    shutil.rmtree(dst, ignore_errors=True)
    if not os.path.isdir(src):
        return
    shutil.copytree(src, dst, symlinks=True)
    for name in ("run_info.json", ".run_info.json.tmp"):
        p = os.path.join(dst, name)
        if os.path.isfile(p):
            data = open(p, "rb").read()
            with open(p, "wb") as fh:
                fh.write(data.replace(src.encode(), dst.encode()))


def tree_digest(folder):
    h = hashlib.sha256()
    if not os.path.isdir(folder):
        return "absent"
    for root, dnames, fnames in os.walk(folder):
        dnames.sort()
        h.update(("D " + os.path.relpath(root, folder) + "\n").encode())
        for fn in sorted(fnames):
            h.update(("F " + fn + "\n").encode())
            h.update(hashlib.sha256(open(os.path.join(root, fn), "rb").read()).digest())
    return h.hexdigest()


# ------------------------------------------------------------------------------------------------ orders
def _under(a, d):
    return d == "." and a != "." or a.startswith(d + os.sep) or (d == TRASH and a.startswith(TRASH + os.sep))


def _segments(ops):
    """Maximal runs of unlink/rmdir; every rename is a segment of its own and keeps its place."""
    segs, cur = [], []
    for op in ops:
        if op[0] in ("unlink", "rmdir"):
            cur.append(op)
        else:
            if cur:
                segs.append(cur)
            segs.append([op])
            cur = []
    if cur:
        segs.append(cur)
    return segs


def permuted(rng, ops):
    """A random order of the same operations in which a directory is still removed after everything below it."""
    out = []
    for seg in _segments(ops):
        left = list(seg)
        while left:
            ready = [o for o in left if o[0] == "unlink" or not any(_under(q[1], o[1]) for q in left if q is not o)]
            pick = rng.choice(ready or left)
            left.remove(pick)
            out.append(pick)
    return out


def directed(ops, want):
    """The operations (in traced order) that remove exactly `want` inside the run folder, or None when the traced removal
    does not remove these paths in place / the set is not closed under 'entries before their directory'."""
    first = _segments(ops)[0] if ops else []
    if not first or first[0][0] not in ("unlink", "rmdir"):
        return None
    sel = [o for o in first if o[1] in want]
    if {o[1] for o in sel} != set(want):
        return None
    for o in sel:
        if o[0] == "rmdir" and any(_under(q[1], o[1]) and q[1] not in want for q in first):
            return None
    return sel


# ------------------------------------------------------------------------------------------------ phase 1: one pipeline
def prepare(lab, case):
    """Old folder snapshot S, the uninterrupted run of the new request, and the traced removal sequence."""
    p = _p()
    new, old = _case(case["desc"], case["storage"]), _case(case["desc_old"], case["storage"])
    S, R, F1 = lab.slot(), lab.slot(), lab.slot()
    out = {"case": case, "S": S, "new": new}
    try:
        if case["old"]["state"] == "complete":
            r_old, _e, _c = lab.run(lab.spec(old, S, True))
        elif case["old"]["state"] == "raised":        # the old run stopped because a user function raised (no strace needed)
            r_old, _e, _c = lab.run(lab.spec(old, S, True, fail={case["old"]["function"]: case["old"]["call_index"]}))
            if r_old.get("err") == "raised":
                r_old = {"ok": {"outputs": {}}}
        else:
            f0 = lab.slot()
            try:
                r_old, ev0, _c = lab.run(lab.spec(old, f0, True), trace=True)
            finally:
                lab.cleanup(f0)
            k = min(len(ev0), 1 + int(case["old"]["u"] * len(ev0)))
            case["old"]["after_events"], case["old"]["of"] = k, len(ev0)
            crashfs.materialise(ev0, k, f0, S)
        if "err" in r_old:
            out["skip"] = "old-run-fails:" + r_old["err"]
            return out
        out["old_outputs"] = r_old["ok"]["outputs"]
        out["old_files"] = p.data_files(crashfs.abstract(S))
        r_ref, _e, calls_ref = lab.run(lab.spec(new, R, True))
        if "err" in r_ref:
            out["skip"] = "uninterrupted-run-fails:" + r_ref["err"]
            return out
        out["ref_outputs"] = r_ref["ok"]["outputs"]
        out["ref_files"] = p.data_files(crashfs.abstract(R))
        out["ref_calls"] = p.canon_calls(calls_ref)
        copy_state(S, F1)
        spec = lab.spec(new, F1, True)
        sp, tr = F1 + ".spec.json", F1 + ".strace"
        if os.path.exists(spec["log"]):
            os.unlink(spec["log"])
        with open(sp, "w") as fh:
            json.dump(spec, fh)
        out["clean_res"] = fstrace.run_child(sp, tr)
        out["ops"] = parse_cleanup(tr, F1)
        out["clean_files"] = p.data_files(crashfs.abstract(F1)) if "ok" in out["clean_res"] else None
        out["leftover"] = sorted(n for n in os.listdir(os.path.dirname(F1)) if n.startswith("." + os.path.basename(F1)))
        return out
    except (crashfs.Unmodelled, fstrace.TraceError) as e:
        out["skip"] = "unmodelled:" + str(e)[:80]
        return out
    except Exception as e:  # noqa: BLE001
        out["error"] = f"{type(e).__name__}: {e}\n{traceback.format_exc()[-600:]}"
        return out
    finally:
        for f in (R, F1):
            lab.cleanup(f)
            for n in os.listdir(lab.base):
                if n.startswith("." + os.path.basename(f) + "."):
                    shutil.rmtree(os.path.join(lab.base, n), ignore_errors=True)


# ------------------------------------------------------------------------------------------------ phase 2: one kill state
def run_state(lab, prep, ops):
    """Snapshot + the removal operations performed before the kill, then the real `map(..., cleanup=False)`."""
    F2 = lab.slot()
    try:
        copy_state(prep["S"], F2)
        try:
            apply_ops(F2, ops)
        except OSError as e:
            return {"infeasible": f"{type(e).__name__}: {e}"}
        fs = crashfs.abstract(F2)
        d0 = tree_digest(F2)
        impl, _e, calls = lab.run(lab.spec(prep["new"], F2, False))
        after = crashfs.abstract(F2) if "ok" in impl else None
        return {"fs": fs, "impl": impl, "calls": calls, "after": after, "touched": tree_digest(F2) != d0, "folder": F2}
    except crashfs.Unmodelled as e:
        return {"unmodelled": str(e)}
    except Exception as e:  # noqa: BLE001
        return {"error": f"{type(e).__name__}: {e}\n{traceback.format_exc()[-600:]}"}
    finally:
        lab.cleanup(F2)
        shutil.rmtree(trash_path(F2), ignore_errors=True)


def _root(v):
    """The user call a stored value came from: ["f0", kwargs] (through pick/proj/arrays of one call), else None."""
    if isinstance(v, dict):
        if "f" in v:
            return [v["f"], v["k"]] if v["f"] != "in" else None
        if "pick" in v:
            return _root(v["pick"][0])
        if "proj" in v:
            return _root(v["proj"][0])
        if "arr" in v:
            rs = [_root(x) for x in v["arr"][1]]
            if rs and rs[0] is not None and all(r == rs[0] for r in rs):
                return rs[0]
    return None


def files_of_calls(ref_files):
    """{call → the element files (cell/single) of the uninterrupted folder holding that call's outputs}."""
    out = {}
    for pj, c in ref_files.items():
        if json.loads(pj)[0] in ("cell", "single") and isinstance(c, dict):
            r = _root(c["C"])
            if r is not None:
                out.setdefault(json.dumps(_p().canon_calls([r])[0]), []).append(pj)
    return out


def judge(ctx, prep, hist, st):
    p = _p()
    case = prep["case"]
    rec = rec_of(case, hist)
    same = case["desc"]["inputs"] == case["desc_old"]["inputs"]
    tag = "same" if same else "other"
    ctx.record(rec, 0 < hist["after_ops"] < hist["of"], validated=False)
    ctx.count(f"cleanup-kill:{tag}:{hist['order']}")
    pre = p.data_files(st["fs"])
    in_place = sorted(o.split(" ", 1)[1] for o in hist["removed"] if not o.startswith("rename-folder") and TRASH not in o)
    ctx.count("cleanup-state:" + ("absent" if not st["fs"]["dirs"] else "intact" if pre == prep["old_files"] and not in_place else
                                  "no-run_info+outputs" if '["runInfo"]' not in pre and any(json.loads(q)[0] in ("cell", "single", "dictArr") for q in pre)
                                  else "run_info-without-inputs" if '["runInfo"]' in pre and pre != prep["old_files"] else "partial"))
    impl, ref = st["impl"], prep["ref_outputs"]
    where = f"kill inside cleanup=True after {hist['after_ops']}/{hist['of']} removal operations ({hist['order']} order; old folder {case['old']['state']})"
    if "err" in impl:
        ctx.count(f"cleanup-resume:{tag}:refused" if impl["err"] == "ValueError" else f"cleanup-resume:{tag}:fails")
        if same:
            ctx.violation(rec, f"{where}: the re-run of the SAME request with cleanup=False fails with {impl['err']}: {impl.get('msg', '')[:120]}",
                          impl=impl, model={"outputs": ref}, key="cleanup-kill same request fails")
            return
        msg = impl.get("msg", "")
        if impl["err"] != "ValueError" or not any(("ValueError: " + r) in msg[:60] for r in REFUSALS):
            ctx.violation(rec, f"{where}: the run of another request with cleanup=False fails with {impl['err']}: {msg[:120]}", impl=impl,
                          key="cleanup-kill other request fails")
        elif st["calls"]:
            ctx.violation(rec, f"{where}: the refused run called user functions", impl={"calls": st["calls"]}, key="cleanup-kill refused but called")
        elif st["touched"]:
            ctx.violation(rec, f"{where}: the refused run changed the run folder", impl=impl, key="cleanup-kill refused but wrote")
        return
    ctx.count(f"cleanup-resume:{tag}:completes")
    got = impl["ok"]["outputs"]
    if got != ref:
        bad = sorted(n for n in ref if got.get(n) != ref[n])
        stale = [n for n in bad if not same and got.get(n) == prep.get("old_outputs", {}).get(n)]
        ctx.violation(rec, f"{where}: the run with cleanup=False returns a different value for {bad}"
                      + (f" — for {stale} the value computed from the inputs of the PREVIOUS request" if stale else ""),
                      impl={n: got.get(n) for n in bad}, model={n: ref[n] for n in bad},
                      key="cleanup-kill stale result" if not same else "cleanup-kill resume differs")
        return
    impl_c = p.canon_calls(st["calls"])
    if same:
        by_call = files_of_calls(prep["ref_files"])
        for c in impl_c:
            paths = by_call.get(json.dumps(c))
            if paths is None:
                ctx.count("cleanup-calls:not-tied-to-files")
                continue
            ctx.count("cleanup-calls:tied-to-files")
            if all(pre.get(q) == prep["ref_files"][q] for q in paths):
                ctx.violation(rec, f"{where}: `{c[0]}` was called again although all its outputs {paths} were completely stored and still there",
                              impl={"calls": impl_c}, key="cleanup-kill recomputed stored element")
                return
    if p.data_files(st["after"]) != prep["ref_files"]:
        a, b = p.data_files(st["after"]), prep["ref_files"]
        diff = sorted(q for q in set(a) | set(b) if a.get(q) != b.get(q))
        ctx.violation(rec, f"{where}: the folder after the run differs from the folder of an uninterrupted run at {diff[:4]}", key="cleanup-kill folder differs")


# ------------------------------------------------------------------------------------------------ entry points
def _harness_problem(ctx, case, what):
    ctx.violation(rec_of(case, None) if case else {"desc": None, "desc_old": None, "storage": None, "history": []},
                  f"cleanup stream: {what}"[:400], found_input=False, item="correspondence:cleanup-stream", key="cleanup stream problem")


def stream(ctx, lab, quick):
    try:
        _stream(ctx, lab, quick)
    except Exception as e:  # noqa: BLE001
        _harness_problem(ctx, None, f"{type(e).__name__}: {e} {traceback.format_exc()[-300:]}")


def kill_states(ctx, ops, quota, n_perm):
    """[(order, sequence, k)]: every prefix of the traced order (sampled above the quota; the first and the last always),
    the directed sets, prefixes of random admissible re-orderings; one state per distinct set of performed operations."""
    n = len(ops)
    out, seen = [], set()

    def add(order, seq, k):
        key = frozenset(op_str(o) for o in seq[:k])
        if key not in seen:
            seen.add(key)
            out.append((order, seq, k))

    for want in (["run_info.json"], None, ["defaults/defaults.cloudpickle"]):
        if want is None:
            ins = sorted(o[1] for o in ops if o[0] == "unlink" and o[1].startswith("inputs" + os.sep))
            want = [ctx.rng.choice(ins)] if ins else ["?"]
        sel = directed(ops, want)
        if sel:
            add("directed", sel + [o for o in ops if o not in sel], len(sel))
    ks = list(range(n + 1))
    room = max(3, int(quota * 0.6) - len(out))
    if len(ks) > room:
        ks = sorted({0, 1, n} | set(ctx.rng.sample(ks, max(0, room - 3))))
    for k in ks:
        add("traced", ops, k)
    for _ in range(n_perm):
        if len(out) >= quota or n < 3:
            break
        seq = permuted(ctx.rng, ops)
        for k in sorted(ctx.rng.sample(range(1, n), min(n - 1, 3))):
            if len(out) < quota:
                add("permuted", seq, k)
    return out[:quota]


def _stream(ctx, lab, quick):
    cases = corpus() + gen_cases(ctx, ctx.n(1, 12))
    budget = 40 if quick else 400
    preps = list(lab.pool.map(lambda c: prepare(lab, c), cases))
    try:
        jobs = []
        live = [q for q in preps if "ops" in q and "skip" not in q and "error" not in q]
        for q in preps:
            case = q["case"]
            ctx.count(f"cleanup-pipeline:{case['storage']}:{'same' if case['desc']['inputs'] == case['desc_old']['inputs'] else 'other'}:old-{case['old']['state']}")
            if "error" in q:
                _harness_problem(ctx, case, q["error"])
            elif "skip" in q:
                ctx.skip("cleanup:" + q["skip"].split(":")[0])
        for q in live:
            case, ops = q["case"], q["ops"]
            rec0 = rec_of(case, None)
            ctx.count("cleanup-ops", len(ops))
            ctx.count("cleanup-removal:" + ("nothing" if not ops else "rename-first" if ops[0][0] == "rename-folder" else "in-place"))
            if ops and ops[0] == ["unlink", "run_info.json"]:
                ctx.count("cleanup-removal:run_info.json-first")
            # the uninterrupted cleanup=True run onto the old folder itself
            res = q["clean_res"]
            if "err" in res:
                ctx.violation(rec0, f"map(cleanup=True) into an existing folder ({case['old']['state']}) fails with {res['err']}: {res.get('msg', '')[:120]}",
                              impl=res, key="cleanup run fails")
                continue
            if res["ok"]["outputs"] != q["ref_outputs"] or q["clean_files"] != q["ref_files"]:
                ctx.violation(rec0, "map(cleanup=True) into an existing folder does not give the outputs/folder of a run into a new folder",
                              key="cleanup run differs")
                continue
            if q["leftover"]:
                ctx.count("cleanup-leftover-sibling")
            for order, seq, k in kill_states(ctx, ops, max(6, budget // max(1, len(live))), 2 if quick else 8):
                hist = {"kind": "cleanup-kill", "order": order, "after_ops": k, "of": len(seq), "removed": [op_str(o) for o in seq[:k]],
                        "next": op_str(seq[k]) if k < len(seq) else None}
                jobs.append((q, hist, lab.pool.submit(run_state, lab, q, seq[:k])))
        for q, hist, fut in jobs:
            st = fut.result()
            if "infeasible" in st:
                ctx.skip("cleanup:infeasible-order")
            elif "unmodelled" in st:
                ctx.skip("cleanup:unmodelled-file")
            elif "error" in st:
                _harness_problem(ctx, q["case"], st["error"])
            else:
                try:
                    judge(ctx, q, hist, st)
                except Exception as e:  # noqa: BLE001
                    _harness_problem(ctx, q["case"], f"judge: {type(e).__name__}: {e} {traceback.format_exc()[-300:]}")
    finally:
        for q in preps:
            lab.cleanup(q["S"])


def replay(ctx, lab, rec):
    """Re-create a recorded cleanup-kill state (old folder, the recorded removal operations, resume) and print both sides;
    also prints the removal sequence a fresh trace of the current tree gives."""
    case = {"desc": rec["desc"], "desc_old": rec.get("desc_old") or rec["desc"], "storage": rec["storage"], "old": dict(rec.get("old") or {"state": "complete"})}
    if case["old"]["state"] == "crashed":
        case["old"]["u"] = (case["old"]["after_events"] - 1) / max(1, case["old"]["of"]) + 1e-9
    q = prepare(lab, case)
    try:
        if "error" in q or "skip" in q:
            print("cannot re-create the old folder:", q.get("error") or q.get("skip"))
            return
        hist = next(h for h in rec["history"] if h.get("kind") == "cleanup-kill")
        ops = [o.split(" ") for o in hist["removed"]]
        print("old request     :", json.dumps(case["desc_old"]["inputs"])[:300])
        print("new request     :", json.dumps(case["desc"]["inputs"])[:300], "(same)" if case["desc"]["inputs"] == case["desc_old"]["inputs"] else "(different)")
        print("old folder      :", case["old"], sorted(q["old_files"]))
        print("traced removal  :", [op_str(o) for o in q["ops"]])
        print("performed before the kill:", hist["removed"])
        st = run_state(lab, q, ops)
        if "fs" not in st:
            print("state not reproducible:", st)
            return
        print("folder at resume:", json.dumps(st["fs"])[:1500])
        print("implementation  :", json.dumps(st["impl"])[:800], "\ncalls:", st["calls"], "\nfolder changed:", st["touched"])
        print("uninterrupted   :", json.dumps({"ok": {"outputs": q["ref_outputs"]}})[:800])
        print("previous request:", json.dumps(q.get("old_outputs"))[:800])
        if "ok" in st["impl"]:
            print("verdict         :", "equal to the uninterrupted outputs" if st["impl"]["ok"]["outputs"] == q["ref_outputs"] else "DIFFERENT from the uninterrupted outputs"
                  + (" (= the outputs of the previous request)" if st["impl"]["ok"]["outputs"] == q.get("old_outputs") else ""))
    finally:
        lab.cleanup(q["S"])
