import PfModel.Lemmas.ResumeKey
import PfModel.Lemmas.ResumeKeySort
/-!
C05, key <-> linear index on the resume path (`Model/ResumeKey.lean`).

`PF.ResumeFS` identifies a stored element with its linear index.  The storages identify it with a tuple key
(`DictArray`) or with the file number computed from the tuple key (`FileArray`); a resumed run asks by linear index
(`mask_linear`, `get_from_index`).  These theorems say that the two identifications agree for EVERY shape and EVERY
pattern of stored/missing elements (any subset, dumped in any order): an element stored by a run is read back by the
resumed run with its own value, a missing element is seen as missing, and distinct elements never share a file.
-/
namespace PF.C05
open PF PF.Map PF.ResumeKey

/-- (a) `get_from_index(li)` on the dict a run left behind is the value dumped for `li` itself, and `KeyError` (`none`)
    exactly for the elements that were not dumped: any shape, any subset, any dump order. -/
theorem C05_key_get_store (shape : List Nat) (cells : List (Nat × Val)) (li : Nat)
    (hd : (cells.map Prod.fst).Nodup) (hb : ∀ c ∈ cells, c.1 < prod shape) (hli : li < prod shape) :
    kGetFromIndex shape (kStore shape cells) li = cellLookup cells li :=
  kGet_kStore shape cells li hd hb hli

example : kGetFromIndex [2, 3] (kStore [2, 3] [(4, .int 40), (1, .int 10)]) 4 = some (.int 40) :=
  C05_key_get_store [2, 3] [(4, .int 40), (1, .int 10)] 4 (by decide) (by simp [prod]) (by decide)

/-- `has_index` is `get_from_index` not raising, and on a stored dict it is "li was dumped" -/
theorem C05_key_has_store (shape : List Nat) (cells : List (Nat × Val)) (li : Nat)
    (hd : (cells.map Prod.fst).Nodup) (hb : ∀ c ∈ cells, c.1 < prod shape) (hli : li < prod shape) :
    kHasIndex shape (kStore shape cells) li = (cellLookup cells li).isSome := by
  have h := kGet_kStore shape cells li hd hb hli
  unfold kGetFromIndex at h
  unfold kHasIndex; rw [h]

example : kHasIndex [2, 3] (kStore [2, 3] [(4, .int 40), (1, .int 10)]) 3 = false :=
  by rw [C05_key_has_store [2, 3] _ 3 (by decide) (by simp [prod]) (by decide)]; rfl

/-- `mask_linear` (computed through `mask[key] = False`, i.e. through `ravel`) agrees with `has_index` (computed through
    `unravel_index`) on every dict whose keys are in range -/
theorem C05_key_mask_has (shape : List Nat) (d : KDict) (hdk : ∀ p ∈ d, InRange shape p.1) :
    kMaskLinear shape d = (List.range (prod shape)).map fun li => !kHasIndex shape d li := by
  unfold kMaskLinear
  apply map_range_congr
  intro li hli
  rw [any_ravel_eq shape d li hli hdk]

example : kMaskLinear [2, 2] [([1, 0], .int 1)] = [true, true, false, true] := by decide

/-- (b) `mask_linear` of the dict a run left behind marks exactly the elements that were not dumped -/
theorem C05_key_mask (shape : List Nat) (cells : List (Nat × Val))
    (hd : (cells.map Prod.fst).Nodup) (hb : ∀ c ∈ cells, c.1 < prod shape) :
    kMaskLinear shape (kStore shape cells) = (List.range (prod shape)).map fun li => (cellLookup cells li).isNone := by
  rw [C05_key_mask_has shape _ (keys_kStore shape cells hb)]
  apply map_range_congr
  intro li hli
  rw [C05_key_has_store shape cells li hd hb hli]
  cases cellLookup cells li <;> rfl

example : kMaskLinear [2, 3] (kStore [2, 3] [(4, .int 40), (1, .int 10)]) = [true, false, true, true, false, true] := by
  rw [C05_key_mask [2, 3] _ (by decide) (by simp [prod])]; rfl

/-- (c) an element dumped under the key of `li` lands in file `__<li>__.pickle`, the file `get_from_index(li)` loads -/
theorem C05_key_file (shape : List Nat) (li : Nat) (hli : li < prod shape) :
    fileOfKey shape (shapeToKey shape li) = li :=
  (ravel_key shape li hli).1

example : fileOfKey [2, 3] (shapeToKey [2, 3] 4) = 4 := C05_key_file [2, 3] 4 (by decide)

/-- (c) distinct in-range keys never share a file, and every file number is below the size -/
theorem C05_key_file_inj (shape k k' : List Nat) (h : InRange shape k) (h' : InRange shape k')
    (e : fileOfKey shape k = fileOfKey shape k') : k = k' :=
  ravel_inj shape k k' h h' e

example : InRange [2, 3] [1, 2] ∧ InRange [2, 3] [0, 1] := by simp [InRange]

theorem C05_key_file_lt (shape k : List Nat) (h : InRange shape k) : fileOfKey shape k < prod shape :=
  ravel_lt shape k h

example : InRange [2, 3] [1, 2] := by simp [InRange]

/-- (c) the files a `FileArray` run leaves behind are the linear-index cells of `PF.ResumeFS` -/
theorem C05_key_file_store (shape : List Nat) (cells : List (Nat × Val)) (hb : ∀ c ∈ cells, c.1 < prod shape) :
    fStore shape cells = cells := by
  unfold fStore
  induction cells with
  | nil => rfl
  | cons c r ih =>
    simp only [List.map_cons]
    rw [ih (fun c hc => hb c (List.mem_cons_of_mem _ hc)), C05_key_file shape c.1 (hb c List.mem_cons_self)]

example : fStore [2, 3] [(4, .int 40), (1, .int 10)] = [(4, .int 40), (1, .int 10)] :=
  C05_key_file_store [2, 3] _ (by simp [prod])

/-- (d) what the resumed run loads from the dict: exactly the dumped elements, each under its own index … -/
theorem C05_key_load_roundtrip (shape : List Nat) (cells : List (Nat × Val))
    (hd : (cells.map Prod.fst).Nodup) (hb : ∀ c ∈ cells, c.1 < prod shape) (li : Nat) :
    cellLookup (kLoadCells shape (kStore shape cells)) li = cellLookup cells li := by
  unfold kLoadCells
  rw [cellLookup_filterMap_range]
  by_cases h : li < prod shape
  · rw [if_pos h]; exact kGet_kStore shape cells li hd hb h
  · rw [if_neg h]
    cases hc : cellLookup cells li with
    | none => rfl
    | some v =>
      exfalso
      have hm := cellLookup_isSome_mem cells li (by rw [hc]; rfl)
      obtain ⟨c, hc1, hc2⟩ := List.mem_map.mp hm
      have := hb c hc1
      omega

example : cellLookup (kLoadCells [2, 3] (kStore [2, 3] [(4, .int 40), (1, .int 10)])) 4 = some (.int 40) := by
  rw [C05_key_load_roundtrip [2, 3] _ (by decide) (by simp [prod])]; rfl

/-- (d) … in ascending index order (so it IS `cells` sorted by index), … -/
theorem C05_key_load_sorted (shape : List Nat) (d : KDict) :
    ((kLoadCells shape d).map Prod.fst).Pairwise (· < ·) :=
  fst_filterMap_range (prod shape) (kGetFromIndex shape d)

/-- (d) … explicitly: the table of `cellLookup cells` over `0 … size-1` -/
theorem C05_key_load_eq (shape : List Nat) (cells : List (Nat × Val))
    (hd : (cells.map Prod.fst).Nodup) (hb : ∀ c ∈ cells, c.1 < prod shape) :
    kLoadCells shape (kStore shape cells)
      = (List.range (prod shape)).filterMap fun li => (cellLookup cells li).map fun v => (li, v) := by
  unfold kLoadCells
  apply filterMap_range_congr
  intro li hli
  rw [kGet_kStore shape cells li hd hb hli]

example : (kLoadCells [2, 3] (kStore [2, 3] [(4, .int 40), (1, .int 10)])).map Prod.fst = [1, 4] := by
  rw [C05_key_load_eq [2, 3] _ (by decide) (by simp [prod])]; decide

/-- (e) for a COMPLETE persisted dict (keys distinct and in range, every element present) the values in lexicographic key
    order -- `[obj[k] for k in sorted(obj)]`, the harness glue `c05_crashfs.decode` -- are the values by linear index:
    position `li` of the decoded tuple is `get_from_index(li)`. -/
theorem C05_key_sorted_complete (shape : List Nat) (d : KDict)
    (hu : (d.map Prod.fst).Nodup) (hr : ∀ p ∈ d, InRange shape p.1)
    (hc : ∀ li, li < prod shape → kHasIndex shape d li = true) :
    (sortedValues d).map some = (List.range (prod shape)).map (kGetFromIndex shape d) :=
  sortedValues_complete shape d hu hr hc

example : (sortedValues exDict).map some = (List.range (prod [2, 3])).map (kGetFromIndex [2, 3] exDict) := by
  apply C05_key_sorted_complete
  · decide
  · simp [exDict, InRange]
  · intro li h
    have : li = 0 ∨ li = 1 ∨ li = 2 ∨ li = 3 ∨ li = 4 ∨ li = 5 := by simp [prod] at h; omega
    rcases this with h | h | h | h | h | h <;> subst h <;> decide

/-- (e) the sort itself: `sorted` only permutes, and on in-range distinct keys the result is strictly `tuple.__lt__`-ascending -/
theorem C05_key_sort_perm (d : KDict) : (kSort d).Perm d := kSort_perm d

/-- (e) on in-range keys Python's tuple order IS the order of linear indices -/
theorem C05_key_lex_ravel (shape a b : List Nat) (ha : InRange shape a) (hb : InRange shape b) :
    lexLt a b = true ↔ ravel shape a < ravel shape b :=
  lexLt_iff_ravel_lt shape a b ha hb

example : InRange [2, 3] [0, 2] ∧ InRange [2, 3] [1, 0] ∧ lexLt [0, 2] [1, 0] = true := by simp [InRange, lexLt]

/-- (f) the column-major unravel of seeded change `C05-s4-B`: on shape `[2, 3]` with elements 1 and 3 stored, the resumed
    run asking for element 1 gets element 3's value (and the row-major model gets element 1's). -/
theorem C05_key_colmajor_wrong :
    let d := kStore [2, 3] [(1, .int 10), (3, .int 30)]
    ((kGetFromIndexF [2, 3] d 1).map fun v => match v with | .int n => n | _ => 0) = some 30
    ∧ ((kGetFromIndex [2, 3] d 1).map fun v => match v with | .int n => n | _ => 0) = some 10
    ∧ unravelF [2, 3] 1 = [1, 0] ∧ shapeToKey [2, 3] 1 = [0, 1] := by decide

end PF.C05
