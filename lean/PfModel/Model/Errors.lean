/-
Model of user-function failures (C13), on top of `PF.Pipe` (calling a pipeline) and `PF.Map` (`Pipeline.map`).

A user function is uninterpreted; whether an invocation raises is decided by a *failure oracle*
`fails : function name → keyword arguments (the wrapped function's own names) → Option Exn`.

Mirrored code:
* `handle_error` (`pipefunc/_utils.py:83-92`): adds one note naming the function and the keyword arguments it was handed
  (pipeline-level names), re-raises the *same* exception object → `handleError`.
* `PipeFunc.__call__` (`pipefunc/_pipefunc.py:659-667`): `self.error_snapshot = ErrorSnapshot(self.func, e, args, kwargs)` with the
  kwargs already renamed back to the wrapped function's own names → `Snapshot`; `ErrorSnapshot.reproduce/save_to_file/load_from_file`
  (`:1221-1289`) → `reproduce`, `save`, `load`; `Pipeline.error_snapshot` (`_pipeline/_base.py:1605-1615`) → `pipelineSnapshot`.
* `_execute_func` (`_pipeline/_base.py:2015-2023`) inside `Pipeline._run` → `Call.runE`.
* `_run_iteration` / `_execute_single` (`map/_run.py:459-472, 777-799`), `_submit_generation`, `_process_generation`,
  `_process_task` with `[_result(x) for x in r]` (`:960-1001`), `_maybe_executor` (`:600-608`), the generation loop of `run_map`
  (`:147-160`) → `seqGen`, `poolGen`, `runGensE`, `runMapE`.
Core Lean only.
-/
import PfModel.Model.Pipeline
import PfModel.Model.MapRun
namespace PF.Errors
open PF

/-- a raised exception: its class and `e.args` -/
structure Exn where
  cls : String
  args : List Val
  deriving Repr, Inhabited

/-- the failure oracle: does invoking the wrapped function `name(**kwargs)` raise, and what -/
abbrev Oracle := String → List (String × Val) → Option Exn

/-- the oracle of a run in which no user function raises -/
def never : Oracle := fun _ _ => none

/-- `ErrorSnapshot`: the wrapped function, the exception and the keyword arguments (`args` is always `()`) -/
structure Snapshot where
  fname : String
  exn : Exn
  kwargs : List (String × Val)
  deriving Repr, Inhabited

/-- what reaches the caller: the exception itself (type and args untouched), the note `handle_error` added, and the snapshot
    `PipeFunc.__call__` stored on the failing function -/
structure Raised where
  exn : Exn
  noteFunc : String                       -- the function named in the note
  noteKw : List (String × Val)            -- the keyword arguments printed in the note (pipeline-level names)
  snap : Snapshot
  deriving Repr, Inhabited

/-- `ErrorSnapshot.reproduce`: call the wrapped function again with the stored keyword arguments -/
def reproduce (fails : Oracle) (s : Snapshot) : Except Exn Unit :=
  match fails s.fname s.kwargs with
  | some x => .error x
  | none => .ok ()

/-- `save_to_file` / `load_from_file`: cloudpickle is trusted to round-trip (assumption, checked by the harness) -/
def save (s : Snapshot) : Snapshot := s
def load (s : Snapshot) : Snapshot := s

/-- the keyword arguments as the pipeline names them: `params` pairs (pipeline-level name, own name) in the order of `args` -/
def noteKwOf (params : List (String × String)) (args : List (String × Val)) : List (String × Val) :=
  (params.map (·.1)).zip (args.map (·.2))

/-- `PipeFunc.__call__`'s `except` (snapshot) followed by `handle_error` (note, re-raise): `args` are keyed by the wrapped
    function's own parameter names, as the model's call sites produce them -/
def handleError (fname : String) (params : List (String × String)) (args : List (String × Val)) (x : Exn) : Raised :=
  { exn := x, noteFunc := fname, noteKw := noteKwOf params args, snap := { fname := fname, exn := x, kwargs := args } }

/-! ## calling a pipeline (`pipeline(...)`, `Pipeline.run`) -/
namespace Call
open PF.Pipe

/-- one logged invocation: function name and the keyword arguments it received -/
abbrev Inv := String × List (String × Val)

structure St where
  memo : List (String × Val)
  calls : List Inv               -- every invocation of a user function, oldest first (a raising one included)
  used : List String
  deriving Repr

/-- forget the arguments of the call log -/
def St.toP (s : St) : Pipe.St := { memo := s.memo, calls := s.calls.map (·.1), used := s.used }

inductive Stop
  | model (e : Pipe.Err)         -- the pipeline itself refuses (missing argument, unknown output, …)
  | user (r : Raised)            -- a user function raised
  deriving Repr

/-- a result together with the state reached: the state survives an exception (the call log is observable) -/
inductive Out (α : Type)
  | ok (a : α) (s : St)
  | stop (e : Stop) (s : St)

/-- `_get_func_args` with failures of the recursive evaluation propagated unchanged (no `try` on that path) -/
def argsE (rec : String → St → Out Val) (fs : List Func) (kw : List (String × Val)) (f : Func) :
    List (String × String) → St → Out (List (String × Val))
  | [], s => .ok [] s
  | (p, orig) :: ps, s =>
    match resolve fs kw f p with
    | .missing => .stop (.model (.missing p)) s
    | .val v =>
      match argsE rec fs kw f ps { s with used := s.used ++ [p] } with
      | .stop e s2 => .stop e s2
      | .ok rest s2 => .ok ((orig, v) :: rest) s2
    | .upstream =>
      match rec p s with
      | .stop e s1 => .stop e s1
      | .ok v s1 =>
        match argsE rec fs kw f ps { s1 with used := s1.used ++ [p] } with
        | .stop e s2 => .stop e s2
        | .ok rest s2 => .ok ((orig, v) :: rest) s2

/-- `_execute_func`: invoke; on an exception `handle_error(e, func, func_args)` and re-raise -/
def execE (fails : Oracle) (f : Func) (args : List (String × Val)) (s : St) : Out Unit :=
  let s1 : St := { s with calls := s.calls ++ [(f.name, args)] }
  match fails f.name args with
  | some x => .stop (.user (handleError f.name f.params args x)) s1
  | none => .ok () s1

/-- `Pipeline._run` with a failing user function -/
def runE (fails : Oracle) (fs : List Func) (kw : List (String × Val)) : Nat → String → St → Out Val
  | 0, _, s => .stop (.model .fuel) s
  | n+1, o, s =>
    match alookup s.memo o with
    | some v => .ok v s
    | none =>
      match producer fs o with
      | none => .stop (.model (.noFunc o)) s
      | some f =>
        match argsE (runE fails fs kw n) fs kw f f.params s with
        | .stop e s' => .stop e s'
        | .ok args s' =>
          match execE fails f args s' with
          | .stop e s1 => .stop e s1
          | .ok _ s1 =>
            let s'' : St := { s1 with memo := outVals f args ++ s1.memo }
            match alookup (outVals f args) o with
            | some v => .ok v s''
            | none => .stop (.model (.noFunc o)) s''

inductive Result
  | value (o : Pipe.Outcome)
  | refused (e : Pipe.Err)
  | raised (r : Raised) (calls : List Inv)
  deriving Repr

/-- `Pipeline.run(output_name, kwargs=kw)` with a failing user function -/
def runTopE (fails : Oracle) (fs : List Func) (kw : List (String × Val)) (req : Req) : Result :=
  let s0 : St := { memo := kw, calls := [], used := [] }
  let finish (v : Val) (s : St) : Result :=
    let unused := (akeys kw).filter (fun k => !(s.used.contains k))
    if unused.isEmpty then .value { value := v, full := s.memo, calls := s.calls.map (·.1) } else .refused (.unused unused)
  let stop (e : Stop) (s : St) : Result :=
    match e with
    | .model e => .refused e
    | .user r => .raised r s.calls
  match req with
  | .name o =>
    if (alookup kw o).isSome then .refused .outputInKwargs else
    match runE fails fs kw (fuelFor fs) o s0 with
    | .stop e s => stop e s
    | .ok v s => finish v s
  | .whole os =>
    match fs.find? (fun f => f.outputs = os) with
    | none => .refused (.noFunc (",".intercalate os))
    | some f =>
      match argsE (runE fails fs kw (fuelFor fs)) fs kw f f.params s0 with
      | .stop e s => stop e s
      | .ok args s =>
        match execE fails f args s with
        | .stop e s1 => stop e s1
        | .ok _ s1 => finish (result f args) s1

/-- the failure-free answer in the same result type -/
def ofExcept : Except Pipe.Err Pipe.Outcome → Result
  | .ok o => .value o
  | .error e => .refused e

end Call

/-! ## `Pipeline.map` -/
open PF.Map

/-- one submitted invocation: the function and the call (own-name keyword arguments) -/
structure Task where
  f : MFunc
  c : Call
  deriving Repr

/-- the invocations of one function in submission order (row-major external index; one for an un-mapped function) -/
def tasksOf (f : MFunc) (r : FuncResult) : List Task := r.calls.map fun c => { f := f, c := c }

def failOf (fails : Oracle) (t : Task) : Option Exn := fails t.f.name t.c.args

/-- `_run_iteration` / `_execute_single`: `except Exception as e: handle_error(e, func, selected)` -/
def raisedOf (t : Task) (x : Exn) : Raised := handleError t.f.name t.f.params t.c.args x

/-- the first failing task of a list, in list (= submission) order -/
def firstFail (fails : Oracle) : List Task → Option (Task × Exn)
  | [] => none
  | t :: ts =>
    match failOf fails t with
    | some x => some (t, x)
    | none => firstFail fails ts

/-- in-line execution: the tasks that run until — and including — the first failing one -/
def upToFail (fails : Oracle) : List Task → List Task
  | [] => []
  | t :: ts =>
    match failOf fails t with
    | some _ => [t]
    | none => t :: upToFail fails ts

/-- keep only the cells whose external linear index satisfies `p`; a whole-value slot is kept only when `single` -/
def keepSlot (p : Nat → Bool) (single : Bool) : Slot → Option Slot
  | .single v => if single then some (.single v) else none
  | .array sh mk cells => some (.array sh mk (cells.filter fun c => p c.1))

def keepSlots (p : Nat → Bool) (single : Bool) (slots : List (String × Slot)) : List (String × Slot) :=
  slots.filterMap fun (o, s) => (keepSlot p single s).map fun s' => (o, s')

inductive GenOut
  | ok (rs : List FuncResult) (log : List Task)
  | refused (e : Map.Err)
  | raised (r : Raised) (log : List Task) (slots : List (String × Slot))
  | hang (log : List Task)

/-- **Sequential generation** (`parallel=False`): `_submit_generation` runs every invocation in line, so the first raising
    invocation aborts the generation; `_process_generation` (where whole-value outputs are dumped) is never reached.
    Slots afterwards (file-based storage, `dump_in_subprocess`): mapped functions before the failing one are complete, the
    failing function holds the cells of the indices before the failing one. -/
def seqGen (fails : Oracle) (R : Env → MFunc → M FuncResult) (env : Env) : List MFunc → GenOut
  | [] => .ok [] []
  | f :: rest =>
    match R env f with
    | .error e => .refused e
    | .ok r =>
      let ts := tasksOf f r
      match firstFail fails ts with
      | some (t, x) =>
        let k := (upToFail fails ts).length - 1
        .raised (raisedOf t x) (upToFail fails ts) (keepSlots (fun li => li < k) false r.slots)
      | none =>
        match seqGen fails R env rest with
        | .ok rs log => .ok (r :: rs) (ts ++ log)
        | .refused e => .refused e
        | .raised rr log sl => .raised rr (ts ++ log) (keepSlots (fun _ => true) false r.slots ++ sl)
        | .hang log => .hang (ts ++ log)

/-- the futures of a generation: position in submission order ↦ not run yet / finished (with its exception, if it raised) -/
abbrev Futs := Nat → Option (Option Exn)

def setFut (a : Futs) (i : Nat) (v : Option Exn) : Futs := fun j => if j = i then some v else a j

/-- the pool runs submitted tasks in the order `σ` (positions in submission order; positions out of range are ignored) -/
def execAll (fails : Oracle) (tasks : List Task) : List Nat → Futs → Futs
  | [], a => a
  | i :: σ, a =>
    match tasks[i]? with
    | some t => execAll fails tasks σ (setFut a i (failOf fails t))
    | none => execAll fails tasks σ a

inductive Await
  | allDone
  | raised (t : Task) (x : Exn)
  | hang

/-- `outputs_list = [_result(x) for x in r]`: `Future.result()` in submission order; the first one that raises ends the wait;
    a future that never finishes blocks for ever -/
def awaitAll (futs : Futs) : List Task → Nat → Await
  | [], _ => .allDone
  | t :: ts, i =>
    match futs i with
    | none => .hang
    | some (some x) => .raised t x
    | some none => awaitAll futs ts (i + 1)

inductive Proc
  | ok
  | raised (r : Raised) (slots : List (String × Slot))
  | hang

/-- what the storage holds of a function whose tasks ran in the pool but which was not post-processed: the cells of the
    tasks that finished without raising (written by the worker itself) -/
def workerSlots (futs : Futs) (off : Nat) (r : FuncResult) : List (String × Slot) :=
  keepSlots (fun li => match futs (off + li) with | some none => true | _ => false) false r.slots

/-- `_process_generation`: functions in generation order, each waiting for its own futures (`_process_task`); a function
    that was processed is completely stored -/
def procGen (futs : Futs) : List (MFunc × FuncResult) → Nat → Proc
  | [], _ => .ok
  | (f, r) :: rest, off =>
    match awaitAll futs (tasksOf f r) off with
    | .hang => .hang
    | .raised t x =>
      .raised (raisedOf t x) (workerSlots futs off r ++ (restSlots rest (off + r.calls.length)))
    | .allDone =>
      match procGen futs rest (off + r.calls.length) with
      | .ok => .ok
      | .hang => .hang
      | .raised rr sl => .raised rr (r.slots ++ sl)
where
  restSlots : List (MFunc × FuncResult) → Nat → List (String × Slot)
    | [], _ => []
    | (_, r) :: rest, off => workerSlots futs off r ++ restSlots rest (off + r.calls.length)

/-- all tasks of a generation in submission order -/
def genTasks (frs : List (MFunc × FuncResult)) : List Task := frs.flatMap fun fr => tasksOf fr.1 fr.2

/-- **Generation in an executor**: `_submit_generation` submits every invocation of every function, the pool runs them in
    the order `σ`, `_process_generation` collects the results in submission order -/
def poolGen (fails : Oracle) (σ : List Nat) (R : Env → MFunc → M FuncResult) (env : Env) (gen : List MFunc) : GenOut :=
  match runGenWith R env gen with
  | .error e => .refused e
  | .ok rs =>
    let frs := gen.zip rs
    let tasks := genTasks frs
    let futs := execAll fails tasks σ (fun _ => none)
    let log := σ.filterMap fun i => tasks[i]?
    match procGen futs frs 0 with
    | .ok => .ok rs log
    | .hang => .hang log
    | .raised r sl => .raised r log sl

inductive Mode | seq | pool
  deriving Repr, DecidableEq

def genE (mode : Mode) (fails : Oracle) (σ : List Nat) (R : Env → MFunc → M FuncResult) (env : Env) (gen : List MFunc) : GenOut :=
  match mode with
  | .seq => seqGen fails R env gen
  | .pool => poolGen fails σ R env gen

inductive RunOut
  | ok (rs : List FuncResult) (env : Env) (log : List Task)
  | refused (e : Map.Err)
  | raised (g : Nat) (r : Raised) (log : List Task) (store : List (String × Slot))
  | hang (g : Nat) (log : List Task)

/-- the generation loop of `run_map`: an exception leaves the `for gen in …` loop (and the executor's `with` block), so no
    later generation is submitted; `sched g` is the order in which the pool runs the tasks of generation `g` -/
def runGensE (mode : Mode) (fails : Oracle) (sched : Nat → List Nat) (R : Env → MFunc → M FuncResult) :
    List (List MFunc) → Env → Nat → RunOut
  | [], env, _ => .ok [] env []
  | gen :: rest, env, g =>
    match genE mode fails (sched g) R env gen with
    | .refused e => .refused e
    | .hang log => .hang g log
    | .raised r log slots => .raised g r log (env.store ++ slots)
    | .ok rs log =>
      match runGensE mode fails sched R rest { env with store := env.store ++ rs.flatMap (·.slots) } (g + 1) with
      | .ok more envF log' => .ok (rs ++ more) envF (log ++ log')
      | .refused e => .refused e
      | .raised g' r log' st => .raised g' r (log ++ log') st
      | .hang g' log' => .hang g' (log ++ log')

/-- **Specification**: which exception a run raises — the first failing invocation, in submission order, of the first
    generation that has one.  No schedule, no call log, no store of a partial generation. -/
def specGens (fails : Oracle) (R : Env → MFunc → M FuncResult) : List (List MFunc) → Env → Nat → M (Option (Nat × Raised))
  | [], _, _ => pure none
  | gen :: rest, env, g =>
    match runGenWith R env gen with
    | .error e => .error e
    | .ok rs =>
      match firstFail fails (genTasks (gen.zip rs)) with
      | some (t, x) => pure (some (g, raisedOf t x))
      | none => specGens fails R rest { env with store := env.store ++ rs.flatMap (·.slots) } (g + 1)

inductive Outcome
  | done (r : MapResult)
  | refused (e : Map.Err)
  | raised (g : Nat) (r : Raised) (log : List Task) (stored : List (String × Val))
  | hang (g : Nat) (log : List Task)

/-- `run_map` with a failing user function -/
def runMapE (mode : Mode) (fails : Oracle) (sched : Nat → List Nat) (fs : List MFunc) (inputs : List (String × Val))
    (userInternal : List (String × List Nat)) : Outcome :=
  match validateInputs fs inputs with
  | .error e => .refused e
  | .ok _ =>
    if (generations fs).flatten.length ≠ fs.length then .refused (.value "cyclic pipeline") else
    match mapShapes fs inputs (constructInternal fs userInternal) with
    | .error e => .refused e
    | .ok (shapes, masks) =>
      match runGensE mode fails sched (runFuncWith opArray fs shapes masks) (generations fs) { inputs := inputs, store := [] } 0 with
      | .refused e => .refused e
      | .hang g log => .hang g log
      | .raised g r log st => .raised g r log (st.map fun (o, s) => (o, s.toVal))
      | .ok rs env log =>
        .done { outputs := rs.flatMap (·.outputs), stored := env.store.map fun (o, s) => (o, s.toVal), shapes := shapes, masks := masks,
                calls := log.map (·.c), gens := (generations fs).map fun g => g.map (·.name) }

def Outcome.ofExcept : M MapResult → Outcome
  | .ok r => .done r
  | .error e => .refused e

/-- `PipeFunc.error_snapshot` after a run: the last raising invocation of that function, in execution order -/
def funcSnapshot (fails : Oracle) (fname : String) (log : List Task) : Option Snapshot :=
  log.foldl (fun acc t =>
    if t.f.name = fname then
      match failOf fails t with
      | some x => some { fname := fname, exn := x, kwargs := t.c.args }
      | none => acc
    else acc) none

/-- `Pipeline.error_snapshot` (`_pipeline/_base.py:1605-1615`, after the fix "most recent failure"): the snapshot of the last
    raising invocation in execution order -/
def pipelineSnapshot (fails : Oracle) (log : List Task) : Option Snapshot :=
  log.reverse.findSome? fun t => (failOf fails t).map fun x => { fname := t.f.name, exn := x, kwargs := t.c.args }

/-- the same for a call log of `pipeline(...)` -/
def Call.pipelineSnapshot (fails : Oracle) (calls : List Call.Inv) : Option Snapshot :=
  calls.reverse.findSome? fun c => (fails c.1 c.2).map fun x => { fname := c.1, exn := x, kwargs := c.2 }

end PF.Errors
