import PfModel.Props.C11Ext
import PfModel.Model.SubPipeDecide
import PfModel.Lemmas.ValidateNarrow
import PfModel.Lemmas.MapRefusal
/-!
C11, round 3: **`Computable`** — "S is computable from I" in the user's terms, over the FULL pipeline — and what the model of
`subpipeline` lacks otherwise (`Lacking`).  The bridge to the model's own root-argument test (`MissingRoot`, stated over the
partial pipeline) is `missingRoot_iff_lacking`.  Nothing here is executed by the driver except `lackingB`/`computableB`, the
decidable mirror the harness compares with its independent Python reference.
-/
namespace PF.Sub
open PF PF.C11

section generic
variable {α : Type} (nd : α → Node)

/-- `f` is a needed function: it sits at a position reachable from the producers of `S` over edges not cut by `inp` -/
def NeededFn (fs : List α) (inp S : List String) (f : α) : Prop :=
  ∃ j, NeededFor nd fs (some inp) S j ∧ fs[j]? = some f

/-- **what the request lacks**: a non-bound parameter of a needed function that is not provided, that no function of the
    pipeline produces, and that no needed function gives a default -/
def Lacking (fs : List α) (inp S : List String) (p : String) : Prop :=
  (∃ f, NeededFn nd fs inp S f ∧ p ∈ (nd f).deps) ∧ p ∉ inp ∧ (∀ g ∈ fs, p ∉ (nd g).outputs) ∧
  ∀ g, NeededFn nd fs inp S g → p ∉ (nd g).dflt

/-- **S is computable from I** (user terms): every requested name is an output of the pipeline, and every non-bound parameter
    of every needed function is provided, or produced by a needed function, or defaulted by a needed function.  (A bound
    parameter is not in `deps`; acyclicity is not needed for the selection, only for the run.) -/
def Computable (fs : List α) (inp S : List String) : Prop :=
  (∀ o ∈ S, ∃ g ∈ fs, o ∈ (nd g).outputs) ∧
  ∀ f, NeededFn nd fs inp S f → ∀ p ∈ (nd f).deps,
    p ∈ inp ∨ (∃ g, NeededFn nd fs inp S g ∧ p ∈ (nd g).outputs) ∨ (∃ g, NeededFn nd fs inp S g ∧ p ∈ (nd g).dflt)

theorem prodIdx_isSome_iff (fs : List α) (o : String) : (prodIdx nd fs o).isSome ↔ ∃ g ∈ fs, o ∈ (nd g).outputs := by
  unfold prodIdx
  rw [List.findIdx?_isSome]
  simp

theorem prodIdx_some_get (fs : List α) (o : String) (i : Nat) (h : prodIdx nd fs o = some i) :
    ∃ g, fs[i]? = some g ∧ o ∈ (nd g).outputs := by
  obtain ⟨hi, hp, _⟩ := List.findIdx?_eq_some_iff_getElem.mp h
  exact ⟨fs[i], by simp [hi], by simpa using hp⟩

/-- the producer of a non-provided parameter of a needed function is needed -/
theorem neededFn_producer (fs : List α) (inp S : List String) (f : α) (hf : NeededFn nd fs inp S f) (p : String)
    (hp : p ∈ (nd f).deps) (hi : p ∉ inp) (i : Nat) (hpi : prodIdx nd fs p = some i) : NeededFor nd fs (some inp) S i := by
  obtain ⟨j, hj, hfj⟩ := hf
  refine Reach.step j i hj ?_
  simp only [predsIdx, hfj, List.mem_filterMap]
  exact ⟨p, hp, by simp [cutOf, hi, hpi]⟩

/-- `Computable` = every requested name has a producer and nothing is lacking -/
theorem computable_iff (fs : List α) (inp S : List String) :
    Computable nd fs inp S ↔ (∀ o ∈ S, (prodIdx nd fs o).isSome) ∧ ∀ p, ¬ Lacking nd fs inp S p := by
  constructor
  · rintro ⟨h1, h2⟩
    refine ⟨fun o ho => (prodIdx_isSome_iff nd fs o).mpr (h1 o ho), ?_⟩
    rintro p ⟨⟨f, hf, hp⟩, hi, hno, hnd⟩
    rcases h2 f hf p hp with h | ⟨g, hg, hpo⟩ | ⟨g, hg, hpd⟩
    · exact hi h
    · obtain ⟨j, _, hgj⟩ := hg
      exact hno g (List.mem_of_getElem? hgj) hpo
    · exact hnd g hg hpd
  · rintro ⟨h1, h2⟩
    refine ⟨fun o ho => (prodIdx_isSome_iff nd fs o).mp (h1 o ho), ?_⟩
    intro f hf p hp
    by_cases hi : p ∈ inp
    · exact Or.inl hi
    · cases hpi : prodIdx nd fs p with
      | some i =>
        obtain ⟨g, hg, hpo⟩ := prodIdx_some_get nd fs p i hpi
        exact Or.inr (Or.inl ⟨g, ⟨i, neededFn_producer nd fs inp S f hf p hp hi i hpi, hg⟩, hpo⟩)
      | none =>
        right; right
        apply Classical.byContradiction
        intro hno
        refine h2 p ⟨⟨f, hf, hp⟩, hi, ?_, fun g hg hd => hno ⟨g, hg, hd⟩⟩
        intro g hg hpo
        have := (prodIdx_isSome_iff nd fs p).mpr ⟨g, hg, hpo⟩
        rw [hpi] at this; cases this

theorem mem_sub_iff (fs : List α) (inp S : List String) (K : List Nat)
    (hK : ∀ j, j ∈ K ↔ NeededFor nd fs (some inp) S j) (f : α) :
    f ∈ keepFrom K 0 fs ↔ NeededFn nd fs inp S f := by
  rw [mem_keepFrom]
  simp only [Nat.zero_add, List.contains_eq_mem, decide_eq_true_eq]
  constructor
  · rintro ⟨j, hj, hf⟩; exact ⟨j, (hK j).mp hj, hf⟩
  · rintro ⟨j, hj, hf⟩; exact ⟨j, (hK j).mpr hj, hf⟩

/-- **the model's root-argument test, read over the full pipeline**: a root argument of the partial pipeline is missing iff
    the request lacks it in the user's sense -/
theorem missingRoot_iff_lacking (fs : List α) (inp S : List String) (K : List Nat)
    (hK : ∀ j, j ∈ K ↔ NeededFor nd fs (some inp) S j) (r : String) :
    MissingRoot nd (keepFrom K 0 fs) inp r ↔ Lacking nd fs inp S r := by
  constructor
  · rintro ⟨f, hf, hd, hn, hi, hg⟩
    have hfn := (mem_sub_iff nd fs inp S K hK f).mp hf
    refine ⟨⟨f, hfn, hd⟩, hi, ?_, fun g hgn => hg g ((mem_sub_iff nd fs inp S K hK g).mpr hgn)⟩
    intro g hgm hpo
    obtain ⟨i, hpi⟩ := Option.isSome_iff_exists.mp ((prodIdx_isSome_iff nd fs r).mpr ⟨g, hgm, hpo⟩)
    obtain ⟨g', hg', hpo'⟩ := prodIdx_some_get nd fs r i hpi
    have hin := neededFn_producer nd fs inp S f hfn r hd hi i hpi
    have hsub : g' ∈ keepFrom K 0 fs := (mem_sub_iff nd fs inp S K hK g').mpr ⟨i, hin, hg'⟩
    have := (prodIdx_isSome_iff nd (keepFrom K 0 fs) r).mpr ⟨g', hsub, hpo'⟩
    rw [hn] at this; cases this
  · rintro ⟨⟨f, hfn, hd⟩, hi, hno, hdf⟩
    refine ⟨f, (mem_sub_iff nd fs inp S K hK f).mpr hfn, hd, ?_, hi,
      fun g hg => hdf g ((mem_sub_iff nd fs inp S K hK g).mp hg)⟩
    cases h : prodIdx nd (keepFrom K 0 fs) r with
    | none => rfl
    | some i =>
      obtain ⟨g, hg, hpo⟩ := (prodIdx_isSome_iff nd _ r).mp (by rw [h]; rfl)
      exact absurd hpo (hno g (keepFrom_subset K fs 0 g hg))

/-- a requested name that is no output: `node_mapping[n]` raises for the first such name -/
theorem outNodes_unknown (fs : List α) (I : Option (List String)) : ∀ S : List String,
    ¬ (∀ o ∈ S, (prodIdx nd fs o).isSome) →
    ∃ o ∈ S, prodIdx nd fs o = none ∧ outNodes nd fs I (some S) = .error (.unknown o) := by
  intro S
  simp only [outNodes]
  induction S with
  | nil => intro h; exact absurd (by simp) h
  | cons o S ih =>
    intro h
    cases ho : prodIdx nd fs o with
    | none => exact ⟨o, List.mem_cons_self .., ho, by simp [List.mapM_cons, ho, bind, Except.bind]⟩
    | some i =>
      have hrest : ¬ ∀ o' ∈ S, (prodIdx nd fs o').isSome := by
        intro h'
        apply h
        intro o' ho'
        rcases List.mem_cons.mp ho' with rfl | hm
        · simp [ho]
        · exact h' o' hm
      obtain ⟨o', ho', hn, he⟩ := ih hrest
      exact ⟨o', List.mem_cons_of_mem _ ho', hn, by simp [List.mapM_cons, ho, he, bind, Except.bind, pure, Except.pure]⟩

/-- **Computable ⇒ accepted, keeping exactly the needed functions** -/
theorem computable_accepted (fs : List α) (inp S : List String) (h : Computable nd fs inp S) :
    ∃ sub, subpipeline nd fs (some inp) (some S) = .ok sub ∧ ∀ f, f ∈ sub ↔ NeededFn nd fs inp S f := by
  obtain ⟨hS, hnl⟩ := (computable_iff nd fs inp S).mp h
  obtain ⟨K, hK, hA | ⟨⟨r, hr⟩, _⟩⟩ := C11_reject_total nd fs inp S hS
  · exact ⟨_, hA.2, mem_sub_iff nd fs inp S K hK⟩
  · exact absurd ((missingRoot_iff_lacking nd fs inp S K hK r).mp hr) (hnl r)

/-- **not Computable ⇒ rejected, naming exactly what is lacking** (or the first requested name that is no output) -/
theorem not_computable_rejected (fs : List α) (inp S : List String) (h : ¬ Computable nd fs inp S) :
    (∃ o ∈ S, (∀ g ∈ fs, o ∉ (nd g).outputs) ∧ subpipeline nd fs (some inp) (some S) = .error (.unknown o)) ∨
    ((∀ o ∈ S, ∃ g ∈ fs, o ∈ (nd g).outputs) ∧
      ∃ ms, subpipeline nd fs (some inp) (some S) = .error (.missing ms) ∧ ms ≠ [] ∧ ∀ p, p ∈ ms ↔ Lacking nd fs inp S p) := by
  by_cases hS : ∀ o ∈ S, (prodIdx nd fs o).isSome
  · right
    refine ⟨fun o ho => (prodIdx_isSome_iff nd fs o).mp (hS o ho), ?_⟩
    have hex : ∃ p, Lacking nd fs inp S p := by
      apply Classical.byContradiction
      intro hno
      exact h ((computable_iff nd fs inp S).mpr ⟨hS, fun p hp => hno ⟨p, hp⟩⟩)
    obtain ⟨p, hp⟩ := hex
    obtain ⟨K, hK, hA | ⟨_, ms, hms, hne, hiff⟩⟩ := C11_reject_total nd fs inp S hS
    · exact absurd ((missingRoot_iff_lacking nd fs inp S K hK p).mpr hp) (hA.1 p)
    · exact ⟨ms, hms, hne, fun q => (hiff q).trans (missingRoot_iff_lacking nd fs inp S K hK q)⟩
  · left
    obtain ⟨o, ho, hn, he⟩ := outNodes_unknown nd fs (some inp) S hS
    refine ⟨o, ho, ?_, by simp [subpipeline, he]⟩
    intro g hg hpo
    have := (prodIdx_isSome_iff nd fs o).mpr ⟨g, hg, hpo⟩
    rw [hn] at this; cases this

/-- needed for a subset of the requested names ⇒ needed -/
theorem neededFor_mono (fs : List α) (inp S S' : List String) (hsub : ∀ o ∈ S, o ∈ S') (j : Nat)
    (hj : NeededFor nd fs (some inp) S j) : NeededFor nd fs (some inp) S' j := by
  unfold NeededFor Needed at hj ⊢
  induction hj with
  | base i hi =>
    obtain ⟨o, ho, hoi⟩ := List.mem_filterMap.mp hi
    exact Reach.base i (List.mem_filterMap.mpr ⟨o, hsub o ho, hoi⟩)
  | step i j _ hj ih => exact Reach.step i j ih hj

theorem neededFn_mono (fs : List α) (inp S S' : List String) (hsub : ∀ o ∈ S, o ∈ S') (f : α)
    (h : NeededFn nd fs inp S f) : NeededFn nd fs inp S' f := by
  obtain ⟨j, hj, hf⟩ := h
  exact ⟨j, neededFor_mono nd fs inp S S' hsub j hj, hf⟩

/-- what an accepted request went through -/
theorem subpipeline_ok_inv (fs : List α) (inp S : List String) (sub : List α)
    (h : subpipeline nd fs (some inp) (some S) = .ok sub) :
    ∃ K, reachSet (predsIdx nd fs (cutOf (some inp))) (S.filterMap (prodIdx nd fs))
          (fuelFor nd fs (S.filterMap (prodIdx nd fs)).length) = some K ∧
      (∀ o ∈ S, (prodIdx nd fs o).isSome) ∧ missingRoots nd (keepFrom K 0 fs) inp = [] ∧ sub = keepFrom K 0 fs := by
  unfold subpipeline at h
  simp only [Option.isNone_some, Bool.false_and, Bool.false_eq_true, ↓reduceIte] at h
  split at h
  · cases h
  · next out hout =>
    obtain ⟨hout1, hout2⟩ := outNodes_some nd fs _ S out hout
    split at h
    · cases h
    · next K hK =>
      simp only [checkRoots] at h
      split at h
      · next hempty =>
        cases h
        rw [List.isEmpty_iff] at hempty
        exact ⟨K, by rw [← hout1]; exact hK, hout2, hempty, rfl⟩
      · cases h

/-! ### the decidable mirror (`Model/SubPipeDecide.lean`) -/

theorem neededIdx_iff (fs : List α) (inp S : List String) :
    ∀ j, j ∈ neededIdx nd fs inp S ↔ NeededFor nd fs (some inp) S j := by
  obtain ⟨K, hK⟩ := reachSet_preds_total nd fs (cutOf (some inp)) (S.filterMap (prodIdx nd fs))
    (by intro i hi; obtain ⟨o, _, hoi⟩ := List.mem_filterMap.mp hi; exact prodIdx_lt nd fs o i hoi)
  intro j
  unfold neededIdx
  rw [hK]
  exact reachSet_iff _ _ _ K hK j

theorem mem_neededFns (fs : List α) (inp S : List String) (f : α) :
    f ∈ neededFns nd fs inp S ↔ NeededFn nd fs inp S f :=
  mem_sub_iff nd fs inp S _ (neededIdx_iff nd fs inp S) f

theorem mem_lackingNames (fs : List α) (inp S : List String) (p : String) :
    p ∈ lackingNames nd fs inp S ↔ Lacking nd fs inp S p := by
  unfold lackingNames Lacking
  rw [List.mem_eraseDups]
  simp only [List.mem_flatMap, List.mem_filter, Bool.and_eq_true, Bool.not_eq_true', List.contains_eq_mem,
    decide_eq_false_iff_not, List.any_eq_false, decide_eq_true_eq, mem_neededFns]
  constructor
  · rintro ⟨f, hf, hp, ⟨hi, hno⟩, hd⟩
    exact ⟨⟨f, hf, hp⟩, hi, hno, hd⟩
  · rintro ⟨⟨f, hf, hp⟩, hi, hno, hd⟩
    exact ⟨f, hf, hp, ⟨hi, hno⟩, hd⟩

theorem computableB_iff (fs : List α) (inp S : List String) :
    computableB nd fs inp S = true ↔ Computable nd fs inp S := by
  rw [computable_iff]
  unfold computableB
  rw [Bool.and_eq_true, List.isEmpty_iff, List.isEmpty_iff]
  constructor
  · rintro ⟨h1, h2⟩
    refine ⟨?_, fun p hp => ?_⟩
    · intro o ho
      rw [prodIdx_isSome_iff]
      have : o ∉ unknownOutputs nd fs S := by rw [h1]; simp
      simp only [unknownOutputs, List.mem_filter, ho, true_and, Bool.not_eq_true', List.any_eq_false, List.contains_eq_mem,
        decide_eq_true_eq, Classical.not_forall, Classical.not_not] at this
      obtain ⟨g, hg, hgo⟩ := this
      exact ⟨g, hg, hgo⟩
    · have := (mem_lackingNames nd fs inp S p).mpr hp
      rw [h2] at this; cases this
  · rintro ⟨h1, h2⟩
    refine ⟨?_, ?_⟩
    · apply List.filter_eq_nil_iff.mpr
      intro o ho
      obtain ⟨g, hg, hgo⟩ := (prodIdx_isSome_iff nd fs o).mp (h1 o ho)
      simp only [Bool.not_eq_true', List.any_eq_false, List.contains_eq_mem, decide_eq_true_eq, Classical.not_forall]
      exact ⟨g, hg, fun hn => hn hgo⟩
    · apply List.eq_nil_iff_forall_not_mem.mpr
      intro p hp
      exact h2 p ((mem_lackingNames nd fs inp S p).mp hp)

end generic

/-! ### call pipelines -/
open PF.Pipe

/-- reachable in the sense of C02 (the run's own recursion) ⇒ needed in the sense of C11 -/
theorem reach_neededFn (fs : List Func) (kw : List (String × Val)) (o : String) (f : Func) (h : Pipe.Reach fs kw o f) :
    NeededFn funcNode fs (akeys kw) [o] f := by
  induction h with
  | root hp =>
    obtain ⟨j, hj, hf⟩ := prodIdx_of_producer fs _ _ hp
    exact ⟨j, Reach.base j (by simp [hj]), hf⟩
  | step _ hq hup hg ih =>
    obtain ⟨hb, hk, _⟩ := resolve_upstream_inv fs kw _ _ hup
    obtain ⟨j', hj', hf'⟩ := prodIdx_of_producer fs _ _ hg
    exact ⟨j', neededFn_producer funcNode fs (akeys kw) [o] _ ih _ ((mem_deps _ _).mpr ⟨_, hq, hb⟩)
      ((alookup_none_iff kw _).mp hk) j' hj', hf'⟩

/-- under `Computable`, no parameter of a needed function is left unresolved by the FULL pipeline -/
theorem neededFn_resolved (fs : List Func) (kw : List (String × Val)) (S : List String)
    (hcomp : Computable funcNode fs (akeys kw) S) (f : Func) (hf : NeededFn funcNode fs (akeys kw) S f)
    (p : String × String) (hp : p ∈ f.params) :
    (alookup f.bound p.1).isSome ∨ (alookup kw p.1).isSome ∨ (producer fs p.1).isSome ∨ (pdefault fs p.1).isSome := by
  cases hb : alookup f.bound p.1 with
  | some v => exact Or.inl rfl
  | none =>
    right
    have hd : p.1 ∈ (funcNode f).deps := (mem_deps f p.1).mpr ⟨p.2, hp, hb⟩
    rcases hcomp.2 f hf p.1 hd with h | ⟨g, hg, hpo⟩ | ⟨g, hg, hpd⟩
    · left
      cases hk : alookup kw p.1 with
      | some v => rfl
      | none => exact absurd h ((alookup_none_iff kw p.1).mp hk)
    · right; left
      obtain ⟨j, _, hgj⟩ := hg
      unfold producer
      rw [List.find?_isSome]
      exact ⟨g, List.mem_of_getElem? hgj, by simpa [funcNode] using hpo⟩
    · right
      obtain ⟨j, _, hgj⟩ := hg
      obtain ⟨v, hv, hgb⟩ := (mem_dflt g p.1).mp hpd
      cases hpr : producer fs p.1 with
      | some g' => exact Or.inl rfl
      | none =>
        right
        have hm : (p.1, v) ∈ pdefaults fs :=
          (mem_pdefaults fs p.1 v).mpr ⟨g, List.mem_of_getElem? hgj, hv, by simp [hgb], by simp [hpr]⟩
        obtain ⟨w, hw⟩ := alookup_isSome_of_mem _ p.1 v (List.mem_reverse.mpr hm)
        unfold pdefault
        rw [hw]; rfl

/-- the partial pipeline of a well-formed pipeline is well-formed -/
theorem wfp_keepFrom (fs : List Func) (rank : String → Nat) (hw : WFp fs rank) (K : List Nat) : WFp (keepFrom K 0 fs) rank := by
  have hu : UniqueOut (keepFrom K 0 fs) :=
    fun f hf g hg => hw.uniq f (keepFrom_subset K fs 0 f hf) g (keepFrom_subset K fs 0 g hg)
  refine ⟨fun f hf g hg => hw.names f (keepFrom_subset K fs 0 f hf) g (keepFrom_subset K fs 0 g hg), hu, ?_⟩
  intro f hf p hp g hg hb
  obtain ⟨hgm, hgo⟩ := (producer_some_iff _ hu p.1 g).mp hg
  exact hw.acyc f (keepFrom_subset K fs 0 f hf) p hp g
    ((producer_some_iff fs hw.uniq p.1 g).mpr ⟨keepFrom_subset K fs 0 g hgm, hgo⟩) hb


/-! ### `_validate_complete_inputs` on the partial pipeline -/

/-- with complete inputs, `_validate_complete_inputs` answers by its second test alone: the first over-provided name, if any -/
theorem validateInputs_exact (sub : List Map.MFunc) (inputs : List (String × Val)) (hc : C01.inputsComplete sub inputs = true) :
    Map.validateInputs sub inputs =
      match extras sub inputs with
      | [] => .ok ()
      | m :: _ => .error (.value s!"got extra inputs: {m}") := by
  have hnil : (Map.rootArgs sub).filter (fun r => !(akeys inputs ++ akeys (Map.pdefaults sub)).contains r) = [] := by
    apply List.filter_eq_nil_iff.mpr
    intro p hp
    have := List.all_eq_true.mp hc p hp
    rw [this]; decide
  unfold Map.validateInputs extras
  simp only [hnil, pure, Except.pure]
  split
  · next h => rw [h]
  · next h => rw [h]; rfl

theorem runMapWith_validate_error (arr : Map.MFunc → List Nat → List Bool → (Nat → List (String × Val)) → String → Val)
    (sub : List Map.MFunc) (inputs : List (String × Val)) (ui : List (String × List Nat)) (e : Map.Err)
    (h : Map.validateInputs sub inputs = .error e) : Map.runMapWith arr sub inputs ui = .error e := by
  unfold Map.runMapWith
  simp only [h, bind, Except.bind]

/-- without over-provided names the lenient run IS the run -/
theorem runMapLenient_eq (arr : Map.MFunc → List Nat → List Bool → (Nat → List (String × Val)) → String → Val)
    (sub : List Map.MFunc) (inputs : List (String × Val)) (ui : List (String × List Nat)) (h : extras sub inputs = []) :
    runMapLenient arr sub inputs ui = Map.runMapWith arr sub inputs ui := by
  unfold extras at h
  unfold runMapLenient Map.runMapWith Map.validateInputs
  simp only [h, bind_assoc]
  cases (Map.rootArgs sub).filter (fun r => !((akeys inputs ++ akeys (Map.pdefaults sub)).contains r)) <;> rfl

end PF.Sub
