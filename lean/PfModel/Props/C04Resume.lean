import PfModel.Lemmas.RunInfoResume
import PfModel.Props.C04
/-!
C04, histories — "Shapes, masks, MapSpecs and per-output storage choices recorded in the folder round-trip unchanged" and
"`load_outputs` / `RunInfo.load` yield for every output, input and default exactly the values the run produced or was given"
when the folder already held a run: `map(run_folder=F)` followed by `map(run_folder=F, cleanup=False)` with another storage
configuration and with inputs the resume check accepts (`PF.RIC.createOn`, `runOn`, `history` in Model/RunInfoResume.lean).

The theorems hold for EVERY previous content of the folder and for EVERY tolerance `eqv` of the resume check: what is read back
after an accepted run is the record and the values of that run, never the previous run's.
-/
namespace PF.C04
open PF PF.Map PF.RIC

/-- **The folder records the run that was made last** (storage choices, shapes, masks, MapSpecs, internal shapes, inputs,
    defaults).  For every previous content `fo` of the run folder, every tolerance `eqv` of the `cleanup=False` check, with or
    without clean-up, with or without `persist_memory`: once `RunInfo.create` has accepted the run and the run has written its
    results, `RunInfo.load(F)` is the record of THIS run — in particular the storage configuration the run used (which the
    resume check does not compare) and the inputs it was given (which the check compares only up to `eqv`). -/
theorem C04_resume_records (eqv : Val → Val → Bool) (pm : Bool) (fo fo' : Folder) (x : Run) (hok : NamesOK x.info)
    (h : runOn eqv pm fo x = .ok fo') :
    decode fo' = some { x.info with allOutputNames := sortNames x.info.allOutputNames } := by
  obtain ⟨base, hb⟩ := runOn_ok eqv pm fo fo' x h
  rw [hb]
  exact decode_writeStore_dumpAll pm x.backend x.store base x.info hok

/-- **Reload after a resume.** `C04_reload_partial` for a folder that already held something: whatever files an earlier run left
    (another storage class's files for the same output included), `load_outputs(o)` after an accepted run with
    `persist_memory=True` returns, for every output, what the run's store holds at its end. -/
theorem C04_resume_reload (parse : String → Option MSpec) (eqv : Val → Val → Bool) (fo fo' : Folder) (x : Run)
    (hok : NamesOK x.info) (hn : (akeys x.store).Nodup)
    (hagree : ∀ os ∈ x.store, agreeSlot parse x.info x.backend os.1 os.2 = true)
    (h : runOn eqv true fo x = .ok fo') :
    ∀ os ∈ x.store, loadOutput parse fo' os.1 = some os.2.toVal := by
  intro os hos
  obtain ⟨o, s⟩ := os
  obtain ⟨base, hb⟩ := runOn_ok eqv true fo fo' x h
  have hdec := C04_resume_records eqv true fo fo' x hok h
  have hread := foldl_writeSlot_read x.backend x.store (dumpAll base x.info) hn o s hos
  have hag := hagree (o, s) hos
  simp only [loadOutput, hdec, bind, Option.bind]
  rw [initEntry_names parse x.info _ (mem_sortNames x.info.allOutputNames) o]
  subst hb
  cases s with
  | single v =>
    simp only [agreeSlot, beq_iff_eq] at hag
    simp only [SlotRead] at hread
    simp only [writeStore, hag, hread, Slot.toVal]
  | array sh mk cells =>
    simp only [agreeSlot] at hag
    cases hbk : x.backend o with
    | none => simp [hbk] at hag
    | some b =>
      simp only [hbk, beq_iff_eq] at hag
      simp only [SlotRead] at hread
      have := hread b hbk
      simp only [writeStore, hag, this]
      rfl

/-- **Reload after a resume of a whole run (with `C04_agree`).**  The last run of the folder is a run of `runMap` under its own
    storage configuration `storage` and its own inputs; the folder held anything before.  Then every `load_outputs` value is the
    value that run stored, and `RunInfo.load` records `storage` and `inputs`. -/
theorem C04_resume_reload_run (eqv : Val → Val → Bool) (fo fo' : Folder) (cleanup : Bool) (fs : List MFunc)
    (tupled intForm : List String) (inputs : List (String × Val)) (user : List (String × IShape)) (storage : Storage)
    (version : String) (res : MapResult) (store : List (String × Slot))
    (hrun : runMapStore fs inputs (user.map fun kv => (kv.1, kv.2.dims)) = .ok (res, store))
    (hid : IdentsOK fs) (hin : (akeys inputs).Nodup) (hst : ∀ m, storage = .per m → ∀ kv ∈ m, KeyOK kv.1)
    (hn : (akeys store).Nodup) (H : Recorded (tableParse fs) fs storage)
    (h : runOn eqv true fo { cleanup := cleanup, info := createRunInfo fs tupled intForm inputs user storage version res.shapes res.masks,
                             backend := backendFor fs storage, store := store } = .ok fo') :
    (∀ ov ∈ res.stored, loadOutput (tableParse fs) fo' ov.1 = some ov.2) ∧
    (decode fo').map (·.storage) = some storage ∧ (decode fo').map (·.inputs) = some inputs := by
  have hok := C04_names_ok_of_identifiers fs tupled intForm inputs user storage version res.shapes res.masks hid hin hst
  refine ⟨?_, ?_, ?_⟩
  · intro ov hov
    obtain ⟨_, h2⟩ := runMapStore_spec fs inputs _ res store hrun
    rw [h2] at hov
    obtain ⟨os, hos, e⟩ := List.mem_map.mp hov
    subst e
    exact C04_resume_reload (tableParse fs) eqv fo fo' _ hok hn
      (C04_agree (tableParse fs) fs tupled intForm inputs user storage version res store hrun H) h os hos
  · rw [C04_resume_records eqv true fo fo' _ hok h]; rfl
  · rw [C04_resume_records eqv true fo fo' _ hok h]; rfl

/-- **Histories.** After any accepted sequence of runs into one folder (any clean-up flags, storage configurations and inputs
    along the way), the folder records the LAST run and `load_outputs` yields the LAST run's values. -/
theorem C04_history_last (parse : String → Option MSpec) (eqv : Val → Val → Bool) (fo fo' : Folder) (xs : List Run) (x : Run)
    (hok : NamesOK x.info) (hn : (akeys x.store).Nodup)
    (hagree : ∀ os ∈ x.store, agreeSlot parse x.info x.backend os.1 os.2 = true)
    (h : history eqv true fo (xs ++ [x]) = .ok fo') :
    decode fo' = some { x.info with allOutputNames := sortNames x.info.allOutputNames } ∧
    ∀ os ∈ x.store, loadOutput parse fo' os.1 = some os.2.toVal := by
  rw [history_append] at h
  cases h1 : history eqv true fo xs with
  | error e => simp [h1] at h
  | ok f1 =>
    simp only [h1] at h
    exact ⟨C04_resume_records eqv true f1 fo' x hok h, C04_resume_reload parse eqv f1 fo' x hok hn hagree h⟩

/-! ### witnesses and non-vacuity -/

def rFile : RunInfo :=
  { inputs := [("a", .int 1)], defaults := [], allOutputNames := ["y"], shapes := [(.one "y", [2])], internalShapes := none,
    shapeMasks := [(.one "y", [true])], mapspecs := ["x[i] -> y[i]"], storage := .uniform "file_array", version := "v" }
def rDict : RunInfo := { rFile with storage := .uniform "dict", inputs := [("a", .int 2)] }
def parseEx : String → Option MSpec := fun _ => some { inputs := [⟨"x", [some "i"]⟩], outputs := [⟨"y", [some "i"]⟩] }
def firstRun : Run :=
  { cleanup := true, info := rFile, backend := fun _ => some .file, store := [("y", .array [2] [true] [(0, .int 10)])] }
def secondRun : Run :=
  { cleanup := false, info := rDict, backend := fun _ => some .dict, store := [("y", .array [2] [true] [(0, .int 10), (1, .int 20)])] }

/-- **The seeded change C04-s3-A in the model**: a resume that skips `_dump_all` after a successful comparison (tolerance: "all
    inputs are equal") leaves the FIRST run's storage choice and inputs in the folder. -/
theorem C04_skipped_dump_witness :
    (match createOnSkipping (fun _ _ => true) false (dumpAll Folder.empty rFile) rDict with
     | .ok fo => (decode fo).map (·.storage) == some (Storage.uniform "file_array") &&
                 (match (decode fo).map (·.inputs) with | some [("a", Val.int 1)] => true | _ => false)
     | .error _ => false) = true := by decide

/-- the hypotheses of `C04_history_last` hold for a two-run history that switches the storage from `file_array` (partial run) to
    `dict` and changes an input the tolerant check accepts; the folder then records `dict` and the second run's input, and the
    reloaded array is the second run's (two elements), although the first run's cell file still lies in the folder -/
example : (match history (fun _ _ => true) true Folder.empty ([firstRun] ++ [secondRun]) with
  | .ok fo =>
    (decode fo).map (·.storage) == some (Storage.uniform "dict") &&
    (match (decode fo).map (·.inputs) with | some [("a", Val.int 2)] => true | _ => false) &&
    (match loadOutput parseEx fo "y" with | some (.arr [2] [.int 10, .int 20]) => true | _ => false) &&
    (match fo (.cell "y" 0) with | some (.val (.int 10)) => true | _ => false) &&
    secondRun.store.all (fun os => agreeSlot parseEx secondRun.info secondRun.backend os.1 os.2)
  | .error _ => false) = true := by decide

/-- a strict check (nothing is equal) refuses the same resume: `history` is not always `.ok` -/
example : (match history (fun _ _ => false) true Folder.empty [firstRun, secondRun] with
  | .error .inputs => true
  | _ => false) = true := by decide

/-- the hypotheses of `C04_resume_reload_run` hold for the two-function pipeline of Props/C04.lean resumed under a per-output storage
    dictionary on the folder a `file_array` run left (`Recorded (tableParse fsEx) fsEx stEx` is shown there); the folder then records the
    dictionary and all three outputs reload -/
example : (match runMapStore fsEx inEx [] with
  | .ok (res, store) =>
    let r0 := createRunInfo fsEx [] [] inEx [] (.uniform "file_array") "v" res.shapes res.masks
    let r1 := createRunInfo fsEx [] [] inEx [] stEx "v" res.shapes res.masks
    match runOn (fun _ _ => true) true (folderOf true r0 (backendFor fsEx (.uniform "file_array")) store)
        { cleanup := false, info := r1, backend := backendFor fsEx stEx, store := store } with
    | .ok fo => (decode fo).map (·.storage) == some stEx && store.length == 3 &&
                store.all fun (o, _) => (loadOutput (tableParse fsEx) fo o).isSome
    | .error _ => false
  | _ => false) = true := by decide

example : NamesOK rDict :=
  { shapes := by intro kv h; simp only [rDict, rFile, List.mem_singleton] at h; subst h; simp only [KeyOK]; decide,
    masks := by intro kv h; simp only [rDict, rFile, List.mem_singleton] at h; subst h; simp only [KeyOK]; decide,
    storage := by intro m h; simp [rDict] at h,
    inputs := by decide }

end PF.C04
