/-
Model of the *parallel* path of `Pipeline.map` / `Pipeline.map_async` (`pipefunc/map/_run.py`): the tasks a generation
submits (`_submit_generation/_submit_func/_maybe_parallel_map/_maybe_execute_single`, `:600-700, 895-939`), a *schedule*
(the order in which the submitted task bodies run — the only thing an executor, a pool size, a per-output executor
assignment or the event loop can change at the granularity of task bodies), worker-side dumps
(`_update_array(in_post_process=False)`, `:502-525`), and the parent-side processing that pairs results with indices by
submission position (`_process_task/_output_from_mapspec_task`, `:942-1000`; async twin `:1004-1020`).
Built on `PF.Map` (the sequential runner, C01): same `selectArgs/argWhole/opArray/cellsOf/Slot/Env/FuncResult`.
Core Lean only.
-/
import PfModel.Model.MapRun
namespace PF.Sched
open PF PF.Map

/-- what `_submit_func` decides for a function before anything runs (`:895-906`, `_prepare_submit_map_spec :617-640`) -/
inductive Plan
  | mapped (ms : MSpec) (shape : List Nat) (mask : List Bool)   -- one future per missing external linear index
  | single                                                      -- one future (`_maybe_execute_single`)
  | bad (e : Err)                                               -- the look-up of shape/mask fails in the parent
  deriving Repr

/-- the case analysis of `PF.Map.runFuncWith`, as data -/
def planOf (shapes : List (String × List Nat)) (masks : List (String × List Bool)) (f : MFunc) : Plan :=
  match f.mapspec with
  | some ms =>
    if ms.inputs.isEmpty then .single else
    match f.outputs.head? with
    | none => .bad (.value "function without outputs")
    | some o =>
      match alookup shapes o, alookup masks o with
      | some sh, some mk =>
        if sh.length ≠ mk.length then .bad (.value "shape and mask of different rank") else .mapped ms sh mk
      | _, _ => .bad (.key o)
  | none => .single

/-- number of futures submitted for a function on a fresh store (`args.missing = range(n)`) -/
def nFut : Plan → Nat
  | .mapped _ sh mk => prod (extOf mk sh)
  | .single => 1
  | .bad _ => 0

/-- a submitted task: (position of the function in the generation — the key of `tasks: dict[PipeFunc, _KwargsTask]` —,
    position of the future in that function's list `r`) -/
abbrev TaskId := Nat × Nat
abbrev Args := List (String × Val)

/-- all futures of a generation in submission order (`_submit_generation` iterates the generation, `_maybe_parallel_map`
    iterates `args.missing`) -/
def idsFrom : Nat → List (MFunc × Plan) → List TaskId
  | _, [] => []
  | j, fp :: rest => (List.range (nFut fp.2)).map (fun k => (j, k)) ++ idsFrom (j + 1) rest

/-- generic association-list look-up (first match) -/
def klookup {κ β} [DecidableEq κ] : List (κ × β) → κ → Option β
  | [], _ => none
  | (k, v) :: r, x => if k = x then some v else klookup r x

/-- worker-side dumps so far: `(output name, external linear index) ↦ element` in execution order -/
abbrev Dumps := List ((String × Nat) × Val)

/-- `StorageBase` view of an output whose elements are being dumped by workers: the elements present, by index -/
def readBack (D : Dumps) (o : String) (n : Nat) : List (Nat × Val) :=
  (List.range n).filterMap fun li => (klookup D (o, li)).map fun v => (li, v)

/-- the storage arrays of the generation being run, as a task body sees them while other bodies are still running:
    they exist from `init_store` on and hold what workers have dumped so far -/
def partialSlots (shapes : List (String × List Nat)) (masks : List (String × List Bool)) (gen : List MFunc) (D : Dumps) :
    List (String × Slot) :=
  gen.flatMap fun f => f.outputs.filterMap fun o =>
    match alookup shapes o, alookup masks o with
    | some sh, some mk => some (o, Slot.array sh mk (readBack D o (prod (extOf mk sh))))
    | _, _ => none

/-- the store a body reads when it runs: everything of earlier generations plus the current generation's partial arrays -/
def viewEnv (shapes : List (String × List Nat)) (masks : List (String × List Bool)) (env : Env) (gen : List MFunc) (D : Dumps) : Env :=
  { env with store := env.store ++ partialSlots shapes masks gen D }

/-- **task body**, first half: select the keyword arguments (`_select_kwargs` in the worker for a mapped function —
    index `missing[k] = k` on a fresh store —, `_func_kwargs` + `_load_arrays` for an un-mapped one) and call the function.
    Values are free terms, so the future's result is represented by the call's keyword arguments `a`: the value returned
    for output `o` is `outVal f a o`. -/
def bodyRun (fs : List MFunc) (env : Env) (f : MFunc) : Plan → Nat → M Args
  | .mapped ms sh mk, k => selectArgs fs env f ms (shapeToKey (extOf mk sh) k)
  | .single, _ => f.params.mapM fun (p, orig) => do return (orig, ← argWhole fs env f p)
  | .bad e, _ => throw e

/-- **task body**, second half: `_update_array(in_post_process=False)` dumps the element of every output whose storage
    has `dump_in_subprocess = True` (`:502-525`); un-mapped functions never dump in the worker (`_execute_single`) -/
def workerDumps (dumpSub : String → Bool) (f : MFunc) : Plan → Nat → M Args → Dumps
  | .mapped _ _ _, k, .ok a => (f.outputs.filter dumpSub).map fun o => ((o, k), outVal f a o)
  | _, _, _ => []

/-- state of a generation while its bodies run -/
structure GState where
  dumps : Dumps := []                        -- worker-side dumps, in execution order
  futs : List (TaskId × M Args) := []        -- resolved futures
  ran : List TaskId := []                    -- bodies in the order they ran
  deriving Inhabited

/-- run one submitted body against the current state -/
def stepBody (fs : List MFunc) (shapes : List (String × List Nat)) (masks : List (String × List Bool)) (dumpSub : String → Bool)
    (env : Env) (gen : List MFunc) (pg : List (MFunc × Plan)) (st : GState) (id : TaskId) : GState :=
  match pg[id.1]? with
  | none => st
  | some (f, plan) =>
    if id.2 < nFut plan then
      let r := bodyRun fs (viewEnv shapes masks env gen st.dumps) f plan id.2
      { dumps := st.dumps ++ workerDumps dumpSub f plan id.2 r, futs := st.futs ++ [(id, r)], ran := st.ran ++ [id] }
    else st

/-- a schedule is the list of task ids in the order their bodies run -/
def runBodies (fs : List MFunc) (shapes : List (String × List Nat)) (masks : List (String × List Bool)) (dumpSub : String → Bool)
    (env : Env) (gen : List MFunc) (pg : List (MFunc × Plan)) (order : List TaskId) (st : GState) : GState :=
  order.foldl (stepBody fs shapes masks dumpSub env gen pg) st

/-- `Future.result()`: a future that never resolves is a hang -/
def await (futs : List (TaskId × M Args)) (id : TaskId) : M Args :=
  match klookup futs id with
  | some r => r
  | none => throw .fuel

/-- parent-side processing of one function (`_process_task`): results are awaited **in submission order** and paired with
    the indices by position (`zip(args.missing, outputs_list)`, `missing = range n`: the `k`-th result belongs to index `k`);
    the result arrays are filled (`_update_result_array`), and the parent dumps exactly the outputs whose storage has
    `dump_in_subprocess = False` (`_update_array(in_post_process=True)`); the others are what the workers left in the store.
    A failed look-up of shape/mask is raised when the function is reached (in the code: at submission, where it would
    pre-empt failures of earlier functions' bodies; it cannot occur after `map_shapes`). -/
def processFunc (dumpSub : String → Bool) (st : GState) (j : Nat) (f : MFunc) : Plan → M FuncResult
  | .mapped _ sh mk => do
    let n := prod (extOf mk sh)
    let argsAt ← (List.range n).mapM fun k => await st.futs (j, k)
    let args : Nat → Args := fun li => argsAt.getD li []
    return { outputs := f.outputs.map fun o => (o, opArray f sh mk args o),
             slots := f.outputs.map fun o => (o, Slot.array sh mk (if dumpSub o then readBack st.dumps o n else cellsOf f n args o)),
             calls := argsAt.map fun a => ({ name := f.name, args := a } : Call) }
  | .single => do
    let args ← await st.futs (j, 0)
    let outs := f.outputs.map fun o => (o, outVal f args o)
    return { outputs := outs, slots := outs.map fun (o, v) => (o, Slot.single v), calls := [{ name := f.name, args := args }] }
  | .bad e => throw e

/-- `_process_generation`: functions in generation order -/
def processGen (dumpSub : String → Bool) (st : GState) : Nat → List (MFunc × Plan) → M (List FuncResult)
  | _, [] => pure []
  | j, fp :: rest => do
    let r ← processFunc dumpSub st j fp.1 fp.2
    let rs ← processGen dumpSub st (j + 1) rest
    pure (r :: rs)

/-- a dump event: output, external linear index (`none`: a whole un-mapped output), where it happened -/
structure DumpEv where
  out : String
  idx : Option Nat
  inWorker : Bool
  deriving Repr, DecidableEq

/-- what can be observed of one generation besides its results -/
structure GenTrace where
  ids : List TaskId            -- submitted futures
  ran : List TaskId            -- bodies in the order they ran
  calls : List Call            -- the call log in execution order
  dumps : List DumpEv          -- every `dump` of the generation: the workers' (execution order), then the parent's

def callsOf (pg : List (MFunc × Plan)) (futs : List (TaskId × M Args)) : List Call :=
  futs.filterMap fun (id, r) =>
    match pg[id.1]?, r with
    | some (f, _), .ok a => some { name := f.name, args := a }
    | _, _ => none

/-- the parent's dumps for index `k` of a mapped function: the outputs *not* dumped by workers (`_update_array(in_post_process=True)`) -/
def parentDumpsAt (dumpSub : String → Bool) (f : MFunc) (k : Nat) : List DumpEv :=
  (f.outputs.filter fun o => !dumpSub o).map fun o => { out := o, idx := some k, inWorker := false }

/-- the parent's dumps for one function: per index as above; a whole value per output of an un-mapped function
    (`_dump_single_output`) -/
def parentDumps (dumpSub : String → Bool) (f : MFunc) : Plan → List DumpEv
  | .mapped _ sh mk => (List.range (prod (extOf mk sh))).flatMap (parentDumpsAt dumpSub f)
  | .single => f.outputs.map fun o => { out := o, idx := none, inWorker := false }
  | .bad _ => []

/-- dump events of a worker body -/
def workerEvs (D : Dumps) : List DumpEv := D.map fun d => { out := d.1.1, idx := some d.1.2, inWorker := true }

/-- **one generation under a schedule**: submit, run the bodies in the order `order`, then process in the parent -/
def runGenSched (fs : List MFunc) (shapes : List (String × List Nat)) (masks : List (String × List Bool)) (dumpSub : String → Bool)
    (env : Env) (gen : List MFunc) (order : List TaskId) : M (List FuncResult × GenTrace) := do
  let pg := gen.map fun f => (f, planOf shapes masks f)
  let st := runBodies fs shapes masks dumpSub env gen pg order {}
  let rs ← processGen dumpSub st 0 pg
  return (rs, { ids := idsFrom 0 pg, ran := st.ran, calls := callsOf pg st.futs,
                dumps := workerEvs st.dumps
                         ++ pg.flatMap fun fp => parentDumps dumpSub fp.1 fp.2 })

/-- a family of schedules: for generation number `g` and its submitted ids, the order in which the bodies run -/
abbrev Scheds := Nat → List TaskId → List TaskId

/-- the generation loop with the barrier: generation `g+1` is submitted only after generation `g` has been processed
    (`run_map :147-160`, `_run_pipeline :300-314`) -/
def runGensSched (fs : List MFunc) (shapes : List (String × List Nat)) (masks : List (String × List Bool)) (dumpSub : String → Bool)
    (sched : Scheds) : Nat → List (List MFunc) → Env → M (List FuncResult × Env × List GenTrace)
  | _, [], env => pure ([], env, [])
  | g, gen :: rest, env => do
    let ids := idsFrom 0 (gen.map fun f => (f, planOf shapes masks f))
    let (rs, tr) ← runGenSched fs shapes masks dumpSub env gen (sched g ids)
    let env' : Env := { env with store := env.store ++ rs.flatMap (·.slots) }
    let (more, envF, trs) ← runGensSched fs shapes masks dumpSub sched (g + 1) rest env'
    pure (rs ++ more, envF, tr :: trs)

/-- `run_map(parallel=True)` / `run_map_async` on a fresh store under a family of schedules and an assignment of
    `dump_in_subprocess` to outputs (the only way a storage backend enters the runner) -/
def runMapSched (fs : List MFunc) (inputs : List (String × Val)) (userInternal : List (String × List Nat))
    (dumpSub : String → Bool) (sched : Scheds) : M (MapResult × List GenTrace) := do
  validateInputs fs inputs
  if (generations fs).flatten.length ≠ fs.length then throw (.value "cyclic pipeline")
  let internal := constructInternal fs userInternal
  let (shapes, masks) ← mapShapes fs inputs internal
  let (rs, env, trs) ← runGensSched fs shapes masks dumpSub sched 0 (generations fs) { inputs := inputs, store := [] }
  return ({ outputs := rs.flatMap (·.outputs), stored := env.store.map fun (o, s) => (o, s.toVal), shapes := shapes, masks := masks,
            calls := rs.flatMap (·.calls), gens := (generations fs).map fun g => g.map (·.name) }, trs)

/-- the execution log of a whole run: (generation number, task) in the order the bodies ran -/
def runLog : Nat → List GenTrace → List (Nat × TaskId)
  | _, [] => []
  | g, tr :: rest => tr.ran.map (fun id => (g, id)) ++ runLog (g + 1) rest

/-- the planned generation: every function with what `_submit_func` decides for it -/
def planned (shapes : List (String × List Nat)) (masks : List (String × List Bool)) (gen : List MFunc) : List (MFunc × Plan) :=
  gen.map fun f => (f, planOf shapes masks f)

/-- a family of schedules is valid when each member is a permutation of the submitted futures: every submitted body runs,
    once (an executor that drops or duplicates a task is outside the property) -/
def ValidScheds (sched : Scheds) : Prop := ∀ g ids, (sched g ids).Perm ids

/-- no two functions share an output name (`Pipeline` validation) -/
def UniqueOutputs (fs : List MFunc) : Prop := fs.Pairwise fun a b => ∀ o, o ∈ a.outputs → o ∉ b.outputs

/-- `layer_independent`: inside a generation nobody consumes (through a parameter that is not bound) an output of the generation -/
def GenIndep (gen : List MFunc) : Prop :=
  ∀ f ∈ gen, ∀ h ∈ gen, ∀ p, p ∈ f.params.map (·.1) → alookup f.bound p = none → p ∉ h.outputs

end PF.Sched
