/-
`update_renames` with ALL its arguments: `PipeFunc.update_renames(renames, update_from="current"|"original", overwrite)`
(`pipefunc/_pipefunc.py:358-428`) and `Pipeline.update_renames` (`pipefunc/_pipeline/_base.py:965-1004`), written the way
the code is written: the dictionary `_renames` (original ↦ current), its inverse, the detour of `defaults`, `bound` and
the MapSpec through the ORIGINAL names (`defaults_original`, `bound_original`, `mapspec.rename(old_inverse).rename(_renames)`).
`Model/Rewrite.lean: updateRenames` is the special case `update_from="current", overwrite=False` read as one renaming of
the whole pipeline; here every function has its own renaming (an `overwrite=True` returns every name that the new
dictionary does not mention to its original, function by function).  Built on `PF.Rw`.  Core Lean only.
-/
import PfModel.Model.Rewrite
import PfModel.Model.RewriteOps
namespace PF.Rw
open PF PF.Pipe

/-- `dict.get(k, k)` -/
def getSelf (d : List (String × String)) (k : String) : String := (alookup d k).getD k

/-- `_inverse_renames` (`_pipefunc.py:322-324`): current name ↦ original name, parameters and outputs.  (The model keeps
    the pair for every name; an identity pair stands for "not renamed" — `.get(k, k)` cannot tell the two apart.) -/
def inverseOf (f : RFunc) : List (String × String) := f.core.params ++ f.core.outputs.zip f.outOrig

/-- `_renames`: original name ↦ current name -/
def renamesOf (f : RFunc) : List (String × String) := (inverseOf f).map fun co => (co.2, co.1)

/-- the names a key of `renames` may be (`allowed_parameters`, `_pipefunc.py:388-392`; the same tuple in
    `Pipeline.update_renames`, `_base.py:991-995`): current parameters and outputs, or the original ones -/
def allowedKeys (fromOrig : Bool) (f : RFunc) : List String :=
  if fromOrig then (inverseOf f).map (·.2) else (inverseOf f).map (·.1)

/-- the new `_renames` (`_pipefunc.py:394-407`): the given dictionary converted to original names (`update_from="current"`),
    replacing (`overwrite`) or extending (`dict(self._renames, **renames)`: the new entries win) the old one -/
def newRenames (m : List (String × String)) (fromOrig ow : Bool) (f : RFunc) : List (String × String) :=
  let m' := if fromOrig then m else m.map fun kv => (getSelf (inverseOf f) kv.1, kv.2)
  if ow then m' else m' ++ renamesOf f

/-- the state of a function after `_renames` was set to `ren` (`_pipefunc.py:401-423`): parameters and outputs are the
    original names under `ren` (`parameters`, `output_name`: `_pipefunc.py:249-261`); `defaults`, `bound` and the MapSpec
    are taken back to the original names with the OLD inverse and forward with the new dictionary -/
def applyRenames (ren : List (String × String)) (f : RFunc) : RFunc :=
  let inv := inverseOf f
  { f with
    core := { f.core with
      params := f.core.params.map fun po => (getSelf ren po.2, po.2)
      outputs := f.outOrig.map (getSelf ren)
      defaults := f.core.defaults.map fun kv => (getSelf ren (getSelf inv kv.1), kv.2)
      bound := f.core.bound.map fun kv => (getSelf ren (getSelf inv kv.1), kv.2) }
    mapspec := f.mapspec.map fun ms => renameSpec (getSelf ren) (renameSpec (getSelf inv) ms) }

def curNames (f : RFunc) : List String := f.core.params.map (·.1) ++ f.core.outputs

/-- `PipeFunc._validate_names` (`_pipefunc.py:571-588`) as far as a renaming can break it: an output that is also a
    parameter; two names that became one (`renames` not one-to-one) -/
def validNames (f : RFunc) : Except Err RFunc :=
  if f.core.params.any (fun q => f.core.outputs.contains q.1) then .error (.missing "output is a parameter") else
  if ((curNames f).length ≠ (curNames f).eraseDups.length : Bool) then .error (.missing "renames not one-to-one") else .ok f

/-- `PipeFunc.update_renames(m, update_from, overwrite)` -/
def updateRenamesF (m : List (String × String)) (fromOrig ow : Bool) (f : RFunc) : Except Err RFunc :=
  match (akeys m).filter (fun k => !((allowedKeys fromOrig f).contains k)) with
  | k :: _ => .error (.unused [k])                    -- `_validate_update`: "Unexpected `renames` arguments"
  | [] => validNames (applyRenames (newRenames m fromOrig ow f) f)

/-- the entries of `m` that `Pipeline.update_renames` hands to `f` (`_base.py:996`) -/
def takes (m : List (String × String)) (fromOrig : Bool) (f : RFunc) : List (String × String) :=
  m.filter fun kv => (allowedKeys fromOrig f).contains kv.1

/-- the loop of `Pipeline.update_renames` over the functions (`_base.py:990-998`): EVERY function is updated, also with
    an empty dictionary (which, with `overwrite`, resets it) -/
def renamesEach (m : List (String × String)) (fromOrig ow : Bool) : List RFunc → Except Err (List RFunc)
  | [] => .ok []
  | f :: fs =>
    match updateRenamesF (takes m fromOrig f) fromOrig ow f with
    | .error e => .error e
    | .ok f' =>
      match renamesEach m fromOrig ow fs with
      | .error e => .error e
      | .ok fs' => .ok (f' :: fs')

/-- `Pipeline.update_renames(m, update_from, overwrite)`: the loop, the unused-key check (`_base.py:1000-1003`), then
    `Pipeline._validate` (scopes, the graph, consistent defaults) and the rebuilt MapSpecs' array names.  Two producers of one
    output name are refused here (the code keeps the later one in `output_to_func`: a capture, outside the property). -/
def updateRenamesX (m : List (String × String)) (fromOrig ow : Bool) (fs : List RFunc) : Except Err (List RFunc) :=
  match renamesEach m fromOrig ow fs with
  | .error e => .error e
  | .ok fs' =>
    match (akeys m).filter (fun k => !(fs.any fun f => (allowedKeys fromOrig f).contains k)) with
    | k :: _ => .error (.unused [k])
    | [] =>
      if dupOutputs fs' then .error (.missing "duplicate output") else
      if badSpecName fs' then .error (.missing "array name") else
      if scopesClash none fs' then .error (.missing "scope is a parameter") else
      if !acyclic fs' then .error .fuel else                       -- two names that met closed a cycle: `graph` raises NetworkXUnfeasible
      if !consistentDefaults fs' then .error (.missing "inconsistent defaults") else .ok fs'

/-- `pipeline[o].update_renames(m, update_from, overwrite)`: ONE function of the pipeline is renamed in place (its
    consumers and producers keep their names, so the wiring may change; the pipeline is not re-validated) -/
def updateRenamesAt (o : String) (m : List (String × String)) (fromOrig ow : Bool) (fs : List RFunc) : Except Err (List RFunc) :=
  match rproducer fs o with
  | none => .error (.noFunc o)
  | some f =>
    match updateRenamesF m fromOrig ow f with
    | .error e => .error e
    | .ok f' => .ok (fs.map fun g => if sameF g f then f' else g)

/-! ### the renaming that call performs, function by function -/

/-- the new name of a name that is now `cur` and originally `orig` -/
def newName (m : List (String × String)) (fromOrig ow : Bool) (cur orig : String) : String :=
  match alookup m (if fromOrig then orig else cur) with
  | some v => v
  | none => if ow then orig else cur

/-- the renaming `update_renames(m, update_from, overwrite)` performs on the names of `f` -/
def rhoF (m : List (String × String)) (fromOrig ow : Bool) (f : RFunc) : String → String := fun k =>
  match alookup (inverseOf f) k with
  | some orig => newName m fromOrig ow k orig
  | none => k

end PF.Rw
