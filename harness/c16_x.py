"""C16 (round 9): the EXTENDED annotation language through the model — `Literal[v, ..]` and the variadic tuple `tuple[T, ...]`.

JSON: the grammar of harness/props/c16.py plus `{"lit": [v..]}` (v an int, a str, a bool or null) and `{"vt": ty}`.  Model:
`PF.Typing.XTy` / `compatX` (lean/PfModel/Model/TypingX.lean), driver entry `typing.compatx`.  Streams:

* all ordered pairs of a fixed universe (`universe_x`);
* related pairs: an old-language pair from `B.gen_pair`, both sides transformed by the SAME hash-keyed rewriting (a `tuple[..]` becomes
  `tuple[T, ...]`, a class leaf becomes a `Literal` of values of that class), then a local perturbation of a Literal / variadic node;
* two-function pipelines whose edge carries such a pair: direct, element-wise, and consumed through a reduction (`Array[A] -> B`).

On the implementation alone: the clauses of the statement (`B.pair_laws`) and agreement with the reference relation `sub_ref_x`
(variadic tuples are parametrised builtin generics of the property text: `tuple[S1..Sn] -> tuple[T, ...]` iff every `Si -> T`;
`tuple[S, ...] -> tuple[T, ...]` iff `S -> T`; `tuple[S, ...]` is never a fixed-arity tuple).  `Literal` is OUTSIDE the property text:
the reference follows the code (a `Literal` is related to `Literal`s only, by inclusion of the values; `Literal[1] -> int` is rejected)
and this is counted under `x:literal-vs-class`.
"""
from __future__ import annotations

import contextlib
import copy
import io
import typing
import zlib
from typing import Annotated, Literal, Union

import pfimport  # noqa: F401
from pfimport import exc_enum
from pipefunc import PipeFunc, Pipeline
from pipefunc.typing import ArrayElementType

B = None


# ------------------------------------------------------------------------------------------------ typing objects -> JSON
def from_py_x(o):
    origin = typing.get_origin(o)
    args = typing.get_args(o)
    if origin is Literal:
        return {"lit": list(args)}
    if origin is tuple and len(args) == 2 and args[1] is Ellipsis:
        return {"vt": from_py_x(args[0])}
    if origin in (Union, getattr(__import__("types"), "UnionType")):
        return {"u": [from_py_x(x) for x in args]}
    if origin is Annotated:
        primary, *md = args
        el = [typing.get_args(m)[0] for m in md if typing.get_origin(m) is ArrayElementType]
        if el:
            return {"arr": from_py_x(el[0])}
        return {"an": from_py_x(primary)}
    for n, c in B.GENS.items():
        if origin is c:
            return {"g": n, "a": [from_py_x(x) for x in args]}
    return B.from_py(o)


_CANON: dict = {}


def canon_x(j):
    k = B.key(j)
    if k not in _CANON:
        o = B.to_py(j)
        _CANON[k] = (o, from_py_x(o))
    return _CANON[k]


def has_x(t):
    return B.mentions(t, ("lit", "vt"))


# ------------------------------------------------------------------------------------------------ reference relation
LIT_CLASS = {int: "int", str: "str", bool: "bool", type(None): "None"}


def lit_sub(vs, ws):
    return all(any(type(v) is type(w) and v == w for w in ws) for v in vs)


def sub_ref_x(a, b) -> bool:
    """`B.sub_ref` with the rules for the two new constructors"""
    a, b = B.strip(a), B.strip(b)
    if B.is_tv(a) or a == "NoAnn" or b in ("Any", "NoAnn", "T"):
        return True
    if isinstance(a, dict) and "u" in a:
        return all(sub_ref_x(x, b) for x in a["u"])
    if isinstance(b, dict):
        if "tvb" in b:
            return sub_ref_x(a, b["tvb"])
        if "tvc" in b:
            return any(sub_ref_x(a, c) for c in b["tvc"])
        if "u" in b:
            return any(sub_ref_x(a, y) for y in b["u"])
    if a == "Any":
        return False
    if isinstance(a, str) and isinstance(b, str):
        return a == b or (a, b) in (("bool", "int"), ("B", "A"))
    if isinstance(a, dict) and isinstance(b, dict):
        if "lit" in a or "lit" in b:
            return "lit" in a and "lit" in b and lit_sub(a["lit"], b["lit"])
        if "vt" in a and "vt" in b:
            return sub_ref_x(a["vt"], b["vt"])
        if "vt" in b:
            return "g" in a and a["g"] == "tuple" and all(sub_ref_x(x, b["vt"]) for x in a["a"])
        if "vt" in a:
            return "g" in b and b["g"] == "tuple" and not b["a"]
        if "g" in a and "g" in b:
            if a["g"] != b["g"]:
                return False
            if not a["a"] or not b["a"]:
                return True
            return len(a["a"]) == len(b["a"]) and all(sub_ref_x(x, y) for x, y in zip(a["a"], b["a"]))
        if "arr" in a and "arr" in b:
            return sub_ref_x(a["arr"], b["arr"])
        return False
    if isinstance(a, dict) and "arr" in a:
        return b == "ndarray"
    if isinstance(b, dict) and "arr" in b:
        return a == "ndarray"
    return False


# ------------------------------------------------------------------------------------------------ generators
LITS = {"int": [1, 2, 3], "str": ["a", "b", "int"], "bool": [True, False], "None": [None]}


def h(t, salt):
    return zlib.crc32((salt + B.key(t)).encode()) % 100


def xform(t, salt):
    """rewrite an old-language annotation, the decision at every node keyed by the node's JSON (equal subterms of the two sides of a
    pair are rewritten alike)"""
    if isinstance(t, str):
        if t in LITS and h(t, salt) < 30:
            vals = LITS[t]
            return {"lit": vals[: 1 + h(t, salt + "n") % len(vals)]}
        return t
    if "g" in t:
        args = [xform(x, salt) for x in t["a"]]
        if t["g"] == "tuple" and h(t, salt) < 55:
            return {"vt": args[h(t, salt + "i") % len(args)]}
        return {"g": t["g"], "a": args}
    if "u" in t:
        ms, seen = [], set()
        for x in t["u"]:
            y = xform(x, salt)
            if B.key(y) not in seen:
                seen.add(B.key(y))
                ms.append(y)
        return {"u": ms} if len(ms) > 1 else ms[0]
    for k in ("an", "arr"):
        if k in t:
            inner = xform(t[k], salt)
            if k == "an" and B.kind(inner) in ("an", "arr"):
                return inner
            return {k: inner}
    return t            # TypeVars keep their old-language bounds / constraints


def xnodes(t, path=()):
    for pth, s in B.subterms(t, path):
        if isinstance(s, dict) and ("lit" in s or "vt" in s or s.get("g") == "tuple"):
            yield pth, s


def perturb_x(rng, t):
    """a local change at a Literal / variadic / tuple node"""
    nodes = list(xnodes(t))
    if not nodes:
        return t
    path, s = rng.choice(nodes)
    r = rng.random()
    if "lit" in s:
        vs = list(s["lit"])
        pool = [1, 2, 3, "a", "b", True, False, None, 0, "int"]
        if r < 0.35:
            v = rng.choice(pool)
            if not any(type(v) is type(w) and v == w for w in vs):
                vs.append(v)
        elif r < 0.6 and len(vs) > 1:
            vs.pop(rng.randrange(len(vs)))
        elif r < 0.75:
            vs = [({1: True, 0: False}.get(v, v) if type(v) is int else (int(v) if type(v) is bool else v)) for v in vs]   # 1 <-> True
        elif r < 0.9:
            new = {int: "int", str: "str", bool: "bool", type(None): "None"}[type(vs[0])]
            return B.replace_at(t, path, new)
        else:
            rng.shuffle(vs)
        ded = []
        for v in vs:
            if not any(type(v) is type(w) and v == w for w in ded):
                ded.append(v)
        new = {"lit": ded}
    elif "vt" in s:
        e = s["vt"]
        if r < 0.5:
            new = {"g": "tuple", "a": [copy.deepcopy(e) for _ in range(rng.choice([1, 1, 2, 3]))]}
        elif r < 0.7:
            new = {"vt": {"int": "bool", "bool": "int"}.get(e, "Any") if isinstance(e, str) else "Any"}
        elif r < 0.85:
            new = {"g": rng.choice(["list", "set"]), "a": [e]}
        else:
            new = {"vt": {"u": [e, "None"]}} if B.kind(e) != "u" and e != "None" else s
    else:
        a = s["a"]
        if r < 0.5:
            new = {"vt": copy.deepcopy(rng.choice(a))}
        elif r < 0.8:
            ms, seen = [], set()
            for x in a:
                for y in (x["u"] if B.kind(x) == "u" else [x]):
                    if B.key(y) not in seen:
                        seen.add(B.key(y))
                        ms.append(y)
            new = {"vt": {"u": ms} if len(ms) > 1 else ms[0]}
        else:
            new = {"vt": "int"}
    return B.replace_at(t, path, new)


def gen_xpair(rng):
    for _ in range(20):
        a0, b0, src = B.gen_pair(rng)
        salt = str(rng.randrange(4))
        a, b = xform(a0, salt), xform(b0, salt)
        r = rng.random()
        if r < 0.3:
            b = perturb_x(rng, b)
        elif r < 0.5:
            a = perturb_x(rng, a)
        elif r < 0.6:
            a, b = perturb_x(rng, a), perturb_x(rng, b)
        if (has_x(a) or has_x(b)) and B.depth(a) <= 4 and B.depth(b) <= 4:
            return a, b, src
    return {"vt": "int"}, {"vt": "bool"}, "fallback"


def universe_x():
    lits = [{"lit": [1]}, {"lit": [1, 2]}, {"lit": [2, 1]}, {"lit": [True]}, {"lit": ["a"]}, {"lit": ["a", 1]}, {"lit": [None]}, {"lit": [0, False]}]
    elems = ["int", "bool", "str", "Any", {"lit": [1]}, {"lit": [1, 2]}, {"u": ["int", "str"]}, {"g": "list", "a": ["bool"]}, "T"]
    out = ["int", "bool", "str", "None", "Any", "NoAnn", "T", "ndarray"] + lits
    out += [{"vt": e} for e in elems]
    out += [{"g": "tuple", "a": a} for a in (["int"], ["bool"], ["int", "int"], ["bool", "bool", "bool"], ["int", "str"], [{"lit": [1]}, {"lit": [2]}],
                                              [{"lit": [1]}], ["Any", "int"], [{"u": ["int", "str"]}, "str"])]
    out += [{"g": "list", "a": ["int"]}, {"g": "dict", "a": ["int", "int"]}]
    wrapped = []
    for t in lits[:3] + [{"vt": "int"}, {"vt": "bool"}, {"vt": {"lit": [1]}}]:
        wrapped += [{"g": "list", "a": [t]}, {"arr": t}, {"an": t}, {"u": [t, "None"]}, {"tvb": t}, {"tvc": [t, "str"]}, {"vt": t},
                    {"g": "tuple", "a": [t, t]}]
    return out + wrapped


# ------------------------------------------------------------------------------------------------ pairs
def check_xpairs(ctx, cases, laws_every=1):
    todo = []
    for i, case in enumerate(cases):
        ao, a = canon_x(case["a"])
        bo, b = canon_x(case["b"])
        got = B.impl_compat(ao, bo)
        law = B.pair_laws(ctx, a, b, ao, bo, got, "class") if i % laws_every == 0 else None
        todo.append((case, a, b, got, law))
    reqs = [{"m": "typing.compatx", "a": {"pairs": [[a, b] for _, a, b, _, _ in todo[k:k + 500]]}} for k in range(0, len(todo), 500)]
    outs = [x for resp in ctx.lean(reqs) for x in resp["r"]] if reqs else []
    for (case, a, b, got, law), model in zip(todo, outs):
        want = sub_ref_x(a, b)
        ctx.count(f"x:src:{case.get('src', '?')}")
        ctx.count(f"x:result:{model}")
        ctx.count(f"x:kinds:{B.kind(a)}->{B.kind(b)}")
        ka, kb = B.kind(B.strip(a)), B.kind(B.strip(b))
        if {ka, kb} == {"vt", "g"}:
            ctx.count(f"x:variadic-vs-fixed:{ka}->{kb}:{model}")
        if (ka == "lit") != (kb == "lit") and "base" in (ka, kb):
            ctx.count("x:literal-vs-class")
        rcase = {"kind": "xpair", "a": a, "b": b}
        ctx.record(rcase, B.nontrivial_pair(a, b))
        if got != want:
            ctx.violation(rcase, f"is_type_compatible(A, B) = {got} but {'every' if want else 'not every'} value of A is acceptable for B "
                                 f"(reference relation = {want})", impl=got, model=model, key=f"xpair-vs-sub:{got}:{want}")
        elif law:
            ctx.violation(rcase, f"clause fails on the implementation: {law}", impl=got, model=model, key="xlaw:" + law[:30])
        elif got != model:
            ctx.violation(rcase, "implementation and model disagree on is_type_compatible over the extended language", found_input=False,
                          item="correspondence:typing.compatx", impl=got, model=model)
        if model != want:
            ctx.violation(rcase, f"model compatX = {model} but the Python reference = {want}", found_input=False,
                          item="correspondence:sub_ref_x", impl=got, model=model)


# ------------------------------------------------------------------------------------------------ pipelines over such an edge
WIRINGS = {"direct": (None, None), "elementwise": ("x[i] -> y[i]", "y[i] -> z[i]"), "reduced": ("x[i] -> y[i]", None)}


def run_xpipe(case):
    ao, bo = B.to_py(case["a"]), B.to_py(case["b"])
    m0, m1 = WIRINGS[case["wiring"]]

    def f0(x):
        return None

    def f1(y):
        return None
    f0.__annotations__ = {"x": int, "return": ao}
    f1.__annotations__ = {"y": bo, "return": int}
    out = {}
    for v in (True, False):
        try:
            with contextlib.redirect_stdout(io.StringIO()):
                Pipeline([PipeFunc(f0, "y", mapspec=m0), PipeFunc(f1, "z", mapspec=m1)], validate_type_annotations=v)
            out[v] = "ok"
        except TypeError as e:
            out[v] = "TypeError" if type(e) is TypeError else "EXC:" + exc_enum(e)
        except Exception as e:  # noqa: BLE001
            out[v] = "EXC:" + exc_enum(e)
    return out[True], out[False]


def check_xpipes(ctx, cases):
    todo, pairs = [], []
    for case in cases:
        _, a = canon_x(case["a"])
        _, b = canon_x(case["b"])
        src = {"arr": a} if case["wiring"] == "reduced" and a != "NoAnn" and B.kind(B.strip(a)) not in ("arr", "ndarray") else a
        todo.append((case, src, b, run_xpipe(case)))
        pairs.append([src, b])
    reqs = [{"m": "typing.compatx", "a": {"pairs": pairs[k:k + 500]}} for k in range(0, len(pairs), 500)]
    outs = [x for resp in ctx.lean(reqs) for x in resp["r"]] if reqs else []
    for (case, src, b, (on, off)), model in zip(todo, outs):
        ref = sub_ref_x(src, b)
        ctx.count(f"x:pipe:{case['wiring']}:{'ok' if model else 'TypeError'}")
        ctx.record(case, B.nontrivial_pair(src, b))
        if off != "ok":
            ctx.violation(case, f"validate_type_annotations=False but construction raised {off}", impl=off, model="ok", key="xpipe-off")
        elif on != ("ok" if ref else "TypeError"):
            what = ("every edge is compatible but the pipeline is rejected with " + on) if ref else \
                   ("an explicitly annotated edge is incompatible but construction gave " + on)
            ctx.violation(case, what, impl=on, model="ok" if model else "TypeError", key=f"xpipe:{ref}:{on[:9]}")
        elif (on == "ok") != model:
            ctx.violation(case, "implementation and model disagree on the edge of an extended-language pipeline", found_input=False,
                          item="correspondence:typing.compatx-pipe", impl=on, model=model)


# ------------------------------------------------------------------------------------------------ corpus, run, replay
def XP(a, b):
    return {"kind": "xpair", "a": a, "b": b, "src": "corpus"}


T = lambda *a: {"g": "tuple", "a": list(a)}  # noqa: E731
CORPUS = [
    XP(T("int", "int"), {"vt": "int"}), XP(T("bool", "bool", "bool"), {"vt": "int"}), XP(T("int", "str"), {"vt": "int"}),      # DF-C16-variadic-compat
    XP({"vt": "int"}, T("int")), XP({"vt": "int"}, T("int", "int")), XP({"vt": "bool"}, {"vt": "int"}), XP({"vt": "int"}, {"vt": "bool"}),
    XP(T("int", "str"), {"vt": {"u": ["int", "str"]}}), XP({"vt": {"u": ["int", "str"]}}, {"vt": "int"}), XP({"g": "list", "a": ["int"]}, {"vt": "int"}),
    XP({"u": [T("int"), T("int", "int")]}, {"vt": "int"}), XP({"arr": T("int", "int")}, {"arr": {"vt": "int"}}),
    XP({"lit": [1]}, {"lit": [1, 2]}), XP({"lit": [1, 2]}, {"lit": [1]}), XP({"lit": [True]}, {"lit": [1]}), XP({"lit": [1]}, "int"),
    XP({"lit": [1, 2]}, {"u": [{"lit": [1]}, {"lit": [2]}]}), XP({"u": [{"lit": [1]}, {"lit": [2]}]}, {"lit": [1, 2]}),
    XP({"lit": [None]}, "None"), XP({"an": {"lit": [1]}}, {"lit": [2, 1]}), XP({"lit": ["a"]}, {"tvc": [{"lit": ["a", "b"]}, "int"]}),
]
PIPE_CORPUS = [{"kind": "xpipe", "wiring": w, "a": a, "b": b} for w, a, b in [
    ("direct", T("int", "int"), {"vt": "int"}), ("direct", {"vt": "int"}, T("int")), ("elementwise", T("bool", "bool"), {"vt": "int"}),
    ("reduced", T("int", "int"), {"arr": {"vt": "int"}}), ("reduced", T("int", "int"), {"vt": "int"}), ("direct", {"lit": [1]}, {"lit": [1, 2]})]]


def run(ctx):
    rng = ctx.rng
    check_xpairs(ctx, copy.deepcopy(CORPUS))
    check_xpipes(ctx, copy.deepcopy(PIPE_CORPUS))
    ux = universe_x()
    ctx.extra["universe_x"] = len(ux)
    check_xpairs(ctx, [{"kind": "xpair", "a": a, "b": b, "src": "universe_x"} for a in ux for b in ux], laws_every=5)
    rel = []
    for _ in range(ctx.n(3000, 60000)):
        a, b, src = gen_xpair(rng)
        rel.append({"kind": "xpair", "a": a, "b": b, "src": "x-" + src})
    for k in range(0, len(rel), 20000):
        check_xpairs(ctx, rel[k:k + 20000], laws_every=3)
    pipes = []
    for _ in range(ctx.n(250, 4000)):
        a, b, _src = gen_xpair(rng)
        pipes.append({"kind": "xpipe", "wiring": rng.choice(list(WIRINGS)), "a": a, "b": b})
    check_xpipes(ctx, pipes)


def replay(ctx, case):
    ao, a = canon_x(case["a"])
    bo, b = canon_x(case["b"])
    print("A =", ao, "\nB =", bo)
    if case["kind"] == "xpipe":
        print("wiring:", case["wiring"], "| implementation (validate on, off):", run_xpipe(case))
        a = {"arr": a} if case["wiring"] == "reduced" and a != "NoAnn" and B.kind(B.strip(a)) not in ("arr", "ndarray") else a
    else:
        got = B.impl_compat(ao, bo)
        print("implementation: is_type_compatible(A, B) =", got, "| failing clause:", B.pair_laws(ctx, a, b, ao, bo, got, "class"))
    print("model: compatX =", ctx.lean([{"m": "typing.compatx", "a": {"pairs": [[a, b]]}}])[0].get("r"), "| reference =", sub_ref_x(a, b))
