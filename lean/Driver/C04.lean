import PfModel.DriverVal
import PfModel.Model.RunInfoCodec
import PfModel.Model.RunInfoResume
import PfModel.DriverC04Lib
import PfModel.DriverC04Hist
import PfModel.DriverC04Cmp
import PfModel.DriverC04Norm
/-! Driver for C04: `runinfo.codec` (decode ∘ encode of an arbitrary record, with the pinned code's key codec next to it)
    and `run.reload` (the folder a run leaves behind, reloaded); `run.resume` (round 4): the same after an EARLIER run into the folder
    with its own storage configuration and inputs (`PF.RIC.runOn` with `cleanup=False` on the folder the earlier run left).
    Round 9: `run.history` (PfModel/DriverC04Hist.lean), `resume.compare3` (PfModel/DriverC04Cmp.lean), `runinfo.norm`
    (PfModel/DriverC04Norm.lean); the JSON readers / writers moved to PfModel/DriverC04Lib.lean. -/
open Lean PF PF.Drv PF.Map PF.RIC PF.C04Drv

def handle (m : String) (a : Json) : R Json := do
  match m with
  | "runinfo.codec" =>
    let r ← getRunInfo (← fld a "runinfo")
    let fo := dumpAll Folder.empty r
    let keys := r.shapes.map (·.1)
    return jObj [("json", putJ (encode r)), ("decoded", jOpt putRunInfo (decode fo)),
                 ("keys", jList (fun k => jArr [putKey k, jStr (keyStr k), putKey (strKey (keyStr k)),
                    jStr (String.ofList (keyCharsLegacy k)), putKey (charsKeyLegacy (keyCharsLegacy k))]) keys)]
  | "run.reload" | "run.resume" =>
    let fs ← listF getMFunc a "funcs"
    let inputs ← getKw (← fld a "inputs")
    let user := (← optF (asList (asPair asStr getIShape)) a "user_internal").getD []
    let tupled := (← optF (asList asStr) a "tupled").getD []
    let intForm := (← optF (asList asStr) a "int_pf").getD []
    let storage ← getStorage (← fld a "storage")
    let persistMemory := (← optF asBool a "persist").getD true
    let version := (← optF asStr a "version").getD "v"
    -- the folder before the run: empty, or what an earlier (complete) run with its own inputs and storage left
    let before : Option Folder ← (do
      if m == "run.reload" then return none
      let inputs0 ← getKw (← fld a "first_inputs")
      let storage0 ← getStorage (← fld a "first_storage")
      match runMapStore fs inputs0 (user.map fun (k, s) => (k, s.dims)) with
      | .error _ => .error "run.resume: the earlier run fails in the model"
      | .ok (res0, store0) =>
        let r0 := createRunInfo fs tupled intForm inputs0 user storage0 version res0.shapes res0.masks
        return some (folderOf persistMemory r0 (backendFor fs storage0) store0))
    match runMapStore fs inputs (user.map fun (k, s) => (k, s.dims)) with
    | .error e => return putMErr e
    | .ok (res, store) =>
      let r := createRunInfo fs tupled intForm inputs user storage version res.shapes res.masks
      let backend := backendFor fs storage
      let folder : Except Refusal Folder := match before with
        | none => .ok (folderOf persistMemory r backend store)
        | some fo0 => runOn (fun _ _ => true) persistMemory fo0 { cleanup := false, info := r, backend := backend, store := store }
      match folder with
      | .error e => return jObj [("err", jStr "ValueError"), ("why", jStr s!"resume refused: {repr e}")]
      | .ok fo =>
      let parse := tableParse fs
      let names := store.map (·.1)
      return jObj [("runinfo", putRunInfo r), ("json", putJ (encode r)), ("decoded", jOpt putRunInfo (decode fo)),
                   ("loaded", jArr (names.map fun o => jArr [jStr o, jOpt putVal (loadOutput parse fo o)])),
                   ("stored", putKw res.stored), ("outputs", putKw res.outputs),
                   ("slots", jArr (store.map fun (o, s) => jArr [jStr o, jStr (match s with | .single _ => "single" | .array .. => "array")])),
                   ("agree", jBool (store.all fun (o, s) => agreeSlot parse r backend o s)),
                   ("resumed", jBool before.isSome),
                   ("backends", jArr (names.map fun o => jArr [jStr o, jOpt (fun b => jStr (match b with
                      | Backend.file => "file_array" | .dict => "dict" | .shm => "shared_memory_dict")) (backend o)]))]
  | "run.history" => handleHist a
  | "resume.compare3" => handleCmp a
  | "runinfo.norm" => handleNorm a
  | _ => .error s!"unknown entry {m}"

def main : IO Unit := loop handle
