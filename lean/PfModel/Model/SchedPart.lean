/-
Model of the *parallel* path of `Pipeline.map` / `Pipeline.map_async` on a store that may already hold elements
(`cleanup=False`) and with `fixed_indices` (`pipefunc/map/_run.py`): futures are submitted for `args.missing` only
(`_prepare_submit_map_spec :623-647`, `_existing_and_missing_indices :579-598`, `_maybe_parallel_map :684-700`), the worker
of an un-mapped function first looks whether its outputs are already stored (`_execute_single :785-808`), results are paired
with `args.missing` **by position** (`_output_from_mapspec_task :951-966`: `zip(args.missing, outputs_list)`), existing
elements are loaded by the parent (`get_from_index`).  Generalises `PF.Sched` (fresh store: `missing = range n`); the
sequential counterpart is `PF.Pieces.runPart` (C06).  Also: the async twin (`_process_task_async :1013-1029`,
`asyncio.gather`) as a second way of awaiting the futures of a function.
Core Lean only.
-/
import PfModel.Model.Sched
import PfModel.Model.MapPieces
namespace PF.SchedP
open PF PF.Map PF.Sched PF.Pieces

/-- what `_submit_func` decides for a function before anything runs -/
inductive PlanP
  | mapped (ms : MSpec) (shape : List Nat) (mask : List Bool) (sel : Nat → Bool) (todo : List Nat)
      -- `todo = args.missing`: one future per selected missing external linear index, in increasing order
  | single                                                      -- one future (`_maybe_execute_single`)
  | bad (e : Err)                                               -- shape/mask look-up or `_mask_fixed_axes` fails in the parent

/-- the case analysis of `PF.Pieces.runFuncPart`, as data -/
def planOfP (shapes : List (String × List Nat)) (masks : List (String × List Bool)) (fixed : Option (List (String × Sel)))
    (old : List (String × Slot)) (f : MFunc) : PlanP :=
  match f.mapspec with
  | some ms =>
    if ms.inputs.isEmpty then .single else
    match f.outputs.head? with
    | none => .bad (.value "function without outputs")
    | some o =>
      match alookup shapes o, alookup masks o with
      | some sh, some mk =>
        if sh.length ≠ mk.length then .bad (.value "shape and mask of different rank") else
        match fixedMask fixed ms sh mk with
        | .error e => .bad e
        | .ok fm => .mapped ms sh mk (selOf fm) (todoOf f.outputs (prod (extOf mk sh)) (selOf fm) (oldCells old))
      | _, _ => .bad (.key o)
  | none => .single

/-- number of futures submitted for a function: `len(args.missing)`; one for an un-mapped function -/
def nFutP : PlanP → Nat
  | .mapped _ _ _ _ todo => todo.length
  | .single => 1
  | .bad _ => 0

/-- all futures of a generation in submission order; the second component is the *position* in the function's list of
    futures `r` (the index it computes is `args.missing[position]`) -/
def idsFromP : Nat → List (MFunc × PlanP) → List TaskId
  | _, [] => []
  | j, fp :: rest => (List.range (nFutP fp.2)).map (fun k => (j, k)) ++ idsFromP (j + 1) rest

/-- what a future resolves to: the keyword arguments of the call that was made (values are free terms), or — for an
    un-mapped function whose outputs a previous run stored — the loaded outputs (`_LoadedOutputs`, no call) -/
inductive FutRes
  | called (a : Args)
  | loaded (vs : List (String × Val))

def FutRes.args : FutRes → Args
  | .called a => a
  | .loaded _ => []

/-- the storage arrays of the generation being run as a body sees them: what the previous run left plus what workers
    have dumped so far -/
def partialSlotsP (shapes : List (String × List Nat)) (masks : List (String × List Bool)) (old : List (String × Slot))
    (gen : List MFunc) (D : Dumps) : List (String × Slot) :=
  gen.flatMap fun f => f.outputs.filterMap fun o =>
    match alookup shapes o, alookup masks o with
    | some sh, some mk => some (o, Slot.array sh mk (readBack D o (prod (extOf mk sh)) ++ oldCells old o))
    | _, _ => none

def viewEnvP (shapes : List (String × List Nat)) (masks : List (String × List Bool)) (old : List (String × Slot)) (env : Env)
    (gen : List MFunc) (D : Dumps) : Env :=
  { env with store := env.store ++ partialSlotsP shapes masks old gen D }

/-- `_execute_single`, first lines: the stored outputs if all exist -/
def loadedOf (old : List (String × Slot)) (f : MFunc) : Option (List (String × Val)) :=
  if f.outputs.isEmpty then none else loadSingles old f.outputs

/-- `_func_kwargs` + `_load_arrays` of an un-mapped function (as in `PF.Map.runSingle`) -/
def wholeArgs (fs : List MFunc) (env : Env) (f : MFunc) : M Args :=
  f.params.mapM fun (p, orig) => do return (orig, ← argWhole fs env f p)

/-- **task body**, first half.  Mapped: `_select_kwargs` at index `missing[k]`, then the call.  Un-mapped: `_execute_single`
    — load the outputs if a previous run stored them, else `_load_arrays` and the call.  (Only the parent writes the
    whole-value outputs of an un-mapped function, after this very future has resolved: what the worker finds is what the
    previous run left.) -/
def bodyRunP (fs : List MFunc) (old : List (String × Slot)) (env : Env) (f : MFunc) : PlanP → Nat → M FutRes
  | .mapped ms sh mk _ todo, k =>
    match todo[k]? with
    | some li => (selectArgs fs env f ms (shapeToKey (extOf mk sh) li)).map .called
    | none => throw .fuel
  | .single, _ =>
    match loadedOf old f with
    | some vs => pure (.loaded vs)
    | none => (wholeArgs fs env f).map .called
  | .bad e, _ => throw e

/-- **task body**, second half: `_update_array(in_post_process=False)` at `output_key(external_shape, missing[k])` -/
def workerDumpsP (dumpSub : String → Bool) (f : MFunc) : PlanP → Nat → M FutRes → Dumps
  | .mapped _ _ _ _ todo, k, .ok (.called a) =>
    match todo[k]? with
    | some li => (f.outputs.filter dumpSub).map fun o => ((o, li), outVal f a o)
    | none => []
  | _, _, _ => []

structure GStateP where
  dumps : Dumps := []
  futs : List (TaskId × M FutRes) := []
  ran : List TaskId := []
  deriving Inhabited

def stepBodyP (fs : List MFunc) (shapes : List (String × List Nat)) (masks : List (String × List Bool)) (dumpSub : String → Bool)
    (old : List (String × Slot)) (env : Env) (gen : List MFunc) (pg : List (MFunc × PlanP)) (st : GStateP) (id : TaskId) : GStateP :=
  match pg[id.1]? with
  | none => st
  | some (f, plan) =>
    if id.2 < nFutP plan then
      let r := bodyRunP fs old (viewEnvP shapes masks old env gen st.dumps) f plan id.2
      { dumps := st.dumps ++ workerDumpsP dumpSub f plan id.2 r, futs := st.futs ++ [(id, r)], ran := st.ran ++ [id] }
    else st

def runBodiesP (fs : List MFunc) (shapes : List (String × List Nat)) (masks : List (String × List Bool)) (dumpSub : String → Bool)
    (old : List (String × Slot)) (env : Env) (gen : List MFunc) (pg : List (MFunc × PlanP)) (order : List TaskId) (st : GStateP) : GStateP :=
  order.foldl (stepBodyP fs shapes masks dumpSub old env gen pg) st

/-- `Future.result()` -/
def awaitP (futs : List (TaskId × M FutRes)) (id : TaskId) : M FutRes :=
  match klookup futs id with
  | some r => r
  | none => throw .fuel

/-- how the parent waits for the futures `ids` of one function.
    `sync`: `[_result(x) for x in r]` — in submission order, the first failing future *in submission order* surfaces.
    `async`: `await asyncio.gather(*futs)` — the results come back in submission order whatever the completion order; when
    futures fail, the exception of the one that failed *first in time* propagates. -/
inductive Await | sync | gather
  deriving DecidableEq, Repr

/-- the first of `ran` (completion order) among `ids` whose future failed -/
def firstFailed (futs : List (TaskId × M FutRes)) (ids : List TaskId) : List TaskId → Option Err
  | [] => none
  | id :: rest =>
    if ids.contains id then
      match klookup futs id with
      | some (.error e) => some e
      | _ => firstFailed futs ids rest
    else firstFailed futs ids rest

def awaitAll (mode : Await) (st : GStateP) (ids : List TaskId) : M (List FutRes) :=
  match mode with
  | .sync => ids.mapM (awaitP st.futs)
  | .gather =>
    match firstFailed st.futs ids st.ran with
    | some e => throw e
    | none => ids.mapM (awaitP st.futs)

/-- the elements workers dumped for output `o`, by index, in the order of `todo` -/
def readBackP (D : Dumps) (o : String) (todo : List Nat) : List (Nat × Val) :=
  todo.filterMap fun li => (klookup D (o, li)).map fun v => (li, v)

/-- parent-side processing of one function (`_process_task` / `_process_task_async`): the results are paired with
    `args.missing` by position (`zip(args.missing, outputs_list)`), the result arrays are filled from them and — for
    `args.existing` — from the store (`get_from_index`); the parent dumps the outputs whose storage has
    `dump_in_subprocess = False`; the others are what the workers left.  An un-mapped function: `_dump_single_output`,
    which stores nothing when the outputs were loaded. -/
def processFuncP (mode : Await) (dumpSub : String → Bool) (old : List (String × Slot)) (st : GStateP) (j : Nat) (f : MFunc) :
    PlanP → M FuncResult
  | .mapped _ sh mk sel todo => do
    let res ← awaitAll mode st ((List.range todo.length).map fun k => (j, k))
    let argsAt := res.map FutRes.args
    let tab := List.zip todo argsAt
    let args : Nat → Args := fun li => (tlookup tab li).getD []
    return { outputs := f.outputs.map fun o => (o, partArray sh mk sel (cellsPart f todo args o ++ oldCells old o)),
             slots := f.outputs.map fun o =>
               (o, Slot.array sh mk ((if dumpSub o then readBackP st.dumps o todo else cellsPart f todo args o) ++ oldCells old o)),
             calls := argsAt.map fun a => ({ name := f.name, args := a } : Call) }
  | .single => do
    let res ← awaitAll mode st [(j, 0)]
    match res with
    | [.called args] =>
      let outs := f.outputs.map fun o => (o, outVal f args o)
      return { outputs := outs, slots := outs.map fun (o, v) => (o, Slot.single v), calls := [{ name := f.name, args := args }] }
    | [.loaded vs] => return { outputs := vs, slots := vs.map fun (o, v) => (o, Slot.single v), calls := [] }
    | _ => throw .fuel
  | .bad e => throw e

def processGenP (mode : Await) (dumpSub : String → Bool) (old : List (String × Slot)) (st : GStateP) :
    Nat → List (MFunc × PlanP) → M (List FuncResult)
  | _, [] => pure []
  | j, fp :: rest => do
    let r ← processFuncP mode dumpSub old st j fp.1 fp.2
    let rs ← processGenP mode dumpSub old st (j + 1) rest
    pure (r :: rs)

def callsOfP (pg : List (MFunc × PlanP)) (futs : List (TaskId × M FutRes)) : List Call :=
  futs.filterMap fun (id, r) =>
    match pg[id.1]?, r with
    | some (f, _), .ok (.called a) => some { name := f.name, args := a }
    | _, _ => none

/-- the parent's dumps for one function: per computed index the outputs not dumped by workers; a whole value per output
    of an un-mapped function that was *called* -/
def parentDumpsP (dumpSub : String → Bool) (futs : List (TaskId × M FutRes)) (j : Nat) (f : MFunc) : PlanP → List DumpEv
  | .mapped _ _ _ _ todo => todo.flatMap (parentDumpsAt dumpSub f)
  | .single =>
    match klookup futs (j, 0) with
    | some (.ok (.called _)) => f.outputs.map fun o => { out := o, idx := none, inWorker := false }
    | _ => []
  | .bad _ => []

def parentDumpsGen (dumpSub : String → Bool) (futs : List (TaskId × M FutRes)) : Nat → List (MFunc × PlanP) → List DumpEv
  | _, [] => []
  | j, fp :: rest => parentDumpsP dumpSub futs j fp.1 fp.2 ++ parentDumpsGen dumpSub futs (j + 1) rest

def plannedP (shapes : List (String × List Nat)) (masks : List (String × List Bool)) (fixed : Option (List (String × Sel)))
    (old : List (String × Slot)) (gen : List MFunc) : List (MFunc × PlanP) :=
  gen.map fun f => (f, planOfP shapes masks fixed old f)

/-- **one generation under a schedule** on a store holding `old` -/
def runGenSchedP (mode : Await) (fs : List MFunc) (shapes : List (String × List Nat)) (masks : List (String × List Bool))
    (fixed : Option (List (String × Sel))) (old : List (String × Slot)) (dumpSub : String → Bool)
    (env : Env) (gen : List MFunc) (order : List TaskId) : M (List FuncResult × GenTrace) := do
  let pg := plannedP shapes masks fixed old gen
  let st := runBodiesP fs shapes masks dumpSub old env gen pg order {}
  let rs ← processGenP mode dumpSub old st 0 pg
  return (rs, { ids := idsFromP 0 pg, ran := st.ran, calls := callsOfP pg st.futs,
                dumps := workerEvs st.dumps ++ parentDumpsGen dumpSub st.futs 0 pg })

/-- the generation loop with the barrier, generic in the one-generation runner (`G g env gen`): generation `g+1` is
    submitted only after generation `g` has been processed (`run_map :147-160`, `_run_pipeline :292-308`) -/
def runGensG (G : Nat → Env → List MFunc → M (List FuncResult × GenTrace)) :
    Nat → List (List MFunc) → Env → M (List FuncResult × Env × List GenTrace)
  | _, [], env => pure ([], env, [])
  | g, gen :: rest, env => do
    let (rs, tr) ← G g env gen
    let env' : Env := { env with store := env.store ++ rs.flatMap (·.slots) }
    let (more, envF, trs) ← runGensG G (g + 1) rest env'
    pure (rs ++ more, envF, tr :: trs)

/-- the one-generation runner of a run: plan, ask the schedule family for the order, run -/
def genRunner (mode : Await) (fs : List MFunc) (shapes : List (String × List Nat)) (masks : List (String × List Bool))
    (fixed : Option (List (String × Sel))) (old : List (String × Slot)) (dumpSub : String → Bool) (sched : Scheds)
    (g : Nat) (env : Env) (gen : List MFunc) : M (List FuncResult × GenTrace) :=
  runGenSchedP mode fs shapes masks fixed old dumpSub env gen (sched g (idsFromP 0 (plannedP shapes masks fixed old gen)))

/-- `run_map(parallel=True, fixed_indices=fixed, cleanup=False)` (`mode = sync`) / `run_map_async(…)` (`mode = gather`) on a
    run folder holding `old`, under a family of schedules and an assignment of `dump_in_subprocess` to outputs -/
def runPartSched (mode : Await) (fs : List MFunc) (inputs : List (String × Val)) (userInternal : List (String × List Nat))
    (fixed : Option (List (String × Sel))) (old : List (String × Slot)) (dumpSub : String → Bool) (sched : Scheds) :
    M (PartResult × List GenTrace) := do
  validateInputs fs inputs
  if (generations fs).flatten.length ≠ fs.length then throw (.value "cyclic pipeline")
  validateFixed fs inputs fixed
  let internal := constructInternal fs userInternal
  let (shapes, masks) ← mapShapes fs inputs internal
  let (rs, env, trs) ← runGensG (genRunner mode fs shapes masks fixed old dumpSub sched) 0 (generations fs) { inputs := inputs, store := [] }
  return ({ res := { outputs := rs.flatMap (·.outputs), stored := env.store.map fun (o, s) => (o, s.toVal), shapes := shapes, masks := masks,
                     calls := rs.flatMap (·.calls), gens := (generations fs).map fun g => g.map (·.name) },
            store := env.store }, trs)

/-- a run in pieces under schedules: one `map(fixed_indices=…, cleanup=False, parallel=True)` per part, each on the folder
    the previous one left, each with its own family of schedules -/
def runPiecesSched (mode : Await) (fs : List MFunc) (inputs : List (String × Val)) (ui : List (String × List Nat))
    (dumpSub : String → Bool) :
    List (Option (List (String × Sel)) × Scheds) → List (String × Slot) → M (List (PartResult × List GenTrace))
  | [], _ => pure []
  | (p, sched) :: ps, old => do
    let r ← runPartSched mode fs inputs ui p old dumpSub sched
    let rest ← runPiecesSched mode fs inputs ui dumpSub ps r.1.store
    pure (r :: rest)

end PF.SchedP
