import PfModel.Lemmas.Storage
/-!
C07 — Every storage backend behaves as a masked n-d object array.
Property theorems only; the model is `Model/Storage.lean` (`PF.St`), helper lemmas are in `Lemmas/Storage.lean`.

`dStep` / `fStep` are the operational models of `DictArray` (and `SharedMemoryDictArray`) and `FileArray`;
`aStep` is the reference: a function from external keys to optional elements.
-/
namespace PF.C07
open PF PF.St
variable {V : Type}

/-! ### keys: out-of-range and wrong-rank keys raise `IndexError`; negative indices count from the end -/

/-- `normalize_key` accepts a key iff it has one entry per axis (the external axes, in order, for `dump`; all axes
    otherwise) and every integer entry `e` on an axis of size `n` satisfies `-n ≤ e < n`; it then returns the
    non-negative key (`e` or `e + n`, slices untouched); every other key raises `IndexError`. -/
theorem C07_normalize (g : Geom) (hg : g.WF) (forDump : Bool) (key : List KE) :
    (KeyOK (axisSizes g forDump) key → normalizeKey g forDump key = .ok (normVals (axisSizes g forDump) key)) ∧
    (¬ KeyOK (axisSizes g forDump) key → normalizeKey g forDump key = .error .index) ∧
    axisSizes g true = g.shape ∧ axisSizes g false = g.full :=
  ⟨normalizeKey_ok g hg forDump key, normalizeKey_err g hg forDump key, rfl, rfl⟩

/-- a negative index `k - n` names the same position as `k` -/
theorem C07_negative_index (n k : Nat) (h : k < n) :
    normVal n (.int ((k : Int) - n)) = .idx k ∧ normVal n (.int k) = .idx k ∧
    EntryOK n (.int ((k : Int) - n)) ∧ EntryOK n (.int k) ∧ ¬ EntryOK n (.int n) ∧ ¬ EntryOK n (.int (-(n : Int) - 1)) := by
  refine ⟨?_, ?_, ?_, ?_, ?_, ?_⟩
  · simp only [normVal]; rw [if_neg (by omega)]; congr 1; omega
  · simp only [normVal]; rw [if_pos (by omega)]; congr 1
  · simp only [EntryOK]; omega
  · simp only [EntryOK]; omega
  · simp only [EntryOK]; omega
  · simp only [EntryOK]; omega

/-- every index a key expands to — through `slice.indices`, `range` and `itertools.product` — lies inside the array,
    for reads (all axes) and for dumps (external axes) -/
theorem C07_expanded_keys_in_range (g : Geom) (hg : g.WF) (forDump : Bool) (key : List KE) (nk : List NK)
    (rs : List (List Nat)) (h : normalizeKey g forDump key = .ok nk) (hr : keyRanges (axisSizes g forDump) nk = .ok rs) :
    ∀ F ∈ product rs, InRange (axisSizes g forDump) F :=
  keyRanges_inRange _ nk rs (normalizeKey_nkok g hg forDump key nk h) hr

/-- the only failure of a `slice` is step 0 (`ValueError`), and its indices are `start + j·step` inside the axis -/
theorem C07_slice_range (n : Nat) (a b c : Option Int) :
    (c = some 0 → sliceRange n a b c = .error .value) ∧
    (c ≠ some 0 → ∃ s e st, sliceIndices n a b c = .ok (s, e, st) ∧
        sliceRange n a b c = .ok ((List.range (rangeLen s e st)).map (fun (j : Nat) => (s + (j : Int) * st).toNat)) ∧
        ∀ j, j < rangeLen s e st → 0 ≤ s + (j : Int) * st ∧ s + (j : Int) * st < n) := by
  constructor
  · intro hc; subst hc; simp [sliceRange, sliceIndices]
  · intro hc
    have hst : c.getD 1 ≠ 0 := by
      cases c with
      | none => simp
      | some x => simp only [Option.getD_some]; intro e; exact hc (by rw [e])
    cases hs : sliceIndices n a b c with
    | error e => unfold sliceIndices at hs; simp only [hst, if_false] at hs; cases hs
    | ok r =>
      obtain ⟨s, e, st⟩ := r
      refine ⟨s, e, st, rfl, ?_, ?_⟩
      · simp only [sliceRange, hs]
      · intro j hj
        obtain ⟨hne, hpos, hneg⟩ := sliceIndices_bounds n a b c s e st hs
        obtain ⟨hp, hn⟩ := rangeLen_pos_elem s e st j hj
        rcases Int.lt_or_gt_of_ne hne with hlt | hgt
        · have := hn hlt; have := hneg hlt; omega
        · have := hp hgt; have := hpos hgt; omega

/-- `__getitem__` with slices is NumPy indexing of the reference array: the result has shape `new_shape` (one axis per
    slice, `len(range)` long), as many cells as result positions, and — enumerating the positions `J` row-major — holds at
    `J` the cell of the full index whose entry on every axis is the `J`-th member of that axis' range (`k` itself on an
    integer axis, `start + j·step` on a slice axis by `C07_slice_range`). -/
theorem C07_getitem_slices (g : Geom) (lk : List Nat → Option (List V)) (key : List KE) (nk : List NK)
    (rs : List (List Nat)) (h : normalizeKey g false key = .ok nk) (hs : nk.any NK.isSlc = true)
    (hr : keyRanges g.full nk = .ok rs) :
    getItemWith g lk key
      = .arr (sliceShape nk rs) ((allIdx (rs.map List.length)).map (fun J => cellOf g lk (pick rs J))) ∧
    prod (sliceShape nk rs) = prod (rs.map List.length) :=
  ⟨getItemWith_slices g lk key nk rs h hs hr, sliceShape_prod g.full nk rs hr⟩

/-- an all-integer in-range key reads exactly the cell it names (absent element → masked; no internal axes → the
    element; else the element indexed at the row-major internal position) -/
theorem C07_getitem_ints (g : Geom) (hg : g.WF) (lk : List Nat → Option (List V)) (F : List Nat) (hF : InRange g.full F) :
    getItemWith g lk (intKey F) = .scalar (cellOf g lk F) := getItemWith_ints g hg lk F hF

/-! ### refinement: each back end, on any operation sequence, observes what the reference array observes -/

/-- `DictArray` / `SharedMemoryDictArray`: from a fresh array, any sequence of dump (int/slice keys), `__getitem__`,
    `to_array` (all `splat_internal` modes), `mask`, `mask_linear`, `has_index`, `get_from_index`, persist+reopen yields
    exactly the reference's observations, and the final dict represents the reference's final array. -/
theorem C07_dict_refines (g : Geom) (hg : g.WF) (ops : List (Op V)) (hd : ∀ op ∈ ops, op.InDomain g) :
    (runOps (dStep g) ([] : Dict V) ops).2 = (runOps (aStep g) aEmpty ops).2 ∧
    RepD g (runOps (dStep g) ([] : Dict V) ops).1 (runOps (aStep g) aEmpty ops).1 :=
  runOps_refines (dStep g) (aStep g) (RepD g) (Op.InDomain g) (fun s a op h hp => dStep_refines g hg s a h op hp)
    ops [] aEmpty (repD_empty g) hd

/-- `FileArray`: the same, for the folder of `__<linear index>__.pickle` files -/
theorem C07_file_refines (g : Geom) (hg : g.WF) (ops : List (Op V)) (hd : ∀ op ∈ ops, op.InDomain g) :
    (runOps (fStep g) ([] : Files V) ops).2 = (runOps (aStep g) aEmpty ops).2 ∧
    RepF g (runOps (fStep g) ([] : Files V) ops).1 (runOps (aStep g) aEmpty ops).1 :=
  runOps_refines (fStep g) (aStep g) (RepF g) (Op.InDomain g) (fun s a op h hp => fStep_refines g hg s a h op hp)
    ops [] aEmpty (repF_empty g) hd

/-- the refinement holds from every represented state, not only from the empty array (resumed folders) -/
theorem C07_step_refines (g : Geom) (hg : g.WF) (a : MArr V) (op : Op V) (hd : op.InDomain g) :
    (∀ d, RepD g d a → (dStep g d op).2 = (aStep g a op).2 ∧ RepD g (dStep g d op).1 (aStep g a op).1) ∧
    (∀ f, RepF g f a → (fStep g f op).2 = (aStep g a op).2 ∧ RepF g (fStep g f op).1 (aStep g a op).1) :=
  ⟨fun d h => dStep_refines g hg d a h op hd, fun f h => fStep_refines g hg f a h op hd⟩

/-- all back ends agree with one another on every operation sequence -/
theorem C07_backends_agree (g : Geom) (hg : g.WF) (ops : List (Op V)) (hd : ∀ op ∈ ops, op.InDomain g) :
    (runOps (dStep g) ([] : Dict V) ops).2 = (runOps (fStep g) ([] : Files V) ops).2 := by
  rw [(C07_dict_refines g hg ops hd).1, (C07_file_refines g hg ops hd).1]

/-! ### laws of the reference array (hence, by refinement, of every back end) -/

/-- written elements read back equal; everything else is unchanged: after a successful dump with targets `ts`, the
    integer key of an in-range full index `F` reads the dumped value (indexed internally) when the external part of `F`
    was targeted, and what it read before otherwise. -/
theorem C07_read_your_writes (g : Geom) (hg : g.WF) (a : MArr V) (key : List KE) (v : List V) (ts : List (List Nat))
    (hts : dumpTargets g key = .ok ts) (F : List Nat) (hF : InRange g.full F) :
    (aStep g a (.dump key v)).2 = .unit ∧
    (extOf g.mask F ∈ ts →
      (aStep g (aStep g a (.dump key v)).1 (.get (intKey F))).2
        = .scalar (if intOf g.mask F = [] then .whole v else cellAt v (ravel g.internal (intOf g.mask F)))) ∧
    (extOf g.mask F ∉ ts →
      (aStep g (aStep g a (.dump key v)).1 (.get (intKey F))).2 = (aStep g a (.get (intKey F))).2) := by
  simp only [aStep, hts]
  refine ⟨trivial, ?_, ?_⟩
  · intro hin
    rw [getItemWith_ints g hg _ F hF]
    simp only [cellOf, hin, if_true]
  · intro hout
    rw [getItemWith_ints g hg _ F hF, getItemWith_ints g hg _ F hF]
    simp only [cellOf, hout, if_false]

/-- with an element of the declared internal shape, the value read back is the atom at the row-major internal position -/
theorem C07_read_back_atom (g : Geom) (hg : g.WF) (v : List V) (hv : v.length = prod g.internal) (F : List Nat)
    (hF : InRange g.full F) :
    ∃ h : ravel g.internal (intOf g.mask F) < v.length,
      cellAt v (ravel g.internal (intOf g.mask F)) = .atom (v[ravel g.internal (intOf g.mask F)]'h) := by
  have hlen : g.full.length = g.mask.length := length_select g.mask g.shape g.internal hg.1 hg.2
  have hI : InRange g.internal (intOf g.mask F) := by
    have := inRange_int g.mask _ F hF hlen
    rwa [Geom.full, int_select g.mask g.shape g.internal hg.1 hg.2] at this
  have hlt := ravel_lt g.internal _ hI
  exact ⟨by omega, cellAt_lt v _ (by omega)⟩

/-- unwritten elements are masked: an element whose external key was never the target of a successful dump is absent
    after any operation sequence on a fresh array, and an absent element reads as `masked` at every full index. -/
theorem C07_unwritten_masked (g : Geom) (ops : List (Op V)) (E : List Nat)
    (hE : ∀ key v ts, Op.dump key v ∈ ops → dumpTargets g key = .ok ts → E ∉ ts) :
    (runOps (aStep g) (aEmpty : MArr V) ops).1 E = none ∧
    ∀ (a : MArr V) (F : List Nat), a (extOf g.mask F) = none → cellOf g a F = .masked := by
  constructor
  · have gen : ∀ (ops : List (Op V)) (a : MArr V),
        (∀ key v ts, Op.dump key v ∈ ops → dumpTargets g key = .ok ts → E ∉ ts) →
        (runOps (aStep g) a ops).1 E = a E := by
      intro ops
      induction ops with
      | nil => intro a _; rfl
      | cons op ops ih =>
        intro a h
        simp only [runOps]
        rw [ih _ (fun key v ts hm => h key v ts (List.mem_cons_of_mem _ hm))]
        cases op with
        | dump key v =>
          simp only [aStep]
          cases hts : dumpTargets g key with
          | error e => rfl
          | ok ts => simp only; rw [if_neg (h key v ts List.mem_cons_self hts)]
        | get key => rfl
        | toArray s => rfl
        | mask => rfl
        | maskLinear => rfl
        | has i => simp only [aStep]; split <;> rfl
        | «at» i => simp only [aStep]; split <;> (try split) <;> rfl
        | persistReopen => rfl
    exact gen ops aEmpty hE
  · intro a F h
    simp only [cellOf, h]

/-- a fresh array is masked everywhere: `mask` is all `True` and `to_array` is all `masked` -/
theorem C07_fresh_masked (g : Geom) (s : Option Bool) :
    (∀ b ∈ aMaskFlat g (aEmpty : MArr V), b = true) ∧
    (∀ shp cells, aToArray g (aEmpty : MArr V) s = .arr shp cells → ∀ c ∈ cells, c = .masked) := by
  constructor
  · intro b hb
    simp only [aMaskFlat, aEmpty, List.mem_map] at hb
    obtain ⟨_, _, rfl⟩ := hb; rfl
  · intro shp cells h c hc
    unfold aToArray at h
    split at h
    · injection h with _ h2; subst h2
      simp only [List.mem_map, aEmpty, wholeCell] at hc
      obtain ⟨_, _, rfl⟩ := hc; rfl
    · split at h
      · cases h
      · injection h with _ h2; subst h2
        simp only [List.mem_map, aEmpty, cellOf] at hc
        obtain ⟨_, _, rfl⟩ := hc; rfl

/-- linear indices follow row-major order of the external shape: `mask_linear`, `mask` and the flat order of
    `to_array(splat_internal=False)` list the elements at `unravel_index(i, shape)` for `i = 0 … size-1`; `has_index` /
    `get_from_index` of the row-major position `ravel shape E` of an in-range key `E` address element `E`. -/
theorem C07_linear_row_major (g : Geom) (a : MArr V) :
    aMaskFlat g a = (List.range g.size).map (fun i => (a (shapeToKey g.shape i)).isNone) ∧
    (∀ s, resolveSplat g s = false →
      aToArray g a s = .arr g.shape ((List.range g.size).map (fun i => wholeCell (a (shapeToKey g.shape i))))) ∧
    (∀ E, InRange g.shape E →
      (aStep g a (.has (ravel g.shape E))).2 = .bool (a E).isSome ∧
      (aStep g a (.at (ravel g.shape E))).2 = (match a E with | none => .err .missing | some el => .scalar (.whole el))) := by
  refine ⟨?_, ?_, ?_⟩
  · simp only [aMaskFlat, Geom.size]; rw [← map_key_range, List.map_map]; rfl
  · intro s hs
    simp only [aToArray, hs, Geom.size]
    rw [← map_key_range, List.map_map]; rfl
  · intro E hE
    have hlt := ravel_lt g.shape E hE
    have hk := key_ravel g.shape E hE
    have hu : unravel? g.shape (ravel g.shape E : Nat) = some E := by
      rw [unravel?_some g.shape _ ⟨by omega, by omega⟩]; simp [hk]
    simp only [aStep, hu]
    cases a E <;> simp

/-- a dump with the all-integer key of an in-range external index writes exactly that element (so, with
    `C07_read_your_writes`, every internal position of it reads back and every other element is untouched) -/
theorem C07_dump_int_key (g : Geom) (hg : g.WF) (E : List Nat) (hE : InRange g.shape E) :
    dumpTargets g (intKey E) = .ok [E] := dumpTargets_ints g hg E hE

/-- `FileArray` never creates a file outside `__0__ … __(size-1)__`, whatever keys are dumped (on the pinned tree an
    out-of-range key accepted through DF-11 did) -/
theorem C07_files_in_range (g : Geom) (hg : g.WF) (ops : List (Op V)) :
    ∀ p ∈ (runOps (fStep g) ([] : Files V) ops).1, p.1 < g.size :=
  runOps_filesInRange g hg ops [] (fun _ hp => by simp at hp)

/-! ### DF-11 (repaired): the pinned `normalize_key(for_dump=True)` consulted the wrong axes -/

/-- shape `(3,)`, internal `(2,)`, mask `(False, True)`: the valid dump key `(2,)` was rejected by the pinned code
    (checked against the internal axis of size 2) and is accepted by the repaired code -/
theorem C07_df11_witness_rejects_valid :
    normalizeKeyPinned ⟨[3], [2], [false, true]⟩ true [.int 2] = .error .index ∧
    normalizeKey ⟨[3], [2], [false, true]⟩ true [.int 2] = .ok [.idx 2] := ⟨rfl, rfl⟩

/-- shape `(2,)`, internal `(3,)`, mask `(False, True)`: the out-of-range dump key `(2,)` was accepted by the pinned code -/
theorem C07_df11_witness_accepts_invalid :
    normalizeKeyPinned ⟨[2], [3], [false, true]⟩ true [.int 2] = .ok [.idx 2] ∧
    normalizeKey ⟨[2], [3], [false, true]⟩ true [.int 2] = .error .index := ⟨rfl, rfl⟩

/-- with the internal axes trailing (the only layout the existing tests use) the pinned and the repaired code coincide -/
theorem C07_df11_trailing_same (g : Geom) (key : List KE) (h : g.full = g.shape ++ g.internal)
    (hk : key.length = expectedRank g true) (hg : g.WF) :
    normalizeKeyPinned g true key = normalizeKey g true key := by
  unfold normalizeKeyPinned normalizeKey
  simp only [hk, ne_eq, not_true_eq_false, if_false, axisSizes, if_true, h]
  have hl : key.length = g.shape.length := by rw [hk]; simp only [expectedRank, if_true]; exact hg.1.symm
  have gen : ∀ (s : List Nat) (k : List KE) (t : List Nat), k.length = s.length → normAxes (s ++ t) k = normAxes s k := by
    intro s
    induction s with
    | nil => intro k t hk; cases k with
      | nil => cases t <;> rfl
      | cons _ _ => simp at hk
    | cons n ns ih =>
      intro k t hk
      cases k with
      | nil => simp at hk
      | cons e es => simp only [List.cons_append, normAxes]; rw [ih es t (by simpa using hk)]
  exact gen g.shape key g.internal hl

/-! ### non-vacuity -/

def g23 : Geom := ⟨[3], [2], [false, true]⟩      -- internal axis first: full shape (2, 3)

example : g23.WF := by decide
example : ∀ op ∈ ([.dump [.int 2] [7, 8], .has 2, .at 2, .get [.int 1, .int (-1)]] : List (Op Nat)), op.InDomain g23 := by
  intro op h; simp at h; rcases h with rfl | rfl | rfl | rfl <;> simp [Op.InDomain, g23, prod]
example : (runOps (fStep g23) ([] : Files Nat) [.dump [.int 2] [7, 8], .has 2, .at 2, .get [.int 1, .int (-1)], .maskLinear]).2
    = [.unit, .bool true, .scalar (.whole [7, 8]), .scalar (.atom 8), .blist [true, true, false]] := by decide
example : (runOps (dStep g23) ([] : Dict Nat) [.dump [.int 2] [7, 8], .has 2, .at 2, .get [.int 1, .int (-1)], .maskLinear]).2
    = [.unit, .bool true, .scalar (.whole [7, 8]), .scalar (.atom 8), .blist [true, true, false]] := by decide
example : dumpTargets g23 [.slice none none (some (-2))] = .ok [[2], [0]] := rfl
example : KeyOK (axisSizes g23 false) [.int (-2), .slice none none none] := by decide
example : ¬ KeyOK (axisSizes g23 false) [.int 2, .int 0] := by decide
example : InRange g23.full [1, 2] ∧ extOf g23.mask [1, 2] = [2] ∧ intOf g23.mask [1, 2] = [1] := by decide
example : g23.full ≠ g23.shape ++ g23.internal := by decide
example : normalizeKey g23 false [.slice none none (some (-1)), .int 2] = .ok [.slc none none (some (-1)), .idx 2] ∧
    keyRanges g23.full [.slc none none (some (-1)), .idx 2] = .ok [[1, 0], [2]] := ⟨rfl, rfl⟩
example : (⟨[2], [2], [true, false]⟩ : Geom).full = [2] ++ [2] := by decide

end PF.C07
