import PfModel.DriverVal
import PfModel.Model.MapPieces
import PfModel.Model.MapPiecesSub
import PfModel.Model.MapPiecesFlow
import PfModel.Model.MapPiecesReduced
import PfModel.Model.MapPiecesWhole
import PfModel.Model.MapPiecesScope
import PfModel.Lemmas.MapTotal
/-! Driver for C06: `pieces.run` (a sequence of `map(fixed_indices=…, cleanup=False)` on one folder), `learners.make`
    (`create_learners`), `learners.exec` (a sequence of `learner.function(x)` calls on the shared store), `sel.indices`
    (the positions an `int | slice` selects on an axis).  The function/MapSpec schema is that of `Driver/C01.lean`. -/
open Lean PF PF.Drv PF.Map PF.Pieces

def getASpec (j : Json) : R ASpec := do
  let (n, ax) ← asPair asStr (asList (asOpt asStr)) j
  return { name := n, axes := ax }

def getMSpec (j : Json) : R MSpec := do
  return { inputs := ← listF getASpec j "inputs", outputs := ← listF getASpec j "outputs" }

def getMFunc (j : Json) : R MFunc := do
  return { name := ← strF j "name", params := ← listF (asPair asStr asStr) j "params", outputs := ← listF asStr j "outputs",
           mapspec := ← optF getMSpec j "mapspec", ret := ← optF (asList asNat) j "ret", internal := ← optF (asList asNat) j "internal",
           defaults := (← optF getKw j "defaults").getD [], bound := (← optF getKw j "bound").getD [] }

def putMErr : PF.Map.Err → Json
  | .value w => if w.startsWith "assert:" then jObj [("err", jStr "AssertionError"), ("why", jStr w)]
                else jObj [("err", jStr "ValueError"), ("why", jStr w)]
  | .type w => jObj [("err", jStr "TypeError"), ("why", jStr w)]
  | .index w => jObj [("err", jStr "IndexError"), ("why", jStr w)]
  | .key w => jObj [("err", jStr "KeyError"), ("why", jStr w)]
  | .fuel => jObj [("err", jStr "RecursionError")]

def putCall (c : Call) : Json := jArr [jStr c.name, putKw c.args]

/-- an `int`, or `{"sl": [start, stop, step]}` with `null` for an omitted bound -/
def getSel (j : Json) : R Sel :=
  match j with
  | .num _ => do return .idx (← asInt j)
  | _ => do
    match ← asList (asOpt asInt) (← fld j "sl") with
    | [a, b, c] => return .slice a b c
    | _ => .error "slice needs three entries"

def putSel : Sel → Json
  | .idx k => jInt k
  | .slice a b c => jObj [("sl", jArr [jOpt jInt a, jOpt jInt b, jOpt jInt c])]

def getFixed (j : Json) : R (Option (List (String × Sel))) := asOpt (asList (asPair asStr getSel)) j
def putFixed : Option (List (String × Sel)) → Json := jOpt (jList (jPair jStr putSel))

def putStore (store : List (String × Slot)) : List (String × Json) :=
  [("stored", putKw (store.map fun (o, s) => (o, s.toVal))),
   ("present", jList (jPair jStr (jOpt (jList jNat))) (store.map fun (o, s) => (o, presentOf s)))]

def putPart (r : PartResult) : Json :=
  jObj ([("outputs", putKw r.res.outputs), ("calls", jList putCall r.res.calls)] ++ putStore r.store)

/-- the parts in order, stopping at the first refusal; every part with the same `output_names` / `auto_subpipeline`
    (`runPartSub`; with neither it is `runPart`, `C06_sub_plain`) -/
def runPiecesObs (fs : List MFunc) (inputs : List (String × Val)) (ui : List (String × List Nat)) (S : Option (List String)) (auto : Bool) :
    List (Option (List (String × Sel))) → List (String × Slot) → List Json
  | [], _ => []
  | p :: ps, old =>
    match runPartSub fs inputs ui S auto p old with
    | .error e => [putMErr e]
    | .ok r => putPart r :: runPiecesObs fs inputs ui S auto ps r.store

def putLearner (l : Learner) : Json := jArr [jStr l.func, jOpt (jList jNat) l.seq]

def handle (m : String) (a : Json) : R Json := do
  match m with
  | "pieces.run" =>
    let fs ← listF getMFunc a "funcs"
    let inputs ← getKw (← fld a "inputs")
    let internal := (← optF (asList (asPair asStr (asList asNat))) a "internal").getD []
    let parts ← listF getFixed a "parts"
    let S ← optF (asList asStr) a "output_names"
    let auto := (← optF asBool a "auto").getD false
    return jArr (runPiecesObs fs inputs internal S auto parts [])
  | "learners.make" =>
    let fs ← listF getMFunc a "funcs"
    let inputs ← getKw (← fld a "inputs")
    let internal := (← optF (asList (asPair asStr (asList asNat))) a "internal").getD []
    let fixed ← getFixed ((fld? a "fixed").getD Json.null)
    let split ← boolF a "split"
    -- round 10: `element` = the functions declared with `resources_scope="element"` (their learners are split per element)
    let elem := (← optF (asList asStr) a "element").getD []
    match createLearnersScoped fs inputs internal fixed split elem with
    | .error e => return putMErr e
    | .ok ls => return jObj [("learners", jList (jPair putFixed (jList (jList putLearner))) ls)]
  | "learners.exec" =>
    let fs ← listF getMFunc a "funcs"
    let inputs ← getKw (← fld a "inputs")
    let internal := (← optF (asList (asPair asStr (asList asNat))) a "internal").getD []
    let steps ← listF (asPair asStr (asOpt asNat)) a "steps"
    match mapShapes fs inputs (constructInternal fs internal) with
    | .error e => return putMErr e
    | .ok (shapes, masks) =>
      match execSteps fs shapes masks inputs steps (initStore fs shapes masks) with
      | .error e => return putMErr e
      | .ok (store, calls) => return jObj ([("calls", jList (jList putCall) calls)] ++ putStore store)
  | "flow.wf" =>
    -- the static hypotheses of `C06_pieces_flow` for each of the given `fixed_indices` dictionaries: `flowWF` on the shapes and
    -- masks of the full run of the (narrowed) pipeline, unique output names, and whether `_validate_fixed_indices` accepts it
    let fs ← listF getMFunc a "funcs"
    let inputs ← getKw (← fld a "inputs")
    let internal := (← optF (asList (asPair asStr (asList asNat))) a "internal").getD []
    let fixed ← listF (asList (asPair asStr getSel)) a "fixed"
    let S ← optF (asList asStr) a "output_names"
    let auto := (← optF asBool a "auto").getD false
    match Sub.prepare fs inputs S auto with
    | .error e => return putMErr (subErr e)
    | .ok sub =>
      match runPart sub inputs internal none [] with
      | .error e => return putMErr e
      | .ok rF =>
        let accepted (fx : List (String × Sel)) : Bool := match validateFixed sub inputs (some fx) with | .ok _ => true | .error _ => false
        -- round 3: `conforms` = C01's `Conforms` of the (narrowed) request — the hypothesis under which `flowWF` is DERIVED for every
        -- accepted dictionary (`C06_flowWF_of_conforms`); where it is false `flowWF` is only evaluated
        return jObj [("wf", jList jBool (fixed.map fun fx => flowWF sub rF.res.shapes rF.res.masks inputs fx)),
                     ("accepted", jList jBool (fixed.map accepted)),
                     ("nodup", jBool (decide (akeys rF.store).Nodup)),
                     ("conforms", jBool (PF.C01.Conforms sub inputs internal))]
  | "pieces.whole" =>
    -- round 9: the hypotheses and conclusions of `C06_pieces_whole` / `C06_final_recomputes_uncovered` (Props/C06Whole.lean) for one
    -- sequence of `fixed_indices` dictionaries run on an empty folder: do the masks cover every mapped function (`coverB`), which
    -- external indices does no part select (`uncovered`, from the masks alone), what does the folder the parts leave miss
    -- (`missingOf`), is it complete, and how many calls does a final full run make
    let fs ← listF getMFunc a "funcs"
    let inputs ← getKw (← fld a "inputs")
    let internal := (← optF (asList (asPair asStr (asList asNat))) a "internal").getD []
    let parts ← listF (asList (asPair asStr getSel)) a "parts"
    let S ← optF (asList asStr) a "output_names"
    let auto := (← optF asBool a "auto").getD false
    match Sub.prepare fs inputs S auto with
    | .error e => return putMErr (subErr e)
    | .ok sub =>
      match mapShapes sub inputs (constructInternal sub internal) with
      | .error e => return putMErr e
      | .ok (shapes, masks) =>
        let gens := (generations sub).flatten
        let hyp := decide ((gens.flatMap (·.outputs)).Nodup) && gens.all (fun f => !f.outputs.isEmpty)
        let putTbl := jList (jPair jStr (jList jNat))
        let mapped := gens.filterMap fun f => match mappedInfo shapes masks f with
          | some (_, sh, mk) => some (jArr [jStr f.name, jList jStr f.outputs, jNat (prod (extOf mk sh))])
          | none => none
        let base := [("hyp", jBool hyp), ("cover", jBool (coverB sub shapes masks parts)),
                     ("uncovered", putTbl (uncovered sub shapes masks parts)), ("mapped", jArr mapped)]
        match runPieces sub inputs internal (parts.map some) [] with
        | .error e => return jObj (base ++ [("run", putMErr e)])
        | .ok rs =>
          let Sf := finalStore rs []
          let fin := match runPart sub inputs internal none Sf with
            | .ok rL => jNat rL.res.calls.length
            | .error e => putMErr e
          return jObj (base ++ [("missing", putTbl (missingOf sub shapes masks Sf)), ("complete", jBool (completeB sub shapes masks Sf)),
                                ("final_calls", fin)])
  | "reduced.table" =>
    -- round 4: `_reduced_axes(pipeline)` as a dictionary (rows without an axis are not created by pipefunc: dropped), next to
    -- `Pipeline.mapspec_axes` and the axes some function maps over
    let fs ← listF getMFunc a "funcs"
    let inputs ← getKw (← fld a "inputs")
    let S ← optF (asList asStr) a "output_names"
    let auto := (← optF asBool a "auto").getD false
    match Sub.prepare fs inputs S auto with
    | .error e => return putMErr (subErr e)
    | .ok sub =>
      return jObj [("reduced", jList (jPair jStr (jList jStr)) ((reducedTable sub).filter fun r => !r.2.isEmpty)),
                   ("axes", jList (jPair jStr (jList (jOpt jStr))) (mapspecAxes sub)),
                   ("mapped", jList jStr (mappedAxes sub))]
  | "sel.indices" =>
    let d ← natF a "d"
    let s ← getSel (← fld a "sel")
    match selIndices d s with
    | .error e => return putMErr e
    | .ok l => return jList jNat l
  | "seq.legacy" =>
    return jList jNat (legacySeq (← listF asNat a "shape"))
  | _ => .error s!"unknown entry {m}"

def main : IO Unit := loop handle
