/-
C12, round 9: the CALL path — what `Pipeline.run` / `Pipeline.__call__` / `Pipeline.func(out)(**kw)` check before the first user
function is invoked (`pipefunc/_pipeline/_base.py`).

`Pipeline.run(output_name, kwargs=…)` (`_base.py:598-656`), in the code's order:
 1. `self.mapspec_names` (`_base.py:1119-1125`) → `self.mapspecs()` [ordered] → `sorted_functions` → `topological_generations`
    → `graph`: `validate_unique_output_names_of`, `validate_consistent_defaults`, then `nx.topological_generations`
    (`NetworkXUnfeasible` on a cycle) — the three lazy checks of `lazySteps` (`Model/ValidateEdit.lean`).  There is no other cycle
    test on this path: `func_dependencies`, `root_args`, `_run` only read `graph`.
 2. `self.func_dependencies(output_name)` → `_traverse_graph` → `node_mapping[output_name]`: `KeyError` for a name that is no node.
 3. `mapspec_names & set(func_dependencies)` non-empty → `RuntimeError` ("Use `Pipeline.map` instead").  `func_dependencies` lists the
    `output_name`s of the functions UPSTREAM of the requested one (not the function itself); a tuple-valued `output_name` is a tuple
    there and never equals a (string) MapSpec name.
 4. `output_name in kwargs` → `ValueError`.
 5. `_run` → `self.output_to_func[output_name]`: `KeyError` when the name is a root argument, not an output.
 6. the lazy evaluation (C02's subject): the user calls.
`Pipeline.__call__(out, **kw)` is `run(out, kwargs=kw)` (`_base.py:456-477`).  `Pipeline.func(out)` (`_base.py:428-447`) computes
`root_args(out)` → `arg_combinations` → `node_mapping[out]` → `graph` (the first two lazy checks, NOT the cycle test; `KeyError` for an
unknown name) and the returned `_PipelineAsFunc.__call__(**kw)` is `pipeline.run(out, kwargs=kw)` (`_base.py:1968-1981`).
Core Lean only.
-/
import PfModel.Model.ValidateEdit
namespace PF.Validate
open PF PF.Map

/-- a request on the call path: the output asked for and the NAMES of the keyword arguments -/
structure CallReq where
  output : String
  kwargs : List String
  deriving Repr, DecidableEq, Inhabited

/-- one round of `_traverse_graph(…, "predecessors", …)`: the not yet visited upstream functions of the frontier -/
def depsStep (fs : List MFunc) (frontier seen : List String) : List String :=
  (((fs.filter fun g => frontier.contains g.name).flatMap (upstream fs)).eraseDups).filter fun n => !seen.contains n

/-- names of the functions upstream of the frontier, transitively (breadth first; `fuel` rounds) -/
def depsFrom (fs : List MFunc) : Nat → List String → List String → List String
  | 0, _, seen => seen
  | fuel+1, frontier, seen =>
    let next := depsStep fs frontier seen
    if next.isEmpty then seen else depsFrom fs fuel next (seen ++ next)

/-- `func_dependencies(out)`: the functions upstream of the producer of `out` (by name; the producer itself only on a cycle) -/
def funcDeps (fs : List MFunc) (out : String) : List String :=
  match producer fs out with
  | none => []
  | some f => depsFrom fs (fs.length + 1) [f.name] []

/-- `mapspec_names & set(func_dependencies(out))`: an upstream function with a single (string) output name that a MapSpec names -/
def mapspecInDeps (fs : List MFunc) (out : String) : Bool :=
  fs.any fun g => (funcDeps fs out).contains g.name &&
    (match g.outputs with | [o] => (mapspecNames fs).contains o | _ => false)

/-- the gate of `Pipeline.run` after the cached properties are recomputed (steps 2-5 above), in the code's order.
    `RuntimeError` has no class of its own in `Exc`: it is `.other` here (the driver prints it as `RuntimeError`). -/
def callChecks (fs : List MFunc) (q : CallReq) : List Step :=
  [ boolStep "unknown-output" ((nodeNames fs).contains q.output) .key,
    boolStep "mapspec-in-dependencies" (!mapspecInDeps fs q.output) .other,
    boolStep "output-in-kwargs" (!q.kwargs.contains q.output) .value,
    boolStep "output-is-no-function" ((allOutputs fs).contains q.output) .key ]

/-- `Pipeline.run` / `Pipeline.__call__`: the lazy checks, the gate, then whatever the lazy evaluation invokes -/
def callSteps (fs : List MFunc) (q : CallReq) (calls : List String) : List Step :=
  lazySteps fs ++ callChecks fs q ++ (calls.map Effect.call).map Step.eff

def startCall (fs : List MFunc) (q : CallReq) (calls : List String) : List Effect × V Unit := exec (callSteps fs q calls)

/-- what `Pipeline.func(out)` itself checks: `graph` is recomputed (not the generations), `node_mapping[out]` -/
def funcChecks (fs : List MFunc) (q : CallReq) : List Step :=
  [ boolStep "duplicate-output" (uniqueOutputs fs) .value,
    boolStep "inconsistent-defaults" (defaultsConsistent fs) .value,
    boolStep "unknown-output" ((nodeNames fs).contains q.output) .key ]

/-- `pipeline.func(out)(**kwargs)` -/
def startFunc (fs : List MFunc) (q : CallReq) (calls : List String) : List Effect × V Unit :=
  exec (funcChecks fs q ++ callSteps fs q calls)

/-- build (all constructors), then act on the call path: the construction's refusal comes first -/
def constructThenCall (fs : List MFunc) (q : CallReq) (calls : List String) (viaFunc : Bool) : List Effect × V Unit :=
  match construct fs with
  | .error e => ([], .error e)
  | .ok _ => if viaFunc then startFunc fs q calls else startCall fs q calls

/-- build a valid pipeline, edit it in place, then act on the call path -/
def sessionCall (base : List MFunc) (edits : List Edit) (q : CallReq) (calls : List String) (viaFunc : Bool) : List Effect × V Unit :=
  match applyEdits (base.map EFunc.ofMFunc) edits with
  | .error x => ([], .error x)
  | .ok es => if viaFunc then startFunc (funcsOf es) q calls else startCall (funcsOf es) q calls

/-! ### the tie to the source (round 9): predicates on the extracted call / read lists of `Generated/C12Facts.lean` -/

/-- `Pipeline.run`: `mapspec_names` is read and `func_dependencies` called on every path and first, both `raise`s of the gate
    precede `_run`, and `run` itself executes nothing -/
def runGateOK (all uncond : List String) : Bool :=
  isSubseq ["self.mapspec_names", "self.func_dependencies", "raise", "raise", "self._run"] all &&
  all.head? == some "self.mapspec_names" && uncond.head? == some "self.mapspec_names" &&
  isSubseq ["self.mapspec_names", "self.func_dependencies", "self._run"] uncond &&
  !(all.contains "_execute_func") && (all.filter (· == "self._run")).length == 1

/-- the chain that carries the cycle test to the call path: `mapspec_names` calls `self.mapspecs` WITHOUT arguments (a call with
    `ordered=False` is listed under another name), the default of `ordered` is `True`, `mapspecs` reads `sorted_functions`,
    `sorted_functions` reads `topological_generations` on every path, which calls `nx.topological_generations` on every path and
    reads `graph`, which makes both validations on every path before it builds the graph -/
def cycleChainOK (mapspecNamesC orderedDefault mapspecsC sortedU topoU topoAll graphU : List String) : Bool :=
  mapspecNamesC.contains "self.mapspecs" && orderedDefault == ["True"] && mapspecsC.contains "self.sorted_functions" &&
  sortedU.contains "self.topological_generations" && topoU.contains "nx.topological_generations" &&
  (topoAll.contains "self.graph" || topoAll.contains "self.graph.copy") &&
  isSubseq ["validate_unique_output_names_of", "validate_consistent_defaults", "nx.DiGraph"] graphU

/-- the other entries of the call path end in `run`: `__call__` → `self.run`; `_PipelineAsFunc.__call__` → `self.pipeline.run`;
    `func` → `root_args` → `arg_combinations` → `node_mapping` → `graph`; `func_dependencies` reads `graph` and `node_mapping` -/
def callEntriesOK (dunder asFunc func rootArgs argComb nodeMap funcDepsC : List String) : Bool :=
  isSubseq ["self.run", "return"] dunder && isSubseq ["self.pipeline.run", "return"] asFunc &&
  isSubseq ["self.root_args", "_PipelineAsFunc"] func && rootArgs.contains "self.arg_combinations" &&
  argComb.contains "self.node_mapping" && nodeMap.contains "self.graph" &&
  funcDepsC.contains "self.node_mapping" && funcDepsC.contains "_traverse_graph"

/-- `_run`: the one place a user function is executed, after its arguments were collected (recursively through `_run`) -/
def innerRunOK (inner : List String) : Bool :=
  isSubseq ["self._get_func_args", "_execute_func"] inner && (inner.filter (· == "_execute_func")).length == 1

/-- construction: `add` validates on every path (clash test, append, `_validate`), `_validate` reaches `_validate_mapspec`,
    that reaches `_autogen_mapspec_axes`, which reads `topological_generations` — all on EVERY path (no early return before) -/
def ctorCycleUncondOK (add validate validateMapspec autogen : List String) : Bool :=
  isSubseq ["validate_unique_output_names", "self.functions.append", "self._validate"] add &&
  isSubseq ["validate_unique_output_names_of", "validate_consistent_defaults", "self._validate_mapspec"] validate &&
  isSubseq ["validate_consistent_axes", "self._autogen_mapspec_axes"] validateMapspec &&
  autogen.contains "self.topological_generations"

end PF.Validate
