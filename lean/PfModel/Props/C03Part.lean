import PfModel.Lemmas.SchedPart
import PfModel.Props.C03
import PfModel.Props.C06
/-!
C03 (extension) — schedule / executor / storage independence on a store that already holds elements (`cleanup=False`),
with `fixed_indices`, and for the async entry point.

`PF.SchedP.runPartSched mode …` is the model of `Pipeline.map(parallel=True, fixed_indices=…, cleanup=False)` (`mode = sync`)
and of `Pipeline.map_async(…)` (`mode = gather`) on a run folder holding `old`: futures are submitted for `args.missing`
only, results are paired with `args.missing` by position, existing elements are loaded by the parent, the worker of an
un-mapped function loads its outputs when a previous run stored them.  The sequential counterpart is `PF.Pieces.runPart`
(C06, whose theorems say what a partial run computes).
-/
namespace PF.C03
open PF PF.Map PF.Sched PF.Pieces PF.SchedP

/-- **Bridge (reads), non-fresh store.** What a task body computes is the same whatever the storage arrays of its own
    generation hold — elements of a previous run and elements other bodies have dumped so far. -/
theorem C03_part_body_reads_earlier (fs : List MFunc) (shapes : List (String × List Nat)) (masks : List (String × List Bool))
    (old : List (String × Slot)) (env : Env) (gen : List MFunc) (D : Dumps) (f : MFunc) (hf : f ∈ gen) (hind : GenIndep gen)
    (plan : PlanP) (k : Nat) :
    bodyRunP fs old (viewEnvP shapes masks old env gen D) f plan k = bodyRunP fs old env f plan k :=
  bodyRunP_view fs shapes masks old env gen D f hf hind plan k

/-- **One generation on any store, every schedule = the sequential partial run.** For every previous store `old`, every
    `fixed_indices`, every order in which the submitted bodies run and every `dump_in_subprocess` assignment: the function
    results (returned arrays incl. the loaded existing elements, store slots, per-function call lists) are those of the
    sequential generation step of `runPart` — errors included. -/
theorem C03_part_gen_eq_sequential (fs : List MFunc) (shapes : List (String × List Nat)) (masks : List (String × List Bool))
    (fixed : Option (List (String × Sel))) (old : List (String × Slot))
    (dumpSub : String → Bool) (env : Env) (gen : List MFunc) (order : List TaskId)
    (hperm : order.Perm (idsFromP 0 (plannedP shapes masks fixed old gen)))
    (hind : GenIndep gen) (hdis : gen.Pairwise fun a b => ∀ o, o ∈ a.outputs → o ∉ b.outputs) :
    (runGenSchedP .sync fs shapes masks fixed old dumpSub env gen order).map (·.1) =
      runGenWith (runFuncPart fs shapes masks fixed old) env gen :=
  runGenSchedP_results fs shapes masks fixed old dumpSub env gen order hperm hind hdis

/-- the generation loop of a parallel partial run = the generation loop of the sequential one -/
theorem runGensP_results (fs : List MFunc) (shapes : List (String × List Nat)) (masks : List (String × List Bool))
    (fixed : Option (List (String × Sel))) (old : List (String × Slot)) (dumpSub : String → Bool) (sched : Scheds)
    (hs : ValidScheds sched) (huo : UniqueOutputs fs) (env : Env) :
    (runGensG (genRunner .sync fs shapes masks fixed old dumpSub sched) 0 (generations fs) env).map (fun r => (r.1, r.2.1)) =
      runGensWith (runFuncPart fs shapes masks fixed old) (generations fs) env :=
  runGensG_results _ _ (fun gen => GenIndep gen ∧ gen.Pairwise fun a b => ∀ o, o ∈ a.outputs → o ∉ b.outputs)
    (fun g env gen hq => runGenSchedP_results fs shapes masks fixed old dumpSub env gen _ (hs g _) hq.1 hq.2)
    (generations fs) 0 env (C03_layer_independent fs huo)

/-- **C03 on a non-fresh store with fixed indices (whole map).** For every pipeline with unique output names, all inputs,
    every previous store, every `fixed_indices`, every family of schedules and every `dump_in_subprocess` assignment, the
    parallel runner returns exactly what the sequential partial run `runPart` returns: outputs, stored data, the store it
    leaves for the next run, shapes, masks, per-function call lists, generations — or the same error. -/
theorem C03_part_eq_sequential (fs : List MFunc) (inputs : List (String × Val)) (ui : List (String × List Nat))
    (fixed : Option (List (String × Sel))) (old : List (String × Slot))
    (dumpSub : String → Bool) (sched : Scheds) (hs : ValidScheds sched) (huo : UniqueOutputs fs) :
    (runPartSched .sync fs inputs ui fixed old dumpSub sched).map (·.1) = runPart fs inputs ui fixed old := by
  unfold runPartSched runPart
  cases validateInputs fs inputs with
  | error e => rfl
  | ok _ =>
    simp only [bind, Except.bind]
    split
    · rfl
    · cases validateFixed fs inputs fixed with
      | error e => rfl
      | ok _ =>
        simp only []
        cases mapShapes fs inputs (constructInternal fs ui) with
        | error e => rfl
        | ok sm =>
          obtain ⟨shapes, masks⟩ := sm
          have h := runGensP_results fs shapes masks fixed old dumpSub sched hs huo { inputs := inputs, store := [] }
          simp only []
          cases hr : runGensG (genRunner .sync fs shapes masks fixed old dumpSub sched) 0 (generations fs) { inputs := inputs, store := [] } with
          | error e =>
            rw [hr] at h; simp only [Except.map] at h
            simp only [← h, Except.map]
          | ok w =>
            obtain ⟨rs, envF, trs⟩ := w
            rw [hr] at h; simp only [Except.map] at h
            simp only [← h, Except.map, pure, Except.pure]

/-- **Executor, storage and schedule independence of a resumed / partial run.** -/
theorem C03_part_schedule_independent (fs : List MFunc) (inputs : List (String × Val)) (ui : List (String × List Nat))
    (fixed : Option (List (String × Sel))) (old : List (String × Slot))
    (dumpSub dumpSub' : String → Bool) (sched sched' : Scheds) (hs : ValidScheds sched) (hs' : ValidScheds sched')
    (huo : UniqueOutputs fs) :
    (runPartSched .sync fs inputs ui fixed old dumpSub sched).map (·.1) =
      (runPartSched .sync fs inputs ui fixed old dumpSub' sched').map (·.1) := by
  rw [C03_part_eq_sequential fs inputs ui fixed old dumpSub sched hs huo,
      C03_part_eq_sequential fs inputs ui fixed old dumpSub' sched' hs' huo]

/-- the general runner extends the fresh-store one: nothing fixed, empty folder ⇒ the result of `PF.Map.runMap` (hence of
    `runMapSched`, `C03_map_eq_sequential`, and the MapSpec denotation) -/
theorem C03_part_fresh_is_map (fs : List MFunc) (inputs : List (String × Val)) (ui : List (String × List Nat))
    (dumpSub : String → Bool) (sched : Scheds) (hs : ValidScheds sched) (huo : UniqueOutputs fs) :
    (runPartSched .sync fs inputs ui none [] dumpSub sched).map (·.1.res) = runMap fs inputs ui := by
  have h := C03_part_eq_sequential fs inputs ui none [] dumpSub sched hs huo
  rw [← PF.C06.C06_full_is_runMap fs inputs ui, ← h]
  cases runPartSched .sync fs inputs ui none [] dumpSub sched <;> rfl

/-- **Running in pieces under schedules.** A sequence of parallel `map(fixed_indices=pᵢ, cleanup=False)` runs on one folder,
    each under its own family of schedules, leaves after every part what the sequential sequence leaves (so C06's theorems
    about pieces transfer to parallel execution). -/
theorem C03_pieces_eq_sequential (fs : List MFunc) (inputs : List (String × Val)) (ui : List (String × List Nat))
    (dumpSub : String → Bool) (huo : UniqueOutputs fs) :
    ∀ (parts : List (Option (List (String × Sel)) × Scheds)) (old : List (String × Slot)), (∀ p ∈ parts, ValidScheds p.2) →
      (runPiecesSched .sync fs inputs ui dumpSub parts old).map (List.map (·.1)) = runPieces fs inputs ui (parts.map (·.1)) old := by
  intro parts
  induction parts with
  | nil => intro old _; rfl
  | cons p ps ih =>
    intro old hv
    obtain ⟨fx, sched⟩ := p
    have h := C03_part_eq_sequential fs inputs ui fx old dumpSub sched (hv _ List.mem_cons_self) huo
    simp only [runPiecesSched, runPieces, List.map_cons]
    cases hr : runPartSched .sync fs inputs ui fx old dumpSub sched with
    | error e =>
      rw [hr] at h; simp only [Except.map] at h
      simp only [bind, Except.bind, ← h, Except.map]
    | ok w =>
      rw [hr] at h; simp only [Except.map] at h
      have ih' := ih w.1.store (fun p hp => hv p (List.mem_cons_of_mem _ hp))
      simp only [bind, Except.bind, ← h]
      cases hrr : runPiecesSched .sync fs inputs ui dumpSub ps w.1.store with
      | error e =>
        rw [hrr] at ih'; simp only [Except.map] at ih'
        simp only [← ih', Except.map]
      | ok rest =>
        rw [hrr] at ih'; simp only [Except.map] at ih'
        simp only [← ih', Except.map, pure, Except.pure, List.map_cons]

/-! ### once per *missing selected* index, barrier -/

theorem runPartSched_ok (mode : Await) (fs : List MFunc) (inputs : List (String × Val)) (ui : List (String × List Nat))
    (fixed : Option (List (String × Sel))) (old : List (String × Slot))
    (dumpSub : String → Bool) (sched : Scheds) (res : PartResult) (trs : List GenTrace)
    (h : runPartSched mode fs inputs ui fixed old dumpSub sched = .ok (res, trs)) :
    ∃ shapes masks rs env, runGensG (genRunner mode fs shapes masks fixed old dumpSub sched) 0 (generations fs)
        { inputs := inputs, store := [] } = .ok (rs, env, trs) ∧ res.res.calls = rs.flatMap (·.calls) := by
  unfold runPartSched at h
  simp only [bind, Except.bind] at h
  split at h
  · cases h
  · split at h
    · cases h
    · split at h
      · cases h
      · split at h
        · cases h
        · next sm _ =>
          obtain ⟨shapes, masks⟩ := sm
          simp only at h
          split at h
          · cases h
          · next w hw =>
            obtain ⟨rs, env, trs'⟩ := w
            simp only [pure, Except.pure, Except.ok.injEq, Prod.mk.injEq] at h
            obtain ⟨rfl, rfl⟩ := h
            exact ⟨shapes, masks, rs, env, hw, rfl⟩

/-- **Once (one generation, any store).** Under every schedule and either way of awaiting, the bodies that ran are a
    permutation without repetition of the submitted futures; there is exactly one future per un-mapped function and, for a
    mapped function, one per position of `args.missing` — which is the duplicate-free list of the indices that are selected
    by `fixed_indices` **and** missing in the store: no index that is already stored, and no unselected index, is computed. -/
theorem C03_part_once (mode : Await) (fs : List MFunc) (shapes : List (String × List Nat)) (masks : List (String × List Bool))
    (fixed : Option (List (String × Sel))) (old : List (String × Slot))
    (dumpSub : String → Bool) (env : Env) (gen : List MFunc) (order : List TaskId)
    (hperm : order.Perm (idsFromP 0 (plannedP shapes masks fixed old gen))) (hind : GenIndep gen)
    (rs : List FuncResult) (tr : GenTrace) (h : runGenSchedP mode fs shapes masks fixed old dumpSub env gen order = .ok (rs, tr)) :
    tr.ran.Perm tr.ids ∧ tr.ids.Nodup ∧ tr.ran.Nodup ∧
    (∀ j k, (j, k) ∈ tr.ran ↔ ∃ f, gen[j]? = some f ∧ k < nFutP (planOfP shapes masks fixed old f)) ∧
    ∀ f ∈ gen, ∀ ms sh mk sel todo, planOfP shapes masks fixed old f = .mapped ms sh mk sel todo →
      todo.Nodup ∧ ∀ li, li ∈ todo ↔ li < prod (extOf mk sh) ∧ sel li = true ∧ missingIn f.outputs (oldCells old) li = true := by
  obtain ⟨hi, hr, _, _⟩ := runGenSchedP_trace mode fs shapes masks fixed old dumpSub env gen order hperm hind rs tr h
  rw [hi, hr]
  refine ⟨hperm, idsFromP_nodup _ 0, hperm.nodup_iff.mpr (idsFromP_nodup _ 0), ?_, ?_⟩
  · intro j k
    rw [hperm.mem_iff, mem_idsP_iff_valid]
    simp only [validIdP, plannedP, List.getElem?_map, Option.map_eq_some_iff]
    constructor
    · rintro ⟨fp, ⟨f, hf, rfl⟩, hlt⟩; exact ⟨f, hf, hlt⟩
    · rintro ⟨f, hf, hlt⟩; exact ⟨_, ⟨f, hf, rfl⟩, hlt⟩
  · intro f _ ms sh mk sel todo hp
    have hok := planOfP_ok shapes masks fixed old f
    rw [hp] at hok
    simp only [PlanOK] at hok
    subst hok
    exact ⟨todoOf_nodup _ _ _ _, fun li => mem_todoOf _ _ _ _ li⟩

/-- **Once (whole run).** -/
theorem C03_part_once_map (mode : Await) (fs : List MFunc) (inputs : List (String × Val)) (ui : List (String × List Nat))
    (fixed : Option (List (String × Sel))) (old : List (String × Slot))
    (dumpSub : String → Bool) (sched : Scheds) (hs : ValidScheds sched) (huo : UniqueOutputs fs)
    (res : PartResult) (trs : List GenTrace) (h : runPartSched mode fs inputs ui fixed old dumpSub sched = .ok (res, trs)) :
    ∀ tr ∈ trs, tr.ran.Perm tr.ids ∧ tr.ids.Nodup ∧ tr.ran.Nodup := by
  obtain ⟨shapes, masks, rs, env, hg, _⟩ := runPartSched_ok mode fs inputs ui fixed old dumpSub sched res trs h
  refine runGensG_traces _ (fun tr => tr.ran.Perm tr.ids ∧ tr.ids.Nodup ∧ tr.ran.Nodup) GenIndep ?_
    (generations fs) 0 _ _ (fun gen hgen => (C03_layer_independent fs huo gen hgen).1) hg
  intro g env gen rs tr hq hrun
  obtain ⟨a, b, c, _⟩ := C03_part_once mode fs shapes masks fixed old dumpSub env gen _ (hs g _) hq rs tr hrun
  exact ⟨a, b, c⟩

/-- **Once, as a call multiset.** The calls executed — in whatever order the schedules produce — are a permutation of the
    call list of the run, which `C03_part_eq_sequential` identifies with the sequential partial run's: one call per selected
    missing index (`C06_part`), none for an un-mapped function whose outputs were stored. -/
theorem C03_part_calls_perm (mode : Await) (fs : List MFunc) (inputs : List (String × Val)) (ui : List (String × List Nat))
    (fixed : Option (List (String × Sel))) (old : List (String × Slot))
    (dumpSub : String → Bool) (sched : Scheds) (hs : ValidScheds sched) (huo : UniqueOutputs fs)
    (res : PartResult) (trs : List GenTrace) (h : runPartSched mode fs inputs ui fixed old dumpSub sched = .ok (res, trs)) :
    (trs.flatMap (·.calls)).Perm res.res.calls := by
  obtain ⟨shapes, masks, rs, env, hg, hc⟩ := runPartSched_ok mode fs inputs ui fixed old dumpSub sched res trs h
  rw [hc]
  exact runGensG_calls_perm _ GenIndep
    (fun g env gen rs tr hq hrun => runGenSchedP_calls_perm mode fs shapes masks fixed old dumpSub env gen _ (hs g _) hq rs tr hrun)
    (generations fs) 0 _ _ (fun gen hgen => (C03_layer_independent fs huo gen hgen).1) hg

/-- **Barrier** for resumed / partial / async runs. -/
theorem C03_part_barrier (mode : Await) (fs : List MFunc) (inputs : List (String × Val)) (ui : List (String × List Nat))
    (fixed : Option (List (String × Sel))) (old : List (String × Slot))
    (dumpSub : String → Bool) (sched : Scheds) (hs : ValidScheds sched) (huo : UniqueOutputs fs)
    (res : PartResult) (trs : List GenTrace) (h : runPartSched mode fs inputs ui fixed old dumpSub sched = .ok (res, trs))
    (g : Nat) (id : TaskId) (l1 l2 : List (Nat × TaskId)) (hlog : runLog 0 trs = l1 ++ (g + 1, id) :: l2)
    (tr : GenTrace) (htr : trs[g]? = some tr) : ∀ id' ∈ tr.ids, (g, id') ∈ l1 := by
  intro id' hid'
  have hp := (C03_part_once_map mode fs inputs ui fixed old dumpSub sched hs huo res trs h tr (List.mem_of_getElem? htr)).1
  exact runLog_barrier trs 0 g id l1 l2 hlog (Nat.zero_le _) tr (by simpa using htr) id' (hp.mem_iff.mpr hid')

/-! ### the async entry point -/

/-- **`map_async` = `map`.** `_process_task_async` awaits the futures of a function with `asyncio.gather`, which returns the
    results in submission order whatever the completion order.  For every pipeline, inputs, store, fixed indices, schedule
    family and storage assignment: when the blocking runner succeeds the async runner returns the same result and the same
    trace (execution log, calls, dumps); when the blocking runner fails the async runner fails too (possibly with the
    exception of another failing task of the same function: the one that failed first in time, `C03_async_first_failure`). -/
theorem C03_async_eq_sync (fs : List MFunc) (inputs : List (String × Val)) (ui : List (String × List Nat))
    (fixed : Option (List (String × Sel))) (old : List (String × Slot)) (dumpSub : String → Bool) (sched : Scheds) :
    (∀ r, runPartSched .sync fs inputs ui fixed old dumpSub sched = .ok r →
          runPartSched .gather fs inputs ui fixed old dumpSub sched = .ok r) ∧
    (∀ e, runPartSched .sync fs inputs ui fixed old dumpSub sched = .error e →
          ∃ e', runPartSched .gather fs inputs ui fixed old dumpSub sched = .error e') := by
  have hsim : Sim (runPartSched .sync fs inputs ui fixed old dumpSub sched) (runPartSched .gather fs inputs ui fixed old dumpSub sched) := by
    unfold runPartSched
    refine Sim.bind (Sim.refl _) (fun _ => ?_)
    split
    · exact Sim.refl _
    · refine Sim.bind (Sim.refl _) (fun _ => Sim.bind (Sim.refl _) (fun sm => ?_))
      refine Sim.bind (runGensG_sim _ _ (fun g env gen => ?_) _ _ _) (fun w => Sim.refl _)
      exact runGenSchedP_sim fs sm.1 sm.2 fixed old dumpSub env gen _
  constructor
  · intro r h; rw [h] at hsim; exact hsim
  · intro e h; rw [h] at hsim; exact hsim

/-- hence `map_async` under any schedule returns what the sequential run returns, whenever that succeeds -/
theorem C03_async_eq_sequential (fs : List MFunc) (inputs : List (String × Val)) (ui : List (String × List Nat))
    (fixed : Option (List (String × Sel))) (old : List (String × Slot))
    (dumpSub : String → Bool) (sched : Scheds) (hs : ValidScheds sched) (huo : UniqueOutputs fs)
    (r : PartResult) (h : runPart fs inputs ui fixed old = .ok r) :
    (runPartSched .gather fs inputs ui fixed old dumpSub sched).map (·.1) = .ok r := by
  have hseq := C03_part_eq_sequential fs inputs ui fixed old dumpSub sched hs huo
  rw [h] at hseq
  cases hr : runPartSched .sync fs inputs ui fixed old dumpSub sched with
  | error e => rw [hr] at hseq; cases hseq
  | ok w =>
    rw [hr] at hseq
    rw [(C03_async_eq_sync fs inputs ui fixed old dumpSub sched).1 w hr]
    exact hseq

/-- what `asyncio.gather` raises for a function is the exception of the future (of that function) that failed **first in
    completion order**; every future of the function that completed before it had succeeded -/
theorem C03_async_first_failure (st : GStateP) (ids : List TaskId) (e : Err) (h : firstFailed st.futs ids st.ran = some e) :
    awaitAll .gather st ids = .error e ∧
    ∃ l1 id l2, st.ran = l1 ++ id :: l2 ∧ id ∈ ids ∧ klookup st.futs id = some (.error e) ∧
      ∀ id' ∈ l1, id' ∈ ids → ∀ e', klookup st.futs id' ≠ some (.error e') := by
  refine ⟨by simp only [awaitAll, h]; rfl, firstFailed_some st.futs ids st.ran e h⟩

/-! ### non-vacuity -/

private def el (n : String) (ins : List String) (out : String) : MFunc :=
  { name := n, params := ins.map fun p => (p, p), outputs := [out],
    mapspec := some { inputs := ins.map fun p => ⟨p, [some "i"]⟩, outputs := [⟨out, [some "i"]⟩] },
    ret := none, internal := none, defaults := [], bound := [] }

private def exFs : List MFunc := [el "g" ["y", "w"] "z", el "f" ["x"] "y", el "h" ["x"] "w"]
private def exIn : List (String × Val) := [("x", .arr [3] [.int 1, .int 2, .int 3])]
private def revSched : Scheds := fun _ ids => ids.reverse
/-- a previous run left element 1 of `y` and elements 0, 1 of `w` -/
private def exOld : List (String × Slot) :=
  [("y", .array [3] [true] [(1, .str "old-y1")]), ("w", .array [3] [true] [(0, .str "old-w0"), (1, .str "old-w1")])]

example : UniqueOutputs exFs := by simp [UniqueOutputs, exFs, el]
example : ValidScheds revSched := fun _ ids => List.reverse_perm ids

/-- the resumed run under the reversed schedule submits futures for the missing elements only — `f`: 0 and 2, `h`: 2 —,
    runs them in reverse, and `g` (nothing stored) computes all three -/
example : ((runPartSched .sync exFs exIn [] none exOld (fun o => o == "y") revSched).toOption.map fun r => r.2.map (·.ran)) =
    some [[(1, 0), (0, 1), (0, 0)], [(0, 2), (0, 1), (0, 0)]] := by decide
/-- … the worker dumps `y` at the *indices* 2 and 0 (positions 1 and 0 of `missing`), the parent dumps `w[2]` -/
example : ((runPartSched .sync exFs exIn [] none exOld (fun o => o == "y") revSched).toOption.map fun r =>
      r.2.map fun tr => tr.dumps.map fun d => (d.out, d.idx, d.inWorker)) =
    some [[("y", some 2, true), ("y", some 0, true), ("w", some 2, false)],
          [("z", some 0, false), ("z", some 1, false), ("z", some 2, false)]] := by decide
/-- … and it agrees with the sequential resumed run, which keeps the stored elements -/
example : ((runPartSched .sync exFs exIn [] none exOld (fun o => o == "y") revSched).toOption.map fun r => r.1.res.calls.map (·.name)) =
    ((runPart exFs exIn [] none exOld).toOption.map fun r => r.res.calls.map (·.name)) := by decide
/-- with `fixed_indices = {i: 2}` only index 2 is submitted, for every function -/
example : ((runPartSched .gather exFs exIn [] (some [("i", .idx 2)]) exOld (fun _ => false) revSched).toOption.map fun r => r.2.map (·.ran)) =
    some [[(1, 0), (0, 0)], [(0, 0)]] := by decide
/-- `gather`: a function with two failing futures reports the one that failed first in time, the blocking loop the first in
    submission order -/
example : awaitAll .gather { futs := [((0, 1), .error (.index "late index")), ((0, 0), .error (.key "early index"))], ran := [(0, 1), (0, 0)] }
      [(0, 0), (0, 1)] = .error (.index "late index") ∧
    awaitAll .sync { futs := [((0, 1), .error (.index "late index")), ((0, 0), .error (.key "early index"))], ran := [(0, 1), (0, 0)] }
      [(0, 0), (0, 1)] = .error (.key "early index") := ⟨by rfl, by rfl⟩

end PF.C03
